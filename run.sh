#!/bin/bash
# usage: ./run.sh <property-id> [quick|thorough]
# Builds the checker if needed (from files on disk, offline) and runs the check
# of one property against /repo's current working tree.
cd "$(dirname "$0")" || exit 2
export GOFLAGS=-mod=mod GOPROXY=off GOSUMDB=off GOTOOLCHAIN=local GOWORK=off
unset GOARCH GOOS
if [ ! -x bin/sdfxlint ] || [ -n "$(find cmd go.mod -newer bin/sdfxlint -print -quit 2>/dev/null)" ]; then
  go build -o bin/sdfxlint ./cmd/sdfxlint || { echo "cannot build sdfxlint"; exit 2; }
fi
exec bin/sdfxlint check -p "$1" -tier "${2:-${VERIF_TIER:-quick}}" -repo "${VERIF_REPO:-/repo}"
