#!/usr/bin/env python3
"""Prints the markdown table of DESIGN.md section 5 from /verif/seeded/*/meta.json and patch.diff."""
import json, glob, re, os
rows = []
tot = det = 0
for d in sorted(glob.glob("/verif/seeded/*"), key=lambda x: (os.path.basename(x).split("-")[0], int(os.path.basename(x).split("-")[1]))):
    name = os.path.basename(d)
    meta = json.load(open(d + "/meta.json"))
    patch = open(d + "/patch.diff").read()
    files = ", ".join(dict.fromkeys(re.findall(r"^\+\+\+ b/(\S+)", patch, re.M)))
    funcs = []
    for m in re.findall(r"^@@[^@]*@@ (.*)$", patch, re.M):
        f = re.search(r"func (?:\([^)]*\) )?(\w+)", m)
        if f and f.group(1) not in funcs:
            funcs.append(f.group(1))
    by = []
    for p, v in sorted(meta.get("detected_by", {}).items()):
        if v.get("exit") == 1:
            rules = sorted(set(r.split()[0] for r in v.get("rules", [])))
            if p == "C01" and len(rules) > 1 and "BB-13" in rules and all("SetMin" in r or "SetExtrude" in r for r in v.get("rules", []) if r.startswith("BB-13 ")):
                rules.remove("BB-13")  # the known findings, listed by older runs of the refresh tool
            by.append(f"{p}: {','.join(rules)}")
    tot += 1
    det += 1 if by else 0
    rows.append(f"| {name} | {files} | {', '.join(funcs)} | {'; '.join(by) if by else '**missed**'} |")
print(f"<!-- {det} of {tot} detected -->")
print("| seeded change | file | function(s) in the hunk headers | detected by (property: rules) |")
print("|---|---|---|---|")
print("\n".join(rows))
