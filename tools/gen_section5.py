#!/usr/bin/env python3
"""Rewrites section 5 of DESIGN.md (seeded changes: what catches what) from /verif/seeded/*/meta.json.
Usage: tools/gen_section5.py            (after tools/refresh_seeded.py)"""
import json, glob, os, re, subprocess
table = subprocess.run(["python3", "/verif/tools/seeded_table.py"], capture_output=True, text=True).stdout
m = re.match(r"<!-- (\d+) of (\d+) detected -->\n", table)
det, tot = int(m.group(1)), int(m.group(2))
table = table[m.end():]
missed = [l.split("|")[1].strip() for l in table.splitlines() if "**missed**" in l]
why = {
 "C04-4": "snap tolerance 1e-9 → 1e-12 in `lineIntersect`: the value of an absolute tolerance; no structural reading (W8 decides only that parameters one ulp apart are merged, W15 that the edge tests and the snapping use the *same* tolerance, which they still do).",
 "C14-8": "`ImportTriMesh` builds its R-tree by incremental `Insert` instead of bulk loading; the third-party tree dereferences nil for a NaN/Inf bounding box. The panic is inside `rtreego`, which the checks trust and do not analyse.",
 "C05-21": "`layerYZ.Evaluate` evaluates the last short batch of a layer inline and stores the values at the start of the layer instead of at the advanced window: V5 decides the protocol of the batches that are *sent* (add before send, window shift, fresh buffer, wait) and has no reading of a tail that is no longer sent.",
 "C05-14": "`mcToTriangles` looks up the complement of configurations above 127 and swaps the winding: the kernel reader no longer recognises the emitted primitive and the checks of C05 and C06 stop with exit 2 (an alarm, but an undecided one: only a reported violation counts as a detection here).",
 "C20-11": "`InCircumcircle` compares with the package tolerance 1e-9 instead of its own epsilon 1e-12: the value of an absolute tolerance.",
}
out = []
out.append("## 5. Seeded changes: what catches what\n")
out.append(f"""{tot} property-breaking changes produced independently by sub-agents (ten
rounds of 20 agents × 2, plus one extra; two candidates of the early rounds were
dropped: one duplicated an earlier change, one stopped being a violation after
the repair ec217a2), each given only the property text and its own scratch
worktree; each confirmed by me in a scratch worktree (demo passes on the clean
tree, patch applies, `go build ./...` ok, suite ok, demo fails) and filed as
`/verif/seeded/<id>/{{patch.diff, demo, meta.json}}`. Patches whose context was
touched by a later repair in `/repo` were rebased (same edit) and their demos
re-run. Detection after strengthening: **{det} of {tot}** (recomputed by
`tools/refresh_seeded.py` on the current tree with the current checker, table
below from `tools/seeded_table.py`). The first-pass rate — what the checks
caught before any rule was added for the round — was 38 of 40 in the seventh
round, 31 of 40 in the eighth, 26 of 40 in the ninth and 30 of 40 in the tenth: the agents are told
what was already collected and move to code the rules do not read yet.

Rules written *in response to* a miss: S7, Y4/Y5, M7, screw spec, Z7, BB-6,
K5, V3 freshness, Q4, E2, H3 (round 1); BB-7, M8, W5, T6/U4 pair coverage, D8,
D9, Q5, S5 unconditional end, L1 importer scope, Y6, Z1 order-is-degree, Z8, K6
(round 2); BB-8, M9, W7, W8, V6/U8, D9 scalars, S8, Z9, K7–K9, Y7, Y8, H6
(round 3); M10/BB-10, M11/L2, T6/U4 Equals and fresh primitive, W9, W10, S9,
close-once-created, X4, L1 function values, K10, K11, Z12 (round 4); B6, B7, X5,
G6, G7, S10, S11, T9/U9, V6 sample counts, V7, W11, W12, Z3 start point, Z13,
Z14, H7, K12, K13, E3, L3 rounded extrusion, BB-11, M12, K8 bound (rounds 5 and
6); Z15, W13, W14, K15, zero-tolerance degenerate filters, unconditional
farthest-corner fold, sign-assignment enumeration of cell skips, atomic stores
as writes, H8, S12 (round 7); W16, T10/U10, O5, Z16, H9, K16, K17, Y9, the
`Canonical` shortcut rule (round 8); M13, W17, W18, the in-loop `Degenerate`
branches, the I/O-error notion of B7/X5, B8, G8, S13, the single-subtraction
rule of X3, Z17, K18, K19, Y10, Y11 (round 9); G9, X6, H10, Y13, Y14, K20,
BB-14, W20, receives from shared channels in F1, and Y12 for the older C20-8
(round 10). The agents' side notes on the unchanged
tree led to most of the repaired defects (section 3).
""")
out.append("**Misses (documented, not papered over):**")
for s in missed:
    out.append(f"* {s} — " + why.get(s, "no structural reading found; see `seeded/%s/meta.json`." % s))
out.append("""
The table lists, per change, the file, the function named in the hunk headers
(the context git prints, not always the edited function) and the checks that
report it (`meta.json` has the construct keys).
""")
out.append(table.rstrip() + "\n")
out.append("---------------------------------------------------------------------------\n")
sec = "\n".join(out)
p = "/verif/DESIGN.md"
s = open(p).read()
i, j = s.index("## 5. Seeded changes"), s.index("## 6. Limits")
open(p, "w").write(s[:i] + sec + "\n" + s[j:])
print(f"section 5 rewritten: {det} of {tot}; missed: {missed}")
