#!/bin/bash
# usage: tools/trymut.sh <patch.diff> <prop> [<prop>...]  -- runs the checks of the given properties on a scratch copy of /repo with the patch applied
set -u
patch=$(readlink -f "$1"); shift
d=$(mktemp -d /tmp/mut.XXXXXX)
rsync -a --exclude .git /repo/ "$d"/
( cd "$d" && git init -q . 2>/dev/null && git apply --whitespace=nowarn "$patch" ) || { echo "PATCH FAILED"; rm -rf "$d"; exit 3; }
rc=0
for p in "$@"; do
  VERIF_NOEVIDENCE=1 ${BIN:-/verif/bin/sdfxlint} check -p "$p" -repo "$d" | sed "s#$d/##g" | cut -c1-${CUT:-420}
  r=${PIPESTATUS[0]}; echo "  -> exit $r ($p)"; [ $r -ne 0 ] && rc=$r
done
rm -rf "$d"
exit $rc
