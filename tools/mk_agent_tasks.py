#!/usr/bin/env python3
"""Prepares scratch git worktrees of /repo for independent sub-agents and writes their task files.
Usage: tools/mk_agent_tasks.py mutants <dir> | benign <dir>      (dir e.g. /tmp/wt3)
Each worktree gets _out/PROPERTY.json (the property text only) and _out/TASK.md; nothing from /verif
other than the property text and one-paragraph descriptions of changes already collected."""
import json, os, subprocess, sys, glob, re

kind, base = sys.argv[1], sys.argv[2]
props = {}
for l in open("/verif/properties.jsonl"):
    d = json.loads(l)
    props[d["id"]] = d
os.makedirs(base, exist_ok=True)

SUITE = "go test -vet=off -count=1 ./sdf/... ./render/... ./vec/v3/... ./vec/v2i/... ./vec/v3i/... ./obj/..."
ENV = "Environment: no network. Use `export GOFLAGS=-mod=mod GOPROXY=off GOSUMDB=off GOTOOLCHAIN=local` in every shell call. go is 1.23. `go test -race` works."

def already_mutants(pid):
    out = []
    for d in sorted(glob.glob(f"/verif/seeded/{pid}-*")):
        m = json.load(open(d + "/meta.json"))
        txt = " ".join(m.get("needs_to_manifest", "").split())[:420]
        files = ", ".join(re.findall(r"^\+\+\+ b/(\S+)", open(d + "/patch.diff").read(), re.M))
        out.append(f"  - [{files}] {txt}")
    return "\n".join(out)

def already_benign(pid):
    out = []
    for p in sorted(glob.glob(f"/verif/mutants/benign/notes/{pid}*.md")):
        for l in open(p):
            if l.startswith("##"):
                out.append("  - " + l.strip("# \n")[:200])
    return "\n".join(out)

for pid in sorted(props):
    wt = f"{base}/{pid}"
    if not os.path.exists(wt):
        subprocess.run(["git", "-C", "/repo", "worktree", "add", "-q", "--detach", wt, "HEAD"], check=True)
    os.makedirs(wt + "/_out", exist_ok=True)
    json.dump(props[pid], open(wt + "/_out/PROPERTY.json", "w"), indent=1)
    head = f"""You are helping test a verification effort for the Go CAD library deadsy/sdfx (signed-distance-function modelling, marching-cubes/dual-contouring meshing, STL/3MF/DXF/SVG output).

Your own scratch git worktree of the repository is at {wt} (detached HEAD; work ONLY inside this directory; never touch /repo or /verif, never read /verif; do NOT use `git stash` - worktrees share one stash; use `git diff > file` / `git checkout -- .` / `git apply file` instead). The text of ONE semantic property of the library is in {wt}/_out/PROPERTY.json (read it first; line numbers in it may be slightly stale, and where it describes a past defect the current tree has already repaired it - the property statement is what counts).
"""
    if kind == "mutants":
        body = f"""
TASK: produce TWO different, independent, realistic source changes to the library (each a small patch a careless-but-plausible developer could make: an off-by-one, a wrong sign, a swapped operand, a dropped guard/unlock/close/wait, a mis-edited table entry, an "optimisation" or "clean-up" that is subtly wrong, an incomplete refactor, a copy/paste slip ...) such that each change:
  1. BREAKS the property in PROPERTY.json (the behaviour stated there becomes false for some input / schedule / fault / history),
  2. still compiles: `cd {wt} && go build ./...` succeeds,
  3. still passes the existing test suite: `cd {wt} && {SUITE}` is all ok (note: ./vec/v2 has a test file that does not build even on the unmodified tree - ignore that package),
  4. needs something SPECIFIC to manifest - a particular interleaving, a fault at a particular point, a multi-step sequence of operations, an unusual input/parameter region, or two cooperating sites that each look fine alone - i.e. NOT something ordinary use of the library or a casual smoke test would expose immediately,
  5. comes with a DEMONSTRATION: a Go test file (placed inside the worktree, e.g. sdf/zz_demo1_test.go or render/zz_demo1_test.go) that FAILS (or hangs past a timeout it enforces itself / panics / reports a race under -race) WITH the change applied and PASSES on the unmodified tree. Keep the demo fast (< 60 s).
The two changes must exercise different mechanisms / different code sites relevant to the property. Do not change any existing *_test.go file. Keep each change small (typically 1-10 lines).

IMPORTANT - these changes were ALREADY collected for this property by others; yours must be substantially DIFFERENT (different function or different mechanism), so look at other parts of the code the property depends on (other shapes/combinators/renderers/writers/tables/helpers, other clauses of the statement than the ones below):
{already_mutants(pid)}

{ENV}

DELIVERABLES, written under {wt}/_out/ :
  - change1.diff and change2.diff : each a unified diff produced with `git -C {wt} diff -- <library source files only>` against the unmodified HEAD (each must apply on its own to a clean checkout with `git apply`; do NOT include demo files or _out in the diff),
  - demo1_test.go / demo2_test.go : the demonstration sources,
  - NOTES.md : per change, under a heading "## Change 1" / "## Change 2": what was changed, why it breaks the property, what specific circumstance is needed to manifest; then a line `PLACE: <relative path where the demo file must be copied, e.g. sdf/zz_demo1_test.go>` and a line `RUN: <exact go test command>`; then what you observed with and without the change.
When finished, leave the worktree CLEAN of your source edits (`git -C {wt} checkout -- .`, remove demo files you placed in package directories; keep only _out/). Verify before finishing, for each change separately from a clean tree: apply diff -> build ok -> existing tests ok -> demo fails; revert -> demo passes.

If, while exploring, you find that the UNMODIFIED tree already violates the property for some input, add a section "## Side observation (unmodified tree)" to NOTES.md with the exact reproducing input and what you observed (keep your two changes independent of it).

Your final message: a 5-10 line summary (file/function edited, one-line description, demo command per change). Do not paste the diffs.
"""
    else:
        body = f"""
TASK: produce FOUR different BEHAVIOUR-PRESERVING changes (refactorings) of the library code this property depends on (the functions and tables named in the property's anchors, and the helpers they call). Each change must leave the observable behaviour identical for ALL inputs: bit-identical numeric results, identical output bytes, identical errors, identical goroutine/channel/locking protocol as seen from outside. A maintainer would accept each as a clean-up. This round wants BOLDER restructurings than renames and comment edits, for example:
  - rolling repeated statements into a loop over a small table, or hand-unrolling a short loop;
  - splitting a function into helpers, merging two helpers, turning a method into a function or a closure into a named function (or the reverse), moving code between files of the same package;
  - replacing an if/else chain by a switch or a table lookup, inverting conditions with swapped branches, early returns, De Morgan rewrites (mind NaN: `!(a < b)` is not `a >= b` for floats);
  - changing a local data representation (struct fields <-> small array, two slices <-> one slice of pairs, index arithmetic), hoisting loop invariants, introducing named constants or small unexported types;
  - re-expressing arithmetic ONLY by identities that are exact in IEEE-754 (x*0.5 <-> x/2, x+x <-> 2*x, a-b <-> a+(-b), commuting + or *), never re-associating floating point;
  - range <-> counted loops, `defer` unlock vs explicit unlock (only where no panic can occur in between), renaming parameters/receivers/locals, reordering independent statements or struct fields.
Each change: 5-40 changed lines, one theme, touching code that matters for the property (not comments only, not test files). The four changes must be of different kinds and touch different functions where possible.

These behaviour-preserving changes were ALREADY collected for this property; do DIFFERENT ones (other functions or other kinds of restructuring):
{already_benign(pid)}

For each change, separately from a clean tree: `cd {wt} && go build ./...` must succeed, gofmt-clean, and `{SUITE}` all ok (./vec/v2 has a test file that does not build even on the unmodified tree - ignore that package). Convince yourself of equivalence with a throw-away old-vs-new comparison test that hashes exact float bits / output bytes over many inputs including special values (keep it under _out/, not in the diffs).

{ENV}

DELIVERABLES under {wt}/_out/ : benign1.diff .. benign4.diff (each `git -C {wt} diff -- <library files>` against unmodified HEAD, applying on its own to a clean checkout), NOTES.md with one heading per change ("## benign1 - file, function(s): kind of change") and the argument why behaviour is identical. Leave the worktree clean (`git -C {wt} checkout -- .`; only _out/ remains).
Your final message: a 5-10 line summary. Do not paste the diffs.
"""
    open(wt + "/_out/TASK.md", "w").write(head + body)
print("prepared", len(props), "worktrees under", base)
