#!/bin/bash
# usage: tools/trybenign.sh <diff>...  -- each diff is applied to its own scratch copy of /repo,
# must build and pass the test suite, and then every property check must stay silent (exit 0).
# Prints one line per diff: OK | BUILD-FAIL | TEST-FAIL | ALARM <props>.
set -u
export GOFLAGS=-mod=mod GOPROXY=off GOSUMDB=off GOTOOLCHAIN=local
unset GOWORK
props="C01 C02 C03 C04 C05 C06 C07 C08 C09 C10 C11 C12 C13 C14 C15 C16 C17 C18 C19 C20"
[ -n "${PROPS:-}" ] && props="$PROPS"
for patch in "$@"; do
  patch=$(readlink -f "$patch")
  d=$(mktemp -d /tmp/ben.XXXXXX)
  rsync -a --exclude .git /repo/ "$d"/
  if ! ( cd "$d" && git init -q . 2>/dev/null && git apply --whitespace=nowarn "$patch" ) 2>/tmp/ben.err; then
    echo "PATCH-FAIL $patch $(head -c 200 /tmp/ben.err)"; rm -rf "$d"; continue
  fi
  if [ -z "${NOTEST:-}" ]; then
    if ! ( cd "$d" && go build ./... ) >/tmp/ben.err 2>&1; then echo "BUILD-FAIL $patch $(head -c 300 /tmp/ben.err)"; rm -rf "$d"; continue; fi
    ( cd "$d" && go test -vet=off -count=1 ./... ) >/tmp/ben.err 2>&1
    # vec/v2's test file does not compile on the pinned tree either (not part of the 37-test baseline)
    if grep -E '^(--- FAIL|FAIL|panic)' /tmp/ben.err | grep -v -E 'vec/v2 \[build failed\]|^FAIL$' | grep -q .; then echo "TEST-FAIL $patch $(grep -m3 -E 'FAIL|panic' /tmp/ben.err | head -c 300)"; rm -rf "$d"; continue; fi
  fi
  out=$(mktemp -d /tmp/benout.XXXXXX)
  echo $props | tr ' ' '\n' | xargs -P ${JOBS:-10} -I{} sh -c "VERIF_NOEVIDENCE=1 timeout 300 ${BIN:-/verif/bin/sdfxlint} check -p {} -repo $d > $out/{}.txt 2>&1; echo \$? > $out/{}.rc"
  bad=""
  for p in $props; do
    rc=$(cat $out/$p.rc)
    if [ "$rc" != "0" ]; then bad="$bad $p($rc)"; fi
  done
  if [ -z "$bad" ]; then echo "OK $patch"; else
    echo "ALARM $patch:$bad"
    for p in $props; do
      rc=$(cat $out/$p.rc)
      [ "$rc" != "0" ] && grep -E '^(VIOLATION|UNDECIDED|CHECKER-PROBLEM|panic)' $out/$p.txt | sed "s#$d/##g" | cut -c1-${CUT:-400} | head -${HEADN:-4}
    done
  fi
  rm -rf "$d" "$out"
done
