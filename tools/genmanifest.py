#!/usr/bin/env python3
# Generates MANIFEST.json from tools/manifest_src.json (claims + not_applicable reasons).
import json, sys
src = json.load(open('/verif/tools/manifest_src.json'))
props = [json.loads(l)['id'] for l in open('/verif/properties.jsonl')]
checks = []
na = []
for pid in props:
    c = src['claims'].get(pid)
    if c:
        checks.append({
            "property_id": pid,
            "quick_cmd": f"./run.sh {pid} quick",
            "thorough_cmd": f"./run.sh {pid} thorough",
            "evidence_file": f"/verif/evidence/{pid}.json",
            "replay_cmd_template": "cat {path}",
            "engine": "sdfxlint",
            "level_claimed": {"category": "other", "text": c['text'], "design_ref": c.get('design_ref', 'DESIGN.md section 2')},
            "level_note": c['note'],
            "technique": c['technique'],
        })
    else:
        na.append({"property_id": pid, "reason": src['not_applicable'][pid]})
m = {
    "version": 1,
    "setup_cmd": "cd /verif && GOFLAGS=-mod=mod GOPROXY=off GOSUMDB=off GOTOOLCHAIN=local GOWORK=off go build -o bin/sdfxlint ./cmd/sdfxlint",
    "hooks": {
        "guard": "verif",
        "enable": "none: static analysis reads /repo's source; no instrumentation is compiled into the repository",
        "baseline_off_cmd": "cd /repo && go test -mod=mod -json -vet=off -count=1 -timeout 25m ./...",
        "source_commits": [],
        "add_only": True,
    },
    "engines": [{"name": "sdfxlint", "path": "/verif/cmd/sdfxlint", "serves_properties": [c['property_id'] for c in checks],
                 "kind_free_text": "repository-specific static analyser: go/packages + go/ssa, gated symbolic term evaluation, literal-table verification, dominance/path rules, write-effect summaries"}],
    "checks": checks,
    "not_applicable": na,
    "notes": src.get('notes', ''),
}
json.dump(m, open('/verif/MANIFEST.json', 'w'), indent=1)
print(len(checks), 'claimed;', len(na), 'not applicable')
