#!/usr/bin/env python3
"""Re-runs every sdfxlint check on a scratch copy of /repo with each filed mutant applied and
rewrites the detected_by section of its meta.json. Usage: tools/refresh_seeded.py [dir ...]"""
import json, os, re, subprocess, sys, shutil, tempfile, glob, concurrent.futures as cf
BIN = os.environ.get("BIN", "/verif/bin/sdfxlint")
PROPS = subprocess.run(BIN + " list", shell=True, capture_output=True, text=True).stdout.split()
def one(d):
    meta = json.load(open(f"{d}/meta.json"))
    tmp = tempfile.mkdtemp(prefix="refresh.", dir="/tmp")
    try:
        subprocess.run(f"rsync -a --exclude .git /repo/ {tmp}/ && cd {tmp} && git apply --whitespace=nowarn {d}/patch.diff", shell=True, check=True, capture_output=True)
        caught = {}
        for p in PROPS:
            r = subprocess.run(f"VERIF_NOEVIDENCE=1 {BIN} check -p {p} -repo {tmp}", shell=True, capture_output=True, text=True, cwd="/verif", timeout=600)
            if r.returncode != 0:
                rules = sorted(set(re.findall(r"^(?:VIOLATION|UNDECIDED)[^\n]*?rule=(\S+) construct=(\S+)", r.stdout, re.M)))
                caught[p] = {"exit": r.returncode, "rules": [f"{a} {b}" for a, b in rules][:8]}
        meta["detected_by"] = caught
        json.dump(meta, open(f"{d}/meta.json", "w"), indent=1)
        return os.path.basename(d), caught
    except subprocess.CalledProcessError as e:
        return os.path.basename(d), {"error": e.stderr.decode()[-200:]}
    finally:
        shutil.rmtree(tmp, ignore_errors=True)
dirs = sys.argv[1:] or sorted(glob.glob("/verif/seeded/*"))
with cf.ThreadPoolExecutor(max_workers=8) as ex:
    for name, c in ex.map(one, dirs):
        print(name, {k: v["rules"][:2] if isinstance(v, dict) else v for k, v in c.items()})
