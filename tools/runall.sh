#!/bin/bash
# runs every registered check (quick tier) and prints one line each
cd /verif
for p in $(bin/sdfxlint list); do
  out=$(timeout 300 ./run.sh $p quick 2>&1); rc=$?
  echo "$p exit=$rc $(echo "$out" | grep '^property=' | cut -c1-170)"
  [ $rc -ne 0 ] && echo "$out" | grep -v '^property=' | head -5 | cut -c1-300
done
