#!/usr/bin/env python3
"""Validates the sub-agent mutants (each in its own scratch git worktree of /repo) and files the
confirmed ones under /verif/seeded/<prop>-<n>/ : patch.diff, the demonstration, meta.json.
Usage: tools/validate_seeds2.py <stage-dir> <first-index> [Cxx ...]   (stage-dir/Cxx/{changeN.diff,demoN_test.go,NOTES.md with PLACE:/RUN: lines})"""
import json, os, re, subprocess, sys, shutil, tempfile, concurrent.futures as cf

ENV = dict(os.environ, GOFLAGS="-mod=mod", GOPROXY="off", GOSUMDB="off", GOTOOLCHAIN="local", GOWORK="off")
BASE_TESTS = "go test -vet=off -count=1 ./sdf/... ./render/... ./vec/v3/... ./vec/v2i/... ./vec/v3i/... ./obj/..."
CMD16 = {1: "go test -vet=off -count=1 -run Test_ZZ_Box3 ./sdf/", 2: "go test -vet=off -count=1 -run Test_ZZ_Union2D ./sdf/"}

def sh(cmd, cwd, timeout=600):
    try:
        p = subprocess.run(cmd, shell=True, cwd=cwd, env=ENV, capture_output=True, text=True, timeout=timeout)
        return p.returncode, (p.stdout + p.stderr)[-3000:]
    except subprocess.TimeoutExpired:
        return 124, "TIMEOUT"

def entry(prop, n):
    d = f"{STAGE}/{prop}"
    notes = open(f"{d}/NOTES.md").read()
    demo = [f for f in os.listdir(d) if f.lower().startswith(f"demo{n}")][0]
    places = re.findall(r"PLACE:\s*`?([^\s`]+)", notes)
    runs = re.findall(r"RUN:\s*`?([^`\n]+)", notes)
    dest = places[n-1].lstrip("/")
    cmd = runs[n-1].strip()
    cmd = re.sub(r"^cd \S+ && ", "", cmd)
    cmd = re.sub(r"^(export )?(GO\w+=\S+ )+(&& )?", "", cmd)
    return demo, dest, cmd, notes

def validate(prop, n):
    demo, dest, cmd, notes = entry(prop, n)
    wt = tempfile.mkdtemp(prefix=f"seed.{prop}.{n}.", dir="/tmp")
    os.rmdir(wt)
    res = {"property": prop, "n": n, "demo_dest": dest, "demo_cmd": cmd}
    try:
        rc, out = sh(f"git -C /repo worktree add -q --detach {wt} HEAD", "/")
        if rc != 0:
            res["error"] = "worktree: " + out; return res
        shutil.copy(f"{STAGE}/{prop}/{demo}", f"{wt}/{dest}")
        rc, out = sh(cmd, wt); res["demo_clean_rc"] = rc
        if rc != 0: res["demo_clean_out"] = out[-800:]
        os.remove(f"{wt}/{dest}")
        rc, out = sh(f"git apply {STAGE}/{prop}/change{n}.diff", wt); res["apply_rc"] = rc
        if rc != 0: res["apply_out"] = out[-500:]; return res
        rc, out = sh("go build ./...", wt); res["build_rc"] = rc
        rc, out = sh(BASE_TESTS, wt, 1200); res["suite_rc"] = rc
        if rc != 0: res["suite_out"] = out[-800:]
        shutil.copy(f"{STAGE}/{prop}/{demo}", f"{wt}/{dest}")
        rc, out = sh(cmd, wt, 900); res["demo_mutant_rc"] = rc
        res["demo_mutant_tail"] = out[-600:]
        # my checks on the mutant (demo file removed: it is not part of the change)
        os.remove(f"{wt}/{dest}")
        caught = {}
        for p in PROPS:
            rc, out = sh(f"VERIF_NOEVIDENCE=1 {BIN} check -p {p} -repo {wt}", "/verif", 300)
            if rc != 0:
                rules = sorted(set(re.findall(r"^(?:VIOLATION|UNDECIDED)[^\n]*?rule=(\S+) construct=(\S+)", out, re.M)))
                caught[p] = {"exit": rc, "rules": [f"{a} {b}" for a, b in rules][:8]}
        res["caught_by"] = caught
    finally:
        sh(f"git -C /repo worktree remove --force {wt}", "/")
        shutil.rmtree(wt, ignore_errors=True)
    res["confirmed"] = res.get("demo_clean_rc") == 0 and res.get("apply_rc") == 0 and res.get("build_rc") == 0 and res.get("suite_rc") == 0 and res.get("demo_mutant_rc", 0) != 0
    if res["confirmed"]:
        sd = f"/verif/seeded/{prop}-{n+FIRST-1}"
        os.makedirs(sd, exist_ok=True)
        shutil.copy(f"{STAGE}/{prop}/change{n}.diff", f"{sd}/patch.diff")
        shutil.copy(f"{STAGE}/{prop}/{demo}", f"{sd}/{demo}")
        # the agent's description of this change
        sec = re.split(r"\n(?=#+ )", notes)
        desc = [s for s in sec if re.search(r"change\s*%d" % n, s[:120], re.I)]
        meta = {"breaks_property": prop, "origin": "independent sub-agent given only the property text and a scratch worktree",
                "needs_to_manifest": (desc[0][:1500] if desc else notes[:1500]),
                "demo_file": demo, "demo_placement": dest, "demo_command": cmd,
                "what_i_ran": ["git worktree add (scratch, /tmp)", "demo on clean tree: pass", "git apply patch.diff", "go build ./... : ok",
                               BASE_TESTS + " : ok", "demo with the change: FAIL (rc %d)" % res["demo_mutant_rc"], "all sdfxlint checks on the changed tree"],
                "detected_by": caught}
        json.dump(meta, open(f"{sd}/meta.json", "w"), indent=1)
    return res

STAGE = sys.argv[1]
FIRST = int(sys.argv[2])
BIN = os.environ.get("BIN", "/verif/bin/sdfxlint")
PROPS = subprocess.run(BIN + " list", shell=True, capture_output=True, text=True).stdout.split()
if __name__ == "__main__":
    props = sys.argv[3:] or ["C%02d" % i for i in range(1, 21)]
    jobs = [(p, n) for p in props for n in (1, 2)]
    with cf.ThreadPoolExecutor(max_workers=6) as ex:
        for r in ex.map(lambda a: validate(*a), jobs):
            c = r.get("caught_by", {})
            print(f"{r['property']}-{r['n']+FIRST-1} confirmed={r.get('confirmed')} clean={r.get('demo_clean_rc')} build={r.get('build_rc')} suite={r.get('suite_rc')} demo={r.get('demo_mutant_rc')} caught_by={ {k: v['rules'][:2] for k, v in c.items()} } {r.get('error','')}{r.get('apply_out','')}", flush=True)
