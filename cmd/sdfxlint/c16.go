package main

// C16 — pruned evaluation equals exhaustive evaluation.
//
//  O1  Interval.Overlap over every weak ordering of a0<=a1, b0<=b1: true iff
//      the intervals share a value (exhaustive); hence symmetric
//  O2  Box2/Box3.MinMaxDist2: for every position class of the point relative
//      to the box (which axes' slabs contain it, and on which side it is
//      otherwise) some candidate of the minimum equals the true squared
//      distance Σ_{k outside} min(|Min.k−p.k|,|Max.k−p.k|)², and no candidate
//      active in that class is below it; inside the box the minimum is 0; the
//      vertex candidates enumerate all 2^d corners; the maximum is the
//      farthest corner
//  O3  UnionSDF2.Evaluate: the running minimum is component [0] of the box
//      interval of the same operand, the nearest-box operand is always
//      evaluated, an operand is skipped only when its interval does not
//      overlap the nearest box's, the fold uses s.min over Evaluate(p) of the
//      indexed operand in index order over the whole slice, and nothing
//      returns early; EvaluateSlow folds the same way over all operands
//
// Not decided: that box intervals bound the operand's value (needs C01+C03).

import (
	"fmt"
	"go/token"
	"go/types"
	"math/big"
	"regexp"
	"sort"
	"strings"

	"golang.org/x/tools/go/ssa"
)

func init() { register("C16", checkC16) }

func checkC16(ctx *Ctx, r *Report, tier string) {
	r.Explain = "Interval.Overlap is decided over all orderings of its four values; the point-to-box distance interval is decided per position class (3^d classes) by matching the symbolic candidates of the minimum against the true squared distance of that class; the pruning loop of the 2D union is decided from its recurrences (what is compared, what is always evaluated, what may be skipped, how the fold proceeds, no early exit) and compared with the exhaustive fold. Not decided: that an operand's value is bounded by its box interval (C01/C03). With a blend function installed through SetMin no operand is skipped."
	r.Exhaust = true
	r.Trusted = []string{"go/types", "go/ssa", "sdfxlint gated symbolic evaluator", "blend functions are symmetric monotone minimum-like functions"}
	r.Assume = []string{"boxes are ordered (Min <= Max)", "operands' values are bounded by their box distance interval (C01, C03)"}
	checkOverlap(ctx, r, ctx.ssaFunc("sdf", "(Interval).Overlap"), "sdf.Interval.Overlap")
	if cf := ctx.ssaFunc("sdf", "(verifCtlInterval).Overlap"); cf != nil {
		checkOverlap(ctx, r, cf, "verifCtlInterval.Overlap")
		r.expectControl("O1", "verifCtlInterval.Overlap")
	}
	checkMinMaxDist2(ctx, r, ctx.ssaFunc("sdf", "(Box2).MinMaxDist2"), 2, "sdf.Box2.MinMaxDist2")
	checkMinMaxDist2(ctx, r, ctx.ssaFunc("sdf", "(Box3).MinMaxDist2"), 3, "sdf.Box3.MinMaxDist2")
	if cf := ctx.ssaFunc("sdf", "(Box3).verifCtlMinMaxDist2NoEdges"); cf != nil {
		checkMinMaxDist2(ctx, r, cf, 3, "verifCtlMinMaxDist2NoEdges")
		r.expectControl("O2", "verifCtlMinMaxDist2NoEdges")
	}
	checkUnionPrune(ctx, r)
	checkUnionKeepsItsArguments(ctx, r)
	checkUnionBlend(ctx, r)
	r.floor("O1", 1)
	r.floor("O2", 9+27+4)
	r.floor("O3", 8)
}

func checkOverlap(ctx *Ctx, r *Report, fn *ssa.Function, key string) {
	if fn == nil || len(fn.Params) != 2 {
		r.undecided("O1", key, 0, "function not found")
		return
	}
	ev := newEval(ctx)
	res, _ := ev.evalRoot(fn)
	t, _ := res.(*Term)
	if t == nil {
		r.undecided("O1", key, fn.Pos(), "result not scalar")
		return
	}
	if _, ok := orderLeaves(t); !ok {
		r.undecided("O1", key, fn.Pos(), "not comparison-only: "+shortKey(t.Key(), 160))
		return
	}
	a, b := paramName(fn, 0), paramName(fn, 1)
	names := []string{a + "[0]", a + "[1]", b + "[0]", b + "[1]"}
	bad, n := 0, 0
	first := ""
	forAllOrderings(names, func(env map[string]*big.Rat, v []int) bool {
		if v[0] > v[1] || v[2] > v[3] {
			return true
		}
		n++
		got := evalT(t, env).Sign() != 0
		lo, hi := v[0], v[1]
		if v[2] > lo {
			lo = v[2]
		}
		if v[3] < hi {
			hi = v[3]
		}
		want := lo <= hi
		if got != want {
			bad++
			if first == "" {
				first = fmt.Sprintf("[%d,%d] vs [%d,%d]: Overlap=%v, share a value=%v", v[0], v[1], v[2], v[3], got, want)
			}
		}
		return true
	})
	r.Counts["orderings_enumerated"] += n
	r.check("O1", key, fn.Pos(), bad == 0, fmt.Sprintf("%d orderings of two valid intervals, %d wrong; first: %s", n, bad, first))
}

// minCandidates flattens a term into the alternatives a nested math.Min / ite
// structure can take, each with its gating condition.
type candidate struct {
	cond *Term
	t    *Term
}

func minCandidates(t *Term, cond *Term, out *[]candidate) {
	switch {
	case t.Op == "ite":
		minCandidates(t.Args[1], cAnd(cond, t.Args[0]), out)
		minCandidates(t.Args[2], cAnd(cond, Not(t.Args[0])), out)
	case t.Op == "call" && t.S == "math.Min":
		for _, a := range t.Args {
			minCandidates(a, cond, out)
		}
	default:
		*out = append(*out, candidate{cond, t})
	}
}

func checkMinMaxDist2(ctx *Ctx, r *Report, fn *ssa.Function, dim int, key string) {
	if fn == nil {
		r.undecided("O2", key, 0, "function not found")
		return
	}
	mark := len(recOrder)
	// (the eight vertex distances written out, or produced by an unrolled loop, give a larger
	// term than the fold over Vertices(): room for it)
	savedCap := termCap
	termCap = 200000
	defer func() { termCap = savedCap }()
	ev := newEval(ctx, "Vertices")
	res, _ := ev.evalRoot(fn)
	iv, _ := res.(*Agg)
	if iv == nil || len(iv.Elems) != 2 {
		r.undecided("O2", key, fn.Pos(), "result is not an interval literal: "+valKey(res))
		return
	}
	minT, _ := iv.Elems[0].(*Term)
	maxT, _ := iv.Elems[1].(*Term)
	if minT != nil {
		minT = liftBitTests(minT)
	}
	if minT == nil || maxT == nil {
		r.undecided("O2", key, fn.Pos(), "interval components not scalar")
		return
	}
	recv, p := paramName(fn, 0), paramName(fn, 1)
	axes := []string{"X", "Y", "Z"}[:dim]
	lo := func(k int) *Term { return Sub(A(recv+".Min."+axes[k]), A(p+"."+axes[k])) }
	hi := func(k int) *Term { return Sub(A(recv+".Max."+axes[k]), A(p+"."+axes[k])) }
	// slab tests
	below := make([]*Term, dim) // Min.k - p.k < 0
	above := make([]*Term, dim) // Max.k - p.k > 0
	for k := 0; k < dim; k++ {
		below[k] = Cmp("<", lo(k), K(0))
		above[k] = Cmp(">", hi(k), K(0))
	}
	conds := map[string]bool{}
	for _, c := range condAtoms(minT) {
		conds[c.Key()] = true
	}
	for k := 0; k < dim; k++ {
		if !conds[below[k].Key()] || !conds[above[k].Key()] {
			r.check("O2", key+"|slab-tests", fn.Pos(), false, fmt.Sprintf("cannot find the slab test of axis %s (Min.k−p.k < 0 && Max.k−p.k > 0) in the minimum; conditions: %d", axes[k], len(conds)))
			return
		}
	}
	D := func(k int) *Term {
		return Call("math.Min", Call("math.Abs", hi(k)), Call("math.Abs", lo(k)))
	}
	trueDist := func(inside []bool) *Term {
		s := K(0)
		for k := 0; k < dim; k++ {
			if !inside[k] {
				s = Add(s, Mul(D(k), D(k)))
			}
		}
		return s
	}
	var cands []candidate
	minCandidates(minT, K(1), &cands)
	// vertex fold recurrences (the default candidates)
	isFold := func(t *Term) bool {
		if t.Op != "a" {
			return false
		}
		_, ok := recs[t.S]
		return ok
	}
	// the 2^d squared vertex distances, for candidates that are written out instead of folded
	var vertexPolys []*Term
	for m := 0; m < 1<<uint(dim); m++ {
		t := K(0)
		for k := 0; k < dim; k++ {
			e := lo(k)
			if m>>uint(k)&1 == 1 {
				e = hi(k)
			}
			t = Add(t, Mul(e, e))
		}
		vertexPolys = append(vertexPolys, t)
	}
	vertexOf := func(t *Term) int {
		for i, vp := range vertexPolys {
			if equalRat(t, vp) {
				return i
			}
		}
		return -1
	}
	nClass := 0
	// position classes: per axis: 0 = inside slab, 1 = below (p left of Min: Min-p >= 0), 2 = above (Max-p <= 0)
	cls := make([]int, dim)
	var rec func(k int)
	rec = func(k int) {
		if k < dim {
			for c := 0; c < 3; c++ {
				cls[k] = c
				rec(k + 1)
			}
			return
		}
		nClass++
		truth := map[string]bool{}
		inside := make([]bool, dim)
		name := ""
		for a := 0; a < dim; a++ {
			switch cls[a] {
			case 0:
				truth[below[a].Key()], truth[above[a].Key()] = true, true
				inside[a] = true
				name += "in"
			case 1:
				truth[below[a].Key()], truth[above[a].Key()] = false, true
				name += "lo"
			case 2:
				truth[below[a].Key()], truth[above[a].Key()] = true, false
				name += "hi"
			}
			if a < dim-1 {
				name += ","
			}
		}
		want := trueDist(inside)
		allIn := true
		nIn := 0
		for _, b := range inside {
			if !b {
				allIn = false
			} else {
				nIn++
			}
		}
		found := false
		detail := ""
		under := false
		// are all corners among the explicit candidates active in this class?
		vseen := map[int]bool{}
		for _, c := range cands {
			if !assume(c.cond, truth).IsZero() {
				if vi := vertexOf(c.t); vi >= 0 {
					vseen[vi] = true
				}
			}
		}
		allVerts := len(vseen) == len(vertexPolys)
		for _, c := range cands {
			if assume(c.cond, truth).IsZero() {
				continue // not active in this class
			}
			if isFold(c.t) {
				if nIn == 0 {
					found = true // nearest feature is a corner: the vertex minimum
				}
				continue
			}
			if vertexOf(c.t) >= 0 {
				// a corner's squared distance is never below the true distance
				if nIn == 0 && allVerts {
					found = true
				}
				continue
			}
			if equalRat(c.t, want) {
				found = true
				continue
			}
			// an active candidate must not be below the true distance: it has to be the
			// true distance of a class with fewer axes inside (a sum over a superset of axes)
			ok := false
			sub := make([]bool, dim)
			for m := 0; m < 1<<uint(dim); m++ {
				okSub := true
				for a := 0; a < dim; a++ {
					sub[a] = m>>uint(a)&1 == 1
					if sub[a] && !inside[a] {
						okSub = false
					}
				}
				if okSub && equalRat(c.t, trueDist(sub)) {
					ok = true
				}
			}
			if !ok {
				under = true
				detail += " stray candidate " + shortKey(c.t.Key(), 120) + ";"
			}
		}
		if allIn {
			z := assume(minT, truth)
			found = z.IsZero()
			if !found {
				detail += " inside the box the minimum is " + shortKey(z.Key(), 80)
			}
		}
		r.check("O2", fmt.Sprintf("%s|class[%s]", key, name), fn.Pos(), found && !under,
			fmt.Sprintf("minimum must be %s;%s", shortKey(want.Key(), 140), detail))
	}
	rec(0)
	r.Counts["position_classes"] += nClass
	// vertex fold: min and max over Length2 of every element of Vertices()
	folds := recsSince(mark)
	var minFold, maxFold *Rec
	for _, rc := range folds {
		if len(findSub(rc.Step, func(x *Term) bool { return x.Op == "call" && x.S == "math.Min" })) > 0 && minFold == nil {
			minFold = rc
		}
		if len(findSub(rc.Step, func(x *Term) bool { return x.Op == "call" && x.S == "math.Max" })) > 0 && maxFold == nil {
			maxFold = rc
		}
	}
	okMax := maxFold != nil && maxT.Op == "a" && recs[maxT.S] == maxFold
	if okMax {
		// every corner enters the maximum: the fold step is Max(running, d²) on every turn (the
		// minimum may be seeded by the first corner, the maximum starts from 0 and must not skip one)
		if len(findSub(maxFold.Step, func(x *Term) bool { return x.Op == "ite" })) > 0 {
			okMax = false
		}
	}
	if !okMax {
		// written out: max over exactly the 2^d corner distances (a leading 0 is harmless)
		seen := map[int]bool{}
		okMax = true
		for _, lf := range leavesOf(maxT, "math.Max") {
			if lf.IsZero() {
				continue
			}
			vi := vertexOf(lf)
			if vi < 0 {
				okMax = false
			}
			seen[vi] = true
		}
		okMax = okMax && len(seen) == len(vertexPolys)
	}
	r.check("O2", key+"|maximum-is-the-farthest-corner", fn.Pos(), okMax, "max = math.Max over the squared lengths of all translated corners (folded or written out); term: "+shortKey(maxT.Key(), 80))
	explicitMin := map[int]bool{}
	for _, c := range cands {
		if vi := vertexOf(c.t); vi >= 0 {
			explicitMin[vi] = true
		}
	}
	// the corner distances kept in a local array filled by the vertex loop: one loop-carried cell per
	// corner, each written with the squared length of the vertex of the same index
	cellFolds := map[string]bool{}
	for _, c := range cands {
		if isFold(c.t) {
			if rc := recs[c.t.S]; rc != nil && len(findSub(rc.Step, func(x *Term) bool { return x.Op == "call" && (x.S == "math.Min" || x.S == "math.Max") })) == 0 {
				cellFolds[c.t.S] = true
			}
		}
	}
	r.check("O2", key+"|vertex-minimum-fold", fn.Pos(), minFold != nil || len(explicitMin) == len(vertexPolys) || len(cellFolds) == len(vertexPolys), fmt.Sprintf("min starts as math.Min over the squared lengths of all translated corners (folded or written out); %d of %d corners among the %d candidates of the minimum", len(explicitMin), len(vertexPolys), len(cands)))
	// the box is translated by -p and Vertices() lists all corners
	vfn := ctx.ssaFunc("sdf", fmt.Sprintf("(Box%d).Vertices", dim))
	okV := false
	vdetail := ""
	if vfn != nil {
		ev2 := newEval(ctx)
		vr, vst := ev2.evalRoot(vfn)
		seen := map[string]bool{}
		if sl, ok := vr.(*SliceV); ok && sl.Arr != nil {
			if ag, ok := vst.mem[sl.Arr].(*Agg); ok {
				for _, e := range ag.Elems {
					m := map[string]*Term{}
					leafTerms("", e, m)
					sig := ""
					for _, ax := range axes {
						t := m["."+ax]
						switch {
						case t != nil && t.Key() == "a.Min."+ax:
							sig += "0"
						case t != nil && t.Key() == "a.Max."+ax:
							sig += "1"
						default:
							sig += "?"
						}
					}
					seen[sig] = true
				}
			}
		}
		okV = len(seen) == 1<<uint(dim)
		for s := range seen {
			if strings.Contains(s, "?") {
				okV = false
			}
			vdetail += s + " "
		}
	}
	r.check("O2", key+"|vertices-enumerates-all-corners", fn.Pos(), okV, "corner signatures: "+vdetail)
}

var (
	reMadeElem = regexp.MustCompile(`^(make#\d+)\[(.+)\]\.(\w+)$`)
	reMadeSlot = regexp.MustCompile(`^(make#\d+)\[(?:\+\(1,)?(μ\d+)\)?\]$`)
)

func checkUnionPrune(ctx *Ctx, r *Report) {
	fn := ctx.ssaFunc("sdf", "(*UnionSDF2).Evaluate")
	if fn == nil {
		r.undecided("O3", "UnionSDF2.Evaluate", 0, "not found")
		return
	}
	key := "sdf.UnionSDF2.Evaluate"
	mark := len(recOrder)
	ev := newEval(ctx, "Overlap", "MinMaxDist2")
	res, stF := ev.evalRoot(fn)
	if len(ev.RootRets) > 1 {
		// Evaluate has modes (boolean fields of the union decide between them): O3 is about the
		// mode that prunes, i.e. the one in which Overlap is consulted; O4 covers the mode that
		// SetMin selects
		recv := paramName(fn, 0)
		flags := map[string]bool{}
		for _, alt := range ev.RootRets {
			for _, c := range conjuncts(alt.Cond) {
				if c.Op == "not" {
					c = c.Args[0]
				}
				if c.Op == "a" && strings.HasPrefix(c.S, recv+".") {
					flags[c.S] = true
				}
			}
		}
		var fl []string
		for f := range flags {
			fl = append(fl, f)
		}
		sort.Strings(fl)
		for m := 0; len(fl) > 0 && len(fl) <= 3 && m < 1<<uint(len(fl)); m++ {
			mark2 := len(recOrder)
			ev2 := newEval(ctx, "Overlap", "MinMaxDist2")
			ev2.assume = map[string]bool{}
			for i, f := range fl {
				ev2.assume[f] = m>>uint(i)&1 == 1
			}
			res2, stF2 := ev2.evalRoot(fn)
			// the pruning mode: the one that consults Overlap; failing that (the test was edited
			// away) the mode with every flag off, which is what the constructor leaves behind
			if len(eventsOf(ev2, ".Overlap")) > 0 || (m == 0 && len(eventsOf(ev, ".Overlap")) == 0) {
				ev, res, mark, stF = ev2, res2, mark2, stF2
				if len(eventsOf(ev2, ".Overlap")) > 0 {
					break
				}
			}
		}
	}
	folds := recsSince(mark)
	names := make([]string, 0, len(folds))
	for n := range folds {
		names = append(names, n)
	}
	sort.Strings(names)
	isEval := func(x *Term) bool { return x.Op == "call" && strings.HasSuffix(x.S, ".Evaluate") }
	// the fold recurrence
	var foldName string
	for _, n := range names {
		st := folds[n].Step
		if len(findSub(st, func(x *Term) bool { return x.Op == "call" && x.S == "MinFunc" })) > 0 {
			foldName = n
		}
	}
	if foldName == "" {
		r.check("O3", key+"|fold", fn.Pos(), false, "cannot find the fold d = s.min(d, x) in the evaluation loop")
		return
	}
	step := folds[foldName].Step
	// single return, returning the fold
	rt, _ := res.(*Term)
	r.check("O3", key+"|returns-the-complete-fold", fn.Pos(), len(ev.RootRets) == 1 && rt != nil && rt.Op == "a" && rt.S == foldName,
		fmt.Sprintf("%d return paths; result %s (an early return drops operands that could still lower the minimum)", len(ev.RootRets), valKey(res)))
	evals := findSub(step, isEval)
	ovs := findSub(step, func(x *Term) bool { return x.Op == "call" && strings.HasSuffix(x.S, ".Overlap") })
	eqs := findSub(step, func(x *Term) bool { return x.Op == "cmp" && x.S == "==" })
	if len(evals) != 1 || len(ovs) != 1 || len(eqs) != 1 {
		r.check("O3", key+"|shape", fn.Pos(), false, fmt.Sprintf("%d Evaluate, %d Overlap, %d index comparisons in the fold step", len(evals), len(ovs), len(eqs)))
		return
	}
	X, ov, eq := evals[0], ovs[0], eqs[0]
	// index of the evaluated operand
	idxOf := func(s string) string {
		i := strings.Index(s, "[")
		j := strings.LastIndex(s, "]")
		if i < 0 || j < i {
			return ""
		}
		return s[i+1 : j]
	}
	operand := strings.TrimSuffix(X.S, ".Evaluate")
	if m := reMadeElem.FindStringSubmatch(operand); m != nil {
		// the operands were copied, element by element, into a slice of records made for the
		// call (`cs[i] = candidate{s.sdf[i], ...}` for every i): read the copy back
		for o, v := range stF.mem {
			fm := reMadeSlot.FindStringSubmatch(o.name)
			if fm == nil || fm[1] != m[1] {
				continue
			}
			rc, isRec := recs[fm[2]]
			if !isRec || !(rc.Init.Key() == K(-1).Key() || rc.Init.IsZero()) || rc.Step.Key() != Add(K(1), A(fm[2])).Key() {
				continue
			}
			fv, okF := fieldOf(v, m[3])
			if !okF {
				continue
			}
			src := strings.TrimPrefix(valKey(fv), "sym:")
			slot := strings.TrimSuffix(strings.TrimPrefix(o.name, fm[1]), "]") // "[" + index of the filling loop
			if strings.HasPrefix(src, "s.sdf[") && strings.HasSuffix(src, slot+"]") && rc.Init.Key() == K(-1).Key() == strings.HasPrefix(slot, "[+(1,") {
				operand = "s.sdf[" + m[2] + "]"
			}
		}
	}
	opIdx := idxOf(operand)
	okArg := strings.HasPrefix(operand, "s.sdf[") && len(X.Args) == 1 && X.Args[0].Key() == "agg(p.X,p.Y)"
	r.check("O3", key+"|evaluates-the-indexed-operand-at-p", fn.Pos(), okArg, "x = s.sdf[i].Evaluate(p); found "+shortKey(X.Key(), 120))
	// eq compares the loop index with the min index
	var minIdx *Term
	for _, a := range eq.Args {
		if a.Key() != opIdx {
			minIdx = a
		}
	}
	okEq := minIdx != nil && (eq.Args[0].Key() == opIdx || eq.Args[1].Key() == opIdx)
	// behaviour table of the step
	other := []*Term{}
	for _, c := range condAtoms(step) {
		if c.Key() != eq.Key() && c.Key() != ov.Key() {
			other = append(other, c)
		}
	}
	evaluated := func(truth map[string]bool) bool {
		// for every value of the remaining flags the step must involve X
		for m := 0; m < 1<<uint(len(other)); m++ {
			tr := map[string]bool{}
			for k, v := range truth {
				tr[k] = v
			}
			for i, c := range other {
				tr[c.Key()] = m>>uint(i)&1 == 1
			}
			s := assume(step, tr)
			if len(findSub(s, isEval)) == 0 {
				return false
			}
		}
		return true
	}
	r.check("O3", key+"|nearest-box-operand-always-evaluated", fn.Pos(), okEq && evaluated(map[string]bool{eq.Key(): true}), "when i == minIndex the operand is folded in regardless of the overlap test")
	r.check("O3", key+"|overlapping-operands-evaluated", fn.Pos(), evaluated(map[string]bool{eq.Key(): false, ov.Key(): true}), "an operand whose interval overlaps the nearest box's is folded in")
	// fold forms
	okFold := true
	for m := 0; m < 1<<uint(len(other)); m++ {
		tr := map[string]bool{eq.Key(): true}
		for i, c := range other {
			tr[c.Key()] = m>>uint(i)&1 == 1
		}
		s := assume(step, tr)
		if s.Key() != X.Key() && s.Key() != Call("MinFunc", A(foldName), X).Key() && s.Key() != Call("MinFunc", X, A(foldName)).Key() {
			okFold = false
		}
	}
	r.check("O3", key+"|fold-is-min-of-running-value-and-operand", fn.Pos(), okFold, "d = x for the first evaluated operand, d = s.min(d, x) afterwards")
	// overlap compares the min-index interval with the operand's interval
	okOv := false
	if len(ov.Args) == 2 && minIdx != nil {
		k0, k1 := ov.Args[0].Key(), ov.Args[1].Key()
		mi, oi := "["+minIdx.Key()+"]", "["+opIdx+"]"
		okOv = (strings.Contains(k0, mi) && strings.Contains(k1, oi)) || (strings.Contains(k1, mi) && strings.Contains(k0, oi))
	}
	r.check("O3", key+"|skip-only-when-intervals-do-not-overlap", fn.Pos(), okOv, "Overlap(vs[minIndex], vs[i]); found "+shortKey(ov.Key(), 160))
	// min index selection: recurrences of minDist2 / minIndex
	okSel := false
	selDetail := ""
	if minIdx != nil && minIdx.Op == "a" {
		if rc, ok := recs[minIdx.S]; ok {
			// step = ite(K, idx, self); K mentions cmp:<(MMD[0], μd) where μd's step stores MMD[0]
			cmps := findSub(rc.Step, func(x *Term) bool {
				return x.Op == "cmp" && (x.S == "<" || x.S == "<=") && strings.Contains(x.Args[0].Key(), "MinMaxDist2")
			})
			if len(cmps) == 1 {
				c := cmps[0]
				comp0 := strings.HasSuffix(c.Args[0].Key(), ")[0]")
				run := c.Args[1]
				stored := false
				if strings.Contains(run.Key(), "["+minIdx.Key()+"]") && strings.HasSuffix(run.Key(), "[0]") && rc.Init.IsZero() {
					// the candidate is compared with the stored interval of the current holder, and the
					// first operand is the initial holder (no sentinel needed)
					stored = true
				} else if run.Op == "a" {
					if rd, ok := recs[run.S]; ok {
						for _, s := range findSub(rd.Step, func(x *Term) bool { return x.Key() == c.Args[0].Key() }) {
							_ = s
							stored = true
						}
						// the first operand is always taken: K under (run < 0) is true
						neg := Cmp("<", run, K(0))
						sel := assume(rc.Step, map[string]bool{neg.Key(): true})
						if sel.Key() == rc.Step.Key() || len(findSub(sel, func(x *Term) bool { return x.Op == "a" && x.S == minIdx.S })) > 0 {
							selDetail += " initial sentinel does not force the first operand;"
							stored = false
						}
					}
				}
				// the interval belongs to the operand with the index being recorded
				sameOp := strings.Contains(c.Args[0].Key(), "s.sdf[") && strings.Contains(c.Args[0].Key(), ".BoundingBox()") && strings.Contains(c.Args[0].Key(), "agg(p.X,p.Y)")
				okSel = comp0 && stored && sameOp
				if !comp0 {
					selDetail += " compares a component other than the minimum [0];"
				}
			} else {
				selDetail = fmt.Sprintf(" %d comparisons against MinMaxDist2 in the selection", len(cmps))
			}
		}
	}
	r.check("O3", key+"|nearest-box-is-the-smallest-minimum-distance", fn.Pos(), okSel, "minIndex = argmin over i of MinMaxDist2(box_i, p)[0], first operand always a candidate;"+selDetail)
	// slow path
	sfn := ctx.ssaFunc("sdf", "(*UnionSDF2).EvaluateSlow")
	if sfn == nil {
		r.undecided("O3", "sdf.UnionSDF2.EvaluateSlow", 0, "not found")
		return
	}
	mark = len(recOrder)
	ev2 := newEval(ctx)
	res2, _ := ev2.evalRoot(sfn)
	okSlow := false
	if t, ok := res2.(*Term); ok && t.Op == "a" {
		if rc, ok := recsSince(mark)[t.S]; ok {
			es := findSub(rc.Step, isEval)
			if len(es) == 1 && len(ev2.RootRets) == 1 {
				all := true
				for _, c := range condAtoms(rc.Step) {
					for _, v := range []bool{true, false} {
						s := assume(rc.Step, map[string]bool{c.Key(): v})
						if s.Key() != es[0].Key() && s.Key() != Call("MinFunc", t, es[0]).Key() && s.Key() != Call("MinFunc", es[0], t).Key() {
							all = false
						}
					}
				}
				okSlow = all && strings.HasPrefix(es[0].S, "s.sdf[")
			}
		}
	}
	if !okSlow {
		// the same fold with the first iteration peeled off / an explicit empty-list answer
		if t, ok := res2.(*Term); ok {
			if fi, _ := analyseFold(t); fi != nil && fi.firstOK && fi.X.Op == "call" && strings.Contains(fi.X.S, ".sdf[") && strings.HasSuffix(fi.X.S, ".Evaluate") &&
				(fi.minFn == "MinFunc" || strings.HasSuffix(fi.minFn, ".min")) {
				okSlow = true
			}
		}
	}
	r.check("O3", "sdf.UnionSDF2.EvaluateSlow|folds-every-operand", sfn.Pos(), okSlow, "reference: d = s.min over s.sdf[i].Evaluate(p) for every i")
}

// ---------------------------------------------------------------- O4: pruning and blend functions

// checkUnionBlend: skipping an operand whose box is farther than the nearest box's farthest
// corner is exact for the plain minimum only. A blend function (PolyMin, RoundMin ...) lets an
// operand within its blend radius pull the value down, also across zero: with a blend installed
// by SetMin the pruned evaluation reported points inside the blended union as outside. So in the
// state SetMin leaves behind, Evaluate must not make any operand evaluation depend on a
// bounding-box distance. Decided by composing constructor, SetMin and Evaluate symbolically.
func checkUnionBlend(ctx *Ctx, r *Report) {
	fn := ctx.ssaFunc("sdf", "Union2D")
	if fn == nil {
		r.undecided("O4", "Union2D", 0, "not found")
		return
	}
	alts, _ := ctorAlts(ctx, fn)
	n := 0
	for _, ca := range alts {
		if methodOf(ctx, ca.typ, "SetMin") == nil {
			continue
		}
		n++
		key := typeShort(ca.typ) + "|blended-union-evaluates-every-operand"
		after, err := composeApply(ctx, ca, "SetMin")
		if err != nil {
			r.undecided("O4", key, fn.Pos(), err.Error())
			continue
		}
		_, ev, err := composeMethod(ctx, after, "Evaluate", "MinMaxDist2", "Overlap")
		if err != nil || ev.Exceeded {
			r.undecided("O4", key, fn.Pos(), fmt.Sprintf("cannot evaluate Evaluate after SetMin: %v", err))
			continue
		}
		nEval, bad := 0, ""
		for _, e := range ev.Events {
			if !strings.HasSuffix(e.Callee, ".Evaluate") || !strings.HasPrefix(e.Callee, "invoke:") {
				continue
			}
			nEval++
			if e.Cond == nil {
				continue
			}
			for _, c := range conjuncts(e.Cond) {
				if len(findSub(c, func(x *Term) bool {
					return (x.Op == "call" || x.Op == "a" || x.Op == "sel") && (strings.Contains(x.S, "MinMaxDist2") || strings.Contains(x.S, "Overlap") || strings.Contains(x.S, "BoundingBox"))
				})) > 0 {
					bad = shortKey(c.Key(), 160)
				}
			}
		}
		pos := methodOf(ctx, ca.typ, "Evaluate").Pos()
		if nEval == 0 {
			r.undecided("O4", key, pos, "no operand evaluation found after SetMin")
			continue
		}
		r.check("O4", key, pos, bad == "", "after SetMin(blend) no operand may be skipped on the strength of its box distance (pruning is exact for the plain minimum only); an operand evaluation is still conditional on "+bad)
	}
	if n == 0 {
		r.check("O4", "Union2D|blended-union-evaluates-every-operand", fn.Pos(), true, "the union has no SetMin: only the plain minimum is ever folded")
	}
	r.floor("O4", 1)
}

// liftBitTests rewrites tests of a set of flag bits (`where |= inX` ... `switch where { case
// inX|inY: ...`) into the tests the bits were set under: integer bit operations and comparisons
// with a constant are pushed below the case distinctions of their operands and folded.
func liftBitTests(t *Term) *Term {
	var lift func(x *Term, depth int) *Term
	isBitOp := func(x *Term) bool {
		return x.Op == "call" && (x.S == "op|" || x.S == "op&" || x.S == "op^" || x.S == "op<<" || x.S == "op>>")
	}
	intConst := func(x *Term) bool { return x.Op == "c" && x.C.IsInt() }
	lift = func(x *Term, depth int) *Term {
		if depth > 64 || len(x.Args) == 0 {
			return x
		}
		args := make([]*Term, len(x.Args))
		changed := false
		for i, a := range x.Args {
			args[i] = lift(a, depth+1)
			if args[i] != a {
				changed = true
			}
		}
		y := x
		if changed {
			y = &Term{Op: x.Op, S: x.S, C: x.C, Args: args}
			if x.Op == "ite" {
				y = Ite(args[0], args[1], args[2])
			}
		}
		bitCmp := y.Op == "cmp" && len(y.Args) == 2 && (intConst(y.Args[0]) || intConst(y.Args[1]))
		if !(isBitOp(y) || bitCmp) {
			return y
		}
		carriesBits := func(a *Term) bool {
			return a.Op == "ite" || (isBitOp(y) && (a.Op == "cmp" || a.Op == "not"))
		}
		for i, a := range y.Args {
			if !carriesBits(a) {
				continue
			}
			c, ta, tb := a, K(1), K(0)
			if a.Op == "ite" {
				c, ta, tb = a.Args[0], a.Args[1], a.Args[2]
				if bitCmp && !(isBitTree(ta) && isBitTree(tb)) {
					continue
				}
			}
			with := func(v *Term) *Term {
				na := append([]*Term{}, y.Args...)
				na[i] = v
				return lift(&Term{Op: y.Op, S: y.S, C: y.C, Args: na}, depth+1)
			}
			return Ite(c, with(ta), with(tb))
		}
		all := true
		for _, a := range y.Args {
			if !intConst(a) {
				all = false
			}
		}
		if all {
			var out *Term
			func() {
				defer func() { recover() }()
				out = KR(evalT(y, nil))
			}()
			if out != nil {
				return out
			}
		}
		return y
	}
	return lift(t, 0)
}

// isBitTree: a case distinction whose leaves are integer constants (or bit operations on such).
func isBitTree(t *Term) bool {
	switch {
	case t.Op == "c":
		return t.C.IsInt()
	case t.Op == "ite":
		return isBitTree(t.Args[1]) && isBitTree(t.Args[2])
	case t.Op == "cmp" || t.Op == "not":
		return true
	case t.Op == "call" && strings.HasPrefix(t.S, "op"):
		for _, a := range t.Args {
			if !isBitTree(a) {
				return false
			}
		}
		return true
	}
	return false
}

// checkUnionKeepsItsArguments (O5): a union refers to the shapes it was given. Splicing the
// operand list of a nested union into the new one ("the minimum is associative") copies the
// inner list as it is at that moment: a blend function installed on the inner union later
// (SetMin is a method of the object the caller still holds) is not seen by the outer one, whose
// pruned and exhaustive evaluation then both differ from what evaluating its operands gives.
// Decided on the constructors: nothing appended to, or stored in, the operand list is loaded
// from a field of another object.
func checkUnionKeepsItsArguments(ctx *Ctx, r *Report) {
	n := 0
	for _, name := range []string{"Union2D", "Union3D"} {
		fn := ctx.ssaFunc("sdf", name)
		if fn == nil {
			r.undecided("O5", name, 0, "not found")
			continue
		}
		// a value is "a part of an argument" if it is loaded from a field of a pointer that is
		// not the object under construction
		var fresh ssa.Value
		allInstrs(fn, func(_ *ssa.BasicBlock, ins ssa.Instruction) {
			if al, ok := ins.(*ssa.Alloc); ok && al.Heap && fresh == nil {
				if pt, ok := al.Type().Underlying().(*types.Pointer); ok && strings.Contains(pt.Elem().String(), "UnionSDF") {
					fresh = al
				}
			}
		})
		var partOf func(v ssa.Value, depth int) (bool, token.Pos)
		partOf = func(v ssa.Value, depth int) (bool, token.Pos) {
			if depth > 6 {
				return false, 0
			}
			switch x := v.(type) {
			case *ssa.UnOp:
				if x.Op == token.MUL {
					if fa, ok := x.X.(*ssa.FieldAddr); ok && fa.X != fresh {
						if _, isSl := x.Type().Underlying().(*types.Slice); isSl {
							return true, x.Pos()
						}
					}
				}
			case *ssa.Slice:
				return partOf(x.X, depth+1)
			case *ssa.Phi:
				for _, e := range x.Edges {
					if b, p := partOf(e, depth+1); b {
						return true, p
					}
				}
			}
			return false, 0
		}
		bad := ""
		nApp := 0
		allInstrs(fn, func(_ *ssa.BasicBlock, ins ssa.Instruction) {
			c, ok := ins.(*ssa.Call)
			if !ok {
				return
			}
			bi, ok := c.Call.Value.(*ssa.Builtin)
			if !ok || (bi.Name() != "append" && bi.Name() != "copy") || len(c.Call.Args) != 2 {
				return
			}
			if !strings.Contains(c.Call.Args[0].Type().String(), "SDF") {
				return
			}
			nApp++
			if b, pos := partOf(c.Call.Args[1], 0); b {
				bad += " " + bi.Name() + " takes the operand list of another object at " + ctx.pos(pos) + ";"
			}
		})
		n++
		r.check("O5", name+"|operands-are-the-arguments-themselves", fn.Pos(), bad == "", fmt.Sprintf("%d appends/copies into the operand list, none from a field of an argument;%s", nApp, bad))
	}
	r.floor("O5", 2)
}
