// sdfxlint decides structural necessary conditions of the properties C01..C20
// of deadsy/sdfx by static analysis of the repository's current source.
package main

import (
	"flag"
	"fmt"
	"os"
	"sort"
	"strconv"
	"strings"
	"time"
)

type checkFn func(ctx *Ctx, r *Report, tier string)

type propDef struct {
	run      checkFn
	examples bool // thorough tier also loads ./examples/...
}

var registry = map[string]propDef{}

func register(id string, f checkFn) { registry[id] = propDef{run: f} }

func main() {
	if len(os.Args) < 2 {
		usage()
	}
	switch os.Args[1] {
	case "check":
		os.Exit(cmdCheck(os.Args[2:]))
	case "survey":
		os.Exit(cmdSurvey(os.Args[2:]))
	case "surveyeval":
		os.Exit(cmdSurveyEval(os.Args[2:]))
	case "compose":
		os.Exit(cmdCompose(os.Args[2:]))
	case "axis":
		os.Exit(cmdAxis(os.Args[2:]))
	case "show":
		os.Exit(cmdShow(os.Args[2:]))
	case "paramnames":
		os.Exit(cmdParamNames(os.Args[2:]))
	case "list":
		var ids []string
		for k := range registry {
			ids = append(ids, k)
		}
		sort.Strings(ids)
		fmt.Println(strings.Join(ids, " "))
	default:
		usage()
	}
}

func usage() {
	fmt.Fprintln(os.Stderr, "usage: sdfxlint check -p <Cxx> [-tier quick|thorough] [-repo /repo]\n       sdfxlint list")
	os.Exit(2)
}

func cmdCheck(args []string) int {
	fs := flag.NewFlagSet("check", flag.ExitOnError)
	prop := fs.String("p", "", "property id")
	tier := fs.String("tier", "", "quick or thorough (default: $VERIF_TIER or quick)")
	repo := fs.String("repo", "/repo", "repository to analyse")
	noctl := fs.Bool("nocontrols", false, "do not inject the positive controls")
	fs.Parse(args)
	if *tier == "" {
		*tier = os.Getenv("VERIF_TIER")
	}
	if *tier != "thorough" {
		*tier = "quick"
	}
	seed, _ := strconv.Atoi(os.Getenv("VERIF_SEED"))
	def, ok := registry[*prop]
	if !ok {
		fmt.Fprintf(os.Stderr, "unknown property %q\n", *prop)
		return 2
	}
	start := time.Now()
	cmdline := fmt.Sprintf("bin/sdfxlint check -p %s -tier %s -repo %s", *prop, *tier, *repo)
	ctx, err := loadRepo(loadOpts{repo: *repo, controls: !*noctl})
	if err != nil {
		// the tree cannot be analysed: not a verdict on the property
		r := newReport(*prop, nil)
		r.Explain = "the repository could not be loaded/type-checked; nothing was analysed"
		r.undecided("E1-load", "repository", 0, err.Error())
		return r.finish(*tier, seed, start, cmdline)
	}
	r := newReport(*prop, ctx)
	func() {
		defer func() {
			if e := recover(); e != nil {
				r.undecided("E0-panic", "checker", 0, fmt.Sprint(e))
				if os.Getenv("VERIF_DEBUG") != "" {
					panic(e)
				}
			}
		}()
		def.run(ctx, r, *tier)
		if *tier == "thorough" {
			// the same rules on other build configurations
			for _, cfg := range []struct{ arch, os string }{{"386", ""}, {"", "windows"}} {
				ctx2, err := loadRepo(loadOpts{repo: *repo, controls: !*noctl, goarch: cfg.arch, goos: cfg.os})
				tag := "[GOARCH=" + cfg.arch + " GOOS=" + cfg.os + "] "
				if err != nil {
					r.undecided("E1-load", tag+"repository", 0, err.Error())
					continue
				}
				r2 := newReport(*prop, ctx2)
				def.run(ctx2, r2, *tier)
				for _, o := range r2.Obls {
					if o.control {
						continue
					}
					o.Construct = tag + o.Construct
					r.Obls = append(r.Obls, o)
				}
				r.Counts["configurations"]++
			}
			r.Counts["configurations"]++
			runSelfTest(*prop, *repo, r)
		}
	}()
	return r.finish(*tier, seed, start, cmdline)
}
