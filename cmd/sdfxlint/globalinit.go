package main

// Package-level variables of basic type that are written exactly once, by their package
// initialiser, and otherwise only read (var nptTaper = math.Atan(1.0 / 32.0)) are constants
// in all but name: the evaluator resolves a load of such a variable to the closed form of its
// initialiser, so that naming a sub-expression at package level does not change any term.

import (
	"fmt"
	"go/ast"
	"go/constant"
	"go/token"
	"go/types"
	"sync"

	"golang.org/x/tools/go/packages"
	"golang.org/x/tools/go/ssa"
)

type globalUse struct {
	stores []*ssa.Store
	other  bool // address taken, passed on, stored elsewhere...
}

var (
	globalUsesMu  sync.Mutex
	globalUsesFor = map[*Ctx]map[*ssa.Global]*globalUse{}
)

func (ctx *Ctx) globalUseIndex() map[*ssa.Global]*globalUse {
	globalUsesMu.Lock()
	defer globalUsesMu.Unlock()
	if m, ok := globalUsesFor[ctx]; ok {
		return m
	}
	globalUses := map[*ssa.Global]*globalUse{}
	globalUsesFor[ctx] = globalUses
	func() {
		get := func(g *ssa.Global) *globalUse {
			u := globalUses[g]
			if u == nil {
				u = &globalUse{}
				globalUses[g] = u
			}
			return u
		}
		var visit func(fn *ssa.Function)
		seen := map[*ssa.Function]bool{}
		visit = func(fn *ssa.Function) {
			if fn == nil || seen[fn] {
				return
			}
			seen[fn] = true
			for _, b := range fn.Blocks {
				for _, ins := range b.Instrs {
					for _, op := range ins.Operands(nil) {
						g, ok := (*op).(*ssa.Global)
						if !ok {
							continue
						}
						switch x := ins.(type) {
						case *ssa.Store:
							if x.Addr == ssa.Value(g) && x.Val != ssa.Value(g) {
								get(g).stores = append(get(g).stores, x)
							} else {
								get(g).other = true
							}
						case *ssa.UnOp:
							if x.Op != token.MUL {
								get(g).other = true
							}
						case *ssa.DebugRef:
						default:
							get(g).other = true
						}
					}
				}
			}
			for _, af := range fn.AnonFuncs {
				visit(af)
			}
		}
		for _, p := range ctx.SSA {
			for _, m := range p.Members {
				switch x := m.(type) {
				case *ssa.Function:
					visit(x)
				case *ssa.Type:
					for _, t := range []types.Type{x.Type(), types.NewPointer(x.Type())} {
						ms := ctx.Prog.MethodSets.MethodSet(t)
						for i := 0; i < ms.Len(); i++ {
							visit(ctx.Prog.MethodValue(ms.At(i)))
						}
					}
				}
			}
		}
	}()
	return globalUses
}

// globalInitTerm returns the closed form of g's initialiser when g is effectively constant.
func (ev *Evaluator) globalInitTerm(g *ssa.Global) (*Term, bool) {
	if ev.c == nil {
		return nil, false
	}
	pt, ok := g.Type().(*types.Pointer)
	if !ok {
		return nil, false
	}
	if _, basic := pt.Elem().Underlying().(*types.Basic); !basic {
		return nil, false
	}
	u := ev.c.globalUseIndex()[g]
	if u == nil || u.other || len(u.stores) != 1 {
		return nil, false
	}
	st := u.stores[0]
	if fn := st.Parent(); fn == nil || fn.Name() != "init" || fn.Pkg != g.Pkg {
		return nil, false
	}
	return ev.initTerm(st.Val, 0)
}

func (ev *Evaluator) initTerm(v ssa.Value, depth int) (*Term, bool) {
	if depth > 12 {
		return nil, false
	}
	switch x := v.(type) {
	case *ssa.Const:
		t, ok := ev.constVal(x).(*Term)
		return t, ok
	case *ssa.Convert:
		a, ok := ev.initTerm(x.X, depth+1)
		if !ok {
			return nil, false
		}
		return Conv(x.Type().String(), a), true
	case *ssa.ChangeType:
		return ev.initTerm(x.X, depth+1)
	case *ssa.UnOp:
		switch x.Op {
		case token.SUB:
			a, ok := ev.initTerm(x.X, depth+1)
			if !ok {
				return nil, false
			}
			return Neg(a), true
		case token.MUL:
			if g, isG := x.X.(*ssa.Global); isG {
				return ev.globalInitTerm(g)
			}
		}
		return nil, false
	case *ssa.BinOp:
		a, ok1 := ev.initTerm(x.X, depth+1)
		b, ok2 := ev.initTerm(x.Y, depth+1)
		if !ok1 || !ok2 {
			return nil, false
		}
		switch x.Op {
		case token.ADD:
			return Add(a, b), true
		case token.SUB:
			return Sub(a, b), true
		case token.MUL:
			return Mul(a, b), true
		case token.QUO:
			if isIntType(x.Type()) {
				return Call("intdiv", a, b), true
			}
			return Div(a, b), true
		}
		return nil, false
	case *ssa.Call:
		fn := x.Call.StaticCallee()
		if fn == nil || fn.Pkg == nil || fn.Pkg.Pkg.Path() != "math" {
			return nil, false
		}
		var args []*Term
		for _, a := range x.Call.Args {
			t, ok := ev.initTerm(a, depth+1)
			if !ok {
				return nil, false
			}
			args = append(args, t)
		}
		return Call("math."+fn.Name(), args...), true
	}
	return nil, false
}

// ---------------------------------------------------------------- aggregate tables

// immutableAggregate: g is an array/struct variable that no function other than the package
// initialiser writes (through any address derived from it) or lets escape.
func (ctx *Ctx) immutableAggregate(g *ssa.Global) bool {
	globalUsesMu.Lock()
	if globalAggOK == nil {
		globalAggOK = map[*Ctx]map[*ssa.Global]bool{}
	}
	m := globalAggOK[ctx]
	if m == nil {
		m = map[*ssa.Global]bool{}
		globalAggOK[ctx] = m
		// one pass over every module function: which globals have a derived address that is
		// stored through, passed on or otherwise escapes
		var visit func(fn *ssa.Function)
		seen := map[*ssa.Function]bool{}
		bad := map[*ssa.Global]bool{}
		visit = func(fn *ssa.Function) {
			if fn == nil || seen[fn] {
				return
			}
			seen[fn] = true
			isInit := fn.Name() == "init" && fn.Parent() == nil
			// derived addresses
			root := map[ssa.Value]*ssa.Global{}
			rootOf := func(v ssa.Value) *ssa.Global {
				if g, ok := v.(*ssa.Global); ok {
					return g
				}
				return root[v]
			}
			for pass := 0; pass < 3; pass++ {
				for _, b := range fn.Blocks {
					for _, ins := range b.Instrs {
						switch x := ins.(type) {
						case *ssa.UnOp:
							// the slice header read from a slice-typed table shares its backing array
							if g, ok := x.X.(*ssa.Global); ok && x.Op == token.MUL {
								if _, isSl := x.Type().Underlying().(*types.Slice); isSl {
									root[x] = g
								}
							}
						case *ssa.IndexAddr:
							if g := rootOf(x.X); g != nil {
								root[x] = g
							}
						case *ssa.FieldAddr:
							if g := rootOf(x.X); g != nil {
								root[x] = g
							}
						}
					}
				}
			}
			for _, b := range fn.Blocks {
				for _, ins := range b.Instrs {
					for _, op := range ins.Operands(nil) {
						g := rootOf(*op)
						if g == nil {
							continue
						}
						switch x := ins.(type) {
						case *ssa.IndexAddr, *ssa.FieldAddr, *ssa.DebugRef:
						case *ssa.UnOp:
							if x.Op != token.MUL {
								bad[g] = true
							}
						case *ssa.Call:
							// len/cap of the table
							if bi, ok := x.Call.Value.(*ssa.Builtin); !ok || (bi.Name() != "len" && bi.Name() != "cap") {
								bad[g] = true
							}
						case *ssa.Store:
							if rootOf(x.Addr) == g && rootOf(x.Val) == nil && isInit && fn.Pkg == g.Pkg {
								// the initialiser
							} else {
								bad[g] = true
							}
						default:
							bad[g] = true
						}
					}
				}
			}
			for _, af := range fn.AnonFuncs {
				visit(af)
			}
		}
		for _, p := range ctx.SSA {
			for _, mem := range p.Members {
				switch x := mem.(type) {
				case *ssa.Function:
					visit(x)
				case *ssa.Type:
					for _, t := range []types.Type{x.Type(), types.NewPointer(x.Type())} {
						ms := ctx.Prog.MethodSets.MethodSet(t)
						for i := 0; i < ms.Len(); i++ {
							visit(ctx.Prog.MethodValue(ms.At(i)))
						}
					}
				}
			}
		}
		for _, p := range ctx.SSA {
			for _, mem := range p.Members {
				if g, ok := mem.(*ssa.Global); ok {
					m[g] = !bad[g]
				}
			}
		}
	}
	globalUsesMu.Unlock()
	return m[g]
}

var globalAggOK map[*Ctx]map[*ssa.Global]bool

// globalLiteral returns the value of an immutable array/struct table from its composite
// literal in the typed syntax tree (leaves: compile-time constants).
func (ev *Evaluator) globalLiteral(g *ssa.Global) (Val, bool) {
	if ev.c == nil || g.Pkg == nil {
		return nil, false
	}
	pt, ok := g.Type().(*types.Pointer)
	if !ok {
		return nil, false
	}
	switch pt.Elem().Underlying().(type) {
	case *types.Array, *types.Struct, *types.Slice:
	default:
		return nil, false
	}
	if ev.litCache == nil {
		ev.litCache = map[*ssa.Global]Val{}
	}
	if v, ok := ev.litCache[g]; ok {
		return v, v != nil
	}
	ev.litCache[g] = nil
	if !ev.c.immutableAggregate(g) {
		return nil, false
	}
	var pkg *packages.Package
	for _, p := range ev.c.Pkgs {
		if p.Types == g.Pkg.Pkg {
			pkg = p
		}
	}
	if pkg == nil {
		return nil, false
	}
	var init ast.Expr
	for _, f := range pkg.Syntax {
		for _, d := range f.Decls {
			gd, ok := d.(*ast.GenDecl)
			if !ok || gd.Tok != token.VAR {
				continue
			}
			for _, s := range gd.Specs {
				vs := s.(*ast.ValueSpec)
				for i, id := range vs.Names {
					if pkg.TypesInfo.Defs[id] == g.Object() && i < len(vs.Values) && len(vs.Values) == len(vs.Names) {
						init = vs.Values[i]
					}
				}
			}
		}
	}
	if init == nil {
		return nil, false
	}
	v, ok := litVal(pkg.TypesInfo, init, pt.Elem(), 0)
	if !ok {
		return nil, false
	}
	ev.litCache[g] = v
	return v, true
}

func litVal(info *types.Info, e ast.Expr, t types.Type, depth int) (Val, bool) {
	if depth > 6 {
		return nil, false
	}
	if tv, ok := info.Types[e]; ok && tv.Value != nil {
		switch tv.Value.Kind() {
		case constant.Int, constant.Float:
			if r, ok := constantToRat(tv.Value); ok {
				return KR(r), true
			}
		case constant.Bool:
			if constant.BoolVal(tv.Value) {
				return K(1), true
			}
			return K(0), true
		case constant.String:
			return A(fmt.Sprintf("%q", constant.StringVal(tv.Value))), true
		}
		return nil, false
	}
	cl, ok := e.(*ast.CompositeLit)
	if !ok {
		return nil, false
	}
	switch u := t.Underlying().(type) {
	case *types.Slice:
		// a slice literal: an array literal of as many elements as it lists
		n := 0
		idx := 0
		for _, el := range cl.Elts {
			if kv, ok := el.(*ast.KeyValueExpr); ok {
				ktv, ok := info.Types[kv.Key]
				if !ok || ktv.Value == nil {
					return nil, false
				}
				k, exact := constant.Int64Val(ktv.Value)
				if !exact {
					return nil, false
				}
				idx = int(k)
			}
			idx++
			if idx > n {
				n = idx
			}
		}
		v, ok := litVal(info, e, types.NewArray(u.Elem(), int64(n)), depth)
		if agg, isAgg := v.(*Agg); ok && isAgg && depth > 0 {
			agg.T = t // a slice nested in a table keeps its slice type (see Evaluator.load)
		}
		return v, ok
	case *types.Array:
		n := int(u.Len())
		if n > 4096 {
			return nil, false
		}
		a := &Agg{T: t, Elems: make([]Val, n)}
		for i := range a.Elems {
			a.Elems[i] = zeroVal(u.Elem())
		}
		idx := 0
		for _, el := range cl.Elts {
			if kv, ok := el.(*ast.KeyValueExpr); ok {
				ktv, ok := info.Types[kv.Key]
				if !ok || ktv.Value == nil {
					return nil, false
				}
				k, exact := constant.Int64Val(ktv.Value)
				if !exact {
					return nil, false
				}
				idx = int(k)
				el = kv.Value
			}
			if idx < 0 || idx >= n {
				return nil, false
			}
			v, ok := litVal(info, el, u.Elem(), depth+1)
			if !ok {
				return nil, false
			}
			a.Elems[idx] = v
			idx++
		}
		return a, true
	case *types.Struct:
		a := &Agg{T: t, Elems: make([]Val, u.NumFields())}
		for i := range a.Elems {
			a.Elems[i] = zeroVal(u.Field(i).Type())
		}
		for i, el := range cl.Elts {
			fi := i
			if kv, ok := el.(*ast.KeyValueExpr); ok {
				id, ok := kv.Key.(*ast.Ident)
				if !ok {
					return nil, false
				}
				fi = -1
				for j := 0; j < u.NumFields(); j++ {
					if u.Field(j).Name() == id.Name {
						fi = j
					}
				}
				el = kv.Value
			}
			if fi < 0 || fi >= u.NumFields() {
				return nil, false
			}
			v, ok := litVal(info, el, u.Field(fi).Type(), depth+1)
			if !ok {
				return nil, false
			}
			a.Elems[fi] = v
		}
		return a, true
	}
	return nil, false
}
