package main

// C15 — 3MF, DXF and SVG exports contain exactly the supplied geometry (argument provenance).
//
//  X1  3MF: each triangle t becomes Triangle{V1,V2,V3} = AddVertex(float32 t[0]),
//      (t[1]), (t[2]) in that order through ONE mesh builder created with the
//      file (de-duplication state spans all batches); one object, one build
//      item referring to it; the model's unit is never changed from the
//      library's zero value, which is millimetre
//  X2  DXF: every drawing.Line call has arguments (l[0].X, l[0].Y, 0, l[1].X,
//      l[1].Y, 0); the layer is switched to "Lines" before any line and never
//      to anything else; NewDXF creates that layer
//  X3  SVG: canvas.Line gets (p0.X−min.X, max.Y−p0.Y, p1.X−min.X, max.Y−p1.Y)
//      for the i-th stored pair, Start gets (max.X−min.X, max.Y−min.Y);
//      SVG.Line folds both endpoints into min and max, starts the fold from
//      the first line's endpoints (not from the zero value) and appends both
//      endpoints in step
//
// Not decided: decimals, de-duplication inside go3mf, the readers.

import (
	"fmt"
	"go/constant"
	"go/types"
	"sort"
	"strings"

	"golang.org/x/tools/go/ssa"
)

func init() { register("C15", checkC15) }

func closureOf(ctx *Ctx, pkg, parent string) *ssa.Function {
	for _, f := range ctx.srcFuncs(pkg) {
		if f.Parent() != nil && f.Parent().Name() == parent && f.Parent().Parent() == nil {
			return f
		}
	}
	return nil
}

func checkC15(ctx *Ctx, r *Report, tier string) {
	r.Explain = "Argument provenance of every emission into the 3MF, DXF and SVG libraries, read from symbolic snapshots of the calls inside the sink loops: vertex order and winding, one mesh builder per file, one object/build item, default unit; DXF line arguments and layer; SVG origin shift, Y flip, canvas extent and the running bounding box of the drawing. Decimals, de-duplication and the readers belong to the third-party libraries and are not decided."
	r.Trusted = []string{"go/types", "go/ssa", "sdfxlint symbolic evaluator", "go3mf, yofu/dxf, svgo write what they are given"}
	r.Assume = []string{"third-party encoders are correct"}
	check3MF(ctx, r)
	checkDXF(ctx, r)
	checkSVG(ctx, r)
	r.floor("X1", 5)
	r.floor("X2", 5)
	r.floor("X3", 6)
}

func elemPath(v Val) string {
	switch x := v.(type) {
	case *Term:
		return x.Key()
	case *Sym:
		return x.Path
	}
	return valKey(v)
}

func check3MF(ctx *Ctx, r *Report) {
	g := closureOf(ctx, "render", "write3MF")
	outer := ctx.ssaFunc("render", "write3MF")
	if g == nil || outer == nil {
		r.undecided("X1", "write3MF", 0, "function or its goroutine not found")
		return
	}
	ev := newEval(ctx)
	ev.evalRoot(g)
	adds := eventsOf(ev, ".AddVertex")
	ok := len(adds) == 3
	detail := fmt.Sprintf("%d AddVertex calls per triangle", len(adds))
	tv := ""
	recvOK := true
	for k, e := range adds {
		if len(e.Args) != 2 {
			ok = false
			continue
		}
		// receiver: a captured builder (free variable), not something made in the loop
		if s, isSym := e.Args[0].(*Sym); !isSym || !strings.HasPrefix(s.Path, "*") {
			if tup, isT := e.Args[0].(*Tuple); !isT || !strings.HasPrefix(elemPath(tup.Elems[0]), "*") {
				recvOK = false
			}
		}
		m := map[string]*Term{}
		leafTerms("", e.Args[1], m)
		for j, c := range []string{"X", "Y", "Z"} {
			t := m[fmt.Sprintf("[%d]", j)]
			if t == nil {
				t = m["."+c]
			}
			if t == nil || t.Op != "conv" || t.S != "float32" {
				ok = false
				continue
			}
			in := t.Args[0].Key()
			suffix := fmt.Sprintf("[%d].%s", k, c)
			if !strings.HasSuffix(in, suffix) {
				ok = false
				detail += fmt.Sprintf("; vertex %d component %s = %s", k, c, shortKey(in, 60))
			} else if k == 0 && j == 0 {
				tv = strings.TrimSuffix(in, suffix)
			} else if strings.TrimSuffix(in, suffix) != tv {
				ok = false
			}
		}
	}
	r.check("X1", "write3MF|vertices-in-order-as-float32", g.Pos(), ok, detail)
	r.check("X1", "write3MF|one-mesh-builder-per-file", g.Pos(), recvOK && len(adds) > 0, "AddVertex must be called on the builder created with the file: a builder made per batch forgets earlier vertices and duplicates them")
	// the triangle appended
	okTri := false
	tdetail := ""
	for _, e := range eventsOf(ev, "append") {
		sl, _ := e.Args[1].(*SliceV)
		if sl == nil || sl.Arr == nil {
			continue
		}
		ag, _ := e.State.mem[sl.Arr].(*Agg)
		if ag == nil || len(ag.Elems) != 1 {
			continue
		}
		t0, _ := ag.Elems[0].(*Agg)
		if t0 == nil || t0.T == nil || !strings.HasSuffix(t0.T.String(), "go3mf.Triangle") {
			continue
		}
		okTri = true
		for k, fld := range []string{"V1", "V2", "V3"} {
			v, _ := fieldOf(t0, fld)
			vt, _ := v.(*Term)
			// must be the result of the k-th AddVertex call
			want := fmt.Sprintf("[%d].X", k)
			if vt == nil || !strings.Contains(vt.Key(), "AddVertex") || !strings.Contains(vt.Key(), want) {
				okTri = false
				if vt != nil {
					tdetail += fmt.Sprintf(" %s = %s;", fld, shortKey(vt.Key(), 100))
				}
			}
			for k2 := 0; k2 < 3; k2++ {
				if k2 != k && vt != nil && strings.Contains(vt.Key(), fmt.Sprintf("[%d].X", k2)) {
					okTri = false
					tdetail += fmt.Sprintf(" %s refers to vertex %d;", fld, k2)
				}
			}
		}
	}
	r.check("X1", "write3MF|winding-preserved", g.Pos(), okTri, "Triangle{V1,V2,V3} = indices of t[0], t[1], t[2];"+tdetail)
	// outer: one builder, one object, one item, units untouched
	nB, nObj, nItem, unitStore := 0, 0, 0, false
	for _, fn := range []*ssa.Function{outer, g} {
		allInstrs(fn, func(b *ssa.BasicBlock, ins ssa.Instruction) {
			if c, ok := ins.(*ssa.Call); ok {
				if f := c.Call.StaticCallee(); f != nil && f.Name() == "NewMeshBuilder" {
					nB++
					if fn == g {
						nB += 100
					}
				}
			}
			if st, ok := ins.(*ssa.Store); ok {
				f := firstField(fn, st.Addr)
				if fa, ok := st.Addr.(*ssa.FieldAddr); ok {
					if s, ok := fa.X.Type().Underlying().(*types.Pointer).Elem().Underlying().(*types.Struct); ok {
						switch s.Field(fa.Field).Name() {
						case "Units":
							unitStore = true
						case "Objects":
							nObj++
						case "Items":
							nItem++
						}
					}
				}
				_ = f
			}
		})
	}
	r.check("X1", "write3MF|one-object-one-build-item", outer.Pos(), nB == 1 && nObj == 1 && nItem == 1, fmt.Sprintf("mesh builders %d, object appends %d, build item appends %d", nB, nObj, nItem))
	// millimetre default
	mm := false
	for _, p := range ctx.All {
		if p.PkgPath == "github.com/hpinc/go3mf" {
			if o, ok := p.Types.Scope().Lookup("UnitMillimeter").(*types.Const); ok {
				if v, ok := constant.Int64Val(o.Val()); ok && v == 0 {
					mm = true
				}
			}
		}
	}
	r.check("X1", "write3MF|unit-is-millimetre", outer.Pos(), mm && !unitStore, "model.Units is left at the library's zero value, which is UnitMillimeter")
}

func lineArgsOK(args []Val, l string) (bool, string) {
	if len(args) < 6 {
		return false, "arity"
	}
	want := []string{l + "[0].X", l + "[0].Y", "0", l + "[1].X", l + "[1].Y", "0"}
	got := []string{}
	ok := true
	for i, w := range want {
		t, _ := args[i].(*Term)
		g := valKey(args[i])
		if t != nil {
			g = t.Key()
		}
		got = append(got, g)
		if g != w {
			ok = false
		}
	}
	return ok, strings.Join(got, ", ")
}

func checkDXF(ctx *Ctx, r *Report) {
	// every function of the package that draws lines
	n := 0
	for _, fn := range ctx.srcFuncs("render") {
		calls := false
		allInstrs(fn, func(b *ssa.BasicBlock, ins ssa.Instruction) {
			if c, ok := ins.(*ssa.Call); ok {
				if f := c.Call.StaticCallee(); f != nil && f.String() == "(*github.com/yofu/dxf/drawing.Drawing).Line" {
					calls = true
				}
			}
		})
		if !calls {
			continue
		}
		ev := newEval(ctx, "Save", "NewDXF")
		ev.evalRoot(fn)
		for _, e := range eventsOf(ev, "drawing.Drawing).Line") {
			n++
			// which segment variable: the prefix of the first argument
			t, _ := e.Args[1].(*Term)
			l := ""
			if t != nil && strings.HasSuffix(t.Key(), "[0].X") {
				l = strings.TrimSuffix(t.Key(), "[0].X")
			}
			ok, got := lineArgsOK(e.Args[1:], l)
			r.check("X2", shortFn(fn)+"|line-arguments", e.Pos, ok && l != "", "drawing.Line("+shortKey(got, 200)+") must be (l[0].X, l[0].Y, 0, l[1].X, l[1].Y, 0)")
		}
		// layer: a ChangeLayer("Lines") dominates, no other layer
		var layers []string
		for _, e := range eventsOf(ev, ".ChangeLayer") {
			if len(e.Args) >= 2 {
				layers = append(layers, valKey(e.Args[1]))
			}
		}
		if fn.Parent() != nil {
			// the goroutine inherits the layer set by its creator
			ev2 := newEval(ctx, "Save", "NewDXF")
			ev2.evalRoot(fn.Parent())
			sawGo := false
			for _, e := range ev2.Events {
				if e.Callee == "go" {
					sawGo = true
				}
				if strings.HasSuffix(e.Callee, ".ChangeLayer") && !sawGo && len(e.Args) >= 2 {
					layers = append(layers, valKey(e.Args[1]))
				}
			}
		}
		okL := len(layers) >= 1
		for _, l := range layers {
			if l != `"Lines"` {
				okL = false
			}
		}
		r.check("X2", shortFn(fn)+"|layer-Lines", fn.Pos(), okL, fmt.Sprintf("layers selected before/while drawing: %v", layers))
	}
	r.Counts["dxf_line_sites"] = n
	if ctx.ssaFunc("render", "verifCtlDXFSwapped") != nil {
		r.expectControl("X2", "verifCtlDXFSwapped|line-arguments")
	} else if !r.controlSkipped() {
		r.undecided("X2", "control", 0, "positive control missing")
	}
	// NewDXF adds the layer
	if fn := ctx.ssaFunc("render", "NewDXF"); fn != nil {
		ev := newEval(ctx)
		ev.evalRoot(fn)
		has := false
		for _, e := range eventsOf(ev, ".AddLayer") {
			if len(e.Args) >= 2 && valKey(e.Args[1]) == `"Lines"` {
				has = true
			}
		}
		r.check("X2", "NewDXF|creates-layer-Lines", fn.Pos(), has, "the drawing must define the layer it draws on")
	} else {
		r.undecided("X2", "NewDXF", 0, "not found")
	}
}

func minLeaves(t *Term, fn string, out map[string]bool) {
	if t.Op == "call" && t.S == fn {
		for _, a := range t.Args {
			minLeaves(a, fn, out)
		}
		return
	}
	out[t.Key()] = true
}

func checkSVG(ctx *Ctx, r *Report) {
	sfn := ctx.ssaFunc("render", "(*SVG).Save")
	if sfn == nil {
		r.undecided("X3", "SVG.Save", 0, "not found")
	} else {
		ev := newEval(ctx)
		ev.evalRoot(sfn)
		st := eventsOf(ev, "float.SVG).Start")
		ln := eventsOf(ev, "float.SVG).Line")
		okS := len(st) == 1
		if okS {
			w, _ := st[0].Args[1].(*Term)
			h, _ := st[0].Args[2].(*Term)
			okS = w != nil && h != nil && w.Key() == Sub(A("s.max.X"), A("s.min.X")).Key() && h.Key() == Sub(A("s.max.Y"), A("s.min.Y")).Key()
		}
		r.check("X3", "SVG.Save|canvas-is-the-drawing-extent", sfn.Pos(), okS, "Start(max.X−min.X, max.Y−min.Y)")
		okL := len(ln) == 1
		detail := ""
		if okL {
			a := ln[0].Args
			get := func(i int) *Term { t, _ := a[i].(*Term); return t }
			x0, y0, x1, y1 := get(1), get(2), get(3), get(4)
			if x0 == nil || y0 == nil || x1 == nil || y1 == nil {
				okL = false
			} else {
				// the i-th pair
				var idx string
				for _, at := range atomList(x0) {
					if strings.HasPrefix(at, "s.p0s[") && strings.HasSuffix(at, "].X") {
						idx = strings.TrimSuffix(strings.TrimPrefix(at, "s.p0s["), "].X")
					}
				}
				p0 := func(c string) *Term { return A("s.p0s[" + idx + "]." + c) }
				p1 := func(c string) *Term { return A("s.p1s[" + idx + "]." + c) }
				okL = idx != "" &&
					x0.Key() == Sub(p0("X"), A("s.min.X")).Key() && y0.Key() == Sub(A("s.max.Y"), p0("Y")).Key() &&
					x1.Key() == Sub(p1("X"), A("s.min.X")).Key() && y1.Key() == Sub(A("s.max.Y"), p1("Y")).Key()
				detail = fmt.Sprintf("Line(%s, %s, %s, %s)", x0.Key(), y0.Key(), x1.Key(), y1.Key())
			}
		}
		r.check("X3", "SVG.Save|origin-shift-and-y-flip", sfn.Pos(), okL, "Line(p0.X−min.X, max.Y−p0.Y, p1.X−min.X, max.Y−p1.Y) for the same stored pair; "+shortKey(detail, 260))
	}
	lfn := ctx.ssaFunc("render", "(*SVG).Line")
	if lfn == nil {
		r.undecided("X3", "SVG.Line", 0, "not found")
		return
	}
	ev := newEval(ctx)
	_, st := ev.evalRoot(lfn)
	var sv Val
	for o, v := range st.mem {
		if o.name == "s" {
			sv = v
		}
	}
	if sv == nil {
		r.undecided("X3", "SVG.Line", lfn.Pos(), "receiver state not found")
		return
	}
	mn, _ := fieldOf(sv, "min")
	mx, _ := fieldOf(sv, "max")
	mm := map[string]*Term{}
	leafTerms("min", mn, mm)
	leafTerms("max", mx, mm)
	first := Cmp("==", A("len(s.p0s)"), K(0))
	okFold, okFirst := true, true
	detail := ""
	for _, c := range []string{"X", "Y"} {
		for _, w := range []struct{ f, fn string }{{"min", "math.Min"}, {"max", "math.Max"}} {
			t := mm[w.f+"."+c]
			if t == nil {
				okFold = false
				continue
			}
			hasFirst := false
			for _, ca := range condAtoms(t) {
				if ca.Key() == first.Key() {
					hasFirst = true
				}
			}
			later := assume(t, map[string]bool{first.Key(): false})
			ls := map[string]bool{}
			minLeaves(later, w.fn, ls)
			want := map[string]bool{"s." + w.f + "." + c: true, "p0." + c: true, "p1." + c: true}
			if fmt.Sprint(sortedKeys(ls)) != fmt.Sprint(sortedKeys(want)) {
				okFold = false
				detail += fmt.Sprintf(" %s.%s folds %v;", w.f, c, sortedKeys(ls))
			}
			fst := assume(t, map[string]bool{first.Key(): true})
			fs := map[string]bool{}
			minLeaves(fst, w.fn, fs)
			wantF := map[string]bool{"p0." + c: true, "p1." + c: true}
			if !hasFirst || fmt.Sprint(sortedKeys(fs)) != fmt.Sprint(sortedKeys(wantF)) {
				okFirst = false
				detail += fmt.Sprintf(" first line: %s.%s = %v;", w.f, c, sortedKeys(fs))
			}
		}
	}
	r.check("X3", "SVG.Line|both-endpoints-folded-into-min-and-max", lfn.Pos(), okFold, "min/max are updated with both endpoints of every line;"+detail)
	r.check("X3", "SVG.Line|first-line-initialises-the-extent", lfn.Pos(), okFirst, "the running box starts from the first line's endpoints, not from the zero vector (a drawing away from the origin would be shifted and its canvas enlarged);"+detail)
	// appended in step
	var a0, a1 bool
	for _, e := range eventsOf(ev, "append") {
		k0, k1 := valKey(e.Args[0]), valKey(e.Args[1])
		if strings.Contains(k0, "s.p0s") {
			if sl, ok := e.Args[1].(*SliceV); ok && sl.Arr != nil {
				if ag, ok := e.State.mem[sl.Arr].(*Agg); ok && len(ag.Elems) == 1 && elemPath(ag.Elems[0]) == "p0" {
					a0 = true
				}
			}
		}
		if strings.Contains(k0, "s.p1s") {
			if sl, ok := e.Args[1].(*SliceV); ok && sl.Arr != nil {
				if ag, ok := e.State.mem[sl.Arr].(*Agg); ok && len(ag.Elems) == 1 && elemPath(ag.Elems[0]) == "p1" {
					a1 = true
				}
			}
		}
		_ = k1
	}
	r.check("X3", "SVG.Line|endpoints-stored-in-step", lfn.Pos(), a0 && a1, "p0 appended to p0s and p1 to p1s on every call")
	// the sink passes (l[0], l[1])
	if g := closureOf(ctx, "render", "writeSVG"); g != nil {
		ev := newEval(ctx, "Line", "Save")
		ev.evalRoot(g)
		ok := false
		for _, e := range eventsOf(ev, "render.SVG).Line") {
			if len(e.Args) == 3 {
				p0, p1 := elemPath(e.Args[1]), elemPath(e.Args[2])
				ok = strings.HasSuffix(p0, "[0]") && strings.HasSuffix(p1, "[1]") && strings.TrimSuffix(p0, "[0]") == strings.TrimSuffix(p1, "[1]")
			}
		}
		r.check("X3", "writeSVG|passes-both-endpoints-in-order", g.Pos(), ok, "s.Line(l[0], l[1])")
	}
}

func sortedKeys(m map[string]bool) []string {
	var ks []string
	for k := range m {
		ks = append(ks, k)
	}
	sort.Strings(ks)
	return ks
}
