package main

// C15 — 3MF, DXF and SVG exports contain exactly the supplied geometry (argument provenance).
//
//  X1  3MF: each triangle t becomes Triangle{V1,V2,V3} = AddVertex(float32 t[0]),
//      (t[1]), (t[2]) in that order through ONE mesh builder created with the
//      file (de-duplication state spans all batches); one object, one build
//      item referring to it; the model's unit is never changed from the
//      library's zero value, which is millimetre
//  X2  DXF: every drawing.Line call has arguments (l[0].X, l[0].Y, 0, l[1].X,
//      l[1].Y, 0); the layer is switched to "Lines" before any line and never
//      to anything else; NewDXF creates that layer
//  X3  SVG: canvas.Line gets (p0.X−min.X, max.Y−p0.Y, p1.X−min.X, max.Y−p1.Y)
//      for the i-th stored pair, Start gets (max.X−min.X, max.Y−min.Y);
//      SVG.Line folds both endpoints into min and max, starts the fold from
//      the first line's endpoints (not from the zero value) and appends both
//      endpoints in step
//
// Not decided: decimals, de-duplication inside go3mf, the readers.

import (
	"fmt"
	"go/constant"
	"go/types"
	"sort"
	"strings"

	"golang.org/x/tools/go/ssa"
	"golang.org/x/tools/go/ssa/ssautil"
)

func init() { register("C15", checkC15) }

// closureOf: the function a top-level function of the package starts with its `go` statement,
// whether an anonymous closure or a named function.
func closureOf(ctx *Ctx, pkg, parent string) *ssa.Function {
	for _, gs := range goSites(ctx) {
		if gs.in.Parent() == nil && gs.in.Name() == parent && gs.callee != nil && gs.in.Pkg != nil && strings.HasSuffix(gs.in.Pkg.Pkg.Path(), "/"+pkg) {
			return gs.callee
		}
	}
	return nil
}

func checkC15(ctx *Ctx, r *Report, tier string) {
	r.Explain = "Argument provenance of every emission into the 3MF, DXF and SVG libraries, read from symbolic snapshots of the calls inside the sink loops: vertex order and winding, one mesh builder per file, one object/build item, default unit; DXF line arguments and layer; SVG origin shift, Y flip, canvas extent and the running bounding box of the drawing. De-duplication and the readers belong to the third-party libraries and are not decided; of the decimals only that the module leaves the library default (X6)."
	r.Trusted = []string{"go/types", "go/ssa", "sdfxlint symbolic evaluator", "go3mf, yofu/dxf, svgo write what they are given"}
	r.Assume = []string{"third-party encoders are correct"}
	check3MF(ctx, r)
	checkDXF(ctx, r)
	checkSVG(ctx, r)
	checkSVGDecimals(ctx, r)
	r.floor("X1", 5)
	r.floor("X2", 3)
	r.floor("X3", 6)
	// X4: a drawing saved over an older, longer file contains only the new drawing: module
	// functions on the SVG path that open the output themselves create it truncated (the DXF and
	// 3MF files are created by their libraries)
	n := 0
	for _, fn := range ctx.srcFuncs("render") {
		file := ctx.Fset.Position(fn.Pos()).Filename
		if !strings.HasSuffix(file, "/svg.go") && !strings.HasSuffix(file, "/dxf.go") && !strings.HasSuffix(file, "/3mf.go") {
			continue
		}
		opens := false
		allInstrs(fn, func(b *ssa.BasicBlock, ins ssa.Instruction) {
			if c, ok := ins.(*ssa.Call); ok {
				if f := c.Call.StaticCallee(); f != nil && (f.String() == "os.Create" || f.String() == "os.OpenFile") {
					opens = true
				}
			}
		})
		if !opens {
			continue
		}
		n++
		ok, detail := createdTruncated(fn)
		r.check("X4", shortFn(fn)+"|file-created-truncated", fn.Pos(), ok, "the tail of an older, longer file must not survive behind the closing tag: "+detail)
	}
	r.floor("X4", 1)
	// X5: the file is written for every segment/triangle list, the empty one included (rule
	// shared with C11 B7)
	ruleSinkFinalises(ctx, r, "X5", func(gs goSite) bool {
		file := ctx.Fset.Position(gs.instr.Pos()).Filename
		return strings.HasSuffix(file, "/svg.go") || strings.HasSuffix(file, "/dxf.go") || strings.HasSuffix(file, "/3mf.go")
	})
	r.floor("X5", 2)
}

func elemPath(v Val) string {
	switch x := v.(type) {
	case *Term:
		return x.Key()
	case *Sym:
		return x.Path
	}
	return valKey(v)
}

func check3MF(ctx *Ctx, r *Report) {
	g := closureOf(ctx, "render", "write3MF")
	outer := ctx.ssaFunc("render", "write3MF")
	if g == nil || outer == nil {
		r.undecided("X1", "write3MF", 0, "function or its goroutine not found")
		return
	}
	ev := newEval(ctx)
	ev.evalRoot(g)
	adds := eventsOf(ev, ".AddVertex")
	ok := len(adds) == 3
	detail := fmt.Sprintf("%d AddVertex calls per triangle", len(adds))
	tv := ""
	recvOK := true
	for k, e := range adds {
		if len(e.Args) != 2 {
			ok = false
			continue
		}
		// receiver: a builder that exists before the goroutine starts (captured or passed in),
		// not an object made inside the goroutine
		rv := e.Args[0]
		if tup, isT := rv.(*Tuple); isT && len(tup.Elems) == 2 {
			rv = tup.Elems[0]
		}
		if _, isSym := rv.(*Sym); !isSym {
			recvOK = false
		}
		m := map[string]*Term{}
		leafTerms("", e.Args[1], m)
		for j, c := range []string{"X", "Y", "Z"} {
			t := m[fmt.Sprintf("[%d]", j)]
			if t == nil {
				t = m["."+c]
			}
			if t == nil || t.Op != "conv" || t.S != "float32" {
				ok = false
				continue
			}
			in := t.Args[0].Key()
			suffix := fmt.Sprintf("[%d].%s", k, c)
			if !strings.HasSuffix(in, suffix) {
				ok = false
				detail += fmt.Sprintf("; vertex %d component %s = %s", k, c, shortKey(in, 60))
			} else if k == 0 && j == 0 {
				tv = strings.TrimSuffix(in, suffix)
			} else if strings.TrimSuffix(in, suffix) != tv {
				ok = false
			}
		}
	}
	r.check("X1", "write3MF|vertices-in-order-as-float32", g.Pos(), ok, detail)
	r.check("X1", "write3MF|one-mesh-builder-per-file", g.Pos(), recvOK && len(adds) > 0, "AddVertex must be called on the builder created with the file: a builder made per batch forgets earlier vertices and duplicates them")
	// the triangle appended
	okTri := false
	tdetail := ""
	for _, e := range eventsOf(ev, "append") {
		sl, _ := e.Args[1].(*SliceV)
		if sl == nil || sl.Arr == nil {
			continue
		}
		ag, _ := e.State.mem[sl.Arr].(*Agg)
		if ag == nil || len(ag.Elems) != 1 {
			continue
		}
		t0, _ := ag.Elems[0].(*Agg)
		if t0 == nil || t0.T == nil || !strings.HasSuffix(t0.T.String(), "go3mf.Triangle") {
			continue
		}
		okTri = true
		for k, fld := range []string{"V1", "V2", "V3"} {
			v, _ := fieldOf(t0, fld)
			vt, _ := v.(*Term)
			// must be the result of the k-th AddVertex call
			want := fmt.Sprintf("[%d].X", k)
			if vt == nil || !strings.Contains(vt.Key(), "AddVertex") || !strings.Contains(vt.Key(), want) {
				okTri = false
				if vt != nil {
					tdetail += fmt.Sprintf(" %s = %s;", fld, shortKey(vt.Key(), 100))
				}
			}
			for k2 := 0; k2 < 3; k2++ {
				if k2 != k && vt != nil && strings.Contains(vt.Key(), fmt.Sprintf("[%d].X", k2)) {
					okTri = false
					tdetail += fmt.Sprintf(" %s refers to vertex %d;", fld, k2)
				}
			}
		}
	}
	r.check("X1", "write3MF|winding-preserved", g.Pos(), okTri, "Triangle{V1,V2,V3} = indices of t[0], t[1], t[2];"+tdetail)
	// outer: one builder, one object, one item, units untouched
	nB, nObj, nItem, unitStore := 0, 0, 0, false
	// (module helpers the writer and its goroutine call count as part of them)
	inGoroutine := map[*ssa.Function]bool{}
	var scan []*ssa.Function
	var addFn func(fn *ssa.Function, gor bool)
	addFn = func(fn *ssa.Function, gor bool) {
		for _, have := range scan {
			if have == fn {
				return
			}
		}
		scan = append(scan, fn)
		inGoroutine[fn] = gor
		allInstrs(fn, func(b *ssa.BasicBlock, ins ssa.Instruction) {
			if c, ok := ins.(ssa.CallInstruction); ok {
				if f := c.Common().StaticCallee(); f != nil && inModule(f) && len(f.Blocks) > 0 && f != g && f != outer {
					addFn(f, gor)
				}
			}
		})
	}
	addFn(outer, false)
	addFn(g, true)
	for _, fn := range scan {
		fn := fn
		allInstrs(fn, func(b *ssa.BasicBlock, ins ssa.Instruction) {
			if c, ok := ins.(*ssa.Call); ok {
				if f := c.Call.StaticCallee(); f != nil && f.Name() == "NewMeshBuilder" {
					nB++
					if inGoroutine[fn] {
						nB += 100
					}
				}
			}
			if st, ok := ins.(*ssa.Store); ok {
				f := firstField(fn, st.Addr)
				if fa, ok := st.Addr.(*ssa.FieldAddr); ok {
					if s, ok := fa.X.Type().Underlying().(*types.Pointer).Elem().Underlying().(*types.Struct); ok {
						switch s.Field(fa.Field).Name() {
						case "Units":
							unitStore = true
						case "Objects":
							nObj++
						case "Items":
							nItem++
						}
					}
				}
				_ = f
			}
		})
	}
	r.check("X1", "write3MF|one-object-one-build-item", outer.Pos(), nB == 1 && nObj == 1 && nItem == 1, fmt.Sprintf("mesh builders %d, object appends %d, build item appends %d", nB, nObj, nItem))
	// millimetre default
	mm := false
	for _, p := range ctx.All {
		if p.PkgPath == "github.com/hpinc/go3mf" {
			if o, ok := p.Types.Scope().Lookup("UnitMillimeter").(*types.Const); ok {
				if v, ok := constant.Int64Val(o.Val()); ok && v == 0 {
					mm = true
				}
			}
		}
	}
	r.check("X1", "write3MF|unit-is-millimetre", outer.Pos(), mm && !unitStore, "model.Units is left at the library's zero value, which is UnitMillimeter")
}

func lineArgsOK(args []Val, l string) (bool, string) {
	if len(args) < 6 {
		return false, "arity"
	}
	want := []string{l + "[0].X", l + "[0].Y", "0", l + "[1].X", l + "[1].Y", "0"}
	got := []string{}
	ok := true
	for i, w := range want {
		t, _ := args[i].(*Term)
		g := valKey(args[i])
		if t != nil {
			g = t.Key()
		}
		got = append(got, g)
		if g != w {
			ok = false
		}
	}
	return ok, strings.Join(got, ", ")
}

func checkDXF(ctx *Ctx, r *Report) {
	// every function of the package that draws lines
	n := 0
	for _, fn := range ctx.srcFuncs("render") {
		calls := false
		allInstrs(fn, func(b *ssa.BasicBlock, ins ssa.Instruction) {
			if c, ok := ins.(*ssa.Call); ok {
				if f := c.Call.StaticCallee(); f != nil && f.String() == "(*github.com/yofu/dxf/drawing.Drawing).Line" {
					calls = true
				}
			}
		})
		if !calls {
			continue
		}
		ev := newEval(ctx, "Save", "NewDXF")
		ev.evalRoot(fn)
		for _, e := range eventsOf(ev, "drawing.Drawing).Line") {
			n++
			// which segment variable: the prefix of the first argument
			t, _ := e.Args[1].(*Term)
			l := ""
			if t != nil && strings.HasSuffix(t.Key(), "[0].X") {
				l = strings.TrimSuffix(t.Key(), "[0].X")
			}
			ok, got := lineArgsOK(e.Args[1:], l)
			r.check("X2", shortFn(fn)+"|line-arguments", e.Pos, ok && l != "", "drawing.Line("+shortKey(got, 200)+") must be (l[0].X, l[0].Y, 0, l[1].X, l[1].Y, 0)")
		}
		// layer: a ChangeLayer("Lines") dominates, no other layer
		var layers []string
		for _, e := range eventsOf(ev, ".ChangeLayer") {
			if len(e.Args) >= 2 {
				layers = append(layers, valKey(e.Args[1]))
			}
		}
		if fn.Parent() != nil {
			// the goroutine inherits the layer set by its creator
			ev2 := newEval(ctx, "Save", "NewDXF")
			ev2.evalRoot(fn.Parent())
			sawGo := false
			for _, e := range ev2.Events {
				if e.Callee == "go" {
					sawGo = true
				}
				if strings.HasSuffix(e.Callee, ".ChangeLayer") && !sawGo && len(e.Args) >= 2 {
					layers = append(layers, valKey(e.Args[1]))
				}
			}
		}
		okL := len(layers) >= 1
		for _, l := range layers {
			if l != `"Lines"` {
				okL = false
			}
		}
		if len(layers) == 0 && fn.Parent() == nil {
			// a helper that only draws (d.segments(ls)): the layer is the business of its callers,
			// which all draw through it and are examined themselves (their evaluation inlines it)
			callers := refsTo(ctx, fn)
			helper := len(callers) > 0
			for _, c := range callers {
				_, isCall := c.ins.(*ssa.Call)
				_, isGo := c.ins.(*ssa.Go) // a named consumer started with `go d.consume(...)`
				if !(isCall || isGo) || !inModule(c.in) {
					helper = false
				}
			}
			if helper {
				// every caller must select the layer before it draws through the helper
				okAll := true
				det := ""
				for _, c := range callers {
					cf := c.in
					evc := newEval(ctx, "Save", "NewDXF")
					evc.evalRoot(cf)
					var ls []string
					for _, e := range eventsOf(evc, ".ChangeLayer") {
						if len(e.Args) >= 2 {
							ls = append(ls, valKey(e.Args[1]))
						}
					}
					if cf.Parent() != nil {
						evp := newEval(ctx, "Save", "NewDXF")
						evp.evalRoot(cf.Parent())
						sawGo := false
						for _, e := range evp.Events {
							if e.Callee == "go" {
								sawGo = true
							}
							if strings.HasSuffix(e.Callee, ".ChangeLayer") && !sawGo && len(e.Args) >= 2 {
								ls = append(ls, valKey(e.Args[1]))
							}
						}
					}
					good := len(ls) >= 1
					for _, l := range ls {
						if l != `"Lines"` {
							good = false
						}
					}
					if !good {
						okAll = false
						det += fmt.Sprintf(" %s selects %v;", shortFn(cf), ls)
					}
				}
				r.check("X2", shortFn(fn)+"|layer-Lines", fn.Pos(), okAll, fmt.Sprintf("drawing helper: each of its %d callers selects layer Lines before drawing;%s", len(callers), det))
				continue
			}
		}
		r.check("X2", shortFn(fn)+"|layer-Lines", fn.Pos(), okL, fmt.Sprintf("layers selected before/while drawing: %v", layers))
	}
	r.Counts["dxf_line_sites"] = n
	if ctx.ssaFunc("render", "verifCtlDXFSwapped") != nil {
		r.expectControl("X2", "verifCtlDXFSwapped|line-arguments")
	} else if !r.controlSkipped() {
		r.undecided("X2", "control", 0, "positive control missing")
	}
	// NewDXF adds the layer
	if fn := ctx.ssaFunc("render", "NewDXF"); fn != nil {
		ev := newEval(ctx)
		ev.evalRoot(fn)
		has := false
		for _, e := range eventsOf(ev, ".AddLayer") {
			if len(e.Args) >= 2 && valKey(e.Args[1]) == `"Lines"` {
				has = true
			}
		}
		r.check("X2", "NewDXF|creates-layer-Lines", fn.Pos(), has, "the drawing must define the layer it draws on")
	} else {
		r.undecided("X2", "NewDXF", 0, "not found")
	}
}

// reachesDXFLine: fn calls drawing.Line itself or through module functions it calls.
func reachesDXFLine(fn *ssa.Function, depth int, seen map[*ssa.Function]bool) bool {
	if fn == nil || seen[fn] || depth > 3 {
		return false
	}
	seen[fn] = true
	found := false
	allInstrs(fn, func(b *ssa.BasicBlock, ins ssa.Instruction) {
		if c, ok := ins.(*ssa.Call); ok {
			if f := c.Call.StaticCallee(); f != nil {
				if f.String() == "(*github.com/yofu/dxf/drawing.Drawing).Line" {
					found = true
				} else if inModule(f) && reachesDXFLine(f, depth+1, seen) {
					found = true
				}
			}
		}
	})
	return found
}

func minLeaves(t *Term, fn string, out map[string]bool) {
	if t.Op == "call" && t.S == fn {
		for _, a := range t.Args {
			minLeaves(a, fn, out)
		}
		return
	}
	out[t.Key()] = true
}

func checkSVG(ctx *Ctx, r *Report) {
	sfn := ctx.ssaFunc("render", "(*SVG).Save")
	lfn := ctx.ssaFunc("render", "(*SVG).Line")
	if sfn == nil || lfn == nil {
		r.undecided("X3", "SVG.Save/SVG.Line", 0, "not found")
		return
	}
	recv := paramName(lfn, 0)
	pa, pb := paramName(lfn, 1), paramName(lfn, 2)
	srecv := paramName(sfn, 0)

	// ---- what Line stores: every append of the call, as a map from storage pattern
	// (field[*]<leaf>) to the term stored there (over the endpoints pa, pb)
	evL := newEval(ctx)
	_, stL := evL.evalRoot(lfn)
	// the running extent: the vector-valued fields of the receiver that Line folds with
	// math.Min (lower corner) and math.Max (upper corner), whatever they are called
	loF, hiF := "min", "max"
	for o, v := range stL.mem {
		if o.name != recv {
			continue
		}
		all := map[string]*Term{}
		leafTerms("", v, all)
		for k, t := range all {
			if !strings.HasSuffix(k, ".X") {
				continue
			}
			hasMin := len(findSub(t, func(x *Term) bool { return x.Op == "call" && x.S == "math.Min" })) > 0
			hasMax := len(findSub(t, func(x *Term) bool { return x.Op == "call" && x.S == "math.Max" })) > 0
			path := strings.TrimPrefix(strings.TrimSuffix(k, ".X"), ".")
			switch {
			case hasMin && !hasMax:
				loF = path
			case hasMax && !hasMin:
				hiF = path
			}
		}
	}
	stored := map[string]*Term{}
	bases := map[string]bool{}
	perAppend := true
	for _, e := range eventsOf(evL, "append") {
		base := strings.TrimPrefix(valKey(e.Args[0]), "sym:")
		if !strings.HasPrefix(base, recv+".") {
			continue
		}
		els := appendedVals(e)
		if len(els) != 1 {
			perAppend = false
		}
		for _, el := range els {
			m := map[string]*Term{}
			leafTerms("", el, m)
			for k, t := range m {
				stored[strings.TrimPrefix(base, recv+".")+"[*]"+k] = t
			}
		}
		bases[strings.TrimPrefix(base, recv+".")] = true
	}
	// both endpoints, both coordinates, are stored on every call
	need := map[string]bool{pa + ".X": false, pa + ".Y": false, pb + ".X": false, pb + ".Y": false}
	for _, t := range stored {
		if _, ok := need[t.Key()]; ok {
			need[t.Key()] = true
		}
	}
	allStored := perAppend && len(bases) > 0
	for _, v := range need {
		if !v {
			allStored = false
		}
	}
	r.check("X3", "SVG.Line|endpoints-stored-in-step", lfn.Pos(), allStored, fmt.Sprintf("every call appends one entry holding both end points (storage: %v)", sortedKeys(bases)))

	// ---- what Save draws, with the storage read back through that map
	evS := newEval(ctx)
	evS.evalRoot(sfn)
	stv := eventsOf(evS, "float.SVG).Start")
	ln := eventsOf(evS, "float.SVG).Line")
	okS := len(stv) == 1
	if okS {
		w, _ := stv[0].Args[1].(*Term)
		h, _ := stv[0].Args[2].(*Term)
		okS = w != nil && h != nil && equalRat(w, Sub(A(srecv+"."+hiF+".X"), A(srecv+"."+loF+".X"))) && equalRat(h, Sub(A(srecv+"."+hiF+".Y"), A(srecv+"."+loF+".Y")))
	}
	r.check("X3", "SVG.Save|canvas-is-the-drawing-extent", sfn.Pos(), okS, "Start(max.X−min.X, max.Y−min.Y)")
	okL := len(ln) == 1
	detail := ""
	if okL {
		idxSeen := map[string]bool{}
		back := func(t *Term) *Term {
			return rebuild(t, func(x *Term) *Term {
				if x.Op != "a" || !strings.HasPrefix(x.S, srecv+".") {
					return nil
				}
				rest := strings.TrimPrefix(x.S, srecv+".")
				for base := range bases {
					if !strings.HasPrefix(rest, base+"[") {
						continue
					}
					// base[idx]leaf
					depth, end := 0, -1
					for i := len(base); i < len(rest); i++ {
						if rest[i] == '[' {
							depth++
						} else if rest[i] == ']' {
							depth--
							if depth == 0 {
								end = i
								break
							}
						}
					}
					if end < 0 {
						continue
					}
					idxSeen[rest[len(base)+1:end]] = true
					if st, ok := stored[base+"[*]"+rest[end+1:]]; ok {
						return st
					}
				}
				return nil
			})
		}
		a := ln[0].Args
		var got [4]*Term
		for i := 0; i < 4; i++ {
			t, _ := a[i+1].(*Term)
			if t == nil {
				okL = false
				break
			}
			got[i] = back(t)
		}
		if okL {
			want := [4]*Term{Sub(A(pa+".X"), A(srecv+"."+loF+".X")), Sub(A(srecv+"."+hiF+".Y"), A(pa+".Y")), Sub(A(pb+".X"), A(srecv+"."+loF+".X")), Sub(A(srecv+"."+hiF+".Y"), A(pb+".Y"))}
			for i := range want {
				if !equalRat(got[i], want[i]) {
					okL = false
				}
			}
			okL = okL && len(idxSeen) == 1
			detail = fmt.Sprintf("Line(%s, %s, %s, %s), storage indices %v", got[0].Key(), got[1].Key(), got[2].Key(), got[3].Key(), sortedKeys(idxSeen))
		}
	}
	// float-faithful: each canvas coordinate is ONE subtraction of a stored coordinate and a bound
	// of the extent. (max.Y − min.Y) − (p.Y − min.Y) is the same number in exact arithmetic and a
	// different one in floating point: coordinates are printed with two decimals, and a value on a
	// rounding tie then comes out 0.01 off.
	{
		evF := newEval(ctx)
		evF.faithful = true
		evF.evalRoot(sfn)
		lf := eventsOf(evF, "float.SVG).Line")
		okF := len(lf) == 1
		detailF := ""
		if okF {
			leaf := func(x *Term) bool {
				if x.Op == "fneg" {
					x = x.Args[0]
				}
				return x.Op == "a" || x.Op == "sel"
			}
			for i := 1; i <= 4 && i < len(lf[0].Args); i++ {
				t, _ := lf[0].Args[i].(*Term)
				if t == nil || !(t.Op == "f+" && len(t.Args) == 2 && leaf(t.Args[0]) && leaf(t.Args[1])) {
					okF = false
					detailF += fmt.Sprintf(" argument %d is %s;", i, shortKey(tk(t), 100))
				}
			}
		}
		r.check("X3", "SVG.Save|each-coordinate-is-one-subtraction", sfn.Pos(), okF, "Line(p0.X−min.X, max.Y−p0.Y, …) computed as written, one floating-point subtraction per coordinate;"+detailF)
	}
	r.check("X3", "SVG.Save|origin-shift-and-y-flip", sfn.Pos(), okL, "Line(p0.X−min.X, max.Y−p0.Y, p1.X−min.X, max.Y−p1.Y) for one stored entry (read back through what Line stores); "+shortKey(detail, 260))

	// ---- the running extent
	var sv Val
	for o, v := range stL.mem {
		if o.name == recv {
			sv = v
		}
	}
	if sv == nil {
		r.undecided("X3", "SVG.Line", lfn.Pos(), "receiver state not found")
		return
	}
	mm := map[string]*Term{}
	{
		all := map[string]*Term{}
		leafTerms("", sv, all)
		for k, t := range all {
			switch {
			case strings.HasPrefix(k, "."+loF+"."):
				mm["min"+strings.TrimPrefix(k, "."+loF)] = t
			case strings.HasPrefix(k, "."+hiF+"."):
				mm["max"+strings.TrimPrefix(k, "."+hiF)] = t
			}
		}
	}
	// the "first line" test: the storage is still empty
	var first *Term
	for _, c := range evL.BranchConds {
		if c.S == "==" && (c.Args[0].IsZero() || c.Args[1].IsZero()) && strings.Contains(c.Key(), "len("+recv+".") {
			first = c
		}
	}
	okFold, okFirst := true, first != nil
	detail = ""
	for _, c := range []string{"X", "Y"} {
		for _, w := range []struct{ f, fn string }{{"min", "math.Min"}, {"max", "math.Max"}} {
			t := mm[w.f+"."+c]
			if t == nil || first == nil {
				okFold = false
				continue
			}
			later := assume(t, map[string]bool{first.Key(): false})
			ls := map[string]bool{}
			minLeaves(later, w.fn, ls)
			want := map[string]bool{recv + "." + map[string]string{"min": loF, "max": hiF}[w.f] + "." + c: true, pa + "." + c: true, pb + "." + c: true}
			if fmt.Sprint(sortedKeys(ls)) != fmt.Sprint(sortedKeys(want)) {
				okFold = false
				detail += fmt.Sprintf(" %s.%s folds %v;", w.f, c, sortedKeys(ls))
			}
			fst := assume(t, map[string]bool{first.Key(): true})
			fs := map[string]bool{}
			minLeaves(fst, w.fn, fs)
			wantF := map[string]bool{pa + "." + c: true, pb + "." + c: true}
			if fmt.Sprint(sortedKeys(fs)) != fmt.Sprint(sortedKeys(wantF)) {
				okFirst = false
				detail += fmt.Sprintf(" first line: %s.%s = %v;", w.f, c, sortedKeys(fs))
			}
		}
	}
	r.check("X3", "SVG.Line|both-endpoints-folded-into-min-and-max", lfn.Pos(), okFold, "min/max are updated with both endpoints of every line;"+detail)
	r.check("X3", "SVG.Line|first-line-initialises-the-extent", lfn.Pos(), okFirst, "the running box starts from the first line's endpoints, not from the zero vector (a drawing away from the origin would be shifted and its canvas enlarged);"+detail)
	// the sink passes (l[0], l[1])
	// (the goroutine of writeSVG, or a per-segment closure it hands to a shared streaming helper)
	var sinks []*ssa.Function
	for f := range ssautil.AllFunctions(ctx.Prog) {
		if f.Parent() == nil || !inModule(f) || f.Pkg == nil || !strings.HasSuffix(f.Pkg.Pkg.Path(), "/render") || ctx.isControlPos(f.Pos()) {
			continue
		}
		calls := false
		allInstrs(f, func(_ *ssa.BasicBlock, ins ssa.Instruction) {
			if c, ok := ins.(*ssa.Call); ok {
				if g := c.Call.StaticCallee(); g != nil && g.Name() == "Line" && g.Signature.Recv() != nil && strings.HasSuffix(g.Signature.Recv().Type().String(), "render.SVG") {
					calls = true
				}
			}
		})
		if calls {
			sinks = append(sinks, f)
		}
	}
	sort.Slice(sinks, func(i, j int) bool { return sinks[i].Pos() < sinks[j].Pos() })
	for _, g := range sinks {
		ev := newEval(ctx, "Line", "Save")
		ev.evalRoot(g)
		ok := false
		for _, e := range eventsOf(ev, "render.SVG).Line") {
			if len(e.Args) == 3 {
				p0, p1 := elemPath(e.Args[1]), elemPath(e.Args[2])
				ok = strings.HasSuffix(p0, "[0]") && strings.HasSuffix(p1, "[1]") && strings.TrimSuffix(p0, "[0]") == strings.TrimSuffix(p1, "[1]")
			}
		}
		r.check("X3", "writeSVG|passes-both-endpoints-in-order", g.Pos(), ok, "s.Line(l[0], l[1])")
	}
}

func sortedKeys(m map[string]bool) []string {
	var ks []string
	for k := range m {
		ks = append(ks, k)
	}
	sort.Strings(ks)
	return ks
}

// checkSVGDecimals (X6): the SVG library prints coordinates with the number of decimals held in
// the canvas's Decimals field, 2 unless somebody changes it. The module never stores anything
// but the constant 2 into that field (a size-dependent precision makes small drawings come out
// in another format than the specified one).
func checkSVGDecimals(ctx *Ctx, r *Report) {
	n := 0
	for _, fn := range ctx.srcFuncs("render", "sdf", "obj", "render/dc") {
		ord := 0
		allInstrs(fn, func(_ *ssa.BasicBlock, ins ssa.Instruction) {
			st, ok := ins.(*ssa.Store)
			if !ok {
				return
			}
			fa, ok := st.Addr.(*ssa.FieldAddr)
			if !ok {
				return
			}
			pt, ok := fa.X.Type().Underlying().(*types.Pointer)
			if !ok {
				return
			}
			named, _ := pt.Elem().(*types.Named)
			sty, ok := pt.Elem().Underlying().(*types.Struct)
			if !ok || named == nil || named.Obj().Pkg() == nil || !strings.Contains(named.Obj().Pkg().Path(), "svgo") {
				return
			}
			if sty.Field(fa.Field).Name() != "Decimals" {
				return
			}
			ord++
			n++
			c, isConst := st.Val.(*ssa.Const)
			ok2 := isConst && c.Value != nil && c.Value.ExactString() == "2"
			r.check("X6", fmt.Sprintf("%s|decimals-store#%d", shortFn(fn), ord), st.Pos(), ok2, "the canvas's Decimals field is left at, or set to, the constant 2")
		})
	}
	r.Counts["decimals_stores"] = n
	r.expectControl("X6", "verifCtlSVGDecimals")
}
