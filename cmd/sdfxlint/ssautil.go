package main

// E5 helpers: small path/dominance queries over go/ssa functions.

import (
	"go/token"
	"go/types"
	"strings"

	"golang.org/x/tools/go/ssa"
)

// calleeName returns a readable name for the static callee / builtin / method
// of a call, or "" for dynamic calls.
func calleeName(c *ssa.CallCommon) string {
	if c.IsInvoke() {
		return "invoke:" + c.Method.Name()
	}
	switch f := c.Value.(type) {
	case *ssa.Function:
		return f.String()
	case *ssa.Builtin:
		return "builtin:" + f.Name()
	case *ssa.MakeClosure:
		if fn, ok := f.Fn.(*ssa.Function); ok {
			return fn.String()
		}
	}
	return ""
}

// callMethodName returns the bare function/method name of a call.
func callMethodName(c *ssa.CallCommon) string {
	if c.IsInvoke() {
		return c.Method.Name()
	}
	if f := c.StaticCallee(); f != nil {
		return f.Name()
	}
	if b, ok := c.Value.(*ssa.Builtin); ok {
		return b.Name()
	}
	return ""
}

// allInstrs iterates over the instructions of fn.
func allInstrs(fn *ssa.Function, f func(b *ssa.BasicBlock, i ssa.Instruction)) {
	for _, b := range fn.Blocks {
		for _, ins := range b.Instrs {
			f(b, ins)
		}
	}
}

// stripNot peels boolean negations: returns the underlying value and whether
// the number of negations was odd.
func stripNot(v ssa.Value) (ssa.Value, bool) {
	neg := false
	for {
		u, ok := v.(*ssa.UnOp)
		if !ok || u.Op != token.NOT {
			return v, neg
		}
		neg = !neg
		v = u.X
	}
}

// branchGuards lists, for block b, the (If-condition value, polarity) pairs
// that hold whenever b executes: for every dominator d of b that ends in an
// If, if exactly one successor of d dominates b the condition has that
// polarity. Negations are peeled.
type guard struct {
	cond ssa.Value
	val  bool
	at   *ssa.BasicBlock
}

func branchGuards(b *ssa.BasicBlock) []guard {
	var out []guard
	for d := b.Idom(); d != nil; d = d.Idom() {
		if len(d.Instrs) == 0 {
			continue
		}
		iff, ok := d.Instrs[len(d.Instrs)-1].(*ssa.If)
		if !ok {
			continue
		}
		t, f := d.Succs[0], d.Succs[1]
		td := t != f && t.Dominates(b) && len(t.Preds) == 1
		fd := t != f && f.Dominates(b) && len(f.Preds) == 1
		if td == fd {
			continue
		}
		c, neg := stripNot(iff.Cond)
		out = append(out, guard{cond: c, val: td != neg, at: d})
	}
	return out
}

// isCallTo reports whether v is a call whose bare callee name is name.
func isCallTo(v ssa.Value, name string) (*ssa.Call, bool) {
	c, ok := v.(*ssa.Call)
	if !ok {
		return nil, false
	}
	return c, callMethodName(&c.Call) == name
}

// namedTypeIs reports whether t (possibly behind pointers/slices) is the named
// type pkgSuffix.name.
func namedTypeIs(t types.Type, pkgSuffix, name string) bool {
	for {
		switch u := t.(type) {
		case *types.Pointer:
			t = u.Elem()
			continue
		case *types.Slice:
			t = u.Elem()
			continue
		case *types.Array:
			t = u.Elem()
			continue
		}
		break
	}
	n, ok := t.(*types.Named)
	if !ok {
		return false
	}
	o := n.Obj()
	return o.Name() == name && o.Pkg() != nil && strings.HasSuffix(o.Pkg().Path(), pkgSuffix)
}

// reachableBlocks returns the blocks reachable from b (inclusive).
func reachableFrom(b *ssa.BasicBlock) map[*ssa.BasicBlock]bool {
	seen := map[*ssa.BasicBlock]bool{}
	var dfs func(x *ssa.BasicBlock)
	dfs = func(x *ssa.BasicBlock) {
		if seen[x] {
			return
		}
		seen[x] = true
		for _, s := range x.Succs {
			dfs(s)
		}
	}
	dfs(b)
	return seen
}

// returnsOf lists the Return instructions of fn, excluding the synthetic
// recover block (which nothing dominates).
func returnsOf(fn *ssa.Function) []*ssa.Return {
	var out []*ssa.Return
	for _, b := range fn.Blocks {
		if b == fn.Recover {
			continue
		}
		if len(b.Instrs) == 0 {
			continue
		}
		if r, ok := b.Instrs[len(b.Instrs)-1].(*ssa.Return); ok {
			out = append(out, r)
		}
	}
	return out
}

// instrIndex returns the index of ins in its block.
func instrIndex(ins ssa.Instruction) int {
	for i, x := range ins.Block().Instrs {
		if x == ins {
			return i
		}
	}
	return -1
}

// precedes reports whether a executes before b on every path that reaches b
// (a's block dominates b's block; same block: earlier index).
func precedes(a, b ssa.Instruction) bool {
	if a.Block() == b.Block() {
		return instrIndex(a) < instrIndex(b)
	}
	return a.Block().Dominates(b.Block())
}

// innermostLoop returns the innermost natural loop containing b (nil if none).
func innermostLoop(fn *ssa.Function, b *ssa.BasicBlock) *loopDesc {
	var inner *loopDesc
	for _, ld := range loopDescs(fn, topoAll(fn)) {
		if ld.in[b] && (inner == nil || len(ld.order) < len(inner.order)) {
			inner = ld
		}
	}
	return inner
}

// everyIterationReaches: ins lies in a loop and is executed in every iteration that is started:
// its block dominates every latch of its innermost loop (no `continue` around it) and no block
// of the loop other than the header leaves the loop before it has run.
func everyIterationReaches(fn *ssa.Function, ins ssa.Instruction) (bool, string) {
	b := ins.Block()
	ld := innermostLoop(fn, b)
	if ld == nil {
		return false, "not inside a loop"
	}
	for _, p := range ld.header.Preds {
		if ld.in[p] && isBackEdge(p, ld.header) && !b.Dominates(p) {
			return false, "an iteration can reach the next one without passing here (continue)"
		}
	}
	for _, x := range ld.order {
		if x == ld.header {
			continue
		}
		if b.Dominates(x) {
			continue // leaving after it has run (its own error handling) is fine
		}
		for _, su := range x.Succs {
			if !ld.in[su] {
				return false, "the loop can be left before it runs (break/return)"
			}
		}
	}
	return true, ""
}

// derefType strips one pointer level.
func derefType(t types.Type) types.Type {
	if p, ok := t.Underlying().(*types.Pointer); ok {
		return p.Elem()
	}
	return t
}
