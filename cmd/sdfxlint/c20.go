package main

// C20 — order-independent equality of triangulations (comparator part).
//
//  Y1  TriangleIByIndex.Less, evaluated to a comparison-only term, equals the
//      strict lexicographic order on index triples for every weak ordering of
//      the six compared values (exhaustive: 6^6 assignments); hence it is a
//      strict weak order and sort.Sort yields a unique arrangement
//  Y2  TriangleI.Canonical maps every triple of distinct values to its cyclic
//      rotation with the minimum first (exhaustive over all orderings)
//  Y3  TriangleISet.Canonical canonicalises every element and then sorts the
//      same set; Equals tests the lengths, canonicalises both operands and
//      compares all three indices at every position
//  Y4-Y6 circumcentre closed form, in-circumcircle test structure, super triangle extents
//  Y7  Delaunay2d: the completion flags follow their triangles (parallel slices in step)
//  Y8  Delaunay2dSlow: the plane-side test compares with zero
//
// Not decided: the triangulation itself (in-circle arithmetic, super triangle).

import (
	"fmt"
	"go/constant"
	"go/token"
	"go/types"
	"math"
	"math/big"
	"regexp"
	"sort"
	"strings"

	"golang.org/x/tools/go/ssa"
)

func init() { register("C20", checkC20) }

func checkC20(ctx *Ctx, r *Report, tier string) {
	r.Explain = "The comparator, the canonical rotation and the equality test are evaluated symbolically to comparison-only terms and decided exhaustively over the finite set of weak orderings of the values they touch: Less ≡ strict lexicographic order (46 656 assignments), Canonical ≡ min-first rotation (all orderings of 3 distinct values), Equals compares length and all three indices of both canonicalised operands. This settles invariance of the equality test under reordering of triangles and rotation of triples. The Delaunay construction itself (floating-point in-circle tests) is not decided. Also: the circumcentre closed form, the super triangle's extents, the completion flags following their triangles, the reference's plane-side test."
	r.Exhaust = true
	r.Trusted = []string{"go/types", "go/ssa", "sdfxlint gated symbolic evaluator", "sort.Sort sorts according to Less when Less is a strict weak order"}
	r.Assume = []string{"index triples have three distinct entries"}
	checkLess(ctx, r, ctx.ssaFunc("render", "(TriangleIByIndex).Less"), "render.TriangleIByIndex.Less")
	if cf := ctx.ssaFunc("render", "(verifCtlByIndex).Less"); cf != nil {
		checkLess(ctx, r, cf, "verifCtlByIndex.Less")
		r.expectControl("Y1", "verifCtlByIndex.Less")
	} else if !r.controlSkipped() {
		r.undecided("Y1", "control", 0, "positive control missing")
	}
	checkCanonical(ctx, r, ctx.ssaFunc("render", "(*TriangleI).Canonical"), "render.TriangleI.Canonical")
	if cf := ctx.ssaFunc("render", "(*verifCtlTri).Canonical"); cf != nil {
		checkCanonical(ctx, r, cf, "verifCtlTri.Canonical")
		r.expectControl("Y2", "verifCtlTri.Canonical")
	}
	checkSetCanonical(ctx, r)
	checkEquals(ctx, r)
	r.floor("Y1", 1)
	r.floor("Y2", 1)
	r.floor("Y3", 4)
}

func checkLess(ctx *Ctx, r *Report, fn *ssa.Function, key string) {
	if fn == nil || len(fn.Params) != 3 {
		r.undecided("Y1", key, 0, "comparator not found")
		return
	}
	ev := newEval(ctx)
	res, _ := ev.evalRoot(fn)
	t, _ := res.(*Term)
	if t == nil {
		r.undecided("Y1", key, fn.Pos(), "result is not a scalar term")
		return
	}
	leaves, ok := orderLeaves(t)
	if !ok {
		r.undecided("Y1", key, fn.Pos(), "comparator is not comparison-only: "+shortKey(t.Key(), 200))
		return
	}
	a, i, j := paramName(fn, 0), paramName(fn, 1), paramName(fn, 2)
	var names []string
	for _, side := range []string{i, j} {
		for k := 0; k < 3; k++ {
			names = append(names, fmt.Sprintf("%s[%s][%d]", a, side, k))
		}
	}
	have := map[string]bool{}
	for _, l := range leaves {
		have[l.Key()] = true
	}
	for k := range have {
		found := false
		for _, n := range names {
			if n == k {
				found = true
			}
		}
		if !found {
			r.undecided("Y1", key, fn.Pos(), "unexpected value compared: "+k)
			return
		}
	}
	bad := 0
	first := ""
	total := forAllOrderings(names, func(env map[string]*big.Rat, v []int) bool {
		got := evalT(t, env).Sign() != 0
		x, y := v[:3], v[3:]
		want := x[0] < y[0] || (x[0] == y[0] && (x[1] < y[1] || (x[1] == y[1] && x[2] < y[2])))
		if got != want {
			bad++
			if first == "" {
				first = fmt.Sprintf("(%d,%d,%d) vs (%d,%d,%d): Less=%v, lexicographic=%v", x[0], x[1], x[2], y[0], y[1], y[2], got, want)
			}
		}
		return true
	})
	r.Counts["orderings_enumerated"] += total
	r.check("Y1", key, fn.Pos(), bad == 0, fmt.Sprintf("%d assignments enumerated, %d disagree with the strict lexicographic order; first: %s", total, bad, first))
}

func checkCanonical(ctx *Ctx, r *Report, fn *ssa.Function, key string) {
	if fn == nil {
		r.undecided("Y2", key, 0, "function not found")
		return
	}
	ev := newEval(ctx)
	_, st := ev.evalRoot(fn)
	recv := paramName(fn, 0)
	out := make([]*Term, 3)
	for o, v := range st.mem {
		for k := 0; k < 3; k++ {
			if o.name == fmt.Sprintf("%s[%d]", recv, k) {
				out[k], _ = v.(*Term)
			}
		}
	}
	names := []string{}
	for k := 0; k < 3; k++ {
		names = append(names, (&Term{Op: "sel", S: recv, Args: []*Term{K(int64(k))}}).Key())
		if out[k] == nil {
			// never written: stays as is
			out[k] = &Term{Op: "sel", S: recv, Args: []*Term{K(int64(k))}}
		}
		if _, ok := orderLeaves(out[k]); !ok {
			r.undecided("Y2", key, fn.Pos(), "result is not comparison-only: "+shortKey(out[k].Key(), 160))
			return
		}
	}
	bad := 0
	first := ""
	n := 0
	forAllOrderings(names, func(env map[string]*big.Rat, v []int) bool {
		if v[0] == v[1] || v[1] == v[2] || v[0] == v[2] {
			return true
		}
		n++
		var got [3]int
		for k := 0; k < 3; k++ {
			got[k] = int(evalT(out[k], env).Num().Int64())
		}
		// expected: rotation with the minimum first
		m := 0
		for k := 1; k < 3; k++ {
			if v[k] < v[m] {
				m = k
			}
		}
		want := [3]int{v[m], v[(m+1)%3], v[(m+2)%3]}
		if got != want {
			bad++
			if first == "" {
				first = fmt.Sprintf("%v -> %v, expected %v", v, got, want)
			}
		}
		return true
	})
	r.Counts["orderings_enumerated"] += n
	r.check("Y2", key, fn.Pos(), bad == 0 && n == 6, fmt.Sprintf("%d orderings of three distinct values, %d not mapped to the min-first rotation; first: %s", n, bad, first))
}

func checkSetCanonical(ctx *Ctx, r *Report) {
	fn := ctx.ssaFunc("render", "(TriangleISet).Canonical")
	if fn == nil {
		r.undecided("Y3", "TriangleISet.Canonical", 0, "not found")
		return
	}
	ev := newEval(ctx, "Canonical")
	res, _ := ev.evalRoot(fn)
	cs := eventsOf(ev, "(*github.com/deadsy/sdfx/render.TriangleI).Canonical")
	okEach := false
	for _, e := range cs {
		if snap, ok := e.Args[0].(*Tuple); ok {
			if p, ok := snap.Elems[0].(*Ptr); ok && p.Obj != nil && strings.HasPrefix(p.Obj.name, "ts[") && strings.Contains(p.Obj.name, "μ") {
				okEach = true
			}
		}
	}
	// the element loop ranges over the whole of ts
	rangeOK := false
	set := paramName(fn, 0)
	for _, e := range cs {
		// (event form: index μ from 0 in steps of 1 while μ < len(ts); works also when ts is
		// captured by a closure and lives in a cell)
		for _, c := range conjuncts(e.Cond) {
			if c.Op == "cmp" && c.S == "<" && c.Args[1].Key() == "len("+set+")" {
				for _, mu := range findSub(c.Args[0], func(x *Term) bool { return x.Op == "a" && strings.HasPrefix(x.S, "μ") }) {
					if rc, ok := recs[mu.S]; ok && rc.Init.Key() == K(-1).Key() && rc.Step.Key() == Add(K(1), mu).Key() && c.Args[0].Key() == Add(K(1), mu).Key() {
						rangeOK = true
					}
				}
			}
		}
	}
	for _, b := range fn.Blocks {
		for _, ins := range b.Instrs {
			if phi, ok := ins.(*ssa.Phi); ok {
				if _, _, _, ok := inductionOver(ssaAdd1(phi), fn.Params[0], b.Succs[0]); ok {
					rangeOK = true
				}
			}
		}
	}
	r.check("Y3", "TriangleISet.Canonical|canonicalises-every-element", fn.Pos(), okEach && rangeOK, "ts[i].Canonical() for i over the whole of ts")
	ss := eventsOf(ev, "sort.Sort")
	okSort := len(ss) == 1 && strings.Contains(valKey(ss[0].Args[0]), "ts")
	sliceCmp := false
	if len(ss) == 0 {
		// sort.Slice(ts, less): the same set, and less is the index comparator (its closed form
		// equals that of TriangleIByIndex.Less, which Y1 decides)
		if sl := eventsOf(ev, "sort.Slice"); len(sl) == 1 && len(sl[0].Args) == 2 && strings.Contains(valKey(sl[0].Args[0]), set) {
			ss = sl
			okSort = true
			if fv, ok := sl[0].Args[1].(*FuncV); ok && fv.Fn != nil && len(fv.Fn.Params) == 2 {
				ev2 := newEval(ctx)
				st2 := sl[0].State.clone()
				got, _ := ev2.Call(fv.Fn, []Val{A("i"), A("j")}, fv.Free, &st2).(*Term)
				if lf := ctx.ssaFunc("render", "(TriangleIByIndex).Less"); lf != nil && got != nil {
					ev3 := newEval(ctx)
					want, _ := ev3.evalRoot(lf)
					if wt, ok := want.(*Term); ok {
						a := paramName(lf, 0)
						wt = rebuild(wt, func(x *Term) *Term {
							if x.Op == "a" && strings.HasPrefix(x.S, a+"[") {
								return A(set + strings.TrimPrefix(x.S, a))
							}
							return nil
						})
						sliceCmp = wt.Key() == got.Key()
					}
				}
			}
		}
	}
	// sort happens after the loop and the sorted slice is what is returned
	retOK := strings.Contains(valKey(res), "ts")
	r.check("Y3", "TriangleISet.Canonical|sorts-the-same-set-by-index", fn.Pos(), okSort && retOK, "sort.Sort(TriangleIByIndex(ts)) and ts returned; sort argument: "+func() string {
		if len(ss) > 0 {
			return valKey(ss[0].Args[0])
		}
		return "-"
	}())
	// the sort must use TriangleIByIndex
	usesByIndex := false
	allInstrs(fn, func(b *ssa.BasicBlock, ins ssa.Instruction) {
		if ct, ok := ins.(*ssa.ChangeType); ok && strings.HasSuffix(ct.Type().String(), "TriangleIByIndex") {
			usesByIndex = true
		}
		if mi, ok := ins.(*ssa.MakeInterface); ok && strings.HasSuffix(mi.X.Type().String(), "TriangleIByIndex") {
			usesByIndex = true
		}
	})
	r.check("Y3", "TriangleISet.Canonical|sorted-with-the-index-comparator", fn.Pos(), usesByIndex || sliceCmp, "the set is sorted through TriangleIByIndex (whose Less is decided by Y1)")
}

// ssaAdd1 finds the phi+1 value of a range induction phi, or the phi itself.
func ssaAdd1(phi *ssa.Phi) ssa.Value {
	for _, ref := range *phi.Referrers() {
		if bo, ok := ref.(*ssa.BinOp); ok && bo.X == ssa.Value(phi) {
			if c, ok := constInt(bo.Y); ok && c == 1 {
				return bo
			}
		}
	}
	return phi
}

func checkEquals(ctx *Ctx, r *Report) {
	fn := ctx.ssaFunc("render", "(TriangleISet).Equals")
	if fn == nil {
		r.undecided("Y3", "TriangleISet.Equals", 0, "not found")
		return
	}
	ev := newEval(ctx, "Canonical")
	res, _ := ev.evalRoot(fn)
	t, _ := res.(*Term)
	if t == nil {
		r.undecided("Y3", "TriangleISet.Equals", fn.Pos(), "result not scalar")
		return
	}
	a, b := paramName(fn, 0), paramName(fn, 1)
	cs := eventsOf(ev, "(github.com/deadsy/sdfx/render.TriangleISet).Canonical")
	canonBoth := false
	if len(cs) == 2 {
		k0, k1 := valKey(cs[0].Args[0]), valKey(cs[1].Args[0])
		canonBoth = (strings.HasSuffix(k0, ":"+a) && strings.HasSuffix(k1, ":"+b)) || (strings.HasSuffix(k0, ":"+b) && strings.HasSuffix(k1, ":"+a))
	}
	r.check("Y3", "TriangleISet.Equals|canonicalises-both-operands", fn.Pos(), canonBoth, fmt.Sprintf("%d Canonical calls", len(cs)))
	// length test
	lenTest := len(findSub(t, func(x *Term) bool {
		return x.Op == "cmp" && (x.S == "!=" || x.S == "==") && strings.HasPrefix(x.Args[0].Key(), "len(") && strings.HasPrefix(x.Args[1].Key(), "len(")
	})) > 0
	// when lengths differ the result is false
	r.check("Y3", "TriangleISet.Equals|length-test", fn.Pos(), lenTest, "sets of different size are unequal")
	// component comparisons
	comps := map[int]bool{}
	okShape := true
	for _, c := range findSub(t, func(x *Term) bool { return x.Op == "cmp" && (x.S == "!=" || x.S == "==") }) {
		l, rr := c.Args[0].Key(), c.Args[1].Key()
		if !strings.Contains(l, "Canonical(") || !strings.Contains(rr, "Canonical(") {
			continue
		}
		// ...Canonical(ts)[IDX][k]
		li, lk := splitIdx(l)
		ri, rk := splitIdx(rr)
		if lk < 0 || lk != rk || li != ri {
			okShape = false
			continue
		}
		if strings.Contains(l, "("+a+")") == strings.Contains(rr, "("+a+")") {
			okShape = false
		}
		comps[lk] = true
	}
	var ks []int
	for k := range comps {
		ks = append(ks, k)
	}
	sort.Ints(ks)
	r.check("Y3", "TriangleISet.Equals|compares-all-three-indices-at-each-position", fn.Pos(), okShape && len(comps) == 3, fmt.Sprintf("components compared between the canonical forms at the same position: %v", ks))
}

// splitIdx: "...X)[IDX][k]" -> (IDX, k)
func splitIdx(s string) (string, int) {
	if !strings.HasSuffix(s, "]") {
		return "", -1
	}
	i := strings.LastIndex(s, "[")
	k := -1
	fmt.Sscanf(s[i:], "[%d]", &k)
	rest := s[:i]
	if !strings.HasSuffix(rest, "]") {
		return "", -1
	}
	// matching bracket
	depth := 0
	for p := len(rest) - 1; p >= 0; p-- {
		switch rest[p] {
		case ']':
			depth++
		case '[':
			depth--
			if depth == 0 {
				return rest[p:], k
			}
		}
	}
	return "", -1
}

// ---------------------------------------------------------------- Y4 / Y5: circumcircle algebra

func init() {
	prev := registry["C20"].run
	registry["C20"] = propDef{run: func(ctx *Ctx, r *Report, tier string) {
		prev(ctx, r, tier)
		checkCircumcenter(ctx, r, ctx.ssaFunc("sdf", "(Triangle2).Circumcenter"), "sdf.Triangle2.Circumcenter")
		if cf := ctx.ssaFunc("sdf", "(verifCtlTriangle2).Circumcenter"); cf != nil {
			checkCircumcenter(ctx, r, cf, "verifCtlTriangle2.Circumcenter")
			r.expectControl("Y4", "verifCtlTriangle2.Circumcenter")
		}
		checkInCircumcircle(ctx, r)
		checkSuperTriangle(ctx, r)
		checkParallelSlices(ctx, r)
		checkHullTest(ctx, r)
		checkReferenceVisitsEveryTriple(ctx, r)
		checkCanonicalHasNoShortcut(ctx, r)
		checkCavityEdges(ctx, r)
		checkInsertionOrder(ctx, r)
		checkReferenceKeepsOrder(ctx, r)
		r.floor("Y4", 3)
		r.floor("Y5", 2)
	}}
}

// checkCircumcenter: in every branch the returned point is equidistant from
// the three vertices (an identity of rational functions; in the branches taken
// when two y-coordinates coincide, under that equality).
func checkCircumcenter(ctx *Ctx, r *Report, fn *ssa.Function, key string) {
	if fn == nil {
		r.undecided("Y4", key, 0, "function not found")
		return
	}
	ev := newEval(ctx)
	res, _ := ev.evalRoot(fn)
	tup, _ := res.(*Tuple)
	if tup == nil || len(tup.Elems) != 2 {
		r.undecided("Y4", key, fn.Pos(), "unexpected result shape")
		return
	}
	leaves := map[string]*Term{}
	leafTerms("", tup.Elems[0], leaves)
	xc, yc := leaves[".X"], leaves[".Y"]
	if xc == nil || yc == nil {
		r.undecided("Y4", key, fn.Pos(), "no centre coordinates")
		return
	}
	recv := paramName(fn, 0)
	X := func(i int) *Term { return A(fmt.Sprintf("%s[%d].X", recv, i)) }
	Y := func(i int) *Term { return A(fmt.Sprintf("%s[%d].Y", recv, i)) }
	// the epsilon tests
	conds := map[string]*Term{}
	for _, c := range append(condAtoms(xc), condAtoms(yc)...) {
		conds[c.Key()] = c
	}
	type test struct {
		c    *Term
		i, j int // the two y's it compares (-1: an ordering test between the two differences)
	}
	var tests []test
	for _, c := range conds {
		as := atomList(c)
		ys := map[int]bool{}
		for _, a := range as {
			for i := 0; i < 3; i++ {
				if a == fmt.Sprintf("%s[%d].Y", recv, i) {
					ys[i] = true
				}
			}
		}
		t := test{c: c, i: -1, j: -1}
		if len(ys) == 2 && c.Op == "cmp" && (c.S == "<" || c.S == "<=") {
			for i := range ys {
				if t.i < 0 {
					t.i = i
				} else {
					t.j = i
				}
			}
			if t.i > t.j {
				t.i, t.j = t.j, t.i
			}
		}
		tests = append(tests, t)
	}
	sort.Slice(tests, func(a, b int) bool { return tests[a].c.Key() < tests[b].c.Key() })
	if len(tests) > 6 {
		r.undecided("Y4", key, fn.Pos(), "too many branch conditions")
		return
	}
	tests0 := func(ts []test) []cond20 {
		out := make([]cond20, len(ts))
		for i, t := range ts {
			out[i] = cond20{t.c, t.i, t.j}
		}
		return out
	}
	n := 0
	for m := 0; m < 1<<uint(len(tests)); m++ {
		truth := map[string]bool{}
		subst := map[string]*Term{}
		nEq := 0
		desc := ""
		for k, t := range tests {
			v := m>>uint(k)&1 == 1
			truth[t.c.Key()] = v
			if v && t.i >= 0 {
				// |y_i - y_j| < eps: the branch treats them as equal
				subst[Y(t.j).S] = Y(t.i)
				nEq++
				desc += fmt.Sprintf("y%d=y%d ", t.i+1, t.j+1)
			}
		}
		if nEq >= 2 {
			continue // coincident points: the error branch
		}
		if desc == "" {
			desc = "general "
		}
		cx := substAtoms(assume(xc, truth), subst)
		cy := substAtoms(assume(yc, truth), subst)
		// |c−pi|² − |c−pj|² = (pj−pi)·(2c − pi − pj): linear in c, cheap to normalise
		eq := func(i, j int) bool {
			xi, xj := substAtoms(X(i), subst), substAtoms(X(j), subst)
			yi, yj := substAtoms(Y(i), subst), substAtoms(Y(j), subst)
			e := Add(Mul(Sub(xj, xi), Sub(Mul(K(2), cx), Add(xi, xj))), Mul(Sub(yj, yi), Sub(Mul(K(2), cy), Add(yi, yj))))
			return equalRat(e, K(0))
		}
		ok := eq(0, 1) && eq(1, 2)
		n++
		r.check("Y4", fmt.Sprintf("%s|branch[%s#%d]", key, strings.TrimSpace(desc), m), fn.Pos(), ok,
			"|c−p1|² ≡ |c−p2|² ≡ |c−p3|² as rational functions of the vertex coordinates; xc = "+shortKey(cx.Key(), 160))
	}
	r.Counts["circumcenter_branches"] += n
	checkBisectorChoice(r, fn, key, xc, yc, tests0(tests), Y)
}

type cond20 struct {
	c    *Term
	i, j int
}

// checkBisectorChoice (Y12): where the general branch chooses between the two perpendicular
// bisectors by comparing |Δy| of the two edges, the chosen bisector is the one of the edge with
// the LARGER |Δy| (slope −Δx/Δy of smaller magnitude). Both give the same centre as rational
// functions (Y4), but the other choice multiplies the cancellation error of xc − mx by a slope of
// up to 1/epsilon for nearly horizontal edges and the circumcircle is off by units.
// Decided on the closed form: under the ordering test each alternative of y_c has exactly one
// slope denominator as an outer factor of its products; it must be ±(the larger difference).
func checkBisectorChoice(r *Report, fn *ssa.Function, key string, xc, yc *Term, tests []cond20, Y func(int) *Term) {
	truth := map[string]bool{}
	var ord []*Term
	for _, t := range tests {
		if t.i >= 0 {
			truth[t.c.Key()] = false
		} else if t.c.Op == "cmp" && len(t.c.Args) == 2 {
			ord = append(ord, t.c)
		}
	}
	// the slope denominator with the highest power among the outer factors of the products
	// (x_c itself contains both slopes once; m_i·(x_c − mx_i) raises the chosen one to two)
	outer := func(t *Term) *Term {
		mult := map[string]int{}
		terms := map[string]*Term{}
		ps := []*Term{t}
		if t.Op == "+" {
			ps = t.Args
		}
		for _, p := range ps {
			fs := []*Term{p}
			if p.Op == "*" {
				fs = p.Args
			}
			cnt := map[string]int{}
			for _, f := range fs {
				if f.Op == "/" && len(findSub(f.Args[0], func(x *Term) bool { return x.Op == "/" })) == 0 {
					cnt[f.Args[0].Key()]++
					terms[f.Args[0].Key()] = f.Args[0]
				}
			}
			for k, n := range cnt {
				if n > mult[k] {
					mult[k] = n
				}
			}
		}
		var best *Term
		bestN, tie := 0, false
		for k, n := range mult {
			if n > bestN {
				best, bestN, tie = terms[k], n, false
			} else if n == bestN {
				tie = true
			}
		}
		if tie {
			return nil
		}
		return best
	}
	absArg := func(t *Term) *Term {
		if t.Op == "call" && t.S == "math.Abs" && len(t.Args) == 1 {
			return t.Args[0]
		}
		return nil
	}
	same := func(a, b *Term) bool { return equalRat(Sub(a, b), K(0)) || equalRat(Add(a, b), K(0)) }
	for _, c := range ord {
		l, s := absArg(c.Args[0]), absArg(c.Args[1])
		switch c.S {
		case ">", ">=":
		case "<", "<=":
			l, s = s, l
		default:
			continue
		}
		if l == nil || s == nil {
			continue
		}
		tt := map[string]bool{c.Key(): true}
		ff := map[string]bool{c.Key(): false}
		for k, v := range truth {
			tt[k], ff[k] = v, v
		}
		dT, dF := outer(assume(yc, tt)), outer(assume(yc, ff))
		a, b := dT, dF
		if a == nil || b == nil || a.Key() == b.Key() {
			continue // the choice is not in the recognised closed form: not decided here
		}
		ok := same(a, l) && same(b, s)
		r.Counts["bisector_choices"]++
		r.check("Y12", key+"|bisector-of-steeper-edge", fn.Pos(), ok,
			fmt.Sprintf("under %s the y of the centre is taken on the bisector dividing by %s (the larger |Δy|), otherwise by %s", shortKey(c.Key(), 120), shortKey(a.Key(), 60), shortKey(b.Key(), 60)))
	}
}

func checkInCircumcircle(ctx *Ctx, r *Report) {
	fn := ctx.ssaFunc("sdf", "(Triangle2).InCircumcircle")
	if fn == nil {
		r.undecided("Y5", "sdf.Triangle2.InCircumcircle", 0, "not found")
		return
	}
	ev := newEval(ctx, "Circumcenter")
	ev.evalRoot(fn)
	// the success alternative
	var inside, done *Term
	for _, alt := range ev.RootRets {
		t, _ := alt.Val.(*Tuple)
		if t == nil || len(t.Elems) != 2 {
			continue
		}
		a, _ := t.Elems[0].(*Term)
		b, _ := t.Elems[1].(*Term)
		if a != nil && b != nil && a.Op != "c" {
			inside, done = a, b
		}
	}
	if inside == nil {
		r.undecided("Y5", "sdf.Triangle2.InCircumcircle", fn.Pos(), "success return not found")
		return
	}
	recv, p := paramName(fn, 0), paramName(fn, 1)
	var cX, cY *Term
	for _, s := range findSub(inside, func(x *Term) bool { return x.Op == "a" && strings.Contains(x.S, "Circumcenter") }) {
		if strings.HasSuffix(s.S, ".X") {
			cX = s
		}
		if strings.HasSuffix(s.S, ".Y") {
			cY = s
		}
	}
	if cX == nil || cY == nil {
		r.check("Y5", "sdf.Triangle2.InCircumcircle|inside", fn.Pos(), false, "does not use the circumcentre: "+shortKey(inside.Key(), 160))
		return
	}
	sq := func(a *Term) *Term { return Mul(a, a) }
	r2 := Add(sq(Sub(A(recv+"[0].X"), cX)), sq(Sub(A(recv+"[0].Y"), cY)))
	d2 := Add(sq(Sub(A(p+".X"), cX)), sq(Sub(A(p+".Y"), cY)))
	okIn := inside.Op == "cmp" && (inside.S == "<=" || inside.S == "<")
	if okIn {
		lhs := Sub(inside.Args[0], inside.Args[1]) // d2 - r2 - eps <= 0
		diff := Sub(lhs, Sub(d2, r2))
		// what remains must be a constant tolerance (an epsilon atom or constant)
		okIn = len(atomList(diff)) <= 1 && !strings.Contains(diff.Key(), recv+"[") && !strings.Contains(diff.Key(), p+".")
	}
	r.check("Y5", "sdf.Triangle2.InCircumcircle|inside", fn.Pos(), okIn, "inside ≡ |p−c|² − |t0−c|² <= tolerance; term: "+shortKey(inside.Key(), 200))
	// done ≡ dx > 0 && dx² > r2
	okDone := false
	dx := Sub(A(p+".X"), cX)
	want1 := Cmp(">", dx, K(0))
	truthy := assume(done, map[string]bool{want1.Key(): true})
	falsy := assume(done, map[string]bool{want1.Key(): false})
	if falsy.IsZero() && truthy.Op == "cmp" && truthy.S == ">" {
		okDone = equalRat(Sub(truthy.Args[0], truthy.Args[1]), Sub(sq(dx), r2))
	}
	r.check("Y5", "sdf.Triangle2.InCircumcircle|done", fn.Pos(), okDone, "done ≡ (p.x − c.x > 0) ∧ (p.x − c.x)² > r² (pruning is valid only for vertices sorted by x); term: "+shortKey(done.Key(), 200))
}

// ---------------------------------------------------------------- Y6: the super triangle

// checkSuperTriangle: for two or more points the enclosing triangle is centred on the points'
// bounding box and its size grows with the extent along BOTH axes (a scale taken from one
// axis only is too small for point sets that are long in the other one: hull triangles are
// lost). Decided on the closed form of superTriangle over the opaque VecSet.Min/Max.
func checkSuperTriangle(ctx *Ctx, r *Report) {
	fn := ctx.ssaFunc("render", "superTriangle")
	if fn == nil {
		r.undecided("Y6", "superTriangle", 0, "not found")
		return
	}
	ev := newEval(ctx, "Min", "Max")
	res, _ := ev.evalRoot(fn)
	tup, _ := res.(*Tuple)
	var tri *Agg
	if tup != nil && len(tup.Elems) > 0 {
		tri, _ = tup.Elems[0].(*Agg)
	}
	if tri == nil || len(tri.Elems) != 3 {
		r.undecided("Y6", "superTriangle", fn.Pos(), "result is not a triangle in closed form")
		return
	}
	general := map[string]bool{Cmp("==", A("len(vs)"), K(0)).Key(): false, Cmp("==", A("len(vs)"), K(1)).Key(): false}
	coord := func(v, c int) *Term {
		a, _ := tri.Elems[v].(*Agg)
		if a == nil || c >= len(a.Elems) {
			return nil
		}
		t, _ := a.Elems[c].(*Term)
		if t == nil {
			return nil
		}
		return assume(t, general)
	}
	var xs, ys [3]*Term
	for v := 0; v < 3; v++ {
		xs[v], ys[v] = coord(v, 0), coord(v, 1)
		if xs[v] == nil || ys[v] == nil {
			r.undecided("Y6", "superTriangle", fn.Pos(), "vertex coordinates are not scalar terms")
			return
		}
	}
	// extents: the atoms of the opaque Min/Max calls
	var minX, maxX, minY, maxY string
	all := map[string]bool{}
	for v := 0; v < 3; v++ {
		xs[v].Atoms(all)
		ys[v].Atoms(all)
	}
	for a := range all {
		switch {
		case strings.Contains(a, ".Min(vs)") && strings.HasSuffix(a, ".X"):
			minX = a
		case strings.Contains(a, ".Max(vs)") && strings.HasSuffix(a, ".X"):
			maxX = a
		case strings.Contains(a, ".Min(vs)") && strings.HasSuffix(a, ".Y"):
			minY = a
		case strings.Contains(a, ".Max(vs)") && strings.HasSuffix(a, ".Y"):
			maxY = a
		}
	}
	if minX == "" || maxX == "" || minY == "" || maxY == "" {
		r.check("Y6", "superTriangle|size-follows-both-extents", fn.Pos(), false, fmt.Sprintf("the triangle does not depend on all four bounds of the point set: minX=%q maxX=%q minY=%q maxY=%q", minX, maxX, minY, maxY))
		return
	}
	// width and height of the triangle
	w := Sub(xs[2], xs[0])
	h := Sub(ys[1], ys[0])
	ok := true
	detail := ""
	for _, a := range []struct {
		name       string
		t          *Term
		atom, want string
	}{{"width", w, maxX, "+"}, {"width", w, minX, "-"}, {"height", h, maxY, "+"}, {"height", h, minY, "-"}} {
		if got := Polarity(a.t, a.atom); got != a.want {
			ok = false
			detail += fmt.Sprintf(" %s is %q in %s (expected %q);", a.name, got, shortKey(a.atom, 40), a.want)
		}
	}
	r.check("Y6", "superTriangle|size-follows-both-extents", fn.Pos(), ok, "the width of the enclosing triangle grows with the extent of the points along x and its height with their extent along y;"+detail)
	// containment wherever the cloud lies: Bowyer-Watson needs every point inside the triangle,
	// near the origin or a million extents away from it. The closed form is evaluated for
	// bounding boxes at increasing distance from the origin; each corner of the box must be
	// strictly inside the triangle.
	bad := ""
	nBox := 0
	for _, b := range [][4]float64{{0, 0, 1, 1}, {-50, -50, 50, 50}, {1000, 1000, 1001, 1001}, {30000, -20000, 30001, -19999}, {100, 50, 100.01, 50.005},
		{-4.2e6, 7.7e5, -4.2e6 + 10, 7.7e5 + 3}, {5, -900000, 6, -899990}, {-3, -2, -1, 40}} {
		env := map[string]float64{minX: b[0], minY: b[1], maxX: b[2], maxY: b[3]}
		var px, py [3]float64
		okE := true
		for v := 0; v < 3; v++ {
			var o1, o2 bool
			px[v], o1 = evalFloat(stripConv(xs[v]), env)
			py[v], o2 = evalFloat(stripConv(ys[v]), env)
			okE = okE && o1 && o2
		}
		if !okE {
			continue
		}
		nBox++
		for _, c := range [][2]float64{{b[0], b[1]}, {b[2], b[1]}, {b[0], b[3]}, {b[2], b[3]}} {
			pos, neg := 0, 0
			for v := 0; v < 3; v++ {
				w := (v + 1) % 3
				cr := (px[w]-px[v])*(c[1]-py[v]) - (py[w]-py[v])*(c[0]-px[v])
				if cr > 0 {
					pos++
				} else if cr < 0 {
					neg++
				}
			}
			if !(pos == 3 || neg == 3) && len(bad) < 300 {
				bad += fmt.Sprintf(" points spanning [%g,%g]x[%g,%g]: corner (%g,%g) is outside the triangle (%.6g,%.6g) (%.6g,%.6g) (%.6g,%.6g);", b[0], b[2], b[1], b[3], c[0], c[1], px[0], py[0], px[1], py[1], px[2], py[2])
				break
			}
		}
	}
	if nBox == 0 {
		r.undecided("Y6", "superTriangle|contains-the-points-wherever-they-lie", fn.Pos(), "the triangle is not a closed form of the four bounds")
		return
	}
	r.check("Y6", "superTriangle|contains-the-points-wherever-they-lie", fn.Pos(), bad == "", fmt.Sprintf("%d bounding boxes at up to 10^6 extents from the origin;%s", nBox, bad))
}

// ---------------------------------------------------------------- Y7: triangle list and its flags

// sameSSA: the two operands denote the same value (the same SSA value, equal constants, or the
// same arithmetic on such operands - go/ssa does not share common subexpressions).
func sameSSA(a, b ssa.Value) bool {
	if a == b {
		return true
	}
	if a == nil || b == nil {
		return false
	}
	if ca, ok := a.(*ssa.Const); ok {
		cb, ok := b.(*ssa.Const)
		return ok && ca.Value != nil && cb.Value != nil && ca.Value.ExactString() == cb.Value.ExactString()
	}
	if ba, ok := a.(*ssa.BinOp); ok {
		bb, ok := b.(*ssa.BinOp)
		return ok && ba.Op == bb.Op && sameSSA(ba.X, bb.X) && sameSSA(ba.Y, bb.Y)
	}
	return false
}

// checkParallelSlices: Delaunay2d keeps a flag per triangle in a second slice. As long as a flag
// can still be read, every operation that changes the length of the triangle list or moves a
// triangle (re-slice, append, copy-in of the tail) has its twin on the flag slice in the same
// basic block with the same operands; otherwise flag j no longer belongs to triangle j.
func checkParallelSlices(ctx *Ctx, r *Report) {
	fn := ctx.ssaFunc("render", "Delaunay2d")
	if fn == nil {
		r.undecided("Y7", "Delaunay2d", 0, "not found")
		return
	}
	kindOf := func(t types.Type) string {
		sl, ok := t.Underlying().(*types.Slice)
		if !ok {
			return ""
		}
		if b, ok := sl.Elem().Underlying().(*types.Basic); ok && b.Kind() == types.Bool {
			return "flags"
		}
		if strings.HasSuffix(sl.Elem().String(), "render.TriangleI") {
			return "tris"
		}
		return ""
	}
	type op struct {
		kind string // reslice / append / move
		a, b ssa.Value
		ins  ssa.Instruction
	}
	ops := map[*ssa.BasicBlock]map[string][]op{}
	flagReads := map[*ssa.BasicBlock]bool{}
	add := func(b *ssa.BasicBlock, which string, o op) {
		if ops[b] == nil {
			ops[b] = map[string][]op{}
		}
		ops[b][which] = append(ops[b][which], o)
	}
	nFlags := 0
	allInstrs(fn, func(b *ssa.BasicBlock, ins ssa.Instruction) {
		switch x := ins.(type) {
		case *ssa.Slice:
			if k := kindOf(x.X.Type()); k != "" && x.Low == nil {
				add(b, k, op{kind: "reslice", a: x.High, ins: ins})
			}
		case *ssa.Call:
			if bi, ok := x.Call.Value.(*ssa.Builtin); ok && bi.Name() == "append" && len(x.Call.Args) > 0 {
				if k := kindOf(x.Call.Args[0].Type()); k != "" {
					add(b, k, op{kind: "append", ins: ins})
				}
			}
		case *ssa.Store:
			ia, ok := x.Addr.(*ssa.IndexAddr)
			if !ok {
				return
			}
			k := kindOf(ia.X.Type())
			if k == "" {
				return
			}
			if ld, ok := x.Val.(*ssa.UnOp); ok && ld.Op == token.MUL {
				if sa, ok := ld.X.(*ssa.IndexAddr); ok && kindOf(sa.X.Type()) == k {
					add(b, k, op{kind: "move", a: ia.Index, b: sa.Index, ins: ins})
				}
			}
		case *ssa.UnOp:
			if x.Op == token.MUL {
				if ia, ok := x.X.(*ssa.IndexAddr); ok && kindOf(ia.X.Type()) == "flags" {
					// the load that feeds a move of the flags themselves is not a use of a flag
					isMoveSrc := false
					if x.Referrers() != nil {
						for _, u := range *x.Referrers() {
							if st, ok := u.(*ssa.Store); ok && st.Val == x {
								isMoveSrc = true
							}
						}
					}
					if !isMoveSrc {
						flagReads[b] = true
						nFlags++
					}
				}
			}
		}
	})
	if nFlags == 0 {
		r.check("Y7", "Delaunay2d|flags-follow-their-triangles", fn.Pos(), true, "no separate flag slice is read: nothing to keep in step")
		return
	}
	n := 0
	for _, b := range fn.Blocks {
		for _, o := range ops[b]["tris"] {
			// can a flag still be read after this operation?
			live := false
			for rb := range reachableFrom(b) {
				if flagReads[rb] {
					live = true
				}
			}
			if !live {
				continue
			}
			n++
			twin := false
			for _, f := range ops[b]["flags"] {
				if f.kind == o.kind && sameSSA(f.a, o.a) && sameSSA(f.b, o.b) {
					twin = true
				}
			}
			if !twin && o.kind == "append" {
				// appended triangles may get their (false) flags in bulk later, as long as that
				// happens before any flag is read: `flags = append(flags, make([]bool, len(tris)-len(flags))...)`
				resync := map[*ssa.BasicBlock]bool{}
				allInstrs(fn, func(rb *ssa.BasicBlock, ins ssa.Instruction) {
					c, ok := ins.(*ssa.Call)
					if !ok {
						return
					}
					bi, ok := c.Call.Value.(*ssa.Builtin)
					if !ok || bi.Name() != "append" || len(c.Call.Args) != 2 || kindOf(c.Call.Args[0].Type()) != "flags" {
						return
					}
					mk, ok := c.Call.Args[1].(*ssa.MakeSlice)
					if !ok {
						return
					}
					d, ok := mk.Len.(*ssa.BinOp)
					if !ok || d.Op != token.SUB {
						return
					}
					lt, okT := lenCallOf(d.X)
					lf, okF := lenCallOf(d.Y)
					if okT && okF && kindOf(lt.Type()) == "tris" && kindOf(lf.Type()) == "flags" {
						resync[rb] = true
					}
				})
				if len(resync) > 0 {
					// flag reads reachable from here without passing a resynchronisation
					seen := map[*ssa.BasicBlock]bool{}
					work := append([]*ssa.BasicBlock{}, b.Succs...)
					hit := false
					for len(work) > 0 {
						x := work[len(work)-1]
						work = work[:len(work)-1]
						if seen[x] || resync[x] {
							continue
						}
						seen[x] = true
						if flagReads[x] {
							hit = true
						}
						work = append(work, x.Succs...)
					}
					twin = !hit && !resync[b] || (resync[b] && !hit)
				}
			}
			r.check("Y7", fmt.Sprintf("Delaunay2d|%s#%d|flags-follow-their-triangles", o.kind, n), o.ins.Pos(), twin, "the triangle list is changed here ("+o.kind+") while completion flags are still consulted: the flag slice needs the same operation with the same operands in the same block")
		}
	}
	r.floor("Y7", 3)
}

// ---------------------------------------------------------------- Y8: the reference's hull test

// checkHullTest: the brute-force reference keeps a triangle iff no other lifted point lies below
// its plane: the signed distance (a dot product with the plane normal) is compared with zero. An
// absolute threshold is wrong for small point sets (everything within it counts as "on the plane").
func checkHullTest(ctx *Ctx, r *Report) {
	fn := ctx.ssaFunc("render", "Delaunay2dSlow")
	if fn == nil {
		r.undecided("Y8", "Delaunay2dSlow", 0, "not found")
		return
	}
	n := 0
	seen := map[*ssa.Function]bool{}
	var walk func(f *ssa.Function, depth int)
	walk = func(f *ssa.Function, depth int) {
		if seen[f] || len(f.Blocks) == 0 || depth > 2 {
			return
		}
		seen[f] = true
		allInstrs(f, func(b *ssa.BasicBlock, ins ssa.Instruction) {
			if ci, ok := ins.(ssa.CallInstruction); ok {
				if g := ci.Common().StaticCallee(); g != nil && inModule(g) && g.Pkg == fn.Pkg {
					walk(g, depth+1)
				}
			}
			bo, ok := ins.(*ssa.BinOp)
			if !ok {
				return
			}
			switch bo.Op {
			case token.GTR, token.GEQ, token.LSS, token.LEQ:
			default:
				return
			}
			isDot := func(v ssa.Value) bool {
				c, ok := v.(*ssa.Call)
				if !ok {
					return false
				}
				g := c.Call.StaticCallee()
				return g != nil && g.Name() == "Dot"
			}
			var other ssa.Value
			switch {
			case isDot(bo.X):
				other = bo.Y
			case isDot(bo.Y):
				other = bo.X
			default:
				return
			}
			n++
			zero := false
			if c, ok := other.(*ssa.Const); ok && c.Value != nil {
				if q, ok := constantToRat(c.Value); ok && q.Sign() == 0 {
					zero = true
				}
			}
			r.check("Y8", fmt.Sprintf("%s|plane-side-test#%d|threshold-is-zero", shortFn(f), n), bo.Pos(), zero, "which side of the triangle's plane a lifted point lies on is the sign of the dot product: compared with 0, not with a length-scale dependent constant")
		})
	}
	walk(fn, 0)
	r.floor("Y8", 1)
}

// checkReferenceVisitsEveryTriple (Y9): the brute-force reference starts from the index triple
// {0, 1, 2} and steps to the next combination after examining the current one. A loop that
// advances first (`for nextCombination(n, c) {`) never examines the first triple: the reference
// then lacks a triangle whenever points 0, 1, 2 form one (always for three points; likely after
// the fast path has x-sorted the slice in place). Decided on the CFG: the block that reads the
// triple to build the candidate triangle is reachable from the entry without passing a call of
// the stepping function.
func checkReferenceVisitsEveryTriple(ctx *Ctx, r *Report) {
	fn := ctx.ssaFunc("render", "Delaunay2dSlow")
	if fn == nil {
		r.undecided("Y9", "Delaunay2dSlow", 0, "not found")
		return
	}
	// the stepping calls, and the first read of the combination slice they step
	var steps []*ssa.Call
	allInstrs(fn, func(_ *ssa.BasicBlock, ins ssa.Instruction) {
		if c, ok := ins.(*ssa.Call); ok {
			if g := c.Call.StaticCallee(); g != nil && strings.Contains(strings.ToLower(g.Name()), "combination") {
				steps = append(steps, c)
			}
		}
	})
	if len(steps) == 0 {
		r.check("Y9", "Delaunay2dSlow|first-triple-is-examined", fn.Pos(), true, "the reference does not step through combinations with a helper (rule not applicable to this shape)")
		r.floor("Y9", 1)
		return
	}
	var comb ssa.Value
	for _, a := range steps[0].Call.Args {
		if _, ok := a.Type().Underlying().(*types.Slice); ok {
			comb = a
		}
	}
	var reads []ssa.Instruction
	allInstrs(fn, func(_ *ssa.BasicBlock, ins ssa.Instruction) {
		if ia, ok := ins.(*ssa.IndexAddr); ok && comb != nil && sameSlice(ia.X, comb) {
			reads = append(reads, ia)
		}
	})
	if comb == nil || len(reads) == 0 {
		r.undecided("Y9", "Delaunay2dSlow", fn.Pos(), "the combination slice or its reads were not found")
		return
	}
	// forward search from the entry; a block with a stepping call is passable only up to the call
	stepIn := map[*ssa.BasicBlock]ssa.Instruction{}
	for _, c := range steps {
		if _, has := stepIn[c.Block()]; !has {
			stepIn[c.Block()] = c
		}
	}
	reached := false
	seen := map[*ssa.BasicBlock]bool{}
	work := []*ssa.BasicBlock{fn.Blocks[0]}
	for len(work) > 0 && !reached {
		b := work[len(work)-1]
		work = work[:len(work)-1]
		if seen[b] {
			continue
		}
		seen[b] = true
		blocked := false
		for _, ins := range b.Instrs {
			if ins == stepIn[b] {
				blocked = true
				break
			}
			for _, rd := range reads {
				if ins == rd {
					reached = true
				}
			}
		}
		if !blocked {
			work = append(work, b.Succs...)
		}
	}
	r.check("Y9", "Delaunay2dSlow|first-triple-is-examined", fn.Pos(), reached, fmt.Sprintf("%d reads of the index triple, %d stepping calls: a read is reachable from the entry before any step", len(reads), len(steps)))
	r.floor("Y9", 1)
}

// checkCanonicalHasNoShortcut (Y3): the canonical form of a set is reached by rotating every
// triple and then sorting, always. An early return for a set that "is already sorted" skips the
// rotations: {[1 2 0]} and {[0 1 2]} then compare unequal. Every return lies behind the sort.
func checkCanonicalHasNoShortcut(ctx *Ctx, r *Report) {
	fn := ctx.ssaFunc("render", "(TriangleISet).Canonical")
	if fn == nil {
		return // Y3 reports it
	}
	var sorts []ssa.Instruction
	allInstrs(fn, func(_ *ssa.BasicBlock, ins ssa.Instruction) {
		if c, ok := ins.(*ssa.Call); ok {
			if g := c.Call.StaticCallee(); g != nil && g.Pkg != nil && (g.Pkg.Pkg.Path() == "sort" || g.Pkg.Pkg.Path() == "slices") && strings.HasPrefix(g.Name(), "S") && g.Name() != "Search" {
				sorts = append(sorts, ins)
			}
		}
	})
	bad := ""
	nRet := 0
	allInstrs(fn, func(b *ssa.BasicBlock, ins ssa.Instruction) {
		if _, ok := ins.(*ssa.Return); !ok || fn.Recover == b {
			return
		}
		nRet++
		behind := false
		for _, s := range sorts {
			if s.Block() == b || s.Block().Dominates(b) {
				behind = true
			}
		}
		if !behind {
			bad += " the return at " + ctx.pos(lastPos(b)) + " can be reached without sorting;"
		}
	})
	r.check("Y3", "TriangleISet.Canonical|no-return-before-rotation-and-sort", fn.Pos(), bad == "" && len(sorts) > 0, fmt.Sprintf("%d returns, %d sorting calls;%s", nRet, len(sorts), bad))
}

// checkCavityEdges (Y10, Y11): after the triangles whose circumcircle contains the new point are
// removed, their edges are collected; an edge shared by two removed triangles is interior to the
// cavity and is tagged, every other edge gets a triangle to the new point.
//
//	Y10  two edges are the same edge when they join the same two vertices: the tagging is decided
//	     by equality comparisons of their end point indices and nothing else. (A packed key
//	     lo·n+hi collides - the edge list also holds the super triangle's indices n..n+2.)
//	Y11  every edge that is not tagged gets its triangle: inside the loop that forms the new
//	     triangles a branch that can bypass the append tests an end point index against zero
//	     (the tag) and nothing else. (An area threshold leaves holes in small-scale point sets.)
func checkCavityEdges(ctx *Ctx, r *Report) {
	fn := ctx.ssaFunc("render", "Delaunay2d")
	if fn == nil {
		r.undecided("Y10", "Delaunay2d", 0, "not found")
		return
	}
	isEdge := func(t types.Type) bool { return strings.HasSuffix(t.String(), "render.EdgeI") }
	isTri := func(t types.Type) bool { return strings.HasSuffix(t.String(), "render.TriangleI") }
	// an end point index: an element of an edge (loaded through index expressions only)
	var endpoint func(v ssa.Value, depth int) bool
	endpoint = func(v ssa.Value, depth int) bool {
		if depth > 6 {
			return false
		}
		switch x := v.(type) {
		case *ssa.UnOp:
			if x.Op == token.MUL {
				if ia, ok := x.X.(*ssa.IndexAddr); ok {
					return isEdge(derefType(ia.X.Type())) || endpointBase(ia.X, isEdge)
				}
			}
		case *ssa.Index:
			return isEdge(x.X.Type())
		case *ssa.Extract:
			return endpoint(x.Tuple, depth+1)
		}
		return false
	}
	var onlyEq func(v ssa.Value, depth int) bool
	onlyEq = func(v ssa.Value, depth int) bool {
		if depth > 6 {
			return false
		}
		switch x := v.(type) {
		case *ssa.Const:
			return true
		case *ssa.BinOp:
			if x.Op == token.EQL || x.Op == token.NEQ {
				if bt, ok := x.X.Type().Underlying().(*types.Basic); ok && bt.Info()&types.IsBoolean != 0 {
					return onlyEq(x.X, depth+1) && onlyEq(x.Y, depth+1)
				}
				return endpoint(x.X, 0) && endpoint(x.Y, 0)
			}
			return false
		case *ssa.UnOp:
			return x.Op == token.NOT && onlyEq(x.X, depth+1)
		case *ssa.Phi:
			for _, e := range x.Edges {
				if !onlyEq(e, depth+1) {
					return false
				}
			}
			return true
		case *ssa.Call:
			// a predicate helper on two edges
			g := x.Call.StaticCallee()
			if g == nil || !inModule(g) || len(g.Blocks) == 0 {
				return false
			}
			ok := true
			allInstrs(g, func(_ *ssa.BasicBlock, ins ssa.Instruction) {
				if ret, isRet := ins.(*ssa.Return); isRet {
					for _, rv := range ret.Results {
						if !onlyEq(rv, depth+1) {
							ok = false
						}
					}
				}
				if iff, isIf := ins.(*ssa.If); isIf && !onlyEq(iff.Cond, depth+1) {
					ok = false
				}
			})
			return ok
		}
		return false
	}
	// a test of the tag itself: an end point index against 0 / -1, or an element of a slice of
	// flags kept beside the edge list
	isFlagLoad := func(v ssa.Value) bool {
		ld, ok := v.(*ssa.UnOp)
		if !ok || ld.Op != token.MUL {
			return false
		}
		ia, ok := ld.X.(*ssa.IndexAddr)
		if !ok {
			return false
		}
		sl, ok := ia.X.Type().Underlying().(*types.Slice)
		if !ok {
			return false
		}
		bt, ok := sl.Elem().Underlying().(*types.Basic)
		return ok && bt.Kind() == types.Bool
	}
	isTagTest := func(c ssa.Value) bool {
		c, _ = stripNot(c)
		if isFlagLoad(c) {
			return true
		}
		if bo, isB := c.(*ssa.BinOp); isB {
			switch bo.Op {
			case token.LSS, token.GEQ, token.LEQ, token.GTR, token.EQL, token.NEQ:
				if k, isK := constInt(bo.Y); isK && (k == 0 || k == -1) && endpoint(bo.X, 0) {
					return true
				}
			}
		}
		return false
	}
	// Y10: the stores of the tag (a constant edge into the edge list, or true into the flags), in
	// Delaunay2d or in a helper it hands the edge list to
	nTag := 0
	badTag := ""
	tagFns := []*ssa.Function{fn}
	allInstrs(fn, func(_ *ssa.BasicBlock, ins ssa.Instruction) {
		if c, ok := ins.(*ssa.Call); ok {
			if g := c.Call.StaticCallee(); g != nil && inModule(g) && len(g.Blocks) > 0 {
				for _, a := range c.Call.Args {
					if sl, ok := a.Type().Underlying().(*types.Slice); ok && isEdge(sl.Elem()) {
						tagFns = append(tagFns, g)
					}
				}
			}
		}
	})
	for _, tf := range tagFns {
		tf := tf
		allInstrs(tf, func(b *ssa.BasicBlock, ins ssa.Instruction) {
			fn := tf
			st, ok := ins.(*ssa.Store)
			if !ok {
				return
			}
			ia, ok := st.Addr.(*ssa.IndexAddr)
			if !ok {
				return
			}
			ld := innermostLoop(fn, b)
			if ld == nil {
				return
			}
			if k, isC := st.Val.(*ssa.Const); isC && isFlagLoad(&ssa.UnOp{Op: token.MUL, X: ia}) {
				// dup[j] = true
				if k.Value == nil || k.Value.Kind() != constant.Bool || !constant.BoolVal(k.Value) {
					return
				}
				nTag++
				for _, g := range branchGuards(b) {
					if !ld.in[g.at] && g.at != ld.header {
						continue
					}
					if il := innermostLoop(fn, g.at); il != nil && g.at == il.header {
						continue
					}
					if !onlyEq(g.cond, 0) && !isTagTest(g.cond) && len(badTag) < 300 {
						badTag += " the test at " + ctx.pos(branchPos(g.at, g.at.Instrs[len(g.at.Instrs)-1].(*ssa.If))) + " is not a comparison of end point indices;"
					}
				}
				return
			}
			// the tag written element by element through a pointer to the edge (`*a = EdgeI{-1, -1}`
			// is built in place): a negative constant stored into an element of an edge
			if k, isC := st.Val.(*ssa.Const); isC && isEdge(derefType(ia.X.Type())) {
				if k.Value == nil || k.Value.Kind() != constant.Int || constant.Sign(k.Value) >= 0 {
					return
				}
				nTag++
				for _, g := range branchGuards(b) {
					if !ld.in[g.at] && g.at != ld.header {
						continue
					}
					if il := innermostLoop(fn, g.at); il != nil && g.at == il.header {
						continue
					}
					if !onlyEq(g.cond, 0) && !isTagTest(g.cond) && len(badTag) < 300 {
						badTag += " the test at " + ctx.pos(branchPos(g.at, g.at.Instrs[len(g.at.Instrs)-1].(*ssa.If))) + " is not a comparison of end point indices;"
					}
				}
				return
			}
			if !isEdge(derefType(ia.Type())) {
				return
			}
			// is the stored value a constant edge (the tag), not a computed one?
			ldv, isLoad := st.Val.(*ssa.UnOp)
			if !isLoad || ldv.Op != token.MUL {
				return
			}
			lit, isAlloc := ldv.X.(*ssa.Alloc)
			if !isAlloc || lit.Referrers() == nil {
				return
			}
			constOnly, nEl := true, 0
			for _, ref := range *lit.Referrers() {
				ea, ok := ref.(*ssa.IndexAddr)
				if !ok || ea.Referrers() == nil {
					continue
				}
				for _, r2 := range *ea.Referrers() {
					if es, ok := r2.(*ssa.Store); ok && es.Addr == ssa.Value(ea) {
						nEl++
						if _, isC := es.Val.(*ssa.Const); !isC {
							constOnly = false
						}
					}
				}
			}
			if !constOnly || nEl == 0 {
				return
			}
			nTag++
			for _, g := range branchGuards(b) {
				if !ld.in[g.at] && g.at != ld.header {
					continue
				}
				if innermostLoop(fn, g.at) != nil && g.at == innermostLoop(fn, g.at).header {
					continue // loop tests
				}
				if !onlyEq(g.cond, 0) && !isTagTest(g.cond) && len(badTag) < 300 {
					badTag += " the test at " + ctx.pos(branchPos(g.at, g.at.Instrs[len(g.at.Instrs)-1].(*ssa.If))) + " is not a comparison of end point indices;"
				}
			}
		})
	}
	r.check("Y10", "Delaunay2d|shared-edges-found-by-comparing-end-points", fn.Pos(), nTag > 0 && badTag == "", fmt.Sprintf("%d tagging stores, each behind equality tests of end point indices only;%s", nTag, badTag))
	r.floor("Y10", 1)
	// Y11: the append of the new triangle
	var app *ssa.Call
	allInstrs(fn, func(b *ssa.BasicBlock, ins ssa.Instruction) {
		c, ok := ins.(*ssa.Call)
		if !ok {
			return
		}
		bi, ok := c.Call.Value.(*ssa.Builtin)
		if !ok || bi.Name() != "append" || len(c.Call.Args) == 0 {
			return
		}
		if sl, ok := c.Call.Args[0].Type().Underlying().(*types.Slice); ok && isTri(sl.Elem()) && innermostLoop(fn, b) != nil {
			// the one fed by an edge: the last such append in the insertion loop
			app = c
		}
	})
	if app == nil {
		r.undecided("Y11", "Delaunay2d", fn.Pos(), "no append of a new triangle inside a loop")
		return
	}
	ld := innermostLoop(fn, app.Block())
	bad := ""
	nBr := 0
	for _, x := range ld.order {
		if x == ld.header || app.Block().Dominates(x) {
			continue
		}
		iff, ok := x.Instrs[len(x.Instrs)-1].(*ssa.If)
		if !ok || !reachesWithout(ld, x, app.Block()) {
			continue
		}
		nBr++
		if !isTagTest(iff.Cond) {
			bad += " the test at " + ctx.pos(branchPos(x, iff)) + " can skip an edge and is not a test of its tag;"
		}
	}
	r.check("Y11", "Delaunay2d|every-untagged-edge-gets-its-triangle", app.Pos(), bad == "", fmt.Sprintf("%d branches can bypass the new triangle, each a test of an end point index against the tag;%s", nBr, bad))
	r.floor("Y11", 1)
}

// endpointBase: v is an address inside an edge-typed value (an element of a slice of edges, a
// local edge variable).
func endpointBase(v ssa.Value, isEdge func(types.Type) bool) bool {
	for i := 0; i < 4 && v != nil; i++ {
		if isEdge(derefType(v.Type())) {
			return true
		}
		switch x := v.(type) {
		case *ssa.IndexAddr:
			v = x.X
		case *ssa.FieldAddr:
			v = x.X
		default:
			return false
		}
	}
	return false
}

// ---------------------------------------------------------------- Y13 / Y14: the vertex order

// sortCallsOn: the calls of package sort in fn whose first argument derives from v.
func sortCallsOn(fn *ssa.Function, v ssa.Value) []*ssa.Call {
	var derives func(x ssa.Value, d int) bool
	derives = func(x ssa.Value, d int) bool {
		if x == v {
			return true
		}
		if d > 6 {
			return false
		}
		switch y := x.(type) {
		case *ssa.MakeInterface:
			return derives(y.X, d+1)
		case *ssa.ChangeType:
			return derives(y.X, d+1)
		case *ssa.Convert:
			return derives(y.X, d+1)
		case *ssa.Slice:
			return derives(y.X, d+1)
		case *ssa.UnOp:
			// a parameter captured by a function literal lives in a cell
			if al, ok := y.X.(*ssa.Alloc); ok && y.Op == token.MUL {
				for _, ref := range *al.Referrers() {
					if st, ok := ref.(*ssa.Store); ok && st.Addr == ssa.Value(al) && derives(st.Val, d+1) {
						return true
					}
				}
			}
		}
		return false
	}
	var out []*ssa.Call
	allInstrs(fn, func(_ *ssa.BasicBlock, ins ssa.Instruction) {
		c, ok := ins.(*ssa.Call)
		if !ok {
			return
		}
		f := c.Common().StaticCallee()
		if f == nil || f.Pkg == nil || (f.Pkg.Pkg.Path() != "sort" && f.Pkg.Pkg.Path() != "slices") || len(c.Common().Args) == 0 {
			return
		}
		if derives(c.Common().Args[0], 0) {
			out = append(out, c)
		}
	})
	return out
}

// checkInsertionOrder (Y13): the `done` pruning of InCircumcircle (Y5) is valid only when the
// vertices are inserted in non-decreasing x. Delaunay2d sorts its vertex slice, and the
// comparator it sorts with puts a before b whenever a.x < b.x, however small the difference and
// whatever the y values (a comparator that treats x values within a tolerance as equal and
// falls back to y inserts a vertex before one with smaller x: triangles are closed too early).
// Decided on the comparator's closed form, evaluated exactly at witness pairs.
func checkInsertionOrder(ctx *Ctx, r *Report) {
	fn := ctx.ssaFunc("render", "Delaunay2d")
	if fn == nil || len(fn.Params) == 0 {
		r.undecided("Y13", "Delaunay2d", 0, "not found")
		return
	}
	calls := sortCallsOn(fn, fn.Params[0])
	if len(calls) == 0 {
		r.check("Y13", "Delaunay2d|vertices-sorted-by-x", fn.Pos(), false, "no sort of the vertex slice")
		return
	}
	for k, c := range calls {
		key := fmt.Sprintf("Delaunay2d|sort#%d-orders-by-x-strictly", k+1)
		var less *ssa.Function
		args := c.Common().Args
		if len(args) >= 2 {
			switch f := args[1].(type) {
			case *ssa.MakeClosure:
				less, _ = f.Fn.(*ssa.Function)
			case *ssa.Function:
				less = f
			}
		} else {
			var t types.Type
			x := args[0]
			for x != nil && t == nil {
				switch y := x.(type) {
				case *ssa.MakeInterface:
					t = y.X.Type()
				default:
					x = nil
				}
			}
			if t != nil {
				if sel := ctx.Prog.MethodSets.MethodSet(t).Lookup(nil, "Less"); sel != nil {
					less = ctx.Prog.MethodValue(sel)
				}
			}
		}
		if less == nil || len(less.Blocks) == 0 {
			r.undecided("Y13", key, c.Pos(), "comparator not found")
			continue
		}
		ev := newEval(ctx)
		res, _ := ev.evalRoot(less)
		t, _ := res.(*Term)
		if t == nil {
			r.undecided("Y13", key, c.Pos(), "comparator has no closed form")
			continue
		}
		np := len(less.Params)
		if np < 2 {
			r.undecided("Y13", key, c.Pos(), "comparator shape")
			continue
		}
		pi, pj := paramName(less, np-2), paramName(less, np-1)
		re := regexp.MustCompile(`^[\w.]+\[(\w+)\]\.(X|Y)$`)
		atoms := atomList(t)
		okAtoms := true
		for _, a := range atoms {
			m := re.FindStringSubmatch(a)
			if m == nil || (m[1] != pi && m[1] != pj) {
				okAtoms = false
			}
		}
		if !okAtoms {
			r.undecided("Y13", key, c.Pos(), "comparator reads more than the two vertices: "+strings.Join(atoms, ","))
			continue
		}
		eval := func(xi, yi, xj, yj *big.Rat) (v int, ok bool) {
			defer func() {
				if recover() != nil {
					ok = false
				}
			}()
			env := map[string]*big.Rat{}
			for _, a := range atoms {
				m := re.FindStringSubmatch(a)
				switch {
				case m[1] == pi && m[2] == "X":
					env[a] = xi
				case m[1] == pi && m[2] == "Y":
					env[a] = yi
				case m[1] == pj && m[2] == "X":
					env[a] = xj
				default:
					env[a] = yj
				}
			}
			return evalT(t, env).Sign(), true
		}
		bad := ""
		n := 0
		for _, e := range []int{-1000, -60, -40, -31, -20, 0, 30} {
			d := new(big.Rat).SetFrac(big.NewInt(1), new(big.Int).Lsh(big.NewInt(1), 1000))
			if e > -1000 {
				d = new(big.Rat).SetFloat64(math.Ldexp(1, e))
			}
			for _, base := range []int64{0, -7, 1 << 20} {
				x0 := big.NewRat(base, 1)
				x1 := new(big.Rat).Add(x0, d)
				for _, ys := range [][2]int64{{0, 1}, {1, 0}, {0, 0}, {-5, 1 << 30}} {
					y0, y1 := big.NewRat(ys[0], 1), big.NewRat(ys[1], 1)
					n++
					lt, ok1 := eval(x0, y0, x1, y1)
					gt, ok2 := eval(x1, y1, x0, y0)
					if !ok1 || !ok2 {
						bad = " cannot be evaluated"
					} else if (lt == 0 || gt != 0) && bad == "" {
						bad = fmt.Sprintf(" for a=(%s,%s), b=(a.x+2^%d,%s): less(a,b)=%v less(b,a)=%v", x0.RatString(), y0.RatString(), e, y1.RatString(), lt != 0, gt != 0)
					}
				}
			}
		}
		r.Counts["sort_witness_pairs"] += n
		r.check("Y13", key, c.Pos(), bad == "", "the comparator puts a before b whenever a.x < b.x (exact evaluation of its closed form "+shortKey(t.Key(), 100)+");"+bad)
	}
}

// checkReferenceKeepsOrder (Y14): the triangles are index triples into the caller's slice, and
// the fast path has sorted that slice in place by x alone; the reference is compared with it as
// a set of index triples. The reference therefore leaves the order of the slice alone: it calls
// no sorting function on it and stores into none of its elements (a reference that re-sorts by
// (x, y) numbers vertices with equal x differently and the two results stop being comparable).
func checkReferenceKeepsOrder(ctx *Ctx, r *Report) {
	fn := ctx.ssaFunc("render", "Delaunay2dSlow")
	if fn == nil || len(fn.Params) == 0 {
		r.undecided("Y14", "Delaunay2dSlow", 0, "not found")
		return
	}
	bad := ""
	if cs := sortCallsOn(fn, fn.Params[0]); len(cs) > 0 {
		bad = " sorted at " + ctx.pos(cs[0].Pos())
	}
	allInstrs(fn, func(_ *ssa.BasicBlock, ins ssa.Instruction) {
		if st, ok := ins.(*ssa.Store); ok {
			a := st.Addr
			if fa, ok := a.(*ssa.FieldAddr); ok {
				a = fa.X
			}
			if ia, ok := a.(*ssa.IndexAddr); ok && ia.X == ssa.Value(fn.Params[0]) && bad == "" {
				bad = " element stored at " + ctx.pos(st.Pos())
			}
		}
	})
	r.check("Y14", "Delaunay2dSlow|leaves-the-vertex-order-alone", fn.Pos(), bad == "", "no sort of, and no store into, the vertex slice;"+bad)
}
