package main

// The interprocedural core of E2: gated evaluation of one function.
//
// The CFG minus its back edges is a DAG; blocks are visited in reverse post
// order, every block gets a path condition, values merging at a join become
// ite terms on the (relative) edge conditions, and a loop header's phis and
// the memory the loop modifies become named recurrence atoms μ with a recorded
// (init, step) pair. Acyclic functions are thereby if-converted exactly;
// functions with loops are evaluated in two sweeps (the first discovers what
// the loops modify), never to a fix-point.

import (
	"fmt"
	"go/token"

	"golang.org/x/tools/go/ssa"
)

// RetAlt is one guarded return of the root function.
type RetAlt struct {
	Cond  *Term
	Val   Val
	State State
	Pos   token.Pos
}

func isBackEdge(p, b *ssa.BasicBlock) bool { return b.Dominates(p) }

const maxUnroll = 64

// loopDesc describes a natural loop. simple: the only way out is the header's own test (no
// break, return or panic in the body), the shape of every counted `for`/`range` loop.
type loopDesc struct {
	header     *ssa.BasicBlock
	body       *ssa.BasicBlock // the header's successor inside the loop
	order      []*ssa.BasicBlock
	in         map[*ssa.BasicBlock]bool
	innerBlock map[*ssa.BasicBlock]bool // blocks of nested loops other than their headers
	simple     bool
	// breaks: like simple, except that body blocks may also leave the loop (`for a && b`,
	// `break`): still executable iteration by iteration as long as every such test folds
	sideExits bool
}

func loopDescs(fn *ssa.Function, order []*ssa.BasicBlock) map[*ssa.BasicBlock]*loopDesc {
	out := map[*ssa.BasicBlock]*loopDesc{}
	for _, h := range order {
		var latches []*ssa.BasicBlock
		for _, p := range h.Preds {
			if isBackEdge(p, h) {
				latches = append(latches, p)
			}
		}
		if len(latches) == 0 {
			continue
		}
		ld := &loopDesc{header: h, in: map[*ssa.BasicBlock]bool{h: true}, innerBlock: map[*ssa.BasicBlock]bool{}}
		work := append([]*ssa.BasicBlock{}, latches...)
		for len(work) > 0 {
			b := work[len(work)-1]
			work = work[:len(work)-1]
			if ld.in[b] {
				continue
			}
			ld.in[b] = true
			work = append(work, b.Preds...)
		}
		for _, b := range order {
			if ld.in[b] {
				ld.order = append(ld.order, b)
			}
		}
		ld.simple = len(ld.order) > 0 && ld.order[0] == h
		iff, isIf := h.Instrs[len(h.Instrs)-1].(*ssa.If)
		if !isIf || iff == nil || len(h.Succs) != 2 || ld.in[h.Succs[0]] == ld.in[h.Succs[1]] {
			ld.simple = false
		} else if ld.in[h.Succs[0]] {
			ld.body = h.Succs[0]
		} else {
			ld.body = h.Succs[1]
		}
		shape := ld.simple
		for _, b := range ld.order {
			if b != h {
				for _, su := range b.Succs {
					if !ld.in[su] {
						ld.simple = false
						ld.sideExits = true
					}
				}
			}
			for _, ins := range b.Instrs {
				switch ins.(type) {
				case *ssa.Return:
					// `for i := range arr { if c(i) { return x } }`: executable iteration by
					// iteration like a loop with a break (the return is one more guarded alternative)
					ld.simple = false
					ld.sideExits = true
				case *ssa.Panic:
					ld.simple = false
					shape = false
				}
			}
		}
		ld.sideExits = ld.sideExits && shape
		out[h] = ld
	}
	// nested loops
	for _, ld := range out {
		for _, b := range ld.order[1:] {
			if inner := out[b]; inner != nil {
				for _, x := range inner.order[1:] {
					ld.innerBlock[x] = true
				}
			}
		}
	}
	return out
}

// simplified boolean connectives on condition terms
// cAnd right-nests conjunctions so that path conditions share structural prefixes.
func cAnd(a, b *Term) *Term {
	if a.Op == "ite" && a.Args[2].IsZero() {
		return Ite(a.Args[0], cAnd(a.Args[1], b), K(0))
	}
	return Ite(a, b, K(0))
}
func cOr(a, b *Term) *Term {
	if a.Key() == b.Key() {
		return a
	}
	// (c && x) || (c && y)  ->  c && (x || y)
	if a.Op == "ite" && b.Op == "ite" && a.Args[2].IsZero() && b.Args[2].IsZero() && a.Args[0].Key() == b.Args[0].Key() {
		return cAnd(a.Args[0], cOr(a.Args[1], b.Args[1]))
	}
	if a.Op == "not" && a.Args[0].Key() == b.Key() {
		return K(1)
	}
	if b.Op == "not" && b.Args[0].Key() == a.Key() {
		return K(1)
	}
	return Ite(a, K(1), b)
}

// stripCommon removes the conjuncts shared by all conditions.
func stripCommon(cs []*Term) []*Term {
	for {
		if len(cs) < 2 {
			return cs
		}
		ok := true
		for _, c := range cs {
			if c.Op != "ite" || !c.Args[2].IsZero() || c.Args[0].Key() != cs[0].Args[0].Key() {
				ok = false
				break
			}
		}
		if !ok {
			return cs
		}
		n := make([]*Term, len(cs))
		for i, c := range cs {
			n[i] = c.Args[1]
		}
		cs = n
	}
}

func (ev *Evaluator) Call(fn *ssa.Function, args []Val, free []Val, st *State) Val {
	if len(fn.Blocks) == 0 || len(ev.stack) > ev.maxDepth {
		return ev.opaque(fn.String(), args, fn.Signature.Results(), st, token.NoPos)
	}
	for _, f := range ev.stack {
		if f == fn {
			return ev.opaque("rec:"+fn.String(), args, fn.Signature.Results(), st, token.NoPos)
		}
	}
	ev.stack = append(ev.stack, fn)
	defer func() { ev.stack = ev.stack[:len(ev.stack)-1] }()
	root := len(ev.stack) == 1
	outerCond := ev.curCond
	if outerCond == nil {
		outerCond = K(1)
	}
	defer func() { ev.curCond = outerCond }()

	fr := &frame{fn: fn, env: map[ssa.Value]Val{}}
	for i, p := range fn.Params {
		if i < len(args) {
			fr.env[p] = args[i]
		}
	}
	for i, fv := range fn.FreeVars {
		if i < len(free) {
			fr.env[fv] = free[i]
		}
	}
	order := topoAll(fn)
	loops := loopDescs(fn, order)
	unrolled := map[*ssa.BasicBlock]bool{}
	tailDone := map[*ssa.BasicBlock]bool{} // break bodies executed as part of an unrolled loop (per sweep)
	sweeps := 1
	if !acyclic(fn) {
		sweeps = 2
	}
	type edge struct{ from, to *ssa.BasicBlock }
	dirty := map[*ssa.BasicBlock]map[*Obj]bool{}
	dirtyVals := map[*ssa.BasicBlock]map[*Obj][2]Val{} // value before / after one iteration (discovery sweep)
	muName := map[ssa.Value]string{}
	muObj := map[*ssa.BasicBlock]map[*Obj]string{}
	var rets []RetAlt
	nev0 := len(ev.Events)
	for sweep := 0; sweep < sweeps; sweep++ {
		last := sweep == sweeps-1
		if !last {
			// events of the discovery sweep are discarded
		}
		ev.Events = ev.Events[:nev0]
		rets = nil
		cond := map[*ssa.BasicBlock]*Term{}
		econd := map[edge]*Term{}
		outSt := map[*ssa.BasicBlock]State{}
		// evalBlock interprets one block. hmode 0: ordinary (a loop header is summarised by
		// recurrence atoms); 1: first iteration of an unrolled loop (forward predecessors only,
		// no recurrence atoms); 2: a later iteration (the incoming edges, states and phi values
		// are those handed over in `ui`, captured from the previous iteration's back edges).
		type unrollIn struct {
			conds  []*Term
			states []State
			phis   map[*ssa.Phi]Val
			cond   *Term
		}
		evalBlock := func(b *ssa.BasicBlock, hmode int, ui *unrollIn) bool {
			var cur State
			header := false
			var inPreds []*ssa.BasicBlock
			if hmode == 2 {
				// the iteration is reached under the conditions of the back edges taken (they are
				// stronger than the previous header's condition when an iteration can also leave
				// through a symbolic exit)
				hc := ui.cond
				if len(ui.conds) > 0 {
					hc = ui.conds[0]
					for _, c := range ui.conds[1:] {
						hc = cOr(hc, c)
					}
				}
				cond[b] = hc
				rel := stripCommon(ui.conds)
				cur = ui.states[0].clone()
				for i := 1; i < len(ui.states); i++ {
					cur = iteState(rel[i], ui.states[i], cur)
				}
			} else if b == fn.Blocks[0] {
				cond[b] = K(1)
				cur = st.clone()
			} else {
				var cs []*Term
				for _, p := range b.Preds {
					if isBackEdge(p, b) {
						header = hmode == 0
						continue
					}
					if ec, ok := econd[edge{p, b}]; ok && !ec.IsZero() {
						inPreds = append(inPreds, p)
						cs = append(cs, ec)
					}
				}
				if len(inPreds) == 0 {
					return false // unreachable
				}
				c := cs[0]
				for _, x := range cs[1:] {
					c = cOr(x, c)
				}
				cond[b] = c
				rel := stripCommon(cs)
				cur = outSt[inPreds[0]].clone()
				for i := 1; i < len(inPreds); i++ {
					cur = iteState(rel[i], outSt[inPreds[i]], cur)
				}
				// objects created inside a loop survive its exit: carry them
				// from the back-edge states of a header we are leaving
				for _, p := range inPreds {
					var bqs []State
					var bcs []*Term
					for _, q := range p.Preds {
						if !isBackEdge(q, p) {
							continue
						}
						if qs, done := outSt[q]; done {
							c, ok := econd[edge{q, p}]
							if !ok {
								c = K(1)
							}
							bqs = append(bqs, qs)
							bcs = append(bcs, c)
						}
					}
					if len(bqs) == 0 {
						continue
					}
					rel := stripCommon(bcs)
					merged := bqs[0]
					for i := 1; i < len(bqs); i++ {
						merged = iteState(rel[i], bqs[i], merged)
					}
					for o, v := range merged.mem {
						if _, have := cur.mem[o]; !have {
							cur.mem[o] = v
						}
					}
				}
			}
			if header && sweeps == 2 && sweep == 1 {
				if muObj[b] == nil {
					muObj[b] = map[*Obj]string{}
				}
				for o := range dirty[b] {
					nmuGlobal++
					name := fmt.Sprintf("μm%d", nmuGlobal)
					muObj[b][o] = name
					if d, ok := dirtyVals[b][o]; ok {
						cur.mem[o] = symLikeDiff(name, cur.mem[o], d[0], d[1])
					} else {
						cur.mem[o] = symLike(name, cur.mem[o])
					}
				}
			}
			ev.curCond = cAnd(outerCond, cond[b])
			// phis are a parallel assignment
			newPhi := map[*ssa.Phi]Val{}
			for _, ins := range b.Instrs {
				x, ok := ins.(*ssa.Phi)
				if !ok {
					break
				}
				if hmode == 2 {
					if v, ok := ui.phis[x]; ok {
						newPhi[x] = v
					}
					continue
				}
				if header {
					name, ok := muName[x]
					if !ok {
						nmuGlobal++
						name = fmt.Sprintf("μ%d", nmuGlobal)
						muName[x] = name
					}
					newPhi[x] = symVal(name, x.Type())
					continue
				}
				var vs []Val
				var cs []*Term
				for i, e := range x.Edges {
					if hmode == 1 && isBackEdge(b.Preds[i], b) {
						continue
					}
					if ec, ok := econd[edge{b.Preds[i], b}]; ok && !ec.IsZero() {
						vs = append(vs, fr.get(ev, e))
						cs = append(cs, ec)
					}
				}
				if len(vs) == 0 {
					continue
				}
				rel := stripCommon(cs)
				v := vs[0]
				for i := 1; i < len(vs); i++ {
					v = iteVal(rel[i], vs[i], v)
				}
				newPhi[x] = v
			}
			for x, v := range newPhi {
				fr.env[x] = v
			}
			for _, ins := range b.Instrs {
				switch x := ins.(type) {
				case *ssa.Phi:
				case *ssa.If:
					c, _ := fr.get(ev, x.Cond).(*Term)
					if c == nil {
						c = A("?cond")
					}
					if len(ev.assume) > 0 && (c.Op == "a" || (c.Op == "not" && c.Args[0].Op == "a")) {
						c = ev.decided(c) // a mode flag the rule fixes
					}
					econd[edge{b, b.Succs[0]}] = cAnd(cond[b], c)
					econd[edge{b, b.Succs[1]}] = cAnd(cond[b], Not(c))
				case *ssa.Jump:
					econd[edge{b, b.Succs[0]}] = cond[b]
				case *ssa.Return:
					var r Val
					if len(x.Results) == 1 {
						r = fr.get(ev, x.Results[0])
					} else if len(x.Results) > 1 {
						t := &Tuple{}
						for _, e := range x.Results {
							t.Elems = append(t.Elems, fr.get(ev, e))
						}
						r = t
					}
					rets = append(rets, RetAlt{Cond: cond[b], Val: r, State: cur.clone(), Pos: x.Pos()})
				case *ssa.Panic:
				default:
					ev.instr(fr, ins, &cur)
					ev.curCond = cAnd(outerCond, cond[b])
				}
			}
			outSt[b] = cur
			return true
		}

		// tryUnroll executes a counted loop iteration by iteration while its header condition
		// folds to a constant. It reports false (leaving every map as it found it) when the loop
		// is not of that kind; the caller then falls back to the recurrence summary.
		var tryUnroll func(ld *loopDesc, depth int) bool
		tryUnroll = func(ld *loopDesc, depth int) bool {
			if depth > 3 {
				return false
			}
			// snapshot for roll-back
			envS := make(map[ssa.Value]Val, len(fr.env))
			for k, v := range fr.env {
				envS[k] = v
			}
			condS := map[*ssa.BasicBlock]*Term{}
			for k, v := range cond {
				condS[k] = v
			}
			econdS := map[edge]*Term{}
			for k, v := range econd {
				econdS[k] = v
			}
			outS := map[*ssa.BasicBlock]State{}
			for k, v := range outSt {
				outS[k] = v
			}
			nev, nret, ctxS, curS := len(ev.Events), len(rets), ev.ctx, ev.curCond
			tailS := map[*ssa.BasicBlock]bool{}
			for k := range tailDone {
				tailS[k] = true
			}
			rollback := func() bool {
				fr.env = envS
				for k := range tailDone {
					if !tailS[k] {
						delete(tailDone, k)
					}
				}
				for k := range cond {
					delete(cond, k)
				}
				for k, v := range condS {
					cond[k] = v
				}
				for k := range econd {
					delete(econd, k)
				}
				for k, v := range econdS {
					econd[k] = v
				}
				for k := range outSt {
					delete(outSt, k)
				}
				for k, v := range outS {
					outSt[k] = v
				}
				ev.Events = ev.Events[:nev]
				rets = rets[:nret]
				ev.ctx, ev.curCond = ctxS, curS
				return false
			}
			h := ld.header
			// the body of an `if c { ...; break }` lies outside the natural loop but belongs to the
			// iteration that leaves: straight-line blocks entered only from the loop
			tail := map[*ssa.BasicBlock]bool{}
			var tails []*ssa.BasicBlock
			for _, b := range order {
				if ld.in[b] || len(b.Preds) != 1 || len(b.Succs) != 1 || loops[b] != nil {
					continue
				}
				if p := b.Preds[0]; p != h && (ld.in[p] || tail[p]) {
					tail[b] = true
					tails = append(tails, b)
				}
			}
			exitAcc := map[edge]*Term{}
			exitSt := map[edge]State{}
			var ui *unrollIn
			for k := 0; ; k++ {
				if k > maxUnroll || ev.steps >= ev.maxSteps() {
					return rollback()
				}
				ev.ctx = fmt.Sprintf("%s@%d:%d", ctxS, h.Index, k)
				mode := 1
				if k > 0 {
					mode = 2
				}
				if !evalBlock(h, mode, ui) {
					// the loop is unreachable: nothing to unroll, nothing to summarise
					ev.ctx = ctxS
					return true
				}
				iff, _ := h.Instrs[len(h.Instrs)-1].(*ssa.If)
				c, _ := fr.get(ev, iff.Cond).(*Term)
				if c == nil || !c.IsConst() {
					return rollback()
				}
				enters := (c.C.Sign() != 0) == (h.Succs[0] == ld.body)
				if !enters {
					break
				}
				for _, b := range ld.order[1:] {
					if ld.innerBlock[b] || tailDone[b] {
						continue // evaluated by its own (inner) loop
					}
					if inner := loops[b]; inner != nil {
						if !(inner.simple || inner.sideExits) || !tryUnroll(inner, depth+1) {
							return rollback()
						}
						continue
					}
					evalBlock(b, 0, nil)
				}
				for _, b := range tails {
					evalBlock(b, 0, nil)
				}
				// hand the back edges over to the next iteration
				ui = &unrollIn{phis: map[*ssa.Phi]Val{}, cond: cond[h]}
				var backIdx []int
				for i, p := range h.Preds {
					if !isBackEdge(p, h) {
						continue
					}
					if ec, ok := econd[edge{p, h}]; ok && !ec.IsZero() {
						if _, done := outSt[p]; done {
							backIdx = append(backIdx, i)
							ui.conds = append(ui.conds, ec)
							ui.states = append(ui.states, outSt[p])
						}
					}
				}
				// side exits (break, the second operand of a && in the loop test)
				exitTaken := false
				for _, b := range append(append([]*ssa.BasicBlock{}, ld.order[1:]...), tails...) {
					for _, su := range b.Succs {
						if ld.in[su] || tail[su] {
							continue
						}
						if ec, ok := econd[edge{b, su}]; ok && !ec.IsZero() {
							if len(backIdx) != 0 && (returnsLoopFreeValue(su, ld) || leavesLoopFree(ld, tail)) {
								// `if c(i) { return k }` with a symbolic c(i): the iteration leaves under
								// c(i) and continues under !c(i). The exits of all iterations are
								// collected and handed to the return block when the loop is done.
								e := edge{b, su}
								if acc, has := exitAcc[e]; has {
									// the memory the return leaves behind differs from iteration to
									// iteration: gate it on which iteration left
									exitSt[e] = iteState(ec, outSt[b], exitSt[e])
									exitAcc[e] = cOr(acc, ec)
								} else {
									exitAcc[e] = ec
									exitSt[e] = outSt[b]
								}
								continue
							}
							exitTaken = true
						}
					}
				}
				if exitTaken {
					if len(backIdx) != 0 {
						return rollback() // leaves and continues: the test did not fold
					}
					break // left through a side exit; its edge conditions and states stay for the successors
				}
				if len(backIdx) == 0 {
					return rollback() // the body never comes back: not a counted loop
				}
				rel := stripCommon(ui.conds)
				for _, ins := range h.Instrs {
					x, ok := ins.(*ssa.Phi)
					if !ok {
						break
					}
					v := fr.get(ev, x.Edges[backIdx[0]])
					for j := 1; j < len(backIdx); j++ {
						v = iteVal(rel[j], fr.get(ev, x.Edges[backIdx[j]]), v)
					}
					ui.phis[x] = v
				}
				// forget the iteration's edge conditions and block states
				for _, b := range append(append([]*ssa.BasicBlock{}, ld.order...), tails...) {
					delete(cond, b)
					delete(outSt, b)
					for _, su := range b.Succs {
						delete(econd, edge{b, su})
					}
				}
			}
			// exits collected from the iterations that also continued
			for e, c := range exitAcc {
				st := exitSt[e]
				if cur, has := econd[e]; has && !cur.IsZero() {
					// the last iteration left through the same edge
					if s2, ok := outSt[e.from]; ok {
						st = iteState(cur, s2, st)
					}
					c = cOr(c, cur)
				}
				econd[e] = c
				outSt[e.from] = st
			}
			ev.ctx = ctxS
			unrolled[h] = true
			for _, b := range tails {
				tailDone[b] = true
			}
			return true
		}

		skip := map[*ssa.BasicBlock]bool{}
		for k := range tailDone {
			delete(tailDone, k)
		}
		for _, b := range order {
			if skip[b] || tailDone[b] {
				continue
			}
			if ld := loops[b]; ld != nil && (ld.simple || ld.sideExits) && ev.unroll {
				if tryUnroll(ld, 0) {
					for _, x := range ld.order {
						skip[x] = true
					}
					continue
				}
			}
			evalBlock(b, 0, nil)
		}
		// loop summaries
		if sweeps == 2 {
			for _, b := range order {
				var backPreds, fwdPreds []*ssa.BasicBlock
				for _, p := range b.Preds {
					if _, done := outSt[p]; !done {
						continue
					}
					if isBackEdge(p, b) {
						backPreds = append(backPreds, p)
					} else {
						fwdPreds = append(fwdPreds, p)
					}
				}
				if len(backPreds) == 0 || len(fwdPreds) == 0 || unrolled[b] {
					continue
				}
				mergeStates := func(ps []*ssa.BasicBlock) State {
					var cs []*Term
					for _, p := range ps {
						c, ok := econd[edge{p, b}]
						if !ok {
							c = K(1)
						}
						cs = append(cs, c)
					}
					rel := stripCommon(cs)
					s := outSt[ps[0]]
					for i := 1; i < len(ps); i++ {
						s = iteState(rel[i], outSt[ps[i]], s)
					}
					return s
				}
				ps := mergeStates(fwdPreds)
				bs := mergeStates(backPreds)
				if dirty[b] == nil {
					dirty[b] = map[*Obj]bool{}
				}
				for o, v := range bs.mem {
					pv, ok := ps.mem[o]
					if !ok {
						continue
					}
					if name, isMu := muObj[b][o]; isMu {
						recordRec(name, pv, v)
					} else if valKey(pv) != valKey(v) {
						dirty[b][o] = true
						if dirtyVals[b] == nil {
							dirtyVals[b] = map[*Obj][2]Val{}
						}
						dirtyVals[b][o] = [2]Val{pv, v}
					}
				}
				if last {
					for _, ins := range b.Instrs {
						x, ok := ins.(*ssa.Phi)
						if !ok {
							break
						}
						var ini, stp []Val
						var inic, stpc []*Term
						for i, e := range x.Edges {
							p := b.Preds[i]
							if _, done := outSt[p]; !done {
								continue
							}
							c, ok := econd[edge{p, b}]
							if !ok {
								c = K(1)
							}
							if isBackEdge(p, b) {
								stp = append(stp, fr.get(ev, e))
								stpc = append(stpc, c)
							} else {
								ini = append(ini, fr.get(ev, e))
								inic = append(inic, c)
							}
						}
						if len(ini) > 0 && len(stp) > 0 {
							recordRec(muName[x], mergeVals(ini, inic), mergeVals(stp, stpc))
							recLoop[muName[x]] = fmt.Sprintf("%s#%d", fn.String(), b.Index)
						}
					}
				}
			}
		}
	}
	if root {
		ev.RootRets = rets
	}
	if len(rets) == 0 {
		return Nil{}
	}
	var cs []*Term
	for _, r := range rets {
		cs = append(cs, r.Cond)
	}
	rel := stripCommon(cs)
	v := rets[len(rets)-1].Val
	s := rets[len(rets)-1].State
	for i := len(rets) - 2; i >= 0; i-- {
		v = iteVal(rel[i], rets[i].Val, v)
		s = iteState(rel[i], rets[i].State, s)
	}
	*st = s
	return v
}

func mergeVals(vs []Val, cs []*Term) Val {
	rel := stripCommon(cs)
	v := vs[0]
	for i := 1; i < len(vs); i++ {
		v = iteVal(rel[i], vs[i], v)
	}
	return v
}

// returnsLoopFreeValue: b does nothing but return values that are not computed inside the loop
// (constants, parameters, values defined before it).
// leavesLoopFree: a symbolic `break` from b to su can be gated per iteration when nothing the
// loop computes is visible after it except through memory (which is gated): no value defined in
// the loop is used outside it, other than by a phi on an edge from the loop header (the normal
// exit, where the last iteration's values are the right ones).
func leavesLoopFree(ld *loopDesc, tail map[*ssa.BasicBlock]bool) bool {
	if len(ld.order) == 0 {
		return false
	}
	h := ld.order[0]
	blocks := append([]*ssa.BasicBlock{}, ld.order...)
	for b := range tail {
		blocks = append(blocks, b)
	}
	for _, lb := range blocks {
		for _, ins := range lb.Instrs {
			v, ok := ins.(ssa.Value)
			if !ok || v.Referrers() == nil {
				continue
			}
			for _, ref := range *v.Referrers() {
				if ref.Block() == nil || ld.in[ref.Block()] || tail[ref.Block()] {
					continue
				}
				phi, isPhi := ref.(*ssa.Phi)
				if !isPhi {
					return false
				}
				for i, e := range phi.Edges {
					if e == v && phi.Block().Preds[i] != h {
						return false
					}
				}
			}
		}
	}
	return true
}

func returnsLoopFreeValue(b *ssa.BasicBlock, ld *loopDesc) bool {
	if len(b.Instrs) != 1 {
		return false
	}
	ret, ok := b.Instrs[0].(*ssa.Return)
	if !ok {
		return false
	}
	for _, v := range ret.Results {
		if ins, ok := v.(ssa.Instruction); ok && ld.in[ins.Block()] {
			return false
		}
	}
	return true
}
