package main

import (
	"fmt"
	"go/constant"
	"go/token"
	"go/types"
	"sort"
	"strings"
	"time"

	"golang.org/x/tools/go/ssa"
)

// ---------------------------------------------------------------- values

type Val interface{}

type Agg struct {
	T     types.Type
	Elems []Val
}
type Obj struct {
	id     int
	name   string
	fresh  bool
	global *ssa.Global // set for package-level variables
}
type Ptr struct {
	Obj  *Obj
	Path []int // field/const index path; -1 == unknown index
}
type Sym struct { // unknown value of non scalar type rooted at an access path
	Path string
	T    types.Type
	Base string // for an element selected by a symbolic index: path of the indexed thing
	Idx  *Term  // ... and the index term
	Call *Term  // for the result of an opaque call: the call term
}

// selVal is the value of base[idx] for a symbolic (or constant) index.
func selVal(base string, idx *Term, t types.Type) Val {
	if t != nil && isScalar(t) {
		return &Term{Op: "sel", S: base, Args: []*Term{idx}}
	}
	return &Sym{Path: base + "[" + idx.Key() + "]", T: t, Base: base, Idx: idx}
}

// elemObj returns the (memoised) abstract object standing for base[idx].
func (ev *Evaluator) elemObj(st *State, base string, idxV Val, et types.Type) *Obj {
	it, ok := idxV.(*Term)
	if !ok {
		it = A("?idx")
	}
	name := base + "[" + it.Key() + "]"
	if ev.symObjs == nil {
		ev.symObjs = map[string]*Obj{}
	}
	// the slot that holds element `it` is a different object from what a pointer stored in
	// that slot points to (symObj(name)): keep their keys apart
	o, ok := ev.symObjs["slot:"+name]
	if !ok {
		o = ev.newObj(name, false)
		ev.symObjs["slot:"+name] = o
	}
	if _, ok := st.mem[o]; !ok {
		st.mem[o] = selVal(base, it, et)
	}
	return o
}

// hasContent reports whether an aggregate of elements holds anything but zero
// values (an array that was filled, as opposed to one only declared).
func hasContent(v Val) bool {
	a, ok := v.(*Agg)
	if !ok {
		return false
	}
	var nz func(x Val) bool
	nz = func(x Val) bool {
		switch y := x.(type) {
		case *Term:
			return !y.IsZero()
		case *Agg:
			for _, e := range y.Elems {
				if nz(e) {
					return true
				}
			}
			return false
		case Nil, nil:
			return false
		}
		return true
	}
	for _, e := range a.Elems {
		if nz(e) {
			return true
		}
	}
	return false
}

func ptrName(p *Ptr) string {
	if p.Obj == nil {
		return "nil"
	}
	s := p.Obj.name
	for _, i := range p.Path {
		s += fmt.Sprintf(".%d", i)
	}
	return s
}

type SliceV struct {
	Arr *Obj // object holding *Agg of elements (known length) or nil
	Lo  int
	Len int  // -1 unknown
	Sym *Sym // backing unknown
}
type Iface struct {
	Dyn Val
	T   types.Type // dynamic type
}
type FuncV struct {
	Fn   *ssa.Function
	Free []Val
	Name string // extern/builtin
}
type Tuple struct{ Elems []Val }
type Nil struct{}
type MapV struct{ Obj *Obj }

type State struct {
	mem map[*Obj]Val
}

func (s State) clone() State {
	m := make(map[*Obj]Val, len(s.mem))
	for k, v := range s.mem {
		m[k] = v
	}
	return State{mem: m}
}

// Event records an opaque (external) call with abstract args.
type Event struct {
	Callee string
	Args   []Val
	Pos    token.Pos
	State  State
	Cond   *Term // path condition under which the event happens (nil = unknown)
	Fn     *ssa.Function
}

type Evaluator struct {
	c        *Ctx
	prog     *ssa.Program
	nobj     int
	Events   []Event
	inline   func(fn *ssa.Function) bool
	maxDepth int
	steps    int
	budget   int // maximum number of interpreted instructions (0 = default)
	stack    []*ssa.Function
	Log      []string
	symObjs  map[string]*Obj // one abstract object per symbolic pointer path
	globals  map[*ssa.Global]*Obj
	Exceeded bool // the instruction budget was exhausted: results are incomplete
	started  time.Time
	mapLast  map[string]mapWrite // per map: the last update (key, value, path condition)
	curCond  *Term
	RootRets []RetAlt
	// symbolicElems: a symbolic index into a local array that holds only zero
	// values designates a named symbolic element (keeps "which index" visible,
	// used by the kernel analyses); otherwise such accesses are weak reads /
	// weak updates of all elements (sound for dependence questions).
	symbolicElems bool
	// assume: comparison terms (by key) the evaluation takes as decided. A rule that examines a
	// function case by case evaluates it once per case with the case's tests fixed: everything
	// downstream (flags, table indices, loop bounds) then folds, whatever shape the code has.
	// BranchConds collects the distinct comparisons the function computes.
	assume map[string]bool
	// assumeFn: like assume, for comparisons whose key the rule cannot spell in advance
	assumeFn    func(cmp *Term) (value, decided bool)
	BranchConds []*Term
	branchSeen  map[string]bool
	litCache    map[*ssa.Global]Val
	backing     map[*ssa.Global]*Obj
	backingAt   map[string]*Obj
	// faithful: floating-point + - * / are kept as the binary operations the program performs
	// (no re-association, no distribution), so that two values are the same term only if they are
	// computed by the same sequence of roundings. Only rewrites that are exact in IEEE-754 are
	// applied: commutativity of + and *, x − y = x + (−y), −(−x) = x.
	faithful bool
	unroll   bool   // execute counted loops with constant bounds iteration by iteration
	ctx      string // calling context (chain of call sites)
	siteObjs map[string]*Obj
}

var nmuGlobal int

func (ev *Evaluator) symObj(st *State, path string, t types.Type) *Obj {
	if ev.symObjs == nil {
		ev.symObjs = map[string]*Obj{}
	}
	o, ok := ev.symObjs[path]
	if !ok {
		o = ev.newObj(path, false)
		ev.symObjs[path] = o
	}
	if _, ok := st.mem[o]; !ok {
		st.mem[o] = symVal(path, t)
	}
	return o
}

// evalWallLimit bounds one evaluation in wall-clock time.
var evalWallLimit = 60 * time.Second // 20 s tripped under an 8x oversubscribed machine (a benign edit came back undecided in a thorough run)

func (ev *Evaluator) maxSteps() int {
	if ev.budget > 0 {
		return ev.budget
	}
	return 60000
}

// siteObj returns the abstract object of an allocation site in the current
// calling context (the same object on every sweep over the site).
func (ev *Evaluator) siteObj(site interface{}, name string) *Obj {
	if ev.siteObjs == nil {
		ev.siteObjs = map[string]*Obj{}
	}
	k := fmt.Sprintf("%s|%p", ev.ctx, site)
	if o, ok := ev.siteObjs[k]; ok {
		return o
	}
	o := ev.newObj(name, true)
	ev.siteObjs[k] = o
	return o
}

func (ev *Evaluator) newObj(name string, fresh bool) *Obj {
	ev.nobj++
	return &Obj{id: ev.nobj, name: name, fresh: fresh}
}

// ---------------------------------------------------------------- helpers

func isScalar(t types.Type) bool {
	if t == nil {
		return false
	}
	switch u := t.Underlying().(type) {
	case *types.Basic:
		return u.Kind() != types.UnsafePointer
	}
	return false
}

func symVal(path string, t types.Type) Val {
	if isScalar(t) {
		return A(path)
	}
	return &Sym{Path: path, T: t}
}

func zeroVal(t types.Type) Val {
	switch u := t.Underlying().(type) {
	case *types.Basic:
		if u.Info()&types.IsString != 0 {
			return A(`""`)
		}
		return K(0)
	case *types.Struct:
		a := &Agg{T: t}
		for i := 0; i < u.NumFields(); i++ {
			a.Elems = append(a.Elems, zeroVal(u.Field(i).Type()))
		}
		return a
	case *types.Array:
		a := &Agg{T: t}
		for i := 0; i < int(u.Len()); i++ {
			a.Elems = append(a.Elems, zeroVal(u.Elem()))
		}
		return a
	}
	return Nil{}
}

// materialise a Sym of struct/array type into an Agg of child syms
func materialise(s *Sym) Val {
	if s.T == nil {
		return s
	}
	switch u := s.T.Underlying().(type) {
	case *types.Struct:
		a := &Agg{T: s.T}
		for i := 0; i < u.NumFields(); i++ {
			a.Elems = append(a.Elems, symVal(s.Path+"."+u.Field(i).Name(), u.Field(i).Type()))
		}
		return a
	case *types.Array:
		a := &Agg{T: s.T}
		for i := 0; i < int(u.Len()); i++ {
			a.Elems = append(a.Elems, symVal(fmt.Sprintf("%s[%d]", s.Path, i), u.Elem()))
		}
		return a
	}
	return s
}

// foldIntOp folds the integer bit operations on small non-negative constants.
func foldIntOp(op token.Token, a, b *Term) (*Term, bool) {
	if a.Op != "c" || b.Op != "c" || !a.C.IsInt() || !b.C.IsInt() || !a.C.Num().IsInt64() || !b.C.Num().IsInt64() {
		return nil, false
	}
	x, y := a.C.Num().Int64(), b.C.Num().Int64()
	if x < 0 || y < 0 || x > 1<<31 || y > 1<<31 {
		return nil, false
	}
	switch op {
	case token.AND:
		return K(x & y), true
	case token.OR:
		return K(x | y), true
	case token.XOR:
		return K(x ^ y), true
	case token.AND_NOT:
		return K(x &^ y), true
	case token.SHL:
		if y < 31 {
			return K(x << uint(y)), true
		}
	case token.SHR:
		if y < 63 {
			return K(x >> uint(y)), true
		}
	case token.REM:
		if y != 0 {
			return K(x % y), true
		}
	}
	return nil, false
}

// aggEqual: a == b for array/struct values, as the conjunction of the component comparisons.
func aggEqual(a, b Val, depth int) (*Term, bool) {
	if depth > 3 {
		return nil, false
	}
	if s, ok := a.(*Sym); ok {
		a = materialise(s)
	}
	if s, ok := b.(*Sym); ok {
		b = materialise(s)
	}
	x, ok1 := a.(*Agg)
	y, ok2 := b.(*Agg)
	if !ok1 || !ok2 || len(x.Elems) != len(y.Elems) || len(x.Elems) == 0 || len(x.Elems) > 16 {
		return nil, false
	}
	var out *Term
	for i := range x.Elems {
		var c *Term
		ta, oka := x.Elems[i].(*Term)
		tb, okb := y.Elems[i].(*Term)
		if oka && okb {
			c = Cmp("==", ta, tb)
		} else if cc, ok := aggEqual(x.Elems[i], y.Elems[i], depth+1); ok {
			c = cc
		} else {
			return nil, false
		}
		if out == nil {
			out = c
		} else {
			out = cAnd(out, c)
		}
	}
	return out, true
}

func getPath(v Val, path []int) Val {
	for _, i := range path {
		switch x := v.(type) {
		case *Sym:
			v = materialise(x)
			if a, ok := v.(*Agg); ok {
				if i < 0 || i >= len(a.Elems) {
					v = symVal(x.Path+"[*]", elemType(x.T))
					continue
				}
				v = a.Elems[i]
			} else {
				v = symVal(x.Path+"[*]", elemType(x.T))
			}
		case *Agg:
			if i < 0 || i >= len(x.Elems) {
				var all []Val
				all = append(all, x.Elems...)
				return joinVals(all...)
			}
			v = x.Elems[i]
		default:
			return A("?getPath")
		}
	}
	return v
}

func elemType(t types.Type) types.Type {
	if t == nil {
		return nil
	}
	switch u := t.Underlying().(type) {
	case *types.Array:
		return u.Elem()
	case *types.Slice:
		return u.Elem()
	case *types.Pointer:
		return u.Elem()
	case *types.Map:
		return u.Elem()
	}
	return t
}

func setPath(v Val, path []int, nv Val) Val {
	if len(path) == 0 {
		return nv
	}
	if s, ok := v.(*Sym); ok {
		v = materialise(s)
	}
	a, ok := v.(*Agg)
	if !ok {
		return v
	}
	c := &Agg{T: a.T, Elems: append([]Val{}, a.Elems...)}
	i := path[0]
	if i < 0 || i >= len(c.Elems) {
		// weak update of all elements
		for j := range c.Elems {
			c.Elems[j] = joinVals(c.Elems[j], setPath(c.Elems[j], path[1:], nv))
		}
		return c
	}
	c.Elems[i] = setPath(c.Elems[i], path[1:], nv)
	return c
}

func valKey(v Val) string {
	switch x := v.(type) {
	case nil:
		return "<nil>"
	case *Term:
		return x.Key()
	case *Agg:
		var b strings.Builder
		b.WriteString("{")
		for i, e := range x.Elems {
			if i > 0 {
				b.WriteString(" ")
			}
			b.WriteString(valKey(e))
		}
		b.WriteString("}")
		return b.String()
	case *Ptr:
		if x.Obj == nil {
			return "nilptr"
		}
		return fmt.Sprintf("&o%d(%s)%v", x.Obj.id, x.Obj.name, x.Path)
	case *Sym:
		return "sym:" + x.Path
	case *SliceV:
		if x.Sym != nil {
			return "slice:" + x.Sym.Path
		}
		return fmt.Sprintf("slice:o%d[%d:%d]", x.Arr.id, x.Lo, x.Len)
	case *Iface:
		return "iface(" + valKey(x.Dyn) + ")"
	case *FuncV:
		if x.Fn != nil {
			return "func:" + x.Fn.String()
		}
		return "func:" + x.Name
	case *Tuple:
		var p []string
		for _, e := range x.Elems {
			p = append(p, valKey(e))
		}
		return "(" + strings.Join(p, ", ") + ")"
	case Nil:
		return "nil"
	case *MapV:
		return fmt.Sprintf("map:o%d", x.Obj.id)
	case *Alt:
		return "alt(" + x.C.Key() + " ? " + valKey(x.A) + " : " + valKey(x.B) + ")"
	}
	return fmt.Sprintf("%T", v)
}

func joinVals(vs ...Val) Val {
	var first Val
	same := true
	for i, v := range vs {
		if i == 0 {
			first = v
			continue
		}
		if valKey(v) != valKey(first) {
			same = false
		}
	}
	if same {
		return first
	}
	// all scalar?
	var ts []*Term
	allT := true
	for _, v := range vs {
		if t, ok := v.(*Term); ok {
			ts = append(ts, t)
		} else {
			allT = false
		}
	}
	if allT {
		return Join(ts...)
	}
	// all agg of same shape
	var aggs []*Agg
	for _, v := range vs {
		if s, ok := v.(*Sym); ok {
			v = materialise(s)
		}
		if a, ok := v.(*Agg); ok {
			aggs = append(aggs, a)
		}
	}
	if len(aggs) == len(vs) {
		n := len(aggs[0].Elems)
		ok := true
		for _, a := range aggs {
			if len(a.Elems) != n {
				ok = false
			}
		}
		if ok {
			out := &Agg{T: aggs[0].T}
			for i := 0; i < n; i++ {
				var col []Val
				for _, a := range aggs {
					col = append(col, a.Elems[i])
				}
				out.Elems = append(out.Elems, joinVals(col...))
			}
			return out
		}
	}
	// tuples
	var tups []*Tuple
	for _, v := range vs {
		if t, ok := v.(*Tuple); ok {
			tups = append(tups, t)
		}
	}
	if len(tups) == len(vs) {
		out := &Tuple{}
		for i := range tups[0].Elems {
			var col []Val
			for _, t := range tups {
				col = append(col, t.Elems[i])
			}
			out.Elems = append(out.Elems, joinVals(col...))
		}
		return out
	}
	// heterogeneous: keep the non-nil one if only one non-nil
	var nn []Val
	for _, v := range vs {
		if _, ok := v.(Nil); !ok {
			nn = append(nn, v)
		}
	}
	if len(nn) == 1 {
		return nn[0]
	}
	if len(nn) > 0 {
		return nn[0] // imprecise; prototype
	}
	return Nil{}
}

func joinStates(ss ...State) State {
	out := State{mem: map[*Obj]Val{}}
	keys := map[*Obj]bool{}
	for _, s := range ss {
		for k := range s.mem {
			keys[k] = true
		}
	}
	for k := range keys {
		var vs []Val
		for _, s := range ss {
			if v, ok := s.mem[k]; ok {
				vs = append(vs, v)
			}
		}
		out.mem[k] = joinVals(vs...)
	}
	return out
}

func stateKey(s State) string {
	var ks []string
	for k, v := range s.mem {
		ks = append(ks, fmt.Sprintf("o%d=%s", k.id, valKey(v)))
	}
	sort.Strings(ks)
	return strings.Join(ks, ";")
}

// ---------------------------------------------------------------- evaluation

type frame struct {
	fn  *ssa.Function
	env map[ssa.Value]Val
}

func (ev *Evaluator) constVal(c *ssa.Const) Val {
	if c.Value == nil {
		if isScalar(c.Type()) {
			return K(0)
		}
		switch c.Type().Underlying().(type) {
		case *types.Struct, *types.Array:
			return zeroVal(c.Type())
		}
		return Nil{}
	}
	switch c.Value.Kind() {
	case constant.Bool:
		if constant.BoolVal(c.Value) {
			return K(1)
		}
		return K(0)
	case constant.String:
		return A(fmt.Sprintf("%q", constant.StringVal(c.Value)))
	case constant.Int, constant.Float:
		r, ok := constantToRat(c.Value)
		if ok {
			return KR(r)
		}
	}
	return A("const:" + c.Value.ExactString())
}

func (f *frame) get(ev *Evaluator, v ssa.Value) Val {
	switch x := v.(type) {
	case *ssa.Const:
		return ev.constVal(x)
	case *ssa.Function:
		return &FuncV{Fn: x}
	case *ssa.Builtin:
		return &FuncV{Name: "builtin:" + x.Name()}
	case *ssa.Global:
		return &Ptr{Obj: ev.globalObj(x)}
	}
	if r, ok := f.env[v]; ok {
		return r
	}
	return symVal("?"+v.Name(), v.Type())
}

// tableBackingAt: backing array of the slice stored at a path inside a table.
func (ev *Evaluator) tableBackingAt(g *ssa.Global, path string) *Obj {
	if ev.backingAt == nil {
		ev.backingAt = map[string]*Obj{}
	}
	k := g.String() + path
	if o, ok := ev.backingAt[k]; ok {
		return o
	}
	o := ev.newObj("table:"+g.Name()+path, false)
	ev.backingAt[k] = o
	return o
}

// tableBacking is the abstract object standing for the backing array of a slice-typed table.
func (ev *Evaluator) tableBacking(g *ssa.Global) *Obj {
	if ev.backing == nil {
		ev.backing = map[*ssa.Global]*Obj{}
	}
	if o, ok := ev.backing[g]; ok {
		return o
	}
	o := ev.newObj("table:"+g.Name(), false)
	ev.backing[g] = o
	return o
}

func (ev *Evaluator) globalObj(g *ssa.Global) *Obj {
	if ev.globals == nil {
		ev.globals = map[*ssa.Global]*Obj{}
	}
	if o, ok := ev.globals[g]; ok {
		return o
	}
	o := ev.newObj("global:"+g.Name(), false)
	o.global = g
	ev.globals[g] = o
	return o
}

func (ev *Evaluator) load(st State, p Val, t types.Type) Val {
	switch x := p.(type) {
	case *Ptr:
		if x.Obj == nil {
			return symVal("?nil-deref", t)
		}
		root, ok := st.mem[x.Obj]
		if !ok && len(x.Path) == 0 && x.Obj.global != nil {
			// an effectively constant package-level variable reads as its initialiser
			if it, ok := ev.globalInitTerm(x.Obj.global); ok {
				return it
			}
		}
		if !ok && x.Obj.global != nil && concretePath(x.Path) && ev.unroll {
			// an immutable array/struct table reads as its composite literal
			if lv, ok := ev.globalLiteral(x.Obj.global); ok {
				if _, isSl := t.Underlying().(*types.Slice); isSl && len(x.Path) == 0 {
					// a slice table: its backing array is an object of its own
					if agg, isAgg := lv.(*Agg); isAgg {
						bo := ev.tableBacking(x.Obj.global)
						if _, have := st.mem[bo]; !have {
							st.mem[bo] = agg
						}
						return &SliceV{Arr: bo, Lo: 0, Len: len(agg.Elems)}
					}
				} else {
					got := getPath(lv, x.Path)
					// a slice-typed element of a table ([4][]int{{0, 1}, {1}, ...}) is a slice over its own backing array
					if agg, isAgg := got.(*Agg); isAgg && agg.T != nil {
						if _, isSl := agg.T.Underlying().(*types.Slice); isSl {
							bo := ev.tableBackingAt(x.Obj.global, fmt.Sprint(x.Path))
							if _, have := st.mem[bo]; !have {
								st.mem[bo] = agg
							}
							return &SliceV{Arr: bo, Lo: 0, Len: len(agg.Elems)}
						}
					}
					return got
				}
			}
		}
		if !ok && x.Obj.global != nil && len(x.Path) > 0 {
			if pt, isP := x.Obj.global.Type().(*types.Pointer); isP {
				root, ok = symVal(x.Obj.name, pt.Elem()), true
			}
		}
		if !ok {
			root = symVal(x.Obj.name, nil2(t, x))
			if len(x.Path) == 0 {
				return symVal(x.Obj.name, t)
			}
		}
		return getPath(root, x.Path)
	case *Sym:
		// *p for a symbolic pointer p: the object p points to, the same one p.f addresses
		if x.T != nil {
			if pt, ok := x.T.Underlying().(*types.Pointer); ok {
				o := ev.symObj(&st, x.Path, pt.Elem())
				if v, ok := st.mem[o]; ok {
					return v
				}
			}
		}
		return symVal("*"+x.Path, t)
	}
	return symVal("?load", t)
}

func nil2(t types.Type, p *Ptr) types.Type { return t }

func concretePath(p []int) bool {
	for _, i := range p {
		if i < 0 {
			return false
		}
	}
	return true
}

func (ev *Evaluator) store(st State, p Val, v Val) {
	switch x := p.(type) {
	case *Ptr:
		if x.Obj == nil {
			return
		}
		root := st.mem[x.Obj]
		st.mem[x.Obj] = setPath(root, x.Path, v)
	}
}

func topoAll(fn *ssa.Function) []*ssa.BasicBlock {
	seen := map[*ssa.BasicBlock]bool{}
	var post []*ssa.BasicBlock
	var dfs func(b *ssa.BasicBlock)
	// successors are visited last-first so that, in the reverse post order, a
	// loop's body precedes the blocks after the loop
	dfs = func(b *ssa.BasicBlock) {
		seen[b] = true
		for i := len(b.Succs) - 1; i >= 0; i-- {
			if s := b.Succs[i]; !seen[s] {
				dfs(s)
			}
		}
		post = append(post, b)
	}
	dfs(fn.Blocks[0])
	for i, j := 0, len(post)-1; i < j; i, j = i+1, j-1 {
		post[i], post[j] = post[j], post[i]
	}
	return post
}

func hasPhiFrom(s, b *ssa.BasicBlock) bool {
	for _, ins := range s.Instrs {
		if _, ok := ins.(*ssa.Phi); ok {
			return true
		}
		break
	}
	return false
}

func isErrorType(t types.Type) bool { return t.String() == "error" }

func widen(v Val, t types.Type) Val {
	if tm, ok := v.(*Term); ok {
		if tm.Op == "join" || len(tm.Key()) > 200 {
			deps := atomList(tm)
			var as []*Term
			for _, d := range deps {
				as = append(as, A(d))
			}
			return &Term{Op: "top", Args: as}
		}
	}
	return v
}

func (ev *Evaluator) opaque(name string, args []Val, res *types.Tuple, st *State, pos token.Pos) Val {
	ev.Events = append(ev.Events, Event{Callee: name, Args: args, Pos: pos, State: st.clone(), Cond: ev.curCond})
	var ts []*Term
	for _, a := range args {
		ts = append(ts, valTerm(a))
	}
	mk := func(i int, t types.Type) Val {
		suffix := ""
		if res != nil && res.Len() > 1 {
			suffix = fmt.Sprintf("#%d", i)
		}
		if isScalar(t) {
			return Call(name+suffix, ts...)
		}
		if isErrorType(t) {
			if name == "errors.New" || name == "fmt.Errorf" || strings.HasSuffix(name, "/sdf.ErrMsg") {
				return &Sym{Path: "error:" + name, T: t}
			}
			return Nil{} // other library calls are assumed to succeed
		}
		ct := Call(name+suffix, ts...)
		return &Sym{Path: ct.Key(), T: t, Call: ct}
	}
	if res == nil || res.Len() == 0 {
		return Nil{}
	}
	if res.Len() == 1 {
		return mk(0, res.At(0).Type())
	}
	t := &Tuple{}
	for i := 0; i < res.Len(); i++ {
		t.Elems = append(t.Elems, mk(i, res.At(i).Type()))
	}
	return t
}

func (ev *Evaluator) instr(fr *frame, ins ssa.Instruction, st *State) {
	ev.steps++
	// wall-clock guard: path conditions can grow faster than the step count suggests; past
	// the limit nothing more is inlined or unrolled and the evaluation is marked incomplete
	if ev.steps&63 == 0 {
		if ev.started.IsZero() {
			ev.started = time.Now()
		} else if !ev.Exceeded && time.Since(ev.started) > evalWallLimit {
			ev.Exceeded = true
			ev.budget = 1
		}
	}
	switch x := ins.(type) {
	case *ssa.Alloc:
		o := ev.siteObj(x, x.Comment)
		st.mem[o] = zeroVal(x.Type().(*types.Pointer).Elem())
		fr.env[x] = &Ptr{Obj: o}
	case *ssa.FieldAddr:
		base := fr.get(ev, x.X)
		switch p := base.(type) {
		case *Ptr:
			fr.env[x] = &Ptr{Obj: p.Obj, Path: append(append([]int{}, p.Path...), x.Field)}
		case *Sym:
			// pointer-typed symbolic value: one object per access path
			et := x.X.Type().Underlying().(*types.Pointer).Elem() // (the symbol's own type may be the pointee's)
			o := ev.symObj(st, p.Path, et)
			fr.env[x] = &Ptr{Obj: o, Path: []int{x.Field}}
		default:
			fr.env[x] = &Ptr{}
		}
	case *ssa.IndexAddr:
		base := fr.get(ev, x.X)
		idx := -1
		if t, ok := fr.get(ev, x.Index).(*Term); ok && t.Op == "c" && t.C.IsInt() {
			idx = int(t.C.Num().Int64())
		}
		et := x.Type().(*types.Pointer).Elem()
		switch p := base.(type) {
		case *Ptr:
			if idx >= 0 || p.Obj == nil || !ev.symbolicElems || hasContent(getPath(st.mem[p.Obj], p.Path)) {
				// constant index, or a symbolic index into an array with known
				// contents: weak read/update of all its elements (path index -1)
				fr.env[x] = &Ptr{Obj: p.Obj, Path: append(append([]int{}, p.Path...), idx)}
			} else {
				fr.env[x] = &Ptr{Obj: ev.elemObj(st, ptrName(p), fr.get(ev, x.Index), et)}
			}
		case *SliceV:
			if p.Arr != nil && idx >= 0 {
				fr.env[x] = &Ptr{Obj: p.Arr, Path: []int{idx + p.Lo}}
			} else if p.Arr != nil && (!ev.symbolicElems || hasContent(st.mem[p.Arr])) {
				fr.env[x] = &Ptr{Obj: p.Arr, Path: []int{-1}}
			} else if p.Arr != nil {
				nm := p.Arr.name
				if p.Lo != 0 {
					nm = fmt.Sprintf("%s[%d:]", nm, p.Lo)
				}
				fr.env[x] = &Ptr{Obj: ev.elemObj(st, nm, fr.get(ev, x.Index), et)}
			} else {
				iv := fr.get(ev, x.Index)
				if it, ok := iv.(*Term); ok && p.Lo != 0 {
					iv = Add(K(int64(p.Lo)), it)
				}
				fr.env[x] = &Ptr{Obj: ev.elemObj(st, p.Sym.Path, iv, et)}
			}
		case *Sym:
			fr.env[x] = &Ptr{Obj: ev.elemObj(st, p.Path, fr.get(ev, x.Index), et)}
		default:
			if _, isSlice := x.X.Type().Underlying().(*types.Slice); isSlice && base != nil {
				// a slice the evaluator has no model of (merged over branches, grown in a
				// loop): its elements are atoms of that slice, not one shared unknown
				fr.env[x] = &Ptr{Obj: ev.elemObj(st, "?"+x.X.Name(), fr.get(ev, x.Index), et)}
			} else {
				fr.env[x] = &Ptr{}
			}
		}
	case *ssa.Field:
		fr.env[x] = getPath(fr.get(ev, x.X), []int{x.Field})
	case *ssa.Index:
		idx := -1
		if t, ok := fr.get(ev, x.Index).(*Term); ok && t.Op == "c" && t.C.IsInt() {
			idx = int(t.C.Num().Int64())
		}
		bv := fr.get(ev, x.X)
		if s, ok := bv.(*Sym); ok && idx < 0 {
			if it, ok := fr.get(ev, x.Index).(*Term); ok {
				fr.env[x] = selVal(s.Path, it, x.Type())
				break
			}
		}
		fr.env[x] = getPath(bv, []int{idx})
	case *ssa.Store:
		ev.store(*st, fr.get(ev, x.Addr), fr.get(ev, x.Val))
	case *ssa.UnOp:
		v := fr.get(ev, x.X)
		switch x.Op {
		case token.MUL:
			fr.env[x] = ev.load(*st, v, x.Type())
		case token.SUB:
			if t, ok := v.(*Term); ok {
				if ev.faithful && isFloatType(x.Type()) {
					fr.env[x] = fNeg(t)
				} else {
					fr.env[x] = Neg(t)
				}
			}
		case token.NOT:
			if t, ok := v.(*Term); ok {
				fr.env[x] = Not(t)
			}
		case token.ARROW:
			if x.CommaOk {
				tt := x.Type().(*types.Tuple)
				fr.env[x] = &Tuple{Elems: []Val{symVal("recv("+valKey(v)+")", tt.At(0).Type()), A("recvok(" + valKey(v) + ")")}}
			} else {
				fr.env[x] = symVal("recv("+valKey(v)+")", x.Type())
			}
		default:
			fr.env[x] = symVal("?unop", x.Type())
		}
	case *ssa.BinOp:
		a, aok := fr.get(ev, x.X).(*Term)
		b, bok := fr.get(ev, x.Y).(*Term)
		if !aok || !bok {
			// arrays and structs compare component by component
			if x.Op == token.EQL || x.Op == token.NEQ {
				if eq, ok := aggEqual(fr.get(ev, x.X), fr.get(ev, x.Y), 0); ok {
					if x.Op == token.NEQ {
						eq = Not(eq)
					}
					fr.env[x] = eq
					return
				}
			}
			// comparisons against nil etc.
			ak, bk := valKey(fr.get(ev, x.X)), valKey(fr.get(ev, x.Y))
			switch x.Op {
			case token.EQL:
				if ak == bk {
					fr.env[x] = K(1)
				} else {
					fr.env[x] = Cmp("==", A(ak), A(bk))
				}
			case token.NEQ:
				if ak == bk {
					fr.env[x] = K(0)
				} else {
					fr.env[x] = Cmp("!=", A(ak), A(bk))
				}
			default:
				fr.env[x] = symVal("?binop", x.Type())
			}
			return
		}
		if ev.faithful && isFloatType(x.Type()) {
			if ft, ok := faithfulOp(x.Op, a, b); ok {
				fr.env[x] = ft
				return
			}
		}
		switch x.Op {
		case token.ADD:
			fr.env[x] = Add(a, b)
		case token.SUB:
			fr.env[x] = Sub(a, b)
		case token.MUL:
			fr.env[x] = Mul(a, b)
		case token.QUO:
			if isIntType(x.Type()) {
				fr.env[x] = Call("intdiv", a, b)
			} else {
				fr.env[x] = Div(a, b)
			}
		case token.LSS, token.LEQ, token.GTR, token.GEQ, token.EQL, token.NEQ:
			fr.env[x] = ev.decided(Cmp(x.Op.String(), a, b))
		default:
			if f, ok := foldIntOp(x.Op, a, b); ok {
				fr.env[x] = f
			} else {
				fr.env[x] = Call("op"+x.Op.String(), a, b)
			}
		}
	case *ssa.Convert:
		v := fr.get(ev, x.X)
		if t, ok := v.(*Term); ok {
			fr.env[x] = Conv(x.Type().String(), t)
		} else {
			fr.env[x] = v
		}
	case *ssa.ChangeType:
		fr.env[x] = fr.get(ev, x.X)
	case *ssa.ChangeInterface:
		fr.env[x] = fr.get(ev, x.X)
	case *ssa.MakeInterface:
		fr.env[x] = &Iface{Dyn: fr.get(ev, x.X), T: x.X.Type()}
	case *ssa.TypeAssert:
		v := fr.get(ev, x.X)
		if i, ok := v.(*Iface); ok {
			v = i.Dyn
		}
		if x.CommaOk {
			fr.env[x] = &Tuple{Elems: []Val{v, A("ok?")}}
		} else {
			fr.env[x] = v
		}
	case *ssa.Extract:
		if t, ok := fr.get(ev, x.Tuple).(*Tuple); ok && x.Index < len(t.Elems) {
			fr.env[x] = t.Elems[x.Index]
		} else {
			fr.env[x] = symVal("?extract", x.Type())
		}
	case *ssa.MakeClosure:
		fv := &FuncV{Fn: x.Fn.(*ssa.Function)}
		for _, b := range x.Bindings {
			fv.Free = append(fv.Free, fr.get(ev, b))
		}
		fr.env[x] = fv
	case *ssa.MakeSlice:
		n := -1
		if t, ok := fr.get(ev, x.Len).(*Term); ok && t.Op == "c" && t.C.IsInt() {
			n = int(t.C.Num().Int64())
		}
		if n >= 0 && n <= 64 {
			o := ev.siteObj(x, "makeslice")
			a := &Agg{T: x.Type()}
			for i := 0; i < n; i++ {
				a.Elems = append(a.Elems, zeroVal(elemType(x.Type())))
			}
			st.mem[o] = a
			fr.env[x] = &SliceV{Arr: o, Len: n}
		} else {
			fr.env[x] = &SliceV{Len: -1, Sym: &Sym{Path: fmt.Sprintf("make#%d", ev.nobj), T: x.Type()}}
			ev.nobj++
		}
	case *ssa.MakeMap:
		o := ev.siteObj(x, "makemap")
		fr.env[x] = &MapV{Obj: o}
	case *ssa.Slice:
		base := fr.get(ev, x.X)
		switch p := base.(type) {
		case *Ptr: // slicing an array
			if root, ok := st.mem[p.Obj]; ok && len(p.Path) == 0 {
				if a, ok := root.(*Agg); ok {
					lo, hi, known := 0, len(a.Elems), true
					if x.Low != nil {
						if t, ok := fr.get(ev, x.Low).(*Term); ok && t.Op == "c" && t.C.IsInt() {
							lo = int(t.C.Num().Int64())
						} else {
							known = false
						}
					}
					if x.High != nil {
						if t, ok := fr.get(ev, x.High).(*Term); ok && t.Op == "c" && t.C.IsInt() {
							hi = int(t.C.Num().Int64())
						} else {
							known = false
						}
					}
					if known && lo >= 0 && hi >= lo && hi <= len(a.Elems) {
						fr.env[x] = &SliceV{Arr: p.Obj, Lo: lo, Len: hi - lo}
						return
					}
					if x.Low == nil && x.High == nil {
						fr.env[x] = &SliceV{Arr: p.Obj, Len: len(a.Elems)}
						return
					}
					fr.env[x] = &SliceV{Len: -1, Sym: &Sym{Path: valKey(p) + "[a:b]", T: x.Type()}}
					return
				}
			}
			// an array inside an object (d.F[k:]): the elements of the field, shifted by a
			// constant lower bound; an unknown lower bound gives an unrelated window
			sl := &SliceV{Len: -1, Sym: &Sym{Path: valKey(p) + "[:]", T: x.Type()}}
			if x.Low != nil {
				if t, ok := fr.get(ev, x.Low).(*Term); ok && t.Op == "c" && t.C.IsInt() {
					sl.Lo = int(t.C.Num().Int64())
				} else {
					sl.Sym = &Sym{Path: valKey(p) + "[" + valKey(fr.get(ev, x.Low)) + ":]", T: x.Type()}
				}
			}
			fr.env[x] = sl
		case *SliceV:
			lo, hi := 0, p.Len
			if x.Low != nil {
				if t, ok := fr.get(ev, x.Low).(*Term); ok && t.Op == "c" {
					lo = int(t.C.Num().Int64())
				} else {
					lo = -1
				}
			}
			if x.High != nil {
				if t, ok := fr.get(ev, x.High).(*Term); ok && t.Op == "c" {
					hi = int(t.C.Num().Int64())
				} else {
					hi = -1
				}
			}
			if p.Arr != nil && lo >= 0 && hi >= 0 {
				fr.env[x] = &SliceV{Arr: p.Arr, Lo: p.Lo + lo, Len: hi - lo}
			} else if p.Sym != nil && lo >= 0 && x.High == nil {
				// xs[k:] of a symbolic slice: the same elements, shifted by k (xs[k:][i] is xs[k+i])
				fr.env[x] = &SliceV{Len: -1, Sym: p.Sym, Lo: p.Lo + lo}
			} else if p.Sym != nil {
				fr.env[x] = &SliceV{Len: -1, Sym: &Sym{Path: p.Sym.Path + "[a:b]", T: x.Type()}}
			} else {
				fr.env[x] = &SliceV{Len: -1, Sym: &Sym{Path: valKey(p) + "[a:b]", T: x.Type()}}
			}
		case *Sym:
			if x.High == nil && x.Low != nil {
				if t, ok := fr.get(ev, x.Low).(*Term); ok && t.Op == "c" && t.C.IsInt() {
					fr.env[x] = &SliceV{Len: -1, Sym: p, Lo: int(t.C.Num().Int64())}
					break
				}
			}
			fr.env[x] = &SliceV{Len: -1, Sym: &Sym{Path: p.Path + "[a:b]", T: x.Type()}}
		default:
			fr.env[x] = &SliceV{Len: -1, Sym: &Sym{Path: "?slice", T: x.Type()}}
		}
	case *ssa.Lookup:
		if _, isMap := x.X.Type().Underlying().(*types.Map); isMap {
			ev.Events = append(ev.Events, Event{Callee: "maplookup", Args: []Val{fr.get(ev, x.X), fr.get(ev, x.Index)}, Pos: x.Pos(), State: st.clone(), Cond: ev.curCond})
		}
		fr.env[x] = symVal("lookup("+valKey(fr.get(ev, x.X))+","+valKey(fr.get(ev, x.Index))+")", x.Type())
		if _, isMap := x.X.Type().Underlying().(*types.Map); isMap && !x.CommaOk {
			// m[k] right after m[k] = v under the same path condition reads v
			mk := valKey(fr.get(ev, x.X))
			if last, ok := ev.mapLast[mk]; ok && last.key == valKey(fr.get(ev, x.Index)) && last.cond == condKey(ev.curCond) {
				fr.env[x] = last.val
			}
		}
		if x.CommaOk {
			fr.env[x] = &Tuple{Elems: []Val{symVal("lookup("+valKey(fr.get(ev, x.X))+","+valKey(fr.get(ev, x.Index))+")", x.Type().(*types.Tuple).At(0).Type()), A("ok?")}}
		}
	case *ssa.MapUpdate:
		ev.Events = append(ev.Events, Event{Callee: "mapupdate", Args: []Val{fr.get(ev, x.Map), fr.get(ev, x.Key), fr.get(ev, x.Value)}, Pos: x.Pos(), State: st.clone(), Cond: ev.curCond})
		if ev.mapLast == nil {
			ev.mapLast = map[string]mapWrite{}
		}
		ev.mapLast[valKey(fr.get(ev, x.Map))] = mapWrite{key: valKey(fr.get(ev, x.Key)), val: fr.get(ev, x.Value), cond: condKey(ev.curCond)}
	case *ssa.Range:
		fr.env[x] = &Sym{Path: "range(" + valKey(fr.get(ev, x.X)) + ")", T: x.Type()}
	case *ssa.Next:
		fr.env[x] = &Tuple{Elems: []Val{A("ok?"), A("k?"), A("v?")}}
	case *ssa.Send:
		ev.Events = append(ev.Events, Event{Callee: "send", Args: []Val{fr.get(ev, x.Chan), fr.get(ev, x.X)}, Pos: x.Pos(), State: st.clone(), Cond: ev.curCond})
	case *ssa.Go:
		ev.Events = append(ev.Events, Event{Callee: "go", Args: []Val{fr.get(ev, x.Call.Value)}, Pos: x.Pos(), State: st.clone(), Cond: ev.curCond})
	case *ssa.Defer:
		ev.Events = append(ev.Events, Event{Callee: "defer:" + x.Call.Value.String(), Pos: x.Pos(), State: st.clone(), Cond: ev.curCond})
	case *ssa.RunDefers, *ssa.DebugRef:
	case *ssa.Call:
		fr.env[x] = ev.doCall(fr, &x.Call, x, st)
	default:
		if v, ok := ins.(ssa.Value); ok {
			fr.env[v] = symVal("?"+fmt.Sprintf("%T", ins), v.Type())
		}
	}
}

func elemTypeIfPtr(t types.Type) types.Type {
	if p, ok := t.Underlying().(*types.Pointer); ok {
		return p.Elem()
	}
	return t
}

// decided applies the evaluation's assumptions to a comparison and records it.
func (ev *Evaluator) decided(c *Term) *Term {
	base, neg := c, false
	if base.Op == "not" {
		base, neg = base.Args[0], true
	}
	if base.Op == "a" {
		// a boolean field or parameter the rule fixes (a mode flag)
		if v, ok := ev.assume[base.Key()]; ok {
			if v != neg {
				return K(1)
			}
			return K(0)
		}
		return c
	}
	if base.Op != "cmp" {
		return c
	}
	if ev.branchSeen == nil {
		ev.branchSeen = map[string]bool{}
	}
	if !ev.branchSeen[base.Key()] {
		ev.branchSeen[base.Key()] = true
		ev.BranchConds = append(ev.BranchConds, base)
	}
	if v, ok := ev.assume[base.Key()]; ok {
		if v != neg {
			return K(1)
		}
		return K(0)
	}
	if ev.assumeFn != nil {
		if v, ok := ev.assumeFn(base); ok {
			if v != neg {
				return K(1)
			}
			return K(0)
		}
	}
	return c
}

func isFloatType(t types.Type) bool {
	b, ok := t.Underlying().(*types.Basic)
	return ok && b.Info()&types.IsFloat != 0
}

func isIntType(t types.Type) bool {
	b, ok := t.Underlying().(*types.Basic)
	return ok && b.Info()&types.IsInteger != 0
}

func (ev *Evaluator) doCall(fr *frame, c *ssa.CallCommon, site ssa.Value, st *State) Val {
	var args []Val
	for _, a := range c.Args {
		args = append(args, fr.get(ev, a))
	}
	var res *types.Tuple
	if sig, ok := c.Value.Type().Underlying().(*types.Signature); ok {
		res = sig.Results()
	}
	if c.IsInvoke() {
		recv := fr.get(ev, c.Value)
		res = c.Method.Type().(*types.Signature).Results()
		if i, ok := recv.(*Iface); ok {
			// resolve statically
			ms := ev.prog.MethodSets.MethodSet(i.T)
			if sel := ms.Lookup(c.Method.Pkg(), c.Method.Name()); sel != nil {
				fn := ev.prog.MethodValue(sel)
				if fn != nil {
					return ev.callFn(fn, append([]Val{i.Dyn}, args...), nil, st, site)
				}
			}
		}
		// symbolic receiver
		name := valKey(recv) + "." + c.Method.Name()
		if s, ok := recv.(*Sym); ok {
			name = s.Path + "." + c.Method.Name()
		}
		return ev.opaqueMethod(name, args, res, st, site)
	}
	switch f := fr.get(ev, c.Value).(type) {
	case *FuncV:
		if f.Fn != nil {
			return ev.callFn(f.Fn, args, f.Free, st, site)
		}
		return ev.builtin(f.Name, args, c, st, site)
	case *Alt:
		// a function value chosen by a test (`load := a; if c { load = b }; load(x)`): both calls
		// are made, each under its condition, and the results and states are merged
		fa, okA := f.A.(*FuncV)
		fb, okB := f.B.(*FuncV)
		if okA && okB && fa.Fn != nil && fb.Fn != nil {
			outer := ev.curCond
			stA, stB := st.clone(), st.clone()
			ev.curCond = cAnd(outer, f.C)
			ra := ev.callFn(fa.Fn, args, fa.Free, &stA, site)
			ev.curCond = cAnd(outer, Not(f.C))
			rb := ev.callFn(fb.Fn, args, fb.Free, &stB, site)
			ev.curCond = outer
			*st = iteState(f.C, stA, stB)
			return iteVal(f.C, ra, rb)
		}
	case *Sym:
		// function-typed field (MinFunc etc.)
		named := f.T.String()
		short := named[strings.LastIndex(named, ".")+1:]
		var ts []*Term
		for _, a := range args {
			if t, ok := a.(*Term); ok {
				ts = append(ts, t)
			} else {
				ts = append(ts, A(valKey(a)))
			}
		}
		if short == "MinFunc" || short == "MaxFunc" {
			ev.Log = append(ev.Log, "dyncall "+f.Path+" : "+short)
			return Call(short, ts...)
		}
		if res != nil && res.Len() == 1 {
			if isScalar(res.At(0).Type()) {
				return Call("dyn:"+f.Path, ts...)
			}
			return &Sym{Path: Call("dyn:"+f.Path, ts...).Key(), T: res.At(0).Type()}
		}
	}
	return ev.opaque("?call:"+c.Value.String(), args, res, st, c.Pos())
}

func (ev *Evaluator) opaqueMethod(name string, args []Val, res *types.Tuple, st *State, site ssa.Value) Val {
	var ts []*Term
	for _, a := range args {
		ts = append(ts, valTerm(a))
	}
	ev.Events = append(ev.Events, Event{Callee: "invoke:" + name, Args: args, State: st.clone(), Cond: ev.curCond})
	mk := func(nm string, t types.Type) Val {
		ct := Call(nm, ts...)
		if isScalar(t) {
			return ct
		}
		return &Sym{Path: ct.Key(), T: t, Call: ct}
	}
	if res == nil || res.Len() == 0 {
		return Nil{}
	}
	if res.Len() == 1 {
		return mk(name, res.At(0).Type())
	}
	t := &Tuple{}
	for i := 0; i < res.Len(); i++ {
		t.Elems = append(t.Elems, mk(fmt.Sprintf("%s#%d", name, i), res.At(i).Type()))
	}
	return t
}

// valTerm renders any value as a term usable as a call argument: scalars are
// themselves, aggregates become agg(leaf...), everything else an atom.
func valTerm(v Val) *Term {
	switch x := v.(type) {
	case *Term:
		return x
	case *Agg:
		t := &Term{Op: "agg"}
		for _, e := range x.Elems {
			t.Args = append(t.Args, valTerm(e))
		}
		return t
	case *Sym:
		if m := materialise(x); m != Val(x) {
			if a, ok := m.(*Agg); ok && len(a.Elems) <= 16 {
				return valTerm(a)
			}
		}
		return A(x.Path)
	case *Tuple:
		// (pointer, pointee) snapshot of an opaque call argument
		if len(x.Elems) == 2 {
			switch f := x.Elems[0].(type) {
			case *Ptr:
				return A(valKey(f))
			case *Sym:
				return A(f.Path)
			case *Iface:
				return valTerm(&Tuple{Elems: []Val{f.Dyn, x.Elems[1]}})
			}
		}
	}
	return A(valKey(v))
}

func (ev *Evaluator) callFn(fn *ssa.Function, args []Val, free []Val, st *State, site ssa.Value) Val {
	if ev.inline(fn) {
		if ev.steps < ev.maxSteps() {
			saved := ev.ctx
			ev.ctx = fmt.Sprintf("%s/%p", saved, site)
			r := ev.Call(fn, args, free, st)
			ev.ctx = saved
			return r
		}
		ev.Exceeded = true
	}
	name := fn.String()
	if fn.Pkg != nil && fn.Pkg.Pkg.Path() == "math" {
		name = "math." + fn.Name()
	}
	pos := token.NoPos
	if site != nil {
		pos = site.Pos()
	}
	// snapshot pointees for event
	var snap []Val
	symPointee := func(v Val) (Val, bool) {
		s, ok := v.(*Sym)
		if !ok || s.T == nil {
			return nil, false
		}
		if _, isPtr := s.T.Underlying().(*types.Pointer); !isPtr {
			return nil, false
		}
		if o, ok := ev.symObjs[s.Path]; ok {
			if pv, ok := st.mem[o]; ok {
				return pv, true
			}
		}
		return nil, false
	}
	for _, a := range args {
		if pv, ok := symPointee(a); ok {
			snap = append(snap, &Tuple{Elems: []Val{a, pv}})
			continue
		}
		if i, ok := a.(*Iface); ok {
			if pv, ok := symPointee(i.Dyn); ok {
				snap = append(snap, &Tuple{Elems: []Val{a, pv}})
				continue
			}
		}
		if p, ok := a.(*Ptr); ok && p.Obj != nil {
			snap = append(snap, &Tuple{Elems: []Val{a, ev.load(*st, p, nil)}})
		} else if i, ok := a.(*Iface); ok {
			if p, ok := i.Dyn.(*Ptr); ok && p.Obj != nil {
				snap = append(snap, &Tuple{Elems: []Val{a, ev.load(*st, p, nil)}})
			} else {
				snap = append(snap, a)
			}
		} else {
			snap = append(snap, a)
		}
	}
	res := ev.opaque(name, snap, fn.Signature.Results(), st, pos)
	// out-parameters of library functions: the pointee becomes unknown
	if idxs, ok := outParams[name]; ok {
		for _, i := range idxs {
			if i >= len(args) {
				continue
			}
			a := args[i]
			if ifc, ok := a.(*Iface); ok {
				a = ifc.Dyn
			}
			if p, ok := a.(*Ptr); ok && p.Obj != nil {
				nmuGlobal++
				old := getPath(st.mem[p.Obj], p.Path)
				nv := symLike(fmt.Sprintf("in%d:%s", nmuGlobal, p.Obj.name), old)
				st.mem[p.Obj] = setPath(st.mem[p.Obj], p.Path, nv)
			}
		}
	}
	return res
}

// outParams lists the standard-library functions that write through a pointer
// argument (index into the argument list).
var outParams = map[string][]int{
	"encoding/binary.Read": {2},
}

func (ev *Evaluator) builtin(name string, args []Val, c *ssa.CallCommon, st *State, site ssa.Value) Val {
	switch name {
	case "builtin:len":
		switch s := args[0].(type) {
		case *SliceV:
			if s.Len >= 0 {
				return K(int64(s.Len))
			}
			if s.Lo != 0 {
				return Add(A("len("+s.Sym.Path+")"), K(int64(-s.Lo)))
			}
			return A("len(" + s.Sym.Path + ")")
		case *Sym:
			return A("len(" + s.Path + ")")
		case *Term:
			return A("len(" + s.Key() + ")")
		}
		return A("len(?)")
	case "builtin:append":
		s0, ok := args[0].(*SliceV)
		if ok && s0.Arr != nil || isNilVal(args[0]) {
			// known-length append of known-length second arg
			var elems []Val
			if ok && s0.Arr != nil {
				a := st.mem[s0.Arr].(*Agg)
				elems = append(elems, a.Elems[s0.Lo:s0.Lo+s0.Len]...)
			}
			if s1, ok1 := args[1].(*SliceV); ok1 && s1.Arr != nil {
				a := st.mem[s1.Arr].(*Agg)
				elems = append(elems, a.Elems[s1.Lo:s1.Lo+s1.Len]...)
				o := ev.siteObj(site, "append")
				st.mem[o] = &Agg{Elems: elems}
				return &SliceV{Arr: o, Len: len(elems)}
			}
		}
		ev.Events = append(ev.Events, Event{Callee: "append", Args: args, State: st.clone(), Cond: ev.curCond})
		return &SliceV{Len: -1, Sym: &Sym{Path: "append(" + valKey(args[0]) + "," + valKey(args[1]) + ")", T: site.Type()}}
	}
	return ev.opaque(name, args, nil, st, c.Pos())
}

func isNilVal(v Val) bool { _, ok := v.(Nil); return ok }

// Rec is a recurrence definition for a loop-carried symbol.
type Rec struct{ Init, Step *Term }

var recs = map[string]*Rec{}

// recLoop: the loop (function#header block) a phi recurrence belongs to. Recurrences of one
// loop advance in lockstep.
var recLoop = map[string]string{}
var recOrder []string

// recsSince returns the recurrences recorded after mark (= len(recOrder) then).
func recsSince(mark int) map[string]*Rec {
	out := map[string]*Rec{}
	for _, n := range recOrder[mark:] {
		out[n] = recs[n]
	}
	return out
}

func symLike(name string, like Val) Val {
	switch x := like.(type) {
	case *Term:
		return A(name)
	case *Agg:
		out := &Agg{T: x.T}
		var st *types.Struct
		isArr := false
		if x.T != nil {
			st, _ = x.T.Underlying().(*types.Struct)
			_, isArr = x.T.Underlying().(*types.Array)
		}
		for i, e := range x.Elems {
			n := fmt.Sprintf("%s.%d", name, i)
			if st != nil && i < st.NumFields() {
				n = name + "." + st.Field(i).Name()
			} else if isArr {
				n = fmt.Sprintf("%s[%d]", name, i)
			}
			out.Elems = append(out.Elems, symLike(n, e))
		}
		return out
	case *Sym:
		m := materialise(x)
		if _, same := m.(*Sym); same {
			return &Sym{Path: name, T: x.T}
		}
		return symLike(name, m)
	case *SliceV:
		var t types.Type
		if x.Sym != nil {
			t = x.Sym.T
		}
		return &SliceV{Len: -1, Sym: &Sym{Path: name, T: t}}
	case Nil:
		// a nil slice/pointer/interface that the loop re-binds: unknown afterwards
		return &Sym{Path: name}
	case *Alt:
		return &Sym{Path: name}
	}
	return like
}

// symLikeDiff is symLike restricted to the leaves the loop body changes: a leaf of an
// aggregate whose value after one iteration (back) is what it was before (pre) keeps its
// current value (a struct whose X is set by the outer loop and whose Y by the inner one is
// loop-carried in Y only).
func symLikeDiff(name string, cur, pre, back Val) Val {
	ca, ok1 := cur.(*Agg)
	pa, ok2 := pre.(*Agg)
	ba, ok3 := back.(*Agg)
	if !ok1 || !ok2 || !ok3 || len(ca.Elems) != len(pa.Elems) || len(ca.Elems) != len(ba.Elems) {
		return symLike(name, cur)
	}
	full, _ := symLike(name, cur).(*Agg)
	if full == nil || len(full.Elems) != len(ca.Elems) {
		return symLike(name, cur)
	}
	out := &Agg{T: ca.T}
	for i := range ca.Elems {
		if valKey(pa.Elems[i]) == valKey(ba.Elems[i]) {
			out.Elems = append(out.Elems, ca.Elems[i])
			continue
		}
		// recurse with the element's own name (taken from the fully symbolic version)
		sub := full.Elems[i]
		if _, isAgg := ca.Elems[i].(*Agg); isAgg {
			nm := fmt.Sprintf("%s.%d", name, i)
			if ca.T != nil {
				if st, ok := ca.T.Underlying().(*types.Struct); ok && i < st.NumFields() {
					nm = name + "." + st.Field(i).Name()
				} else if _, isArr := ca.T.Underlying().(*types.Array); isArr {
					nm = fmt.Sprintf("%s[%d]", name, i)
				}
			}
			sub = symLikeDiff(nm, ca.Elems[i], pa.Elems[i], ba.Elems[i])
		}
		out.Elems = append(out.Elems, sub)
	}
	return out
}

func recordRec(name string, init, step Val) {
	switch x := init.(type) {
	case *Term:
		if st, ok := step.(*Term); ok {
			if _, seen := recs[name]; !seen {
				recOrder = append(recOrder, name)
			}
			recs[name] = &Rec{x, st}
		}
	case *Agg:
		if s, ok := step.(*Sym); ok {
			step = materialise(s)
		}
		if sa, ok := step.(*Agg); ok && len(sa.Elems) == len(x.Elems) {
			for i := range x.Elems {
				// two naming schemes: struct field names (symVal/materialise) or index (symLike)
				recordRec(fmt.Sprintf("%s.%d", name, i), x.Elems[i], sa.Elems[i])
				recordRec(fmt.Sprintf("%s[%d]", name, i), x.Elems[i], sa.Elems[i])
				if stt, ok2 := x.T.(interface{ Underlying() types.Type }); ok2 && x.T != nil {
					if su, ok3 := stt.Underlying().(*types.Struct); ok3 {
						recordRec(name+"."+su.Field(i).Name(), x.Elems[i], sa.Elems[i])
					}
				}
			}
		}
	case *Sym:
		if m := materialise(x); m != Val(x) {
			recordRec(name, m, step)
			return
		}
		valRecs[name] = [2]Val{init, step}
	default:
		// slices and other values that are not terms: kept as they are (a sliding window
		// `w = w[n:]` over a table row is read by the kernel analysis)
		valRecs[name] = [2]Val{init, step}
	}
}

// valRecs: loop-carried values that are not scalar terms (initial value, value after one turn).
var valRecs = map[string][2]Val{}

// solveGeometric rewrites, inside t, every loop-carried value that doubles per iteration
// (init 1; step 2·μ, μ+μ or μ<<1) as 1 << j, where j is the counter of the same loop
// (init 0, step +1): `for i, units := 0, 1; ...; i, units = i+1, units<<1` carries the same
// information as `1 << i` computed afresh.
func solveGeometric(t *Term) *Term {
	counterOf := func(loop string) *Term {
		for name, l := range recLoop {
			if l != loop {
				continue
			}
			if rc, ok := recs[name]; ok && rc.Init.IsZero() && rc.Step.Key() == Add(K(1), A(name)).Key() {
				return A(name)
			}
		}
		return nil
	}
	return rebuild(t, func(x *Term) *Term {
		if x.Op != "a" {
			return nil
		}
		rc, ok := recs[x.S]
		if !ok || !rc.Init.IsOne() {
			return nil
		}
		dbl := rc.Step.Key() == Mul(K(2), x).Key() || rc.Step.Key() == Call("op<<", x, K(1)).Key()
		if !dbl {
			return nil
		}
		loop, ok := recLoop[x.S]
		if !ok {
			return nil
		}
		if j := counterOf(loop); j != nil {
			return Call("op<<", K(1), j)
		}
		return nil
	})
}

// mapWrite: the most recent update of a map, used to read the same key back in straight-line code.
type mapWrite struct {
	key  string
	val  Val
	cond string
}

func condKey(c *Term) string {
	if c == nil {
		return ""
	}
	return c.Key()
}
