package main

// C06 — mesh vertices lie on the surface (structural part).
//
//  V1  mc/msInterpolate: general branch ≡ p1 + (x−v1)/(v2−v1)·(p2−p1); when
//      only one endpoint value is within epsilon of the iso level the result
//      is that endpoint, when both are it is the midpoint
//  V2  in the kernel the position and the value handed to the interpolation
//      for each end carry the same corner index (pair[e][0] / pair[e][1])
//  V3  both renderers: corner k's value is sampled at corner k's position
//      (shared with C05 T7); the octree's distance cache is allocated fresh
//      per render and its lattice→world map is origin + index·resolution
//  V4  lattice sizing of the uniform renderer: inc·steps ≡ box size
//  V5  layerYZ.Evaluate: every batch send is preceded by wg.Add(1), followed
//      on every path to return by wg.Wait(); after a send the output window
//      advances by exactly the batch size that triggered it and the point
//      buffer is replaced by a fresh one; the worker calls Done once per batch
//
// Not decided: every accuracy bound, convergence, padding, normals.

import (
	"fmt"
	"go/constant"
	"go/token"
	"go/types"
	"strings"

	"golang.org/x/tools/go/ssa"
)

func init() { register("C06", checkC06) }

func checkC06(ctx *Ctx, r *Report, tier string) {
	r.Explain = "Decides that mesh vertices are computed as the linear zero crossing of the right lattice edge from the right samples: closed form and endpoint snapping of mc/msInterpolate (all truth assignments of its epsilon tests), position/value index pairing in the kernels, corner/value numbering in both renderers, fresh per-render distance cache and its lattice-to-world map, lattice increments that tile the box exactly, and the batch protocol of the parallel layer evaluation (Add before send, Wait after, window shift = batch size, fresh point buffer, one Done per batch). Accuracy bounds, convergence and padding are not decided."
	r.Trusted = []string{"go/types", "go/ssa", "sdfxlint symbolic evaluator and term normaliser", "sync.WaitGroup semantics"}
	r.Assume = []string{"floating-point rounding is outside the claim"}

	for _, k := range []struct {
		fn, interp string
		n          int
	}{{"mcToTriangles", "mcInterpolate", 3}, {"msToLines", "msInterpolate", 2}} {
		interpSnap(ctx, r, "render", k.interp)
		kfn := ctx.ssaFunc("render", k.fn)
		if kfn == nil {
			r.undecided("V2", k.fn, 0, "kernel not found")
			continue
		}
		kf, err := analyseKernel(ctx, kfn, k.n, k.interp)
		if err != nil {
			r.undecided("V2", k.fn, kfn.Pos(), err.Error())
			continue
		}
		r.check("V2", k.fn+"|position-and-value-share-the-corner-index", kf.pos, kf.pairOK && kf.interpA+kf.interpB == 1, kf.pairDetail)
	}
	if cf := ctx.ssaFunc("render", "verifCtlInterpolateBadSnap"); cf != nil {
		interpSnap(ctx, r, "render", "verifCtlInterpolateBadSnap")
		r.expectControl("V1", "verifCtlInterpolateBadSnap")
	} else if !r.controlSkipped() {
		r.undecided("V1", "control", 0, "positive control missing")
	}
	r.floor("V1", 8)
	r.floor("V2", 2)

	// V3
	if ufn := ctx.ssaFunc("render", "marchingCubes"); ufn != nil {
		if cm, err := uniformCorners(ctx, ufn, "mcToTriangles", 3, "Get", "newLayerYZ", "Evaluate", "evalRoutines"); err != nil {
			r.undecided("V3", "marchingCubes", ufn.Pos(), err.Error())
		} else {
			r.check("V3", "marchingCubes|value-k-sampled-at-corner-k", cm.pos, validBits(cm.bits, 3) && fmt.Sprint(cm.bits) == fmt.Sprint(cm.valBits), "corner offsets "+bitsString(cm.bits)+" vs sample offsets "+bitsString(cm.valBits))
		}
		latticeSizing(ctx, r, ufn, "newLayerYZ", 3)
	} else {
		r.undecided("V3", "marchingCubes", 0, "not found")
	}
	if ufn := ctx.ssaFunc("render", "marchingSquares"); ufn != nil {
		if cm, err := uniformCorners(ctx, ufn, "msToLines", 2, "get", "newLineCache", "evaluate"); err != nil {
			r.undecided("V3", "marchingSquares", ufn.Pos(), err.Error())
		} else {
			r.check("V3", "marchingSquares|value-k-sampled-at-corner-k", cm.pos, validBits(cm.bits, 2) && fmt.Sprint(cm.bits) == fmt.Sprint(cm.valBits), "corner offsets "+bitsString(cm.bits)+" vs sample offsets "+bitsString(cm.valBits))
		}
		latticeSizing(ctx, r, ufn, "newLineCache", 2)
	}
	for _, t := range []struct {
		fn, kernel string
		dim        int
	}{{"(*dcache3).processCube", "mcToTriangles", 3}, {"(*dcache2).processSquare", "msToLines", 2}} {
		if fn := ctx.ssaFunc("render", t.fn); fn != nil {
			if cm, _, err := treeCorners(ctx, fn, t.kernel, t.dim, "evaluate", "isEmpty"); err != nil {
				r.undecided("V3", t.fn, fn.Pos(), err.Error())
			} else {
				r.check("V3", t.fn+"|value-k-sampled-at-corner-k", cm.pos, validBits(cm.bits, t.dim) && fmt.Sprint(cm.bits) == fmt.Sprint(cm.valBits), "corner offsets "+bitsString(cm.bits)+" vs value offsets "+bitsString(cm.valBits))
			}
		}
	}
	for _, c := range []struct {
		ctor, eval string
		dim        int
	}{{"newDcache3", "(*dcache3).evaluate", 3}, {"newDcache2", "(*dcache2).evaluate", 2}} {
		cacheFresh(ctx, r, c.ctor)
		cacheEvaluate(ctx, r, c.eval, c.dim)
	}
	if cf := ctx.ssaFunc("render", "verifCtlNewDcachePooled"); cf != nil {
		cacheFresh(ctx, r, "verifCtlNewDcachePooled")
		r.expectControl("V3", "verifCtlNewDcachePooled")
	}
	r.floor("V3", 8)
	r.floor("V4", 2)

	// V5
	if lfn := ctx.ssaFunc("render", "(*layerYZ).Evaluate"); lfn != nil {
		batchProtocol(ctx, r, lfn, "layerYZ.Evaluate")
	} else {
		r.undecided("V5", "layerYZ.Evaluate", 0, "not found")
	}
	if cf := ctx.ssaFunc("render", "verifCtlBatchNoWait"); cf != nil {
		batchProtocol(ctx, r, cf, "verifCtlBatchNoWait")
		r.expectControl("V5", "verifCtlBatchNoWait|wait-after-every-send")
		r.expectControl("V5", "verifCtlBatchNoWait|fresh-point-buffer")
	}
	if wfn := ctx.ssaFunc("render", "evalRoutines"); wfn != nil {
		workerDone(ctx, r, wfn)
	} else {
		r.undecided("V5", "evalRoutines", 0, "not found")
	}
	r.floor("V5", 6)
}

// interpSnap: V1.
func interpSnap(ctx *Ctx, r *Report, pkg, name string) {
	fn := ctx.ssaFunc(pkg, name)
	if fn == nil {
		r.undecided("V1", name, 0, "function not found")
		return
	}
	if len(fn.Params) != 5 {
		r.undecided("V1", name, fn.Pos(), "unexpected signature")
		return
	}
	ev := newEval(ctx)
	res, _ := ev.evalRoot(fn)
	leaves := map[string]*Term{}
	leafTerms("", res, leaves)
	pn := func(i int) string { return paramName(fn, i) }
	p1, p2, v1, v2, x := pn(0), pn(1), pn(2), pn(3), pn(4)
	// the epsilon tests: leaves whose atoms contain v1 resp. v2 only
	which := func(c *Term) int {
		as := atomList(c)
		has1, has2 := false, false
		for _, a := range as {
			if a == v1 {
				has1 = true
			}
			if a == v2 {
				has2 = true
			}
		}
		switch {
		case has1 && !has2:
			return 1
		case has2 && !has1:
			return 2
		}
		return 0
	}
	type verdict struct{ lin, near1, near2, both bool }
	v := verdict{true, true, true, true}
	detail := ""
	n := 0
	for comp, t := range leaves {
		conds := condAtoms(t)
		var c1, c2 []*Term
		for _, c := range conds {
			switch which(c) {
			case 1:
				c1 = append(c1, c)
			case 2:
				c2 = append(c2, c)
			default:
				r.undecided("V1", name, fn.Pos(), "condition "+shortKey(c.Key(), 80)+" is not an endpoint test")
				return
			}
		}
		if len(c1) != 1 || len(c2) != 1 {
			r.undecided("V1", name, fn.Pos(), fmt.Sprintf("%d/%d endpoint tests on component %s", len(c1), len(c2), comp))
			return
		}
		// the test must be "close": cmp:<(abs(x-v), eps)
		for _, c := range []*Term{c1[0], c2[0]} {
			if !(c.Op == "cmp" && (c.S == "<" || c.S == "<=") && c.Args[0].Op == "call" && c.Args[0].S == "math.Abs") {
				r.check("V1", name+"|epsilon-test-shape", fn.Pos(), false, "endpoint test is not |x−v| < ε: "+shortKey(c.Key(), 120))
				return
			}
		}
		at := func(a, b bool) *Term { return assume(t, map[string]bool{c1[0].Key(): a, c2[0].Key(): b}) }
		P1, P2 := A(p1+comp), A(p2+comp)
		lin := Add(P1, Mul(Div(Sub(A(x), A(v1)), Sub(A(v2), A(v1))), Sub(P2, P1)))
		mid := Mul(K(1), Add(Mul(Div(K(1), K(2)), P1), Mul(Div(K(1), K(2)), P2)))
		n += 4
		if g := at(false, false); !equalRat(g, lin) {
			v.lin = false
			detail += fmt.Sprintf(" [%s general: %s]", comp, shortKey(g.Key(), 120))
		}
		if g := at(true, false); !equalRat(g, P1) {
			v.near1 = false
			detail += fmt.Sprintf(" [%s only-v1-close: %s]", comp, shortKey(g.Key(), 80))
		}
		if g := at(false, true); !equalRat(g, P2) {
			v.near2 = false
			detail += fmt.Sprintf(" [%s only-v2-close: %s]", comp, shortKey(g.Key(), 80))
		}
		if g := at(true, true); !equalRat(g, mid) {
			v.both = false
			detail += fmt.Sprintf(" [%s both-close: %s]", comp, shortKey(g.Key(), 80))
		}
	}
	r.Counts["interp_cases"] += n
	r.check("V1", name+"|general-branch-is-linear-zero-crossing", fn.Pos(), v.lin, "p1 + (x−v1)/(v2−v1)·(p2−p1)"+detail)
	r.check("V1", name+"|only-v1-close-returns-p1", fn.Pos(), v.near1, detail)
	r.check("V1", name+"|only-v2-close-returns-p2", fn.Pos(), v.near2, detail)
	r.check("V1", name+"|both-close-returns-midpoint", fn.Pos(), v.both, detail)
}

// latticeSizing: V4, inc·steps ≡ size on every axis (arguments of the layer cache constructor).
func latticeSizing(ctx *Ctx, r *Report, fn *ssa.Function, ctor string, dim int) {
	ev := newEval(ctx, ctor, "Evaluate", "evaluate", "mcToTriangles", "msToLines", "Get", "get", "evalRoutines")
	ev.evalRoot(fn)
	cs := eventsOf(ev, "."+ctor)
	if len(cs) != 1 || len(cs[0].Args) != 3 {
		r.undecided("V4", fn.Name(), fn.Pos(), "layer cache constructor call not found")
		return
	}
	base, inc, steps := map[string]*Term{}, map[string]*Term{}, map[string]*Term{}
	leafTerms("", cs[0].Args[0], base)
	leafTerms("", cs[0].Args[1], inc)
	leafTerms("", cs[0].Args[2], steps)
	ok := len(inc) == dim && len(steps) == dim && len(base) == dim
	detail := ""
	for _, comp := range []string{".X", ".Y", ".Z"}[:dim] {
		if !ok {
			break
		}
		b := base[comp]
		// which box
		boxPath := ""
		for _, a := range atomList(b) {
			if i := strings.Index(a, ".Min."); i >= 0 {
				boxPath = a[:i]
			}
		}
		if boxPath == "" {
			ok = false
			detail += " base" + comp + " is not a box Min;"
			continue
		}
		// base + inc*steps == Max  (as rational functions, conversions transparent)
		lhs := stripConv(Add(b, Mul(inc[comp], Conv("float64", steps[comp]))))
		// Max of the same (possibly scaled) box: base is Min' ; size' = inc*steps ; so lhs must equal Max'.
		// Max' is recovered by mirroring Min<->Max in base.
		mirror := map[string]*Term{}
		for _, a := range atomList(b) {
			if strings.Contains(a, ".Min.") {
				mirror[a] = A(strings.Replace(a, ".Min.", ".Max.", 1))
			} else if strings.Contains(a, ".Max.") {
				mirror[a] = A(strings.Replace(a, ".Max.", ".Min.", 1))
			}
		}
		rhs := stripConv(substAtoms(b, mirror))
		if !equalRat(lhs, rhs) {
			ok = false
			detail += fmt.Sprintf(" axis %s: base+inc·steps = %s, box max = %s;", comp, shortKey(lhs.Key(), 160), shortKey(rhs.Key(), 100))
		}
		// steps = ceil(...)
		st := stripConv(steps[comp])
		if !(st.Op == "call" && st.S == "math.Ceil") {
			ok = false
			detail += " steps" + comp + " is not a ceil();"
		}
	}
	r.check("V4", fn.Name()+"|lattice-tiles-the-box", cs[0].Pos, ok, "base + inc·steps ≡ opposite box corner, steps = ⌈size/step⌉ on every axis;"+detail)
}

// cacheFresh: the distance cache map of a tree renderer is allocated by the constructor itself.
func cacheFresh(ctx *Ctx, r *Report, ctor string) {
	fn := ctx.ssaFunc("render", ctor)
	if fn == nil {
		r.undecided("V3", ctor, 0, "not found")
		return
	}
	ev := newEval(ctx)
	res, st := ev.evalRoot(fn)
	obj, ok := resultObject(res, st)
	if !ok {
		r.undecided("V3", ctor, fn.Pos(), "constructor result is not a fresh object")
		return
	}
	c, ok := fieldOf(obj, "cache")
	_, isMap := c.(*MapV)
	r.check("V3", ctor+"|cache-map-is-fresh-per-render", fn.Pos(), ok && isMap, "field cache = "+valKey(c)+" (must be a map made in the constructor: stale entries keyed by lattice index would pair wrong distances with corners)")
}

// cacheEvaluate: evaluate(vi) returns (origin + vi·resolution, s.Evaluate(that point) or the cached value for vi).
func cacheEvaluate(ctx *Ctx, r *Report, name string, dim int) {
	fn := ctx.ssaFunc("render", name)
	if fn == nil {
		r.undecided("V3", name, 0, "not found")
		return
	}
	ev := newEval(ctx, "read", "write")
	res, _ := ev.evalRoot(fn)
	tup, _ := res.(*Tuple)
	if tup == nil || len(tup.Elems) != 2 {
		r.undecided("V3", name, fn.Pos(), "unexpected result "+valKey(res))
		return
	}
	pos := map[string]*Term{}
	leafTerms("", tup.Elems[0], pos)
	ok := len(pos) == dim
	detail := ""
	for _, comp := range []string{".X", ".Y", ".Z"}[:dim] {
		t := pos[comp]
		if t == nil {
			ok = false
			continue
		}
		want := Add(A("dc.origin"+comp), Mul(Conv("float64", A("vi"+comp)), A("dc.resolution")))
		if !equalRat(stripConv(t), stripConv(want)) {
			ok = false
			detail += fmt.Sprintf(" %s: %s;", comp, shortKey(t.Key(), 120))
		}
	}
	r.check("V3", name+"|lattice-to-world-map", fn.Pos(), ok, "position ≡ origin + index·resolution;"+detail)
	// distance: either read(vi) or s.Evaluate(position); written under the same key
	d, _ := tup.Elems[1].(*Term)
	okD := d != nil
	if okD {
		evs := findSub(d, func(x *Term) bool { return x.Op == "call" && strings.HasSuffix(x.S, ".Evaluate") })
		rds := findSub(d, func(x *Term) bool { return x.Op == "call" && strings.Contains(x.S, ".read#0") })
		okD = len(evs) == 1 && len(rds) == 1
		if okD {
			// Evaluate argument is the returned position
			a := evs[0].Args[len(evs[0].Args)-1]
			okD = a.Op == "agg" && len(a.Args) == dim
			for i, comp := range []string{".X", ".Y", ".Z"}[:dim] {
				if okD && a.Args[i].Key() != pos[comp].Key() {
					okD = false
				}
			}
			// read key is vi
			ra := rds[0].Args[len(rds[0].Args)-1]
			for i, comp := range []string{".X", ".Y", ".Z"}[:dim] {
				if okD && (ra.Op != "agg" || ra.Args[i].Key() != "vi"+comp) {
					okD = false
				}
			}
		}
	}
	wOK := false
	for _, w := range eventsOf(ev, ".write") {
		if len(w.Args) == 3 {
			k := valTerm(w.Args[1])
			v, _ := w.Args[2].(*Term)
			if k.Op == "agg" && v != nil && strings.HasSuffix(v.S, ".Evaluate") {
				wOK = true
				for i, comp := range []string{".X", ".Y", ".Z"}[:dim] {
					if k.Args[i].Key() != "vi"+comp {
						wOK = false
					}
				}
			}
		}
	}
	r.check("V3", name+"|distance-is-evaluated-at-that-position-or-cached-under-its-index", fn.Pos(), okD && wOK, "distance = cache[vi] if present else s.Evaluate(origin+vi·res), stored under vi; term: "+shortKey(valKey(tup.Elems[1]), 200))
}

// ---------------------------------------------------------------- V5 batch protocol

func isWaitGroupCall(ins ssa.Instruction, method string) bool {
	c, ok := ins.(*ssa.Call)
	if !ok {
		return false
	}
	f := c.Call.StaticCallee()
	return f != nil && f.Name() == method && f.Signature.Recv() != nil && strings.HasSuffix(f.Signature.Recv().Type().String(), "sync.WaitGroup")
}

// everyPathHits reports whether every path from just after `from` to a
// return passes an instruction satisfying hit.
func everyPathHits(from ssa.Instruction, hit func(ssa.Instruction) bool) bool {
	b := from.Block()
	start := instrIndex(from) + 1
	seen := map[*ssa.BasicBlock]bool{}
	var walk func(b *ssa.BasicBlock, i int) bool
	walk = func(b *ssa.BasicBlock, i int) bool {
		for ; i < len(b.Instrs); i++ {
			ins := b.Instrs[i]
			if hit(ins) {
				return true
			}
			if _, ok := ins.(*ssa.Return); ok {
				return false
			}
		}
		for _, s := range b.Succs {
			if seen[s] {
				continue
			}
			seen[s] = true
			if !walk(s, 0) {
				return false
			}
		}
		return true
	}
	return walk(b, start)
}

func constInt(v ssa.Value) (int64, bool) {
	c, ok := v.(*ssa.Const)
	if !ok || c.Value == nil || c.Value.Kind() != constant.Int {
		return 0, false
	}
	return c.Int64(), true
}

// fieldStoreAfter finds, after instruction `from` in the same block, the
// store into field `name` of struct alloc `base`.
func fieldStoresAfter(from ssa.Instruction, base ssa.Value, name string) []*ssa.Store {
	var out []*ssa.Store
	b := from.Block()
	for i := instrIndex(from) + 1; i < len(b.Instrs); i++ {
		st, ok := b.Instrs[i].(*ssa.Store)
		if !ok {
			continue
		}
		fa, ok := st.Addr.(*ssa.FieldAddr)
		if !ok || fa.X != base {
			continue
		}
		stt := fa.X.Type().Underlying().(*types.Pointer).Elem().Underlying().(*types.Struct)
		if stt.Field(fa.Field).Name() == name {
			out = append(out, st)
		}
	}
	return out
}

func isFreshSlice(v ssa.Value) bool {
	switch x := v.(type) {
	case *ssa.MakeSlice:
		return true
	case *ssa.Slice:
		if a, ok := x.X.(*ssa.Alloc); ok && a.Heap {
			return true
		}
	case *ssa.Const:
		return x.Value == nil // nil slice
	}
	return false
}

func batchProtocol(ctx *Ctx, r *Report, fn *ssa.Function, label string) {
	var sends []*ssa.Send
	allInstrs(fn, func(b *ssa.BasicBlock, ins ssa.Instruction) {
		if s, ok := ins.(*ssa.Send); ok {
			sends = append(sends, s)
		}
	})
	if len(sends) == 0 {
		r.undecided("V5", label, fn.Pos(), "no channel send found")
		return
	}
	r.Counts["batch_sends"] += len(sends)
	for i, s := range sends {
		key := fmt.Sprintf("%s|send#%d", label, i+1)
		// Add(1) before, same block
		added := false
		for j := 0; j < instrIndex(s); j++ {
			if isWaitGroupCall(s.Block().Instrs[j], "Add") {
				c := s.Block().Instrs[j].(*ssa.Call)
				if n, ok := constInt(c.Call.Args[1]); ok && n == 1 {
					added = true
				}
			}
		}
		r.check("V5", key+"|add-1-before-send", s.Pos(), added, "wg.Add(1) must precede the send of a batch in the same block")
		waits := everyPathHits(s, func(x ssa.Instruction) bool { return isWaitGroupCall(x, "Wait") })
		r.check("V5", label+"|wait-after-every-send|"+fmt.Sprint(i+1), s.Pos(), waits, "every path from a batch send to return must pass wg.Wait(): the caller reads the layer afterwards")
		// in-loop sends: window shift and fresh buffer
		inLoop := false
		for _, b2 := range fn.Blocks {
			if b2.Dominates(s.Block()) || true {
				_ = b2
			}
		}
		reach := reachableFrom(s.Block())
		for _, p := range s.Block().Preds {
			if reach[p] {
				inLoop = true
			}
		}
		if len(s.Block().Succs) > 0 && reachableFrom(s.Block().Succs[0])[s.Block()] {
			inLoop = true
		}
		if !inLoop {
			continue
		}
		// the sent value is a load of a local struct
		ld, _ := s.X.(*ssa.UnOp)
		var base ssa.Value
		if ld != nil && ld.Op == token.MUL {
			base = ld.X
		}
		if base == nil {
			r.undecided("V5", key, s.Pos(), "sent value is not a load of a local request struct")
			continue
		}
		// guard len(req.p) == K
		var K int64 = -1
		for _, g := range branchGuards(s.Block()) {
			if bo, ok := g.cond.(*ssa.BinOp); ok && g.val && bo.Op == token.EQL {
				if n, ok := constInt(bo.Y); ok {
					K = n
				} else if n, ok := constInt(bo.X); ok {
					K = n
				}
			}
		}
		r.check("V5", key+"|sent-when-buffer-has-K-points", s.Pos(), K > 0, fmt.Sprintf("send guarded by len(points) == K, K=%d", K))
		outSt := fieldStoresAfter(s, base, "out")
		shiftOK := false
		if len(outSt) == 1 {
			if sl, ok := outSt[0].Val.(*ssa.Slice); ok && sl.High == nil && sl.Low != nil {
				if n, ok := constInt(sl.Low); ok && n == K {
					shiftOK = true
				}
			}
		}
		r.check("V5", key+"|output-window-advances-by-batch-size", s.Pos(), shiftOK, fmt.Sprintf("after the send: out = out[K:] with the same K=%d that triggered it", K))
		pSt := fieldStoresAfter(s, base, "p")
		fresh := len(pSt) == 1 && isFreshSlice(pSt[0].Val)
		r.check("V5", label+"|fresh-point-buffer|"+fmt.Sprint(i+1), s.Pos(), fresh, "after the send the point buffer must be a new slice (the worker still reads the sent one)")
	}
}

// workerDone: in every goroutine started by fn that ranges over a channel of
// requests, wg.Done is called exactly once per received request, after the
// inner loop that fills the output.
func workerDone(ctx *Ctx, r *Report, fn *ssa.Function) {
	n := 0
	allInstrs(fn, func(b *ssa.BasicBlock, ins ssa.Instruction) {
		g, ok := ins.(*ssa.Go)
		if !ok {
			return
		}
		var w *ssa.Function
		switch v := g.Call.Value.(type) {
		case *ssa.MakeClosure:
			w, _ = v.Fn.(*ssa.Function)
		case *ssa.Function:
			w = v
		}
		if w == nil {
			return
		}
		n++
		var recvs []*ssa.UnOp
		var dones []ssa.Instruction
		allInstrs(w, func(b *ssa.BasicBlock, i ssa.Instruction) {
			if u, ok := i.(*ssa.UnOp); ok && u.Op == token.ARROW {
				recvs = append(recvs, u)
			}
			if isWaitGroupCall(i, "Done") {
				dones = append(dones, i)
			}
		})
		ok1 := len(recvs) == 1 && len(dones) == 1
		detail := fmt.Sprintf("%d receives, %d Done calls", len(recvs), len(dones))
		if ok1 {
			rb, db := recvs[0].Block(), dones[0].Block()
			// Done happens after the receive, once per iteration of the receive loop:
			// the Done block is dominated by the receive block, returns to it, and is not inside an inner cycle avoiding the receive.
			ok1 = rb.Dominates(db) && reachableFrom(db)[rb]
			if ok1 {
				// inner cycle through db that avoids rb?
				seen := map[*ssa.BasicBlock]bool{rb: true}
				var dfs func(x *ssa.BasicBlock) bool
				dfs = func(x *ssa.BasicBlock) bool {
					for _, s := range x.Succs {
						if s == db {
							return true
						}
						if !seen[s] {
							seen[s] = true
							if dfs(s) {
								return true
							}
						}
					}
					return false
				}
				if dfs(db) {
					ok1 = false
					detail += "; Done is inside an inner loop"
				}
			}
			// every path from receive (ok branch) back to receive passes Done
			if ok1 {
				ok1 = everyPathHitsOrBack(recvs[0], rb, func(x ssa.Instruction) bool { return x == dones[0] })
				if !ok1 {
					detail += "; an iteration can skip Done"
				}
			}
		}
		r.check("V5", fmt.Sprintf("%s|worker#%d|one-Done-per-request", fn.Name(), n), g.Pos(), ok1, detail)
	})
	if n == 0 {
		r.undecided("V5", fn.Name(), fn.Pos(), "no worker goroutine found")
	}
}

// everyPathHitsOrBack: every path from after `from` that returns to block
// `back` passes hit (paths that leave the function are ignored).
func everyPathHitsOrBack(from ssa.Instruction, back *ssa.BasicBlock, hit func(ssa.Instruction) bool) bool {
	seen := map[*ssa.BasicBlock]bool{}
	var walk func(b *ssa.BasicBlock, i int) bool
	walk = func(b *ssa.BasicBlock, i int) bool {
		for ; i < len(b.Instrs); i++ {
			if hit(b.Instrs[i]) {
				return true
			}
		}
		for _, s := range b.Succs {
			if s == back {
				return false
			}
			if seen[s] {
				continue
			}
			seen[s] = true
			if !walk(s, 0) {
				return false
			}
		}
		return true
	}
	return walk(from.Block(), instrIndex(from)+1)
}
