package main

// C06 — mesh vertices lie on the surface (structural part).
//
//  V1  mc/msInterpolate: general branch ≡ p1 + (x−v1)/(v2−v1)·(p2−p1); when
//      only one endpoint value is within epsilon of the iso level the result
//      is that endpoint, when both are it is the midpoint
//  V2  in the kernel the position and the value handed to the interpolation
//      for each end carry the same corner index (pair[e][0] / pair[e][1])
//  V3  both renderers: corner k's value is sampled at corner k's position
//      (shared with C05 T7); the octree's distance cache is allocated fresh
//      per render and its lattice→world map is origin + index·resolution
//  V4  lattice sizing of the uniform renderer: inc·steps ≡ box size
//  V6  uniform renderers: the layer cache samples lattice point (x, j, k) at base + (x, j, k)∘inc
//      and the marching loop puts corner 0 of cell (x, y, z) at the same place, the cell
//      spanning inc on every axis - axis by axis (a step taken from another axis' increment
//      samples the field at one place and draws it at another)
//  V5  layerYZ.Evaluate: every batch send is preceded by wg.Add(1), followed
//      on every path to return by wg.Wait(); after a send the output window
//      advances by exactly the batch size that triggered it and the point
//      buffer is replaced by a fresh one; the worker calls Done once per batch
//
// Not decided: every accuracy bound, convergence, padding, normals.

import (
	"fmt"
	"go/constant"
	"go/token"
	"go/types"
	"strings"

	"golang.org/x/tools/go/ssa"
)

func init() { register("C06", checkC06) }

func checkC06(ctx *Ctx, r *Report, tier string) {
	r.Explain = "Decides that mesh vertices are computed as the linear zero crossing of the right lattice edge from the right samples: closed form and endpoint snapping of mc/msInterpolate (all truth assignments of its epsilon tests), position/value index pairing in the kernels, corner/value numbering in both renderers, fresh per-render distance cache and its lattice-to-world map, lattice increments that tile the box exactly, and the batch protocol of the parallel layer evaluation (Add before send, Wait after, window shift = batch size, fresh point buffer, one Done per batch). Accuracy bounds, convergence and padding are not decided."
	r.Trusted = []string{"go/types", "go/ssa", "sdfxlint symbolic evaluator and term normaliser", "sync.WaitGroup semantics"}
	r.Assume = []string{"floating-point rounding is outside the claim"}

	for _, k := range []struct {
		fn, interp string
		n          int
	}{{"mcToTriangles", "mcInterpolate", 3}, {"msToLines", "msInterpolate", 2}} {
		interpSnap(ctx, r, "render", k.interp)
		kfn := ctx.ssaFunc("render", k.fn)
		if kfn == nil {
			r.undecided("V2", k.fn, 0, "kernel not found")
			continue
		}
		kf, err := analyseKernel(ctx, kfn, k.n, k.interp)
		if err != nil {
			r.undecided("V2", k.fn, kfn.Pos(), err.Error())
			continue
		}
		r.check("V2", k.fn+"|position-and-value-share-the-corner-index", kf.pos, kf.pairOK && kf.interpA+kf.interpB == 1, kf.pairDetail)
	}
	if cf := ctx.ssaFunc("render", "verifCtlInterpolateBadSnap"); cf != nil {
		interpSnap(ctx, r, "render", "verifCtlInterpolateBadSnap")
		r.expectControl("V1", "verifCtlInterpolateBadSnap")
	} else if !r.controlSkipped() {
		r.undecided("V1", "control", 0, "positive control missing")
	}
	r.floor("V1", 8)
	r.floor("V2", 2)

	// V3
	if ufn := ctx.ssaFunc("render", "marchingCubes"); ufn != nil {
		if cm, err := uniformCorners(ctx, ufn, "mcToTriangles", 3, "Get", "newLayerYZ", "Evaluate", "evalRoutines"); err != nil {
			r.undecided("V3", "marchingCubes", ufn.Pos(), err.Error())
		} else {
			r.check("V3", "marchingCubes|value-k-sampled-at-corner-k", cm.pos, validBits(cm.bits, 3) && fmt.Sprint(cm.bits) == fmt.Sprint(cm.valBits), "corner offsets "+bitsString(cm.bits)+" vs sample offsets "+bitsString(cm.valBits))
		}
		latticeSizing(ctx, r, ufn, "newLayerYZ", 3)
		sampleLattice(ctx, r, "V6", ufn, "newLayerYZ", "Evaluate", "mcToTriangles", 3)
	} else {
		r.undecided("V3", "marchingCubes", 0, "not found")
	}
	paddedLattice(ctx, r)
	if ufn := ctx.ssaFunc("render", "marchingSquares"); ufn != nil {
		if cm, err := uniformCorners(ctx, ufn, "msToLines", 2, "get", "newLineCache", "evaluate"); err != nil {
			r.undecided("V3", "marchingSquares", ufn.Pos(), err.Error())
		} else {
			r.check("V3", "marchingSquares|value-k-sampled-at-corner-k", cm.pos, validBits(cm.bits, 2) && fmt.Sprint(cm.bits) == fmt.Sprint(cm.valBits), "corner offsets "+bitsString(cm.bits)+" vs sample offsets "+bitsString(cm.valBits))
		}
		latticeSizing(ctx, r, ufn, "newLineCache", 2)
		sampleLattice(ctx, r, "V6", ufn, "newLineCache", "evaluate", "msToLines", 2)
	}
	for _, t := range []struct {
		fn, kernel string
		dim        int
	}{{"(*dcache3).processCube", "mcToTriangles", 3}, {"(*dcache2).processSquare", "msToLines", 2}} {
		if fn := ctx.ssaFunc("render", t.fn); fn != nil {
			if cm, _, err := treeCorners(ctx, fn, t.kernel, t.dim, "evaluate", "isEmpty"); err != nil {
				r.undecided("V3", t.fn, fn.Pos(), err.Error())
			} else {
				r.check("V3", t.fn+"|value-k-sampled-at-corner-k", cm.pos, validBits(cm.bits, t.dim) && fmt.Sprint(cm.bits) == fmt.Sprint(cm.valBits), "corner offsets "+bitsString(cm.bits)+" vs value offsets "+bitsString(cm.valBits))
			}
		}
	}
	for _, c := range []struct {
		ctor, eval string
		dim        int
	}{{"newDcache3", "(*dcache3).evaluate", 3}, {"newDcache2", "(*dcache2).evaluate", 2}} {
		cacheFresh(ctx, r, c.ctor)
		cacheEvaluate(ctx, r, c.eval, c.dim)
	}
	if cf := ctx.ssaFunc("render", "verifCtlNewDcachePooled"); cf != nil {
		cacheFresh(ctx, r, "verifCtlNewDcachePooled")
		r.expectControl("V3", "verifCtlNewDcachePooled")
	}
	r.floor("V3", 8)
	r.floor("V4", 2)
	r.floor("V6", 4)

	// V5
	if lfn := ctx.ssaFunc("render", "(*layerYZ).Evaluate"); lfn != nil {
		batchProtocol(ctx, r, lfn, "layerYZ.Evaluate")
	} else {
		r.undecided("V5", "layerYZ.Evaluate", 0, "not found")
	}
	if cf := ctx.ssaFunc("render", "verifCtlBatchNoWait"); cf != nil {
		batchProtocol(ctx, r, cf, "verifCtlBatchNoWait")
		r.expectControl("V5", "verifCtlBatchNoWait|wait-after-every-send")
		r.expectControl("V5", "verifCtlBatchNoWait|fresh-point-buffer")
	}
	if wfn := ctx.ssaFunc("render", "evalRoutines"); wfn != nil {
		workerDone(ctx, r, wfn)
	} else {
		r.undecided("V5", "evalRoutines", 0, "not found")
	}
	r.floor("V5", 3)
}

// interpSnap: V1.
func interpSnap(ctx *Ctx, r *Report, pkg, name string) {
	fn := ctx.ssaFunc(pkg, name)
	if fn == nil {
		r.undecided("V1", name, 0, "function not found")
		return
	}
	if len(fn.Params) != 5 {
		r.undecided("V1", name, fn.Pos(), "unexpected signature")
		return
	}
	ev := newEval(ctx)
	res, _ := ev.evalRoot(fn)
	leaves := map[string]*Term{}
	leafTerms("", res, leaves)
	pn := func(i int) string { return paramName(fn, i) }
	p1, p2, v1, v2, x := pn(0), pn(1), pn(2), pn(3), pn(4)
	// the epsilon tests: leaves whose atoms contain v1 resp. v2 only
	which := func(c *Term) int {
		as := atomList(c)
		has1, has2 := false, false
		for _, a := range as {
			if a == v1 {
				has1 = true
			}
			if a == v2 {
				has2 = true
			}
		}
		switch {
		case has1 && !has2:
			return 1
		case has2 && !has1:
			return 2
		}
		return 0
	}
	type verdict struct{ lin, near1, near2, both bool }
	v := verdict{true, true, true, true}
	detail := ""
	n := 0
	for comp, t := range leaves {
		conds := condAtoms(t)
		var c1, c2 []*Term
		for _, c := range conds {
			switch which(c) {
			case 1:
				c1 = append(c1, c)
			case 2:
				c2 = append(c2, c)
			default:
				r.undecided("V1", name, fn.Pos(), "condition "+shortKey(c.Key(), 80)+" is not an endpoint test")
				return
			}
		}
		if len(c1) != 1 || len(c2) != 1 {
			r.undecided("V1", name, fn.Pos(), fmt.Sprintf("%d/%d endpoint tests on component %s", len(c1), len(c2), comp))
			return
		}
		// the test must be "close": cmp:<(abs(x-v), eps)
		for _, c := range []*Term{c1[0], c2[0]} {
			if !(c.Op == "cmp" && (c.S == "<" || c.S == "<=") && c.Args[0].Op == "call" && c.Args[0].S == "math.Abs") {
				r.check("V1", name+"|epsilon-test-shape", fn.Pos(), false, "endpoint test is not |x−v| < ε: "+shortKey(c.Key(), 120))
				return
			}
		}
		at := func(a, b bool) *Term { return assume(t, map[string]bool{c1[0].Key(): a, c2[0].Key(): b}) }
		P1, P2 := A(p1+comp), A(p2+comp)
		lin := Add(P1, Mul(Div(Sub(A(x), A(v1)), Sub(A(v2), A(v1))), Sub(P2, P1)))
		mid := Mul(K(1), Add(Mul(Div(K(1), K(2)), P1), Mul(Div(K(1), K(2)), P2)))
		n += 4
		if g := at(false, false); !equalRat(g, lin) {
			v.lin = false
			detail += fmt.Sprintf(" [%s general: %s]", comp, shortKey(g.Key(), 120))
		}
		if g := at(true, false); !equalRat(g, P1) {
			v.near1 = false
			detail += fmt.Sprintf(" [%s only-v1-close: %s]", comp, shortKey(g.Key(), 80))
		}
		if g := at(false, true); !equalRat(g, P2) {
			v.near2 = false
			detail += fmt.Sprintf(" [%s only-v2-close: %s]", comp, shortKey(g.Key(), 80))
		}
		if g := at(true, true); !equalRat(g, mid) {
			v.both = false
			detail += fmt.Sprintf(" [%s both-close: %s]", comp, shortKey(g.Key(), 80))
		}
	}
	r.Counts["interp_cases"] += n
	r.check("V1", name+"|general-branch-is-linear-zero-crossing", fn.Pos(), v.lin, "p1 + (x−v1)/(v2−v1)·(p2−p1)"+detail)
	r.check("V1", name+"|only-v1-close-returns-p1", fn.Pos(), v.near1, detail)
	r.check("V1", name+"|only-v2-close-returns-p2", fn.Pos(), v.near2, detail)
	r.check("V1", name+"|both-close-returns-midpoint", fn.Pos(), v.both, detail)
}

// latticeSizing: V4, inc·steps ≡ size on every axis (arguments of the layer cache constructor).
func latticeSizing(ctx *Ctx, r *Report, fn *ssa.Function, ctor string, dim int) {
	ev := newEval(ctx, ctor, "Evaluate", "evaluate", "mcToTriangles", "msToLines", "Get", "get", "evalRoutines")
	ev.evalRoot(fn)
	cs := eventsOf(ev, "."+ctor)
	if len(cs) != 1 || len(cs[0].Args) != 3 {
		r.undecided("V4", fn.Name(), fn.Pos(), "layer cache constructor call not found")
		return
	}
	base, inc, steps := map[string]*Term{}, map[string]*Term{}, map[string]*Term{}
	leafTerms("", cs[0].Args[0], base)
	leafTerms("", cs[0].Args[1], inc)
	leafTerms("", cs[0].Args[2], steps)
	ok := len(inc) == dim && len(steps) == dim && len(base) == dim
	detail := ""
	for _, comp := range []string{".X", ".Y", ".Z"}[:dim] {
		if !ok {
			break
		}
		b := base[comp]
		// which box
		boxPath := ""
		for _, a := range atomList(b) {
			if i := strings.Index(a, ".Min."); i >= 0 {
				boxPath = a[:i]
			}
		}
		if boxPath == "" {
			ok = false
			detail += " base" + comp + " is not a box Min;"
			continue
		}
		// base + inc*steps == Max  (as rational functions, conversions transparent)
		lhs := stripConv(Add(b, Mul(inc[comp], Conv("float64", steps[comp]))))
		// Max of the same (possibly scaled) box: base is Min' ; size' = inc*steps ; so lhs must equal Max'.
		// Max' is recovered by mirroring Min<->Max in base.
		mirror := map[string]*Term{}
		for _, a := range atomList(b) {
			if strings.Contains(a, ".Min.") {
				mirror[a] = A(strings.Replace(a, ".Min.", ".Max.", 1))
			} else if strings.Contains(a, ".Max.") {
				mirror[a] = A(strings.Replace(a, ".Max.", ".Min.", 1))
			}
		}
		rhs := stripConv(substAtoms(b, mirror))
		if !equalRat(lhs, rhs) {
			ok = false
			detail += fmt.Sprintf(" axis %s: base+inc·steps = %s, box max = %s;", comp, shortKey(lhs.Key(), 160), shortKey(rhs.Key(), 100))
		}
		// steps = ceil(...)
		st := stripConv(steps[comp])
		if !(st.Op == "call" && st.S == "math.Ceil") {
			ok = false
			detail += " steps" + comp + " is not a ceil();"
		}
	}
	r.check("V4", fn.Name()+"|lattice-tiles-the-box", cs[0].Pos, ok, "base + inc·steps ≡ opposite box corner, steps = ⌈size/step⌉ on every axis;"+detail)
}

// cacheFresh: the distance cache map of a tree renderer is allocated by the constructor itself.
func cacheFresh(ctx *Ctx, r *Report, ctor string) {
	fn := ctx.ssaFunc("render", ctor)
	if fn == nil {
		r.undecided("V3", ctor, 0, "not found")
		return
	}
	ev := newEval(ctx)
	res, st := ev.evalRoot(fn)
	obj, ok := resultObject(res, st)
	if !ok {
		r.undecided("V3", ctor, fn.Pos(), "constructor result is not a fresh object")
		return
	}
	// every map held by the object (directly or inside a field that wraps it with its lock) is
	// made in the constructor
	nMaps, stale := 0, ""
	var walk func(v Val, path string)
	walk = func(v Val, path string) {
		ag, isAgg := v.(*Agg)
		if !isAgg || ag.T == nil {
			return
		}
		st, isStruct := ag.T.Underlying().(*types.Struct)
		if !isStruct {
			return
		}
		for i, el := range ag.Elems {
			if i >= st.NumFields() {
				break
			}
			fp := path + "." + st.Field(i).Name()
			if _, isMapT := st.Field(i).Type().Underlying().(*types.Map); isMapT {
				if _, isMap := el.(*MapV); isMap {
					nMaps++
				} else {
					stale += " " + fp + " = " + shortKey(valKey(el), 60) + ";"
				}
				continue
			}
			walk(el, fp)
		}
	}
	walk(obj, "")
	r.check("V3", ctor+"|cache-map-is-fresh-per-render", fn.Pos(), nMaps >= 1 && stale == "", fmt.Sprintf("%d map(s) made in the constructor (stale entries keyed by lattice index would pair wrong distances with corners);%s", nMaps, stale))
}

// cacheEvaluate: evaluate(vi) returns (origin + vi·resolution, s.Evaluate(that point) or the cached value for vi).
func cacheEvaluate(ctx *Ctx, r *Report, name string, dim int) {
	fn := ctx.ssaFunc("render", name)
	if fn == nil {
		r.undecided("V3", name, 0, "not found")
		return
	}
	// read/write helpers (if any) are inlined: the rule looks at the map operations themselves
	ev := newEval(ctx)
	res, _ := ev.evalRoot(fn)
	tup, _ := res.(*Tuple)
	if tup == nil || len(tup.Elems) != 2 {
		r.undecided("V3", name, fn.Pos(), "unexpected result "+valKey(res))
		return
	}
	recvN, viN := paramName(fn, 0), paramName(fn, 1)
	pos := map[string]*Term{}
	leafTerms("", tup.Elems[0], pos)
	ok := len(pos) == dim
	detail := ""
	for _, comp := range []string{".X", ".Y", ".Z"}[:dim] {
		t := pos[comp]
		if t == nil {
			ok = false
			continue
		}
		want := Add(A(recvN+".origin"+comp), Mul(Conv("float64", A(viN+comp)), A(recvN+".resolution")))
		if !equalRat(stripConv(t), stripConv(want)) {
			ok = false
			detail += fmt.Sprintf(" %s: %s;", comp, shortKey(t.Key(), 120))
		}
	}
	r.check("V3", name+"|lattice-to-world-map", fn.Pos(), ok, "position ≡ origin + index·resolution;"+detail)
	// distance: the value cached under vi, or s.Evaluate(position) which is then stored under vi
	d, _ := tup.Elems[1].(*Term)
	okD := d != nil
	keyIsVi := func(k Val) bool {
		if sy, isSym := k.(*Sym); isSym {
			k = materialise(sy)
		}
		kt := valTerm(k)
		if kt.Op != "agg" || len(kt.Args) != dim {
			return false
		}
		for i, comp := range []string{".X", ".Y", ".Z"}[:dim] {
			if kt.Args[i].Key() != viN+comp {
				return false
			}
		}
		return true
	}
	var evalCall *Term
	if okD {
		nLook, nEval := 0, 0
		for _, lf := range iteLeaves(d) {
			switch {
			case lf.Op == "call" && strings.HasSuffix(lf.S, ".Evaluate"):
				nEval++
				evalCall = lf
				a := lf.Args[len(lf.Args)-1]
				if a.Op != "agg" || len(a.Args) != dim {
					okD = false
					break
				}
				for i, comp := range []string{".X", ".Y", ".Z"}[:dim] {
					if a.Args[i].Key() != pos[comp].Key() {
						okD = false
					}
				}
			case lf.Op == "a" && strings.HasPrefix(lf.S, "lookup("):
				nLook++
			default:
				okD = false
			}
		}
		okD = okD && nLook >= 1 && nEval >= 1
	}
	nl := 0
	for _, e := range ev.Events {
		if e.Callee == "maplookup" {
			nl++
			if !keyIsVi(e.Args[1]) {
				okD = false
			}
		}
	}
	okD = okD && nl >= 1
	wOK := false
	for _, w := range ev.Events {
		if w.Callee != "mapupdate" || len(w.Args) != 3 {
			continue
		}
		v, _ := w.Args[2].(*Term)
		wOK = keyIsVi(w.Args[1]) && v != nil && evalCall != nil && v.Key() == evalCall.Key()
		if !wOK {
			break
		}
	}
	r.check("V3", name+"|distance-is-evaluated-at-that-position-or-cached-under-its-index", fn.Pos(), okD && wOK, "distance = cache[vi] if present else s.Evaluate(origin+vi·res), stored under vi; term: "+shortKey(valKey(tup.Elems[1]), 200))
}

// ---------------------------------------------------------------- V5 batch protocol

func isWaitGroupCall(ins ssa.Instruction, method string) bool {
	c, ok := ins.(*ssa.Call)
	if !ok {
		return false
	}
	f := c.Call.StaticCallee()
	return f != nil && f.Name() == method && f.Signature.Recv() != nil && strings.HasSuffix(f.Signature.Recv().Type().String(), "sync.WaitGroup")
}

// everyPathHits reports whether every path from just after `from` to a
// return passes an instruction satisfying hit.
func everyPathHits(from ssa.Instruction, hit func(ssa.Instruction) bool) bool {
	b := from.Block()
	start := instrIndex(from) + 1
	seen := map[*ssa.BasicBlock]bool{}
	var walk func(b *ssa.BasicBlock, i int) bool
	walk = func(b *ssa.BasicBlock, i int) bool {
		for ; i < len(b.Instrs); i++ {
			ins := b.Instrs[i]
			if hit(ins) {
				return true
			}
			if _, ok := ins.(*ssa.Return); ok {
				return false
			}
		}
		for _, s := range b.Succs {
			if seen[s] {
				continue
			}
			seen[s] = true
			if !walk(s, 0) {
				return false
			}
		}
		return true
	}
	return walk(b, start)
}

func constInt(v ssa.Value) (int64, bool) {
	c, ok := v.(*ssa.Const)
	if !ok || c.Value == nil || c.Value.Kind() != constant.Int {
		return 0, false
	}
	return c.Int64(), true
}

// fieldStoreAfter finds, after instruction `from` in the same block, the
// store into field `name` of struct alloc `base`.
func fieldStoresAfter(from ssa.Instruction, base ssa.Value, name string) []*ssa.Store {
	var out []*ssa.Store
	b := from.Block()
	for i := instrIndex(from) + 1; i < len(b.Instrs); i++ {
		st, ok := b.Instrs[i].(*ssa.Store)
		if !ok {
			continue
		}
		fa, ok := st.Addr.(*ssa.FieldAddr)
		if !ok || fa.X != base {
			continue
		}
		stt := fa.X.Type().Underlying().(*types.Pointer).Elem().Underlying().(*types.Struct)
		if stt.Field(fa.Field).Name() == name {
			out = append(out, st)
		}
	}
	return out
}

func isFreshSlice(v ssa.Value) bool {
	switch x := v.(type) {
	case *ssa.MakeSlice:
		return true
	case *ssa.Slice:
		if a, ok := x.X.(*ssa.Alloc); ok && a.Heap {
			return true
		}
	case *ssa.Const:
		return x.Value == nil // nil slice
	}
	return false
}

// batchSite is one place where a batch request is handed to the workers: a channel send in
// the function itself, or a call of a module helper that (on its only path) does
// wg.Add(1) and sends its parameter.
type batchSite struct {
	ins   ssa.Instruction
	req   ssa.Value // the request value sent / passed
	added bool      // wg.Add(1) precedes the send (here or in the helper)
}

func batchSites(fn *ssa.Function) []batchSite {
	var out []batchSite
	addBefore := func(blk *ssa.BasicBlock, upto int) bool {
		for j := 0; j < upto; j++ {
			if isWaitGroupCall(blk.Instrs[j], "Add") {
				c := blk.Instrs[j].(*ssa.Call)
				if n, ok := constInt(c.Call.Args[1]); ok && n == 1 {
					return true
				}
			}
		}
		return false
	}
	allInstrs(fn, func(b *ssa.BasicBlock, ins ssa.Instruction) {
		switch x := ins.(type) {
		case *ssa.Send:
			out = append(out, batchSite{ins: x, req: x.X, added: addBefore(b, instrIndex(x))})
		case *ssa.Call:
			h := x.Call.StaticCallee()
			if h == nil || !inModule(h) || len(h.Blocks) != 1 || x.Call.IsInvoke() {
				return
			}
			for i, ins2 := range h.Blocks[0].Instrs {
				sd, ok := ins2.(*ssa.Send)
				if !ok {
					continue
				}
				// the helper sends one of its parameters (possibly re-loaded from its spill slot)
				for pi, prm := range h.Params {
					if pi < len(x.Call.Args) && sentIsParam(sd.X, prm) {
						out = append(out, batchSite{ins: x, req: x.Call.Args[pi], added: addBefore(h.Blocks[0], i)})
					}
				}
			}
		}
	})
	return out
}

func sentIsParam(v ssa.Value, prm *ssa.Parameter) bool {
	if v == ssa.Value(prm) {
		return true
	}
	// load of the alloc the parameter was spilled to
	if ld, ok := v.(*ssa.UnOp); ok && ld.Op == token.MUL {
		if al, ok := ld.X.(*ssa.Alloc); ok {
			for _, ref := range *al.Referrers() {
				if st, ok := ref.(*ssa.Store); ok && st.Addr == ssa.Value(al) && st.Val == ssa.Value(prm) {
					return true
				}
			}
		}
	}
	return false
}

// reqComponent finds how field `name` of the request is held at the site: as a field of a
// local request struct that lives across iterations (base != nil), or as the SSA value stored
// into a request literal built for this send (val != nil).
func reqComponent(site batchSite, name string) (base ssa.Value, val ssa.Value) {
	ld, _ := site.req.(*ssa.UnOp)
	if ld == nil || ld.Op != token.MUL {
		return nil, nil
	}
	al, _ := ld.X.(*ssa.Alloc)
	if al == nil {
		return nil, nil
	}
	st, ok := al.Type().Underlying().(*types.Pointer).Elem().Underlying().(*types.Struct)
	if !ok {
		return nil, nil
	}
	// a literal built right before the send: every field store is in the send's block
	var stored ssa.Value
	allInBlock, n := true, 0
	for _, ref := range *al.Referrers() {
		fa, ok := ref.(*ssa.FieldAddr)
		if !ok {
			continue
		}
		for _, r2 := range *fa.Referrers() {
			if sto, ok := r2.(*ssa.Store); ok && sto.Addr == ssa.Value(fa) {
				n++
				if sto.Block() != site.ins.Block() {
					allInBlock = false
				}
				if st.Field(fa.Field).Name() == name {
					stored = sto.Val
				}
			}
		}
	}
	if al.Comment == "complit" && allInBlock && n > 0 {
		return nil, stored
	}
	return al, nil
}

// phiFedBy: v is a phi (possibly through other phis) one of whose incoming values is `in`.
func phiFedBy(v ssa.Value, in ssa.Value, depth int, seen map[ssa.Value]bool) bool {
	if depth > 6 || seen[v] {
		return false
	}
	seen[v] = true
	phi, ok := v.(*ssa.Phi)
	if !ok {
		return false
	}
	for _, e := range phi.Edges {
		if e == in || phiFedBy(e, in, depth+1, seen) {
			return true
		}
	}
	return false
}

func batchProtocol(ctx *Ctx, r *Report, fn *ssa.Function, label string) {
	sites := batchSites(fn)
	if len(sites) == 0 {
		r.undecided("V5", label, fn.Pos(), "no channel send found")
		return
	}
	r.Counts["batch_sends"] += len(sites)
	for i, site := range sites {
		s := site.ins
		key := fmt.Sprintf("%s|send#%d", label, i+1)
		r.check("V5", key+"|add-1-before-send", s.Pos(), site.added, "wg.Add(1) must precede the send of a batch (in the same block, or inside the sending helper)")
		waits := everyPathHits(s, func(x ssa.Instruction) bool { return isWaitGroupCall(x, "Wait") })
		r.check("V5", label+"|wait-after-every-send|"+fmt.Sprint(i+1), s.Pos(), waits, "every path from a batch send to return must pass wg.Wait(): the caller reads the layer afterwards")
		// in-loop sends: window shift and fresh buffer
		inLoop := false
		reach := reachableFrom(s.Block())
		for _, p := range s.Block().Preds {
			if reach[p] {
				inLoop = true
			}
		}
		if len(s.Block().Succs) > 0 && reachableFrom(s.Block().Succs[0])[s.Block()] {
			inLoop = true
		}
		if !inLoop {
			continue
		}
		// guard len(points) == K
		var K int64 = -1
		for _, g := range branchGuards(s.Block()) {
			if bo, ok := g.cond.(*ssa.BinOp); ok && g.val && bo.Op == token.EQL {
				if n, ok := constInt(bo.Y); ok {
					K = n
				} else if n, ok := constInt(bo.X); ok {
					K = n
				}
			}
		}
		outBase, outVal := reqComponent(site, "out")
		pBase, pVal := reqComponent(site, "p")
		pSent := pVal
		lenAdvance := false // the window advances by len(sent points): right for any batch size
		if outBase == nil && outVal == nil {
			r.undecided("V5", key, s.Pos(), "the request sent is neither a local request struct nor a literal built for the send")
			continue
		}
		shiftOK, fresh := false, false
		if outBase != nil {
			// the request struct lives across iterations: its fields are re-bound after the send
			outSt := fieldStoresAfter(s, outBase, "out")
			if len(outSt) == 1 {
				if sl, ok := outSt[0].Val.(*ssa.Slice); ok && sl.High == nil && sl.Low != nil {
					if n, ok := constInt(sl.Low); ok && n == K {
						shiftOK = true
					}
				}
			}
			pSt := fieldStoresAfter(s, pBase, "p")
			fresh = len(pSt) == 1 && isFreshSliceDeep(pSt[0].Val, 2)
		} else {
			// the components are locals: after the send, in the same block, out[K:] and a fresh
			// point slice are computed and feed the loop-carried variables
			blk := s.Block()
			// the point buffer sent is the loop-carried slice, possibly after this iteration's append
			for k := 0; k < 3; k++ {
				if ap, ok := pVal.(*ssa.Call); ok {
					if bi, ok := ap.Call.Value.(*ssa.Builtin); ok && bi.Name() == "append" {
						pVal = ap.Call.Args[0]
						continue
					}
				}
				break
			}
			// the output window may be held as an offset into the layer: out = vals[sent:]
			var sentOff ssa.Value
			if sl, ok := outVal.(*ssa.Slice); ok && sl.High == nil && sl.Low != nil {
				if _, isPhi := sl.Low.(*ssa.Phi); isPhi {
					sentOff = sl.Low
				}
			}
			for j := instrIndex(s) + 1; j < len(blk.Instrs); j++ {
				if bo, ok := blk.Instrs[j].(*ssa.BinOp); ok && sentOff != nil && bo.Op == token.ADD {
					var other ssa.Value
					if bo.X == sentOff {
						other = bo.Y
					} else if bo.Y == sentOff {
						other = bo.X
					}
					if other != nil {
						if n, ok := constInt(other); ok && n == K && phiFedBy(sentOff, bo, 0, map[ssa.Value]bool{}) {
							shiftOK = true
						}
						if lc, ok := other.(*ssa.Call); ok && pSent != nil && phiFedBy(sentOff, bo, 0, map[ssa.Value]bool{}) {
							if bi, ok := lc.Call.Value.(*ssa.Builtin); ok && bi.Name() == "len" && lc.Call.Args[0] == pSent {
								shiftOK, lenAdvance = true, true
							}
						}
					}
				}
				switch y := blk.Instrs[j].(type) {
				case *ssa.Slice:
					if y.X == outVal && y.High == nil && y.Low != nil {
						if n, ok := constInt(y.Low); ok && n == K && phiFedBy(outVal, y, 0, map[ssa.Value]bool{}) {
							shiftOK = true
						}
					}
					// make([]T, 0, const) is a slice of a new array
					if pVal != nil && isFreshSlice(y) && phiFedBy(pVal, y, 0, map[ssa.Value]bool{}) {
						fresh = true
					}
				case *ssa.MakeSlice:
					if pVal != nil && phiFedBy(pVal, y, 0, map[ssa.Value]bool{}) {
						fresh = true
					}
				}
			}
		}
		if outBase == nil && outVal == nil {
			continue
		}
		r.check("V5", key+"|sent-when-buffer-has-K-points", s.Pos(), K > 0 || lenAdvance, fmt.Sprintf("send guarded by len(points) == K (K=%d), or the window advances by the length of what was sent", K))
		r.check("V5", key+"|output-window-advances-by-batch-size", s.Pos(), shiftOK, fmt.Sprintf("after the send: out = out[K:] with the same K=%d that triggered it, or an offset advanced by len(points sent)", K))
		r.check("V5", label+"|fresh-point-buffer|"+fmt.Sprint(i+1), s.Pos(), fresh, "after the send the point buffer must be a new slice (the worker still reads the sent one)")
	}
}

// workerDone: in every goroutine started by fn that ranges over a channel of
// requests, wg.Done is called exactly once per received request, after the
// inner loop that fills the output.
func workerDone(ctx *Ctx, r *Report, fn *ssa.Function) {
	n := 0
	allInstrs(fn, func(b *ssa.BasicBlock, ins ssa.Instruction) {
		g, ok := ins.(*ssa.Go)
		if !ok {
			return
		}
		var w *ssa.Function
		switch v := g.Call.Value.(type) {
		case *ssa.MakeClosure:
			w, _ = v.Fn.(*ssa.Function)
		case *ssa.Function:
			w = v
		}
		if w == nil {
			return
		}
		n++
		var recvs []*ssa.UnOp
		var dones []ssa.Instruction
		allInstrs(w, func(b *ssa.BasicBlock, i ssa.Instruction) {
			if u, ok := i.(*ssa.UnOp); ok && u.Op == token.ARROW {
				recvs = append(recvs, u)
			}
			if isWaitGroupCall(i, "Done") {
				dones = append(dones, i)
			}
			// a helper of the module that signals Done exactly once on every path (r.run())
			if c, ok := i.(*ssa.Call); ok {
				if g := c.Call.StaticCallee(); g != nil && inModule(g) && len(g.Blocks) > 0 && callsDoneOnce(g) {
					dones = append(dones, i)
				}
			}
		})
		ok1 := len(recvs) == 1 && len(dones) == 1
		detail := fmt.Sprintf("%d receives, %d Done calls", len(recvs), len(dones))
		if ok1 {
			rb, db := recvs[0].Block(), dones[0].Block()
			// Done happens after the receive, once per iteration of the receive loop:
			// the Done block is dominated by the receive block, returns to it, and is not inside an inner cycle avoiding the receive.
			ok1 = rb.Dominates(db) && reachableFrom(db)[rb]
			if ok1 {
				// inner cycle through db that avoids rb?
				seen := map[*ssa.BasicBlock]bool{rb: true}
				var dfs func(x *ssa.BasicBlock) bool
				dfs = func(x *ssa.BasicBlock) bool {
					for _, s := range x.Succs {
						if s == db {
							return true
						}
						if !seen[s] {
							seen[s] = true
							if dfs(s) {
								return true
							}
						}
					}
					return false
				}
				if dfs(db) {
					ok1 = false
					detail += "; Done is inside an inner loop"
				}
			}
			// every path from receive (ok branch) back to receive passes Done
			if ok1 {
				ok1 = everyPathHitsOrBack(recvs[0], rb, func(x ssa.Instruction) bool { return x == dones[0] })
				if !ok1 {
					detail += "; an iteration can skip Done"
				}
			}
		}
		r.check("V5", fmt.Sprintf("%s|worker#%d|one-Done-per-request", fn.Name(), n), g.Pos(), ok1, detail)
	})
	if n == 0 {
		r.undecided("V5", fn.Name(), fn.Pos(), "no worker goroutine found")
	}
}

// everyPathHitsOrBack: every path from after `from` that returns to block
// `back` passes hit (paths that leave the function are ignored).
func everyPathHitsOrBack(from ssa.Instruction, back *ssa.BasicBlock, hit func(ssa.Instruction) bool) bool {
	seen := map[*ssa.BasicBlock]bool{}
	var walk func(b *ssa.BasicBlock, i int) bool
	walk = func(b *ssa.BasicBlock, i int) bool {
		for ; i < len(b.Instrs); i++ {
			if hit(b.Instrs[i]) {
				return true
			}
		}
		for _, s := range b.Succs {
			if s == back {
				return false
			}
			if seen[s] {
				continue
			}
			seen[s] = true
			if !walk(s, 0) {
				return false
			}
		}
		return true
	}
	return walk(from.Block(), instrIndex(from)+1)
}

// ---------------------------------------------------------------- V6

// resolveRec reduces a coordinate that is carried through loops to (origin, increment): a cell
// that does not change in its loop is what it was initialised with; a cell advanced by
// `c += d` (d loop invariant) starts at its initial value and moves by d per iteration.
func resolveRec(t *Term, depth int) (origin, inc *Term) {
	if t == nil || t.Op != "a" || !strings.HasPrefix(t.S, "μ") || depth > 8 {
		return t, nil
	}
	rc := recs[t.S]
	if rc == nil {
		return t, nil
	}
	if rc.Step.Key() == rc.Init.Key() {
		return resolveRec(rc.Init, depth+1)
	}
	isMu := func(x *Term) bool { return x.Op == "a" && strings.HasPrefix(x.S, "μ") }
	for _, at := range findSub(rc.Step, isMu) {
		a := at.S
		r2 := recs[a]
		if r2 == nil || r2.Init.Key() != rc.Init.Key() || r2.Step.Key() != rc.Step.Key() {
			continue
		}
		d := Sub(rc.Step, A(a))
		if len(findSub(d, isMu)) > 0 {
			return t, nil
		}
		o, oi := resolveRec(rc.Init, depth+1)
		if oi != nil {
			return t, nil // an origin that itself moves: not a lattice along one axis
		}
		return o, d
	}
	return t, nil
}

// pointTerms: the components of a vector value, when they are scalar terms.
func pointTerms(v Val, dim int) []*Term {
	if s, ok := v.(*Sym); ok {
		v = materialise(s)
	}
	ag, _ := v.(*Agg)
	if ag == nil || len(ag.Elems) != dim {
		return nil
	}
	var out []*Term
	for _, e := range ag.Elems {
		t, ok := e.(*Term)
		if !ok {
			return nil
		}
		out = append(out, t)
	}
	return out
}

func sampleLattice(ctx *Ctx, r *Report, rule string, march *ssa.Function, ctor, method, kernel string, dim int) {
	axes := []string{"X", "Y", "Z"}[:dim]
	// (a) the layer cache: positions handed to the shape's Evaluate
	cfn := ctx.ssaFunc("render", ctor)
	if cfn == nil || len(cfn.Params) < 2 {
		r.undecided(rule, ctor, 0, "layer cache constructor not found")
		return
	}
	alts, _ := ctorAlts(ctx, cfn)
	if len(alts) != 1 {
		r.undecided(rule, ctor, cfn.Pos(), "layer cache constructor does not build one object")
		return
	}
	_, ev, err := composeMethod(ctx, alts[0], method, "evalRoutines")
	if err != nil || ev.Exceeded {
		r.undecided(rule, ctor+"."+method, cfn.Pos(), fmt.Sprintf("cannot evaluate the layer method: %v", err))
		return
	}
	m := methodOf(ctx, alts[0].typ, method)
	baseN, incN, xN := paramName(cfn, 0), paramName(cfn, 1), paramName(m, len(m.Params)-1)
	var samples [][]*Term
	for _, e := range ev.Events {
		switch {
		case strings.HasSuffix(e.Callee, ".Evaluate"):
			for _, a := range e.Args {
				if pt := pointTerms(a, dim); pt != nil {
					samples = append(samples, pt)
				}
			}
		case e.Callee == "append":
			for _, v := range appendedVals(e) {
				if pt := pointTerms(v, dim); pt != nil {
					samples = append(samples, pt)
				}
			}
		}
	}
	key := typeShort(alts[0].typ) + "." + method
	if len(samples) == 0 {
		r.undecided(rule, key, m.Pos(), "no sample position found (neither a direct Evaluate call nor a point appended to a batch)")
		return
	}
	okA, detail := true, ""
	for _, pt := range samples {
		for i, ax := range axes {
			b, d := A(baseN+"."+ax), A(incN+"."+ax)
			o, inc := resolveRec(pt[i], 0)
			good := false
			if inc == nil {
				good = equalRat(stripConv(o), stripConv(Add(b, Mul(Conv("float64", A(xN)), d))))
			} else {
				good = equalRat(o, b) && equalRat(inc, d)
			}
			if !good {
				okA = false
				is := "-"
				if inc != nil {
					is = shortKey(inc.Key(), 60)
				}
				detail += fmt.Sprintf(" axis %s: starts at %s, advances by %s (expected %s and %s);", ax, shortKey(o.Key(), 80), is, b.Key(), d.Key())
			}
		}
	}
	r.check(rule, key+"|samples-lattice-points-axis-by-axis", m.Pos(), okA, fmt.Sprintf("%d sample position(s): coordinate A is base.A + index·inc.A;%s", len(samples), detail))
	sampleCounts(ctx, r, rule, key, m)

	// (b) the marching loop: corner 0 of the cell and the cell's extent
	ev2 := newEval(ctx, ctor, "Evaluate", "evaluate", kernel, "Get", "get", "evalRoutines")
	ev2.evalRoot(march)
	cs := eventsOf(ev2, "."+ctor)
	ks := eventsOf(ev2, "."+kernel)
	if len(cs) != 1 || len(ks) != 1 || len(cs[0].Args) < 2 || len(ks[0].Args) < 1 {
		r.undecided(rule, march.Name(), march.Pos(), "constructor or kernel call not found")
		return
	}
	base, inc := pointTerms(cs[0].Args[0], dim), pointTerms(cs[0].Args[1], dim)
	corners, _ := ks[0].Args[0].(*Agg)
	if base == nil || inc == nil || corners == nil || len(corners.Elems) != 1<<dim {
		r.undecided(rule, march.Name(), march.Pos(), "constructor arguments or kernel corners are not vectors")
		return
	}
	c0 := pointTerms(corners.Elems[0], dim)
	if c0 == nil {
		r.undecided(rule, march.Name(), march.Pos(), "corner 0 is not a vector of scalars")
		return
	}
	okB, detailB := true, ""
	for i, ax := range axes {
		o, d := resolveRec(c0[i], 0)
		if d == nil || !equalRat(o, base[i]) || !equalRat(d, inc[i]) {
			okB = false
			ds := "-"
			if d != nil {
				ds = shortKey(d.Key(), 80)
			}
			detailB += fmt.Sprintf(" axis %s: corner 0 starts at %s and advances by %s, the cache was built with %s and %s;", ax, shortKey(o.Key(), 80), ds, shortKey(base[i].Key(), 80), shortKey(inc[i].Key(), 80))
		}
	}
	for k := 1; k < len(corners.Elems); k++ {
		ck := pointTerms(corners.Elems[k], dim)
		if ck == nil {
			okB = false
			detailB += fmt.Sprintf(" corner %d is not a vector of scalars;", k)
			continue
		}
		for i, ax := range axes {
			bit, d := diffBit(ck[i], c0[i])
			if bit == 1 && !equalRat(d, inc[i]) {
				okB = false
				detailB += fmt.Sprintf(" corner %d axis %s is %s beyond corner 0, the lattice step is %s;", k, ax, shortKey(d.Key(), 80), shortKey(inc[i].Key(), 80))
			}
		}
	}
	r.check(rule, march.Name()+"|cell-corners-on-the-sampled-lattice", ks[0].Pos, okB, "corner 0 of cell (x,y,z) is base + (x,y,z)∘inc and the cell spans inc, with the base and inc the layer cache was built with;"+detailB)
}

// sampleCounts: n cells along an axis have n+1 lattice points. Every counted loop of the layer
// method that takes samples (calls the shape or appends a point to a batch) runs over
// 0 .. steps, i.e. its bound is `< X + 1` or `<= X` with X read from the cache object - a loop
// that stops at `< X` leaves the last row of corner values at their zero value, and the cells
// along that side of the box interpolate against a phantom 0.
func sampleCounts(ctx *Ctx, r *Report, rule, key string, m *ssa.Function) {
	loops := loopDescs(m, topoAll(m))
	n, bad := 0, ""
	for _, ld := range loops {
		samples := false
		for _, b := range ld.order {
			for _, ins := range b.Instrs {
				c, ok := ins.(*ssa.Call)
				if !ok {
					continue
				}
				if c.Call.IsInvoke() && c.Call.Method.Name() == "Evaluate" {
					samples = true
				}
				if bi, ok := c.Call.Value.(*ssa.Builtin); ok && bi.Name() == "append" {
					samples = true
				}
			}
		}
		if !samples {
			continue
		}
		iff, ok := ld.header.Instrs[len(ld.header.Instrs)-1].(*ssa.If)
		if !ok {
			continue
		}
		bo, ok := iff.Cond.(*ssa.BinOp)
		if !ok {
			continue
		}
		phi, isPhi := bo.X.(*ssa.Phi)
		if !isPhi || phi.Block() != ld.header {
			// `for y := range l.buf`: as many samples as the buffer has slots; the buffer is
			// allocated in this method with steps + 1 of them
			if inc, ok := bo.X.(*ssa.BinOp); ok && inc.Op == token.ADD && bo.Op == token.LSS {
				if lc, ok := bo.Y.(*ssa.Call); ok {
					if bi, ok := lc.Call.Value.(*ssa.Builtin); ok && bi.Name() == "len" {
						if ld2, ok := lc.Call.Args[0].(*ssa.UnOp); ok && ld2.Op == token.MUL {
							if fa, ok := ld2.X.(*ssa.FieldAddr); ok && len(m.Params) > 0 && fa.X == ssa.Value(m.Params[0]) {
								n++
								sized := false
								allInstrs(m, func(_ *ssa.BasicBlock, ins ssa.Instruction) {
									st, ok := ins.(*ssa.Store)
									if !ok {
										return
									}
									fa2, ok := st.Addr.(*ssa.FieldAddr)
									if !ok || fa2.X != fa.X || fa2.Field != fa.Field {
										return
									}
									if mk, ok := st.Val.(*ssa.MakeSlice); ok {
										if add, ok := mk.Len.(*ssa.BinOp); ok && add.Op == token.ADD {
											for i, side := range []ssa.Value{add.X, add.Y} {
												other := []ssa.Value{add.Y, add.X}[i]
												if k, ok := side.(*ssa.Const); ok && k.Value != nil && k.Int64() == 1 && fromObjectOf(m, other) {
													sized = true
												}
											}
										}
									}
								})
								if !sized {
									bad += fmt.Sprintf(" the sampling loop at %s ranges over a buffer this method does not allocate with steps + 1 slots;", ctx.pos(branchPos(ld.header, iff)))
								}
							}
						}
					}
				}
			}
			continue
		}
		n++
		fromObject := func(v ssa.Value) bool {
			ld, ok := v.(*ssa.UnOp)
			if !ok || ld.Op != token.MUL {
				return false
			}
			x := ld.X
			for {
				fa, ok := x.(*ssa.FieldAddr)
				if !ok {
					break
				}
				x = fa.X
			}
			return len(m.Params) > 0 && x == ssa.Value(m.Params[0])
		}
		good := false
		switch bo.Op {
		case token.LEQ:
			good = fromObject(bo.Y)
		case token.LSS, token.NEQ:
			if add, ok := bo.Y.(*ssa.BinOp); ok && add.Op == token.ADD {
				for i, side := range []ssa.Value{add.X, add.Y} {
					other := []ssa.Value{add.Y, add.X}[i]
					if k, ok := side.(*ssa.Const); ok && k.Value != nil && k.Int64() == 1 && fromObject(other) {
						good = true
					}
				}
			}
		}
		if !good {
			bad += fmt.Sprintf(" the sampling loop at %s is not bounded by steps + 1;", ctx.pos(branchPos(ld.header, iff)))
		}
	}
	if n == 0 {
		r.undecided(rule, key+"|one-sample-more-than-cells-per-axis", m.Pos(), "no counted sampling loop recognised")
		return
	}
	r.check(rule, key+"|one-sample-more-than-cells-per-axis", m.Pos(), bad == "", fmt.Sprintf("%d sampling loop(s), each over 0 .. steps inclusive;%s", n, bad))
}

// paddedLattice (V7): the uniform 3D renderer meshes the box (⌈size/inc⌉ + 1)·inc around the
// shape's centre: at least one spare cell per axis whatever the rounding of size/inc. A cell
// count taken by truncation (an integer conversion of the quotient) is one short exactly when
// the quotient is an integer k that evaluates to k − 1ulp, and the face lying on the box is
// lost. Decided on the closed form of the box handed to marchingCubes: per axis, size/inc − 1 is
// a ceiling of a term in the shape's own box, and no float-to-integer conversion occurs in it.
func paddedLattice(ctx *Ctx, r *Report) {
	var fn *ssa.Function
	for _, f := range ctx.srcFuncs("render") {
		if f.Name() == "Render" && f.Signature.Recv() != nil && strings.Contains(f.Signature.Recv().Type().String(), "MarchingCubesUniform") {
			fn = f
		}
	}
	key := "MarchingCubesUniform.Render|one-spare-cell-per-axis"
	if fn == nil {
		r.undecided("V7", key, 0, "Render not found")
		return
	}
	ev := newEval(ctx, "marchingCubes")
	ev.evalRoot(fn)
	es := eventsOf(ev, ".marchingCubes")
	if len(es) != 1 || len(es[0].Args) < 3 {
		r.undecided("V7", key, fn.Pos(), fmt.Sprintf("%d marchingCubes calls", len(es)))
		return
	}
	box := map[string]*Term{}
	leafTerms("", es[0].Args[1], box)
	inc, _ := es[0].Args[2].(*Term)
	if inc == nil || len(box) != 6 {
		r.undecided("V7", key, es[0].Pos, "box or step is not in closed form")
		return
	}
	bad := ""
	for _, ax := range axes3 {
		mx, mn := box[".Max."+ax], box[".Min."+ax]
		if mx == nil || mn == nil {
			bad += " axis " + ax + ": missing;"
			continue
		}
		size := Sub(mx, mn)
		trunc := findSub(size, func(x *Term) bool {
			return x.Op == "conv" && strings.HasPrefix(x.S, "int") && len(findSub(x.Args[0], func(y *Term) bool { return y.Op == "/" || (y.Op == "call" && y.S != "math.Ceil") })) > 0
		})
		ceils := findSub(size, func(x *Term) bool {
			return x.Op == "call" && x.S == "math.Ceil" && strings.Contains(x.Args[0].Key(), "BoundingBox")
		})
		if len(trunc) > 0 {
			bad += fmt.Sprintf(" axis %s: the cell count is truncated: %s;", ax, shortKey(trunc[0].Key(), 120))
			continue
		}
		if len(ceils) == 0 {
			bad += fmt.Sprintf(" axis %s: no ceiling of size/inc in the box size %s;", ax, shortKey(size.Key(), 160))
			continue
		}
		want := Mul(Add(ceils[0], K(1)), inc)
		if !equalRat(stripConv(size), stripConv(want)) {
			bad += fmt.Sprintf(" axis %s: box size %s is not (⌈size/inc⌉ + 1)·inc;", ax, shortKey(size.Key(), 160))
		}
	}
	r.check("V7", key, es[0].Pos, bad == "", "box handed to marchingCubes = (⌈size/inc⌉ + 1)·inc on every axis;"+bad)
	r.floor("V7", 1)
}

// fromObjectOf: v is a load through a chain of fields of m's receiver.
func fromObjectOf(m *ssa.Function, v ssa.Value) bool {
	ld, ok := v.(*ssa.UnOp)
	if !ok || ld.Op != token.MUL {
		return false
	}
	x := ld.X
	for {
		fa, ok := x.(*ssa.FieldAddr)
		if !ok {
			break
		}
		x = fa.X
	}
	return len(m.Params) > 0 && x == ssa.Value(m.Params[0])
}

// callsDoneOnce: g calls (*sync.WaitGroup).Done exactly once, outside any loop, on every path
// from entry to return.
func callsDoneOnce(g *ssa.Function) bool {
	var dones []ssa.Instruction
	allInstrs(g, func(_ *ssa.BasicBlock, i ssa.Instruction) {
		if isWaitGroupCall(i, "Done") {
			dones = append(dones, i)
		}
	})
	if len(dones) != 1 {
		return false
	}
	d := dones[0]
	if _, isDefer := d.(*ssa.Defer); isDefer {
		return true
	}
	if innermostLoop(g, d.Block()) != nil {
		return false
	}
	// every return is dominated by the Done block
	for _, b := range g.Blocks {
		if _, isRet := b.Instrs[len(b.Instrs)-1].(*ssa.Return); isRet && !d.Block().Dominates(b) {
			return false
		}
	}
	return true
}
