package main

// C13 — STL files are well-formed and round-trip (structural part).
//
//  S1  encoding/binary size of STLHeader = 84 (80 + uint32) and STLTriangle =
//      50 (12 float32 + uint16), field order Normal, Vertex1..3, attribute
//  S2  the constants of the loader's size equation equal S1
//  S3  every binary.Read/Write in the package passes binary.LittleEndian
//  S4  both writers fill the record as Normal = float32(t.Normal()),
//      VertexN[j] = float32(t[N-1].{X,Y,Z}[j]) and agree term for term; the
//      binary loader maps VertexN[j] back to vertex N-1 component j
//  S5  batch writer: header count = uint32(len(mesh)) written first, Flush's
//      error returned; streaming writer: empty header first, counter +1 per
//      record written, then Flush, Seek(0,0), header with Count = counter
//  S6  Triangle3.Normal ≡ ((t1−t0)×(t2−t0)) / |(t1−t0)×(t2−t0)|, no other case
//  S7  the output file is created truncated (os.Create or O_TRUNC)
//  S8  the text loader parses numbers at the precision it stores them (bitSize 64 for
//      float64 vertices): bitSize 32 rounds every listed coordinate to single precision
//
// Not decided: ASCII grammar beyond C14, float32 rounding, OS behaviour.

import (
	"fmt"
	"go/constant"
	"go/token"
	"go/types"
	"os"
	"regexp"
	"sort"
	"strconv"
	"strings"

	"golang.org/x/tools/go/ssa"
)

func init() { register("C13", checkC13) }

func binSize(t types.Type) int64 {
	switch u := t.Underlying().(type) {
	case *types.Basic:
		switch u.Kind() {
		case types.Uint8, types.Int8, types.Bool:
			return 1
		case types.Uint16, types.Int16:
			return 2
		case types.Uint32, types.Int32, types.Float32:
			return 4
		case types.Uint64, types.Int64, types.Float64, types.Complex64:
			return 8
		}
		return -1 << 20
	case *types.Array:
		return u.Len() * binSize(u.Elem())
	case *types.Struct:
		var s int64
		for i := 0; i < u.NumFields(); i++ {
			s += binSize(u.Field(i).Type())
		}
		return s
	}
	return -1 << 20
}

func checkC13(ctx *Ctx, r *Report, tier string) {
	r.Explain = "Record layout sizes computed from the struct types (as encoding/binary lays them out) and compared with the loader's size equation; byte order of every binary.Read/Write; the field-by-field provenance of the 50-byte record in both writers and the inverse mapping in the loader (symbolic snapshots at the binary.Write/Read calls); counter/flush/seek/header ordering; closed form of the facet normal; truncating file creation. Float32 rounding, the ASCII grammar and the OS are not decided. The text loader parses at float64 precision and the batch writer writes one record per counted triangle."
	r.Trusted = []string{"go/types", "go/ssa", "sdfxlint symbolic evaluator", "encoding/binary writes fixed-size fields in declaration order without padding", "bufio/os semantics"}
	r.Assume = []string{"float32 conversion is the rounding the property speaks of"}
	scope := ctx.Pkgs["render"].Types.Scope()
	hdr, _ := scope.Lookup("STLHeader").(*types.TypeName)
	tri, _ := scope.Lookup("STLTriangle").(*types.TypeName)
	if hdr == nil || tri == nil {
		r.undecided("S1", "STLHeader/STLTriangle", 0, "types not found")
		return
	}
	hs, ts := binSize(hdr.Type()), binSize(tri.Type())
	r.check("S1", "STLHeader|84-bytes", hdr.Pos(), hs == 84, fmt.Sprintf("binary size %d", hs))
	r.check("S1", "STLTriangle|50-bytes", tri.Pos(), ts == 50, fmt.Sprintf("binary size %d", ts))
	// field order
	st, _ := tri.Type().Underlying().(*types.Struct)
	order := ""
	okOrder := st != nil && st.NumFields() == 5
	if st != nil {
		for i := 0; i < st.NumFields(); i++ {
			order += st.Field(i).Name() + ":" + st.Field(i).Type().String() + " "
		}
		want := []string{"Normal", "Vertex1", "Vertex2", "Vertex3"}
		for i, w := range want {
			if i >= st.NumFields() || st.Field(i).Name() != w || st.Field(i).Type().String() != "[3]float32" {
				okOrder = false
			}
		}
		if okOrder && st.Field(4).Type().String() != "uint16" {
			okOrder = false
		}
	}
	r.check("S1", "STLTriangle|field-order", tri.Pos(), okOrder, order)
	hst, _ := hdr.Type().Underlying().(*types.Struct)
	okH := hst != nil && hst.NumFields() == 2 && hst.Field(0).Type().String() == "[80]uint8" && hst.Field(1).Name() == "Count" && hst.Field(1).Type().String() == "uint32"
	r.check("S1", "STLHeader|field-order", hdr.Pos(), okH, "80 header bytes then Count uint32")

	// S2
	if lfn := ctx.ssaFunc("render", "LoadSTL"); lfn != nil {
		ev := newEval(ctx, "loadSTLBinary", "loadSTLAscii")
		ev.evalRoot(lfn)
		ok := false
		detail := "no call of loadSTLBinary"
		for _, e := range eventsOf(ev, ".loadSTLBinary") {
			if e.Cond == nil {
				continue
			}
			for _, eq := range findSub(e.Cond, func(x *Term) bool { return x.Op == "cmp" && x.S == "==" }) {
				for _, side := range eq.Args {
					coefs, _, c, lin := linear(side)
					if !lin || len(coefs) != 1 {
						continue
					}
					for _, co := range coefs {
						detail = fmt.Sprintf("size == count*%s + %s", co.RatString(), c.RatString())
						ok = co.IsInt() && c.IsInt() && co.Num().Int64() == ts && c.Num().Int64() == hs
					}
				}
			}
		}
		r.check("S2", "LoadSTL|size-equation-constants", lfn.Pos(), ok, detail+fmt.Sprintf("; record %d, header %d", ts, hs))
	} else {
		r.undecided("S2", "LoadSTL", 0, "not found")
	}

	// S3
	nb := 0
	for _, fn := range ctx.srcFuncs("render", "sdf", "obj") {
		allInstrs(fn, func(b *ssa.BasicBlock, ins ssa.Instruction) {
			c, ok := ins.(*ssa.Call)
			if !ok {
				return
			}
			f := c.Call.StaticCallee()
			if f == nil || (f.String() != "encoding/binary.Write" && f.String() != "encoding/binary.Read") {
				return
			}
			nb++
			le := false
			if mi, ok := c.Call.Args[1].(*ssa.MakeInterface); ok {
				if ld, ok := mi.X.(*ssa.UnOp); ok {
					if g, ok := ld.X.(*ssa.Global); ok && g.Name() == "LittleEndian" && g.Pkg.Pkg.Path() == "encoding/binary" {
						le = true
					}
				}
			}
			r.check("S3", fmt.Sprintf("%s|%s#%d", shortFn(fn), f.Name(), nb), c.Pos(), le, "STL is little-endian")
		})
	}
	r.floor("S3", 3)
	r.expectControl("S3", "verifCtlBigEndian")
	// S8: the text loader reads numbers at the precision it stores them. The triangles it returns
	// are float64; a number parsed with bitSize 32 is rounded to single precision first (and
	// fails with a range error beyond it): "vertex 0.1 0.2 0.3" would not load as listed.
	if load := ctx.ssaFunc("render", "LoadSTL"); load != nil {
		np := 0
		walk := func(fn *ssa.Function) {
			allInstrs(fn, func(b *ssa.BasicBlock, ins ssa.Instruction) {
				ci, ok := ins.(ssa.CallInstruction)
				if !ok {
					return
				}
				f := ci.Common().StaticCallee()
				if f == nil {
					return
				}
				if f.String() != "strconv.ParseFloat" || len(ci.Common().Args) != 2 {
					return
				}
				np++
				bits := int64(-1)
				if c, ok := ci.Common().Args[1].(*ssa.Const); ok && c.Value != nil {
					if q, ok := constantToRat(c.Value); ok && q.IsInt() {
						bits = q.Num().Int64()
					}
				}
				// what the parsed value becomes: float32 only if every use converts it
				toSingle := false
				if v, ok := ins.(ssa.Value); ok && v.Referrers() != nil {
					for _, ref := range *v.Referrers() {
						if ex, ok := ref.(*ssa.Extract); ok && ex.Index == 0 && ex.Referrers() != nil {
							n, n32 := 0, 0
							for _, u := range *ex.Referrers() {
								n++
								if cv, ok := u.(*ssa.Convert); ok {
									if bt, ok := cv.Type().Underlying().(*types.Basic); ok && bt.Kind() == types.Float32 {
										n32++
									}
								}
							}
							toSingle = n > 0 && n == n32
						}
					}
				}
				want := int64(64)
				if toSingle {
					want = 32
				}
				r.check("S8", fmt.Sprintf("%s|ParseFloat#%d|precision-of-the-stored-value", shortFn(fn), np), ins.Pos(), bits == want, fmt.Sprintf("bitSize %d, the value is kept as float%d", bits, want))
			})
		}
		// every module function reachable from LoadSTL, function values included (a loader picked
		// through a variable of function type is still run)
		var scope []*ssa.Function
		for f := range reachFrom(newFxEngine(ctx), []*ssa.Function{load}, false) {
			if inModule(f) && len(f.Blocks) > 0 {
				scope = append(scope, f)
			}
		}
		sort.Slice(scope, func(i, j int) bool { return scope[i].Pos() < scope[j].Pos() })
		for _, f := range scope {
			walk(f)
		}
		r.floor("S8", 1)
	} else {
		r.undecided("S8", "LoadSTL", 0, "not found")
	}
	// S9: the batch writer announces len(mesh) records in the header before it writes them: the
	// record write has to happen for every element of the mesh (no filter, no early exit), or
	// the count no longer matches the file and the loader takes it for a text file.
	if save := ctx.ssaFunc("render", "SaveSTL"); save != nil {
		n := 0
		allInstrs(save, func(b *ssa.BasicBlock, ins ssa.Instruction) {
			c, ok := ins.(*ssa.Call)
			if !ok {
				return
			}
			f := c.Call.StaticCallee()
			if f == nil || (f.String() != "encoding/binary.Write" && f.String() != "(*bufio.Writer).Write") || innermostLoop(save, b) == nil {
				return
			}
			n++
			ok2, why := everyIterationReaches(save, ins)
			r.check("S9", fmt.Sprintf("SaveSTL|record-write#%d-for-every-triangle", n), c.Pos(), ok2, "the header count is len(mesh): one record per element, unconditionally; "+why)
		})
		if n == 0 {
			r.undecided("S9", "SaveSTL", save.Pos(), "no record write inside a loop")
		}
		r.floor("S9", 1)
	} else {
		r.undecided("S9", "SaveSTL", 0, "not found")
	}
	// S13: the binary loader returns one triangle per record it reads, in order: the instruction
	// that puts the triangle into the result (a store at the record's index, or an append) is
	// reached in every iteration that does not return an error. A filter ("skip collapsed
	// facets") returns fewer triangles than the file holds and shifts every later index.
	if load := ctx.ssaFunc("render", "loadSTLBinary"); load != nil {
		n := 0
		allInstrs(load, func(b *ssa.BasicBlock, ins ssa.Instruction) {
			if innermostLoop(load, b) == nil {
				return
			}
			isTri := func(t types.Type) bool { return strings.HasSuffix(t.String(), "sdf.Triangle3") }
			keep := false
			switch x := ins.(type) {
			case *ssa.Store:
				if ia, ok := x.Addr.(*ssa.IndexAddr); ok {
					if sl, ok := ia.X.Type().Underlying().(*types.Slice); ok && isTri(sl.Elem()) {
						keep = true
					}
				}
			case *ssa.Call:
				if bi, ok := x.Call.Value.(*ssa.Builtin); ok && bi.Name() == "append" && len(x.Call.Args) > 0 {
					if sl, ok := x.Call.Args[0].Type().Underlying().(*types.Slice); ok && isTri(sl.Elem()) {
						keep = true
					}
				}
			}
			if !keep {
				return
			}
			n++
			// leaving the loop early is the loader's error path (a short read): only going on to
			// the next record without keeping this one is a loss
			ok2, why := true, ""
			if ld := innermostLoop(load, b); ld != nil {
				for _, p := range ld.header.Preds {
					if ld.in[p] && isBackEdge(p, ld.header) && !b.Dominates(p) {
						ok2, why = false, "an iteration can go on to the next record without passing here (continue)"
					}
				}
			}
			r.check("S13", fmt.Sprintf("loadSTLBinary|record#%d-kept-in-every-iteration", n), ins.Pos(), ok2, "every record read becomes one element of the result, unconditionally; "+why)
		})
		if n == 0 {
			r.undecided("S13", "loadSTLBinary", load.Pos(), "no triangle stored or appended inside the record loop")
		}
		r.floor("S13", 1)
	} else {
		r.undecided("S13", "loadSTLBinary", 0, "not found")
	}

	ruleLoaderStartsAtByteZero(ctx, r)
	ruleTextLoaderSplitsOnAnyWhitespace(ctx, r)

	// S4 writers
	type recTerms map[string]*Term
	writerRecord := func(fnName string, fn *ssa.Function) (recTerms, string, bool) {
		ev := newEval(ctx, "Normal")
		ev.evalRoot(fn)
		for _, e := range eventsOf(ev, "encoding/binary.Write") {
			snap, _ := e.Args[2].(*Tuple)
			if snap == nil {
				continue
			}
			ag, _ := snap.Elems[1].(*Agg)
			if ag == nil || ag.T == nil || !strings.HasSuffix(ag.T.String(), "STLTriangle") {
				continue
			}
			m := map[string]*Term{}
			leafTerms("", ag, m)
			// the triangle variable: the pointer the Normal call receives
			tv := ""
			for _, ne := range eventsOf(ev, ".Normal") {
				tv = valTerm(ne.Args[0]).Key()
			}
			return m, tv, true
		}
		// the record packed by hand: PutUint32(rec[off:], Float32bits(float32(x))) at byte offset
		// 12·k + 4·j holds component j of vector k (normal, vertices 0..2)
		m := map[string]*Term{}
		for _, e := range ev.Events {
			if !strings.HasSuffix(e.Callee, ".PutUint32") || len(e.Args) < 3 {
				continue
			}
			sv, okS := e.Args[1].(*SliceV)
			val, okV := e.Args[2].(*Term)
			if !okS || !okV || sv.Arr == nil || sv.Lo < 0 || sv.Lo%4 != 0 || sv.Lo >= 48 {
				continue
			}
			if !(val.Op == "call" && val.S == "math.Float32bits" && len(val.Args) == 1) {
				continue
			}
			k, j := sv.Lo/12, (sv.Lo%12)/4
			key := fmt.Sprintf(".Normal[%d]", j)
			if k > 0 {
				key = fmt.Sprintf(".Vertex%d[%d]", k, j)
			}
			m[key] = val.Args[0]
		}
		if len(m) == 12 {
			tv := ""
			for _, ne := range eventsOf(ev, ".Normal") {
				tv = valTerm(ne.Args[0]).Key()
			}
			return m, tv, true
		}
		return nil, "", false
	}
	expect := func(tv string) recTerms {
		m := recTerms{}
		comps := []string{"X", "Y", "Z"}
		for j, c := range comps {
			m[fmt.Sprintf(".Normal[%d]", j)] = Conv("float32", A(fmt.Sprintf("call:(*%s/sdf.Triangle3).Normal(%s).%s", modPath, tv, c)))
			for n := 1; n <= 3; n++ {
				m[fmt.Sprintf(".Vertex%d[%d]", n, j)] = Conv("float32", A(fmt.Sprintf("%s[%d].%s", tv, n-1, c)))
			}
		}
		return m
	}
	var recs []recTerms
	var tvs []string
	writers := map[string]*ssa.Function{"SaveSTL": ctx.ssaFunc("render", "SaveSTL")}
	if g := closureOf(ctx, "render", "writeSTL"); g != nil {
		writers["writeSTL$goroutine"] = g // the function writeSTL starts, closure or named
	}
	for _, name := range []string{"SaveSTL", "writeSTL$goroutine"} {
		fn := writers[name]
		if fn == nil {
			r.undecided("S4", name, 0, "writer not found")
			continue
		}
		m, tv, ok := writerRecord(name, fn)
		if !ok {
			r.check("S4", name+"|record", fn.Pos(), false, "no binary.Write of an STLTriangle found")
			continue
		}
		want := expect(tv)
		bad := ""
		for k, w := range want {
			g := m[k]
			if g == nil || g.Key() != w.Key() {
				gs := "<missing>"
				if g != nil {
					gs = shortKey(g.Key(), 90)
				}
				bad += fmt.Sprintf(" %s = %s, expected %s;", k, gs, shortKey(w.Key(), 90))
			}
		}
		// attribute bytes zero
		if a := m["._"]; a != nil && !a.IsZero() {
			if !(a.Op == "a" && strings.HasPrefix(a.S, "μ")) {
				bad += " attribute byte count = " + a.Key() + ";"
			}
		}
		r.check("S4", name+"|record-fields", fn.Pos(), bad == "", "Normal/Vertex1..3 = float32 of the facet normal and of vertices 0..2 in order;"+bad)
		recs = append(recs, m)
		tvs = append(tvs, tv)
	}
	if len(recs) == 2 {
		// sibling agreement modulo the name of the triangle variable
		same := true
		for k := range expect("T") {
			a := recs[0][k]
			b := recs[1][k]
			if a == nil {
				same = false
				continue
			}
			if b == nil || strings.ReplaceAll(a.Key(), tvs[0], "T") != strings.ReplaceAll(b.Key(), tvs[1], "T") {
				same = false
			}
		}
		r.check("S4", "SaveSTL~writeSTL|writers-agree", 0, same, "the streaming writer and the batch writer fill the record identically")
	}
	// loader
	if lfn := ctx.ssaFunc("render", "loadSTLBinary"); lfn != nil {
		ev := newEval(ctx)
		_, st := ev.evalRoot(lfn)
		ok := false
		detail := ""
		for o, v := range st.mem {
			ag, _ := v.(*Agg)
			if ag == nil || len(ag.Elems) != 3 {
				continue
			}
			// a triangle built by the loader: a literal, new(Triangle3), or a local of that type
			if o.name != "complit" && !strings.Contains(o.name, "Triangle3") && !(ag.T != nil && strings.HasSuffix(ag.T.String(), "sdf.Triangle3")) {
				continue
			}
			m := map[string]*Term{}
			leafTerms("", ag, m)
			if len(m) != 9 {
				continue
			}
			ok = true
			for n := 0; n < 3; n++ {
				for j, c := range []string{"X", "Y", "Z"} {
					t := m[fmt.Sprintf("[%d].%s", n, c)]
					// component j of vertex n is the little-endian float32 at byte 12 + 12n + 4j of
					// the 50-byte record, however the record is declared
					off, okOff := recordByteOffset(t, st, tri.Type())
					if t == nil || t.Op != "conv" || t.S != "float64" || !okOff || off != 12+12*n+4*j {
						ok = false
						if t != nil {
							detail += fmt.Sprintf(" vertex %d.%s = %s (byte offset %d, decoded %v);", n, c, shortKey(t.Key(), 260), off, okOff)
						}
					}
				}
			}
		}
		r.check("S4", "loadSTLBinary|inverse-mapping", lfn.Pos(), ok, "vertex n component j = float64 of the float32 at byte 12 + 12n + 4j of the record read;"+detail)
	} else {
		r.undecided("S4", "loadSTLBinary", 0, "not found")
	}
	r.floor("S4", 4)
	r.expectControl("S4", "verifCtlSaveSwapped")
	if cf := ctx.ssaFunc("render", "verifCtlSaveSwapped"); cf != nil {
		if m, tv, ok := writerRecord("verifCtlSaveSwapped", cf); ok {
			want := expect(tv)
			bad := ""
			for k, w := range want {
				if g := m[k]; g == nil || g.Key() != w.Key() {
					bad += " " + k
				}
			}
			r.check("S4", "verifCtlSaveSwapped|record-fields", cf.Pos(), bad == "", "fields differing:"+bad)
		}
	}

	checkSTLOrdering(ctx, r, writers)
	checkNormal(ctx, r)
	checkTruncate(ctx, r)
}

// checkSTLOrdering: S5.
func checkSTLOrdering(ctx *Ctx, r *Report, writers map[string]*ssa.Function) {
	// SaveSTL: header first with Count = uint32(len(mesh)); returns Flush()'s error
	if fn := writers["SaveSTL"]; fn != nil {
		ev := newEval(ctx, "Normal")
		ev.evalRoot(fn)
		ws := eventsOf(ev, "encoding/binary.Write")
		// the records follow: further binary.Write calls, or Write calls of a hand-packed record
		ok := len(ws) >= 2 || (len(ws) == 1 && len(eventsOf(ev, "bufio.Writer).Write")) >= 1)
		detail := ""
		if ok {
			snap, _ := ws[0].Args[2].(*Tuple)
			okHdr := false
			if snap != nil {
				if ag, _ := snap.Elems[1].(*Agg); ag != nil && ag.T != nil && strings.HasSuffix(ag.T.String(), "STLHeader") {
					c, _ := fieldOf(ag, "Count")
					ct, _ := c.(*Term)
					okHdr = ct != nil && ct.Key() == Conv("uint32", A("len("+paramName(fn, 1)+")")).Key()
					if ct != nil {
						detail = "Count = " + ct.Key()
					}
				}
			}
			ok = okHdr
		}
		r.check("S5", "SaveSTL|header-first-with-count-len-mesh", fn.Pos(), ok, "first write is the header with Count = uint32(len(mesh)); "+detail)
		// the function's final return is Flush()'s error
		flushRet := false
		allInstrs(fn, func(b *ssa.BasicBlock, ins ssa.Instruction) {
			c, ok := ins.(*ssa.Call)
			if !ok {
				return
			}
			if f := c.Call.StaticCallee(); f == nil || f.String() != "(*bufio.Writer).Flush" {
				return
			}
			for _, ref := range *c.Referrers() {
				switch x := ref.(type) {
				case *ssa.Return:
					flushRet = true
				case *ssa.Store:
					// a result spilled because of the deferred Close: stored into the result slot
					if a, ok := x.Addr.(*ssa.Alloc); ok && !a.Heap {
						flushRet = true
					}
				}
			}
		})
		r.check("S5", "SaveSTL|returns-flush-error", fn.Pos(), flushRet, "buffered bytes reach the file only at Flush; its error must be returned")
	}
	if fn := writers["writeSTL$goroutine"]; fn != nil {
		ev := newEval(ctx, "Normal")
		ev.evalRoot(fn)
		// order of events: triangle writes, Flush, Seek(0,0), header write
		var seq []string
		var hdrCount *Term
		for _, e := range ev.Events {
			switch {
			case strings.HasSuffix(e.Callee, "encoding/binary.Write"):
				snap, _ := e.Args[2].(*Tuple)
				kind := "write?"
				if snap != nil {
					if ag, _ := snap.Elems[1].(*Agg); ag != nil && ag.T != nil {
						if strings.HasSuffix(ag.T.String(), "STLTriangle") {
							kind = "tri"
						}
					}
					pv := snap.Elems[1]
					if s, ok := pv.(*Sym); ok {
						pv = materialise(s)
					}
					if c, ok := fieldOf(pv, "Count"); ok {
						kind = "hdr"
						hdrCount, _ = c.(*Term)
					}
				}
				seq = append(seq, kind)
			case strings.HasSuffix(e.Callee, ".Flush"):
				seq = append(seq, "flush")
			case strings.HasSuffix(e.Callee, ".Seek"):
				z := true
				for _, a := range e.Args[1:] {
					if t, ok := a.(*Term); !ok || !t.IsZero() {
						z = false
					}
				}
				if z {
					seq = append(seq, "seek0")
				} else {
					seq = append(seq, "seek?")
				}
			}
		}
		s := strings.Join(seq, " ")
		r.check("S5", "writeSTL|flush-seek-header-order", fn.Pos(), s == "tri flush seek0 hdr", "event order: "+s+" (expected: tri flush seek0 hdr)")
		// the end-of-stream sequence is unconditional except for I/O failures: a data dependent
		// shortcut (e.g. "nothing written, nothing to flush") leaves the buffered header unwritten
		okUncond := true
		ucDetail := ""
		for _, e := range ev.Events {
			isEnd := strings.HasSuffix(e.Callee, ".Flush") || strings.HasSuffix(e.Callee, ".Seek")
			if strings.HasSuffix(e.Callee, "encoding/binary.Write") {
				if snap, _ := e.Args[2].(*Tuple); snap != nil {
					pv := snap.Elems[1]
					if sy, ok := pv.(*Sym); ok {
						pv = materialise(sy)
					}
					if _, ok := fieldOf(pv, "Count"); ok {
						isEnd = true
					}
				}
			}
			if !isEnd {
				continue
			}
			for _, c := range conjuncts(e.Cond) {
				if !isErrorGuard(c) {
					okUncond = false
					ucDetail += fmt.Sprintf(" %s only when %s;", e.Callee[strings.LastIndex(e.Callee, ".")+1:], shortKey(c.Key(), 100))
				}
			}
		}
		if !okUncond {
			// the path conditions of code behind a loop with several exits are exit disjunctions,
			// not guards: decide the same thing on the control-flow graph - every path from the
			// goroutine's entry to its return that never takes the failure side of an error test
			// passes Flush, Seek and the header write
			isEnd := func(kind string) func(ssa.Instruction) bool {
				return func(ins ssa.Instruction) bool {
					c, ok := ins.(*ssa.Call)
					if !ok {
						return false
					}
					f := c.Call.StaticCallee()
					if f == nil {
						return false
					}
					switch kind {
					case "flush":
						return f.Name() == "Flush"
					case "seek":
						return f.Name() == "Seek"
					default:
						if f.String() != "encoding/binary.Write" || len(c.Call.Args) != 3 {
							return false
						}
						return strings.Contains(c.Call.Args[2].Type().String(), "STLHeader") || func() bool {
							if mi, ok := c.Call.Args[2].(*ssa.MakeInterface); ok {
								return strings.Contains(mi.X.Type().String(), "STLHeader")
							}
							return false
						}()
					}
				}
			}
			if goodPathsHit(fn, isEnd("flush")) && goodPathsHit(fn, isEnd("seek")) && goodPathsHit(fn, isEnd("hdr")) {
				okUncond = true
				ucDetail = " (decided on the control-flow graph: error-free paths all pass Flush, Seek and the header write)"
			}
		}
		r.check("S5", "writeSTL|flush-and-header-on-every-successful-path", fn.Pos(), okUncond, "Flush, Seek and the header rewrite depend on nothing but earlier I/O errors;"+ucDetail)
		// the counter: a recurrence with step +1 whose increment is gated by a successful write
		okCnt := false
		detail := ""
		if hdrCount != nil && hdrCount.Op == "ite" {
			// the loop over the batches has more than one way out (a break after a failed batch):
			// the count is then a choice between the running counters at those exits; each of them
			// must be the counter (outer: starts at 0; inner: outer + 1 per record)
			var leaves []candidate
			valueLeaves(hdrCount, &leaves)
			isInner := func(t *Term) (outer string, ok bool) {
				if t.Op != "a" {
					return "", false
				}
				r2, has := recs[t.S]
				if !has || r2.Step.Key() != Add(K(1), A(t.S)).Key() || r2.Init.Op != "a" {
					return "", false
				}
				return r2.Init.S, true
			}
			isOuter := func(name string) bool {
				rc, has := recs[name]
				if !has || !rc.Init.IsZero() {
					return false
				}
				var vals []candidate
				valueLeaves(rc.Step, &vals)
				for _, v := range vals {
					if v.t.Op == "a" && v.t.S == name {
						continue
					}
					if o, ok := isInner(v.t); !ok || o != name {
						return false
					}
				}
				return true
			}
			okCnt = len(leaves) > 0
			for _, l := range leaves {
				if o, ok := isInner(l.t); ok && isOuter(o) {
					continue
				}
				if l.t.Op == "a" && isOuter(l.t.S) {
					continue
				}
				okCnt = false
				detail += " exit value " + shortKey(l.t.Key(), 60) + " is not the record counter;"
			}
		}
		if hdrCount != nil && hdrCount.Op == "a" {
			detail = "Count = " + hdrCount.S
			if rc, ok := recs[hdrCount.S]; ok {
				// outer recurrence: its step is the inner counter at batch end; the inner recurrence steps by +1
				var vals []candidate
				valueLeaves(rc.Step, &vals)
				var inner []*Term
				for _, v := range vals {
					if v.t.Op == "a" && v.t.S != hdrCount.S {
						if r2, ok := recs[v.t.S]; ok && r2.Step.Key() == Add(K(1), A(v.t.S)).Key() && r2.Init.Key() == hdrCount.Key() {
							inner = append(inner, v.t)
						}
					}
				}
				okCnt = len(inner) == 1 && rc.Init.IsZero()
				detail += fmt.Sprintf(" init=%s step=%s inner=%d", rc.Init.Key(), shortKey(rc.Step.Key(), 200), len(inner))
			}
		}
		if os.Getenv("VERIF_DEBUG") != "" && hdrCount != nil {
			fmt.Println("DEBUG S5 hdrCount", hdrCount.Key())
			cur := hdrCount
			for i := 0; i < 6 && cur.Op == "a"; i++ {
				rc, ok := recs[cur.S]
				if !ok {
					break
				}
				fmt.Println("   rec", cur.S, "init", shortKey(rc.Init.Key(), 200), "step", shortKey(rc.Step.Key(), 300))
				cur = rc.Init
			}
		}
		r.check("S5", "writeSTL|count-is-number-of-records-written", fn.Pos(), okCnt, "header Count is a counter starting at 0 and incremented by exactly 1 per record; "+detail)
		// count++ only after a successful write: the increment instruction is guarded by err == nil
		incGuarded := false
		allInstrs(fn, func(b *ssa.BasicBlock, ins ssa.Instruction) {
			bo, ok := ins.(*ssa.BinOp)
			if !ok || bo.Type().String() != "uint32" {
				return
			}
			if one, ok := constInt(bo.Y); !ok || one != 1 {
				return
			}
			for _, g := range branchGuards(b) {
				if isErrorCond(g.cond) {
					incGuarded = true
				}
			}
		})
		r.check("S5", "writeSTL|count-only-successful-writes", fn.Pos(), incGuarded, "the counter is incremented on the err == nil branch of the record write")
	}
	r.floor("S5", 5)
}

// isErrorGuard: the condition only tests error values (the nil-ness of an I/O result or of the
// goroutine's sticky error variable).
func isErrorGuard(c *Term) bool {
	ok := true
	n := 0
	var walk func(t *Term)
	walk = func(t *Term) {
		switch t.Op {
		case "not", "ite":
			for _, a := range t.Args {
				walk(a)
			}
		case "c":
		case "cmp":
			n++
			k := t.Key()
			if t.S != "==" || !(strings.Contains(k, "nil") || strings.Contains(k, "error:") || strings.Contains(k, "err")) {
				ok = false
			}
		case "a":
			n++
			if !strings.HasPrefix(t.S, "recvok(") { // the stream is exhausted: the way out of the receive loop
				ok = false
			}
		default:
			n++
			ok = false
		}
	}
	walk(c)
	return ok && n > 0
}

// checkNormal: S6.
func checkNormal(ctx *Ctx, r *Report) {
	fn := ctx.ssaFunc("sdf", "(*Triangle3).Normal")
	if fn == nil {
		r.undecided("S6", "Triangle3.Normal", 0, "not found")
		return
	}
	normalClosedForm(ctx, r, fn, "sdf.Triangle3.Normal")
	if cf := ctx.ssaFunc("sdf", "(*verifCtlTriangle3).Normal"); cf != nil {
		normalClosedForm(ctx, r, cf, "verifCtlTriangle3.Normal")
		r.expectControl("S6", "verifCtlTriangle3.Normal")
	}
}

func normalClosedForm(ctx *Ctx, r *Report, fn *ssa.Function, key string) {
	ev := newEval(ctx)
	res, _ := ev.evalRoot(fn)
	m := map[string]*Term{}
	leafTerms("", res, m)
	t := paramName(fn, 0)
	P := func(i int, c string) *Term { return A(fmt.Sprintf("%s[%d].%s", t, i, c)) }
	e := func(i int, c string) *Term { return Sub(P(i, c), P(0, c)) }
	cross := map[string]*Term{
		".X": Sub(Mul(e(1, "Y"), e(2, "Z")), Mul(e(1, "Z"), e(2, "Y"))),
		".Y": Sub(Mul(e(1, "Z"), e(2, "X")), Mul(e(1, "X"), e(2, "Z"))),
		".Z": Sub(Mul(e(1, "X"), e(2, "Y")), Mul(e(1, "Y"), e(2, "X"))),
	}
	n2 := Add(Mul(cross[".X"], cross[".X"]), Mul(cross[".Y"], cross[".Y"]), Mul(cross[".Z"], cross[".Z"]))
	ok := len(m) == 3
	detail := ""
	for c, want := range cross {
		g := m[c]
		if g == nil {
			ok = false
			continue
		}
		// an exact-zero test (degenerate triangle) is tolerated: decide the non-degenerate branch
		truth := map[string]bool{}
		strange := false
		for _, ca := range condAtoms(g) {
			if ca.Op == "cmp" && (ca.S == "==" || ca.S == "!=") && (ca.Args[0].IsZero() || ca.Args[1].IsZero()) {
				truth[ca.Key()] = ca.S == "!="
			} else {
				strange = true
			}
		}
		if strange {
			ok = false
			detail += " component " + c + " has case distinctions other than an exact-zero test (a magnitude threshold changes the normal of small triangles);"
			continue
		}
		g = assume(g, truth)
		sq := findSub(g, func(x *Term) bool { return x.Op == "call" && x.S == "math.Sqrt" })
		if len(sq) != 1 {
			ok = false
			detail += fmt.Sprintf(" component %s has %d square roots;", c, len(sq))
			continue
		}
		if !equalRat(sq[0].Args[0], n2) {
			ok = false
			detail += " the length under the root is not |e1×e2|²;"
		}
		// g * sqrt == cross component
		if !equalRat(Mul(g, sq[0]), want) {
			ok = false
			detail += " component " + c + " is not the cross product component over the length;"
		}
	}
	r.check("S6", key, fn.Pos(), ok, "Normal ≡ (t1−t0)×(t2−t0) normalised (right-hand rule)."+detail)
	if !strings.HasPrefix(key, "verifCtl") {
		normalFromEdgeVectors(ctx, r, fn, key)
	}
}

// normalFromEdgeVectors (S12, float-faithful): the identity of S6 holds in exact arithmetic; in
// floating point a formula that multiplies raw vertex coordinates (e.g. the sum of the cross
// products of consecutive vertices) loses the normal of a small triangle far from the origin to
// cancellation - the products are of the size of the squared offset, their difference of the
// size of the triangle's area. Decided on the operations the program performs: no
// multiplication has a raw vertex coordinate as an operand; coordinates enter products only
// through differences of two coordinates.
func normalFromEdgeVectors(ctx *Ctx, r *Report, fn *ssa.Function, key string) {
	ev := newEval(ctx)
	ev.faithful = true
	res, _ := ev.evalRoot(fn)
	m := map[string]*Term{}
	leafTerms("", res, m)
	t := paramName(fn, 0)
	re := regexp.MustCompile(`^` + regexp.QuoteMeta(t) + `\[\d\]\.[XYZ]$`)
	raw := func(x *Term) bool {
		if x.Op == "fneg" {
			x = x.Args[0]
		}
		return x.Op == "a" && re.MatchString(x.S)
	}
	bad := ""
	nMul := 0
	for c, g := range m {
		for _, mu := range findSub(g, func(x *Term) bool { return x.Op == "f*" }) {
			nMul++
			if (raw(mu.Args[0]) || raw(mu.Args[1])) && len(bad) < 200 {
				bad += fmt.Sprintf(" component %s multiplies a raw vertex coordinate: %s;", c, shortKey(mu.Key(), 80))
			}
		}
	}
	if len(m) != 3 || nMul == 0 {
		r.undecided("S12", key, fn.Pos(), fmt.Sprintf("%d components, %d multiplications seen", len(m), nMul))
		return
	}
	r.check("S12", key+"|products-of-edge-vectors-only", fn.Pos(), bad == "", fmt.Sprintf("%d floating-point multiplications, none with a raw vertex coordinate as operand;%s", nMul, bad))
	r.floor("S12", 1)
}

// checkTruncate: S7.
// createdTruncated: does fn create its output file so that an existing longer file leaves no
// tail behind (os.Create, or os.OpenFile with O_CREATE|O_TRUNC and write access)?
func createdTruncated(fn *ssa.Function) (ok bool, detail string) {
	detail = "no file creation found"
	allInstrs(fn, func(b *ssa.BasicBlock, ins ssa.Instruction) {
		c, isCall := ins.(*ssa.Call)
		if !isCall {
			return
		}
		f := c.Call.StaticCallee()
		if f == nil {
			return
		}
		switch f.String() {
		case "os.Create":
			ok = true
			detail = "os.Create"
		case "os.OpenFile":
			if fl, isC := constInt(c.Call.Args[1]); isC {
				const oTrunc, oCreate = 0x200, 0x40
				ok = fl&oTrunc != 0 && fl&oCreate != 0 && fl&3 != 0
				detail = fmt.Sprintf("os.OpenFile flags 0x%x", fl)
			} else {
				ok = false
				detail = "os.OpenFile with non-constant flags"
			}
		}
	})
	return ok, detail
}

func checkTruncate(ctx *Ctx, r *Report) {
	for _, name := range []string{"SaveSTL", "writeSTL"} {
		fn := ctx.ssaFunc("render", name)
		if fn == nil {
			r.undecided("S7", name, 0, "not found")
			continue
		}
		ok, detail := createdTruncated(fn)
		r.check("S7", name+"|file-created-truncated", fn.Pos(), ok, "an existing longer file must not leave a tail behind (size = 84 + 50·count): "+detail)
	}
	r.floor("S7", 2)
}

// valueLeaves collects the leaves in value position of nested ite terms.
func valueLeaves(t *Term, out *[]candidate) {
	if t.Op == "ite" {
		valueLeaves(t.Args[1], out)
		valueLeaves(t.Args[2], out)
		return
	}
	*out = append(*out, candidate{nil, t})
}

// goodPathsHit: every path from fn's entry to a return that never takes the failure side of a
// test of an error value passes an instruction for which hit holds.
func goodPathsHit(fn *ssa.Function, hit func(ssa.Instruction) bool) bool {
	seen := map[*ssa.BasicBlock]bool{}
	var walk func(b *ssa.BasicBlock) bool
	walk = func(b *ssa.BasicBlock) bool {
		if seen[b] {
			return true
		}
		seen[b] = true
		for _, ins := range b.Instrs {
			if hit(ins) {
				return true
			}
			if _, ok := ins.(*ssa.Return); ok {
				return false
			}
		}
		succs := b.Succs
		if iff, ok := b.Instrs[len(b.Instrs)-1].(*ssa.If); ok && len(succs) == 2 && isErrorCond(iff.Cond) {
			if bo, ok := iff.Cond.(*ssa.BinOp); ok {
				switch bo.Op {
				case token.NEQ:
					succs = succs[1:] // x != nil: the true side is the failure
				case token.EQL:
					succs = succs[:1]
				}
			}
		}
		for _, s := range succs {
			if !walk(s) {
				return false
			}
		}
		return true
	}
	if len(fn.Blocks) == 0 {
		return false
	}
	return walk(fn.Blocks[0])
}

// ruleLoaderStartsAtByteZero (S10): LoadSTL probes the file (reads the would-be binary header to
// compare sizes) before it picks a loader. Both loaders parse a whole file: whatever the probe
// consumed - in an ASCII file that is ordinary text, possibly the first vertex lines - must be
// given back. Decided on the CFG: on every path from a call that reads from the opened file to
// a call that hands the file to a loader of the module, the file is rewound with Seek(0, 0).
func ruleLoaderStartsAtByteZero(ctx *Ctx, r *Report) {
	fn := ctx.ssaFunc("render", "LoadSTL")
	if fn == nil {
		r.undecided("S10", "LoadSTL", 0, "not found")
		return
	}
	// the opened file: first result of a call returning (*os.File, error)
	var file ssa.Value
	allInstrs(fn, func(_ *ssa.BasicBlock, ins ssa.Instruction) {
		if ex, ok := ins.(*ssa.Extract); ok && ex.Index == 0 && ex.Type().String() == "*os.File" {
			file = ex
		}
	})
	if file == nil {
		r.undecided("S10", "LoadSTL", fn.Pos(), "no opened *os.File")
		return
	}
	usesFile := func(c *ssa.CallCommon) bool {
		for _, a := range c.Args {
			v := a
			for {
				switch x := v.(type) {
				case *ssa.MakeInterface:
					v = x.X
					continue
				case *ssa.ChangeInterface:
					v = x.X
					continue
				}
				break
			}
			if v == file {
				return true
			}
		}
		return false
	}
	isRewind := func(ins ssa.Instruction) bool {
		c, ok := ins.(*ssa.Call)
		if !ok {
			return false
		}
		g := c.Call.StaticCallee()
		if g == nil || g.Name() != "Seek" || len(c.Call.Args) != 3 || c.Call.Args[0] != file {
			return false
		}
		for _, a := range c.Call.Args[1:] {
			k, ok := a.(*ssa.Const)
			if !ok || k.Value == nil || k.Int64() != 0 {
				return false
			}
		}
		return true
	}
	isLoader := func(ins ssa.Instruction) bool {
		c, ok := ins.(*ssa.Call)
		if !ok {
			return false
		}
		g := c.Call.StaticCallee()
		return g != nil && inModule(g) && usesFile(&c.Call)
	}
	var reads []*ssa.Call
	nLoaders := 0
	allInstrs(fn, func(_ *ssa.BasicBlock, ins ssa.Instruction) {
		c, ok := ins.(*ssa.Call)
		if !ok {
			return
		}
		if isLoader(ins) {
			nLoaders++
			return
		}
		if g := c.Call.StaticCallee(); g != nil && usesFile(&c.Call) {
			switch g.Name() {
			case "Stat", "Close", "Seek", "Name", "Fd", "Chmod", "Sync":
				return
			}
			reads = append(reads, c)
		}
	})
	if nLoaders == 0 || len(reads) == 0 {
		r.check("S10", "LoadSTL|loaders-start-at-byte-0", fn.Pos(), true, fmt.Sprintf("%d reads of the opened file before %d loader calls that take it: nothing to rewind", len(reads), nLoaders))
		r.floor("S10", 1)
		return
	}
	bad := ""
	for _, rd := range reads {
		seen := map[*ssa.BasicBlock]bool{}
		var walk func(b *ssa.BasicBlock, i int)
		walk = func(b *ssa.BasicBlock, i int) {
			for ; i < len(b.Instrs); i++ {
				ins := b.Instrs[i]
				if isRewind(ins) {
					return
				}
				if isLoader(ins) {
					if len(bad) < 300 {
						bad += fmt.Sprintf(" %s at %s gets the file after %s at %s read from it, without Seek(0, 0) in between;", calleeName(&ins.(*ssa.Call).Call), ctx.pos(ins.Pos()), calleeName(&rd.Call), ctx.pos(rd.Pos()))
					}
					return
				}
			}
			for _, su := range b.Succs {
				if !seen[su] {
					seen[su] = true
					walk(su, 0)
				}
			}
		}
		walk(rd.Block(), instrIndex(rd)+1)
	}
	r.check("S10", "LoadSTL|loaders-start-at-byte-0", fn.Pos(), bad == "", fmt.Sprintf("%d reads of the opened file, %d loader calls;%s", len(reads), nLoaders, bad))
	r.floor("S10", 1)
}

// ruleTextLoaderSplitsOnAnyWhitespace (S11): ASCII STL separates tokens by any white space -
// files are written with blanks, tabs or both. The loader therefore tokenises with
// strings.Fields and decides on the fields; a test against a literal that spells out one
// white-space character (TrimLeft(line, " "), HasPrefix(x, "vertex "), Split(line, " ")) accepts
// one layout and silently drops the vertex lines of the others. Decided over loadSTLAscii and
// the module functions it calls: the loop body tokenises with strings.Fields, and no call of
// package strings takes a constant argument containing a white-space character.
func ruleTextLoaderSplitsOnAnyWhitespace(ctx *Ctx, r *Report) {
	root := ctx.ssaFunc("render", "loadSTLAscii")
	if root == nil {
		r.undecided("S11", "loadSTLAscii", 0, "not found")
		return
	}
	e := newFxEngine(ctx)
	scope := reachFrom(e, []*ssa.Function{root}, false)
	usesFields := false
	bad := ""
	n := 0
	for fn := range scope {
		if !inModule(fn) || len(fn.Blocks) == 0 {
			continue
		}
		allInstrs(fn, func(_ *ssa.BasicBlock, ins ssa.Instruction) {
			c, ok := ins.(*ssa.Call)
			if !ok {
				return
			}
			g := c.Call.StaticCallee()
			if g == nil || g.Pkg == nil || (g.Pkg.Pkg.Path() != "strings" && g.Pkg.Pkg.Path() != "bytes") {
				return
			}
			n++
			if g.Name() == "Fields" {
				usesFields = true
			}
			for _, a := range c.Call.Args {
				k, ok := a.(*ssa.Const)
				if !ok || k.Value == nil || k.Value.Kind() != constant.String {
					continue
				}
				if strings.ContainsAny(constant.StringVal(k.Value), " \t") {
					bad += fmt.Sprintf(" %s.%s(…, %s) at %s spells out one white-space character;", g.Pkg.Pkg.Name(), g.Name(), k.Value.ExactString(), ctx.pos(c.Pos()))
				}
			}
		})
	}
	r.check("S11", "loadSTLAscii|tokens-are-separated-by-any-white-space", root.Pos(), usesFields && bad == "", fmt.Sprintf("%d calls of packages strings/bytes; tokenised with Fields: %v;%s", n, usesFields, bad))
	r.floor("S11", 1)
}

var (
	reRecField = regexp.MustCompile(`\.(Normal|Vertex[123])\[(\d+)\]\)$`)
	reRecElem  = regexp.MustCompile(`sel:&o\d+\((\w+)\)\[(\d+)\]\[:\]\((\d+)\)\)$`)
	reRecBytes = regexp.MustCompile(`math\.Float32frombits\(call:\(encoding/binary\.littleEndian\)\.Uint32[^(]*\((?:[^,]*,)?slice:o\d+\[(\d+):(\d+)\]`)
)

// recordByteOffset: the byte offset inside the record read from the file of the float32 that the
// term t converts. Three spellings of the record are read: the STLTriangle fields
// (d.Vertex2[1]), an element of an array field of a local struct with the same layout
// (d.F[3k+3:][j]), and a window of a raw byte buffer decoded with LittleEndian.Uint32 and
// math.Float32frombits.
func recordByteOffset(t *Term, st State, rec types.Type) (int, bool) {
	if t == nil {
		return 0, false
	}
	k := t.Key()
	if m := reRecField.FindStringSubmatch(k); m != nil {
		stt, _ := rec.Underlying().(*types.Struct)
		off := 0
		for i := 0; stt != nil && i < stt.NumFields(); i++ {
			if stt.Field(i).Name() == m[1] {
				j, _ := strconv.Atoi(m[2])
				return off + 4*j, true
			}
			off += int(binSize(stt.Field(i).Type()))
		}
		return 0, false
	}
	if m := reRecElem.FindStringSubmatch(k); m != nil {
		fi, _ := strconv.Atoi(m[2])
		idx, _ := strconv.Atoi(m[3])
		for o, v := range st.mem {
			ag, ok := v.(*Agg)
			if !ok || ag.T == nil || !strings.Contains(o.name, m[1]) {
				continue
			}
			stt, ok := ag.T.Underlying().(*types.Struct)
			if !ok || fi >= stt.NumFields() {
				continue
			}
			arr, ok := stt.Field(fi).Type().Underlying().(*types.Array)
			if !ok {
				continue
			}
			if b, ok := arr.Elem().Underlying().(*types.Basic); !ok || b.Kind() != types.Float32 {
				continue
			}
			off := 0
			for i := 0; i < fi; i++ {
				off += int(binSize(stt.Field(i).Type()))
			}
			return off + 4*idx, true
		}
		return 0, false
	}
	if m := reRecBytes.FindStringSubmatch(k); m != nil {
		lo, _ := strconv.Atoi(m[1])
		n, _ := strconv.Atoi(m[2]) // the evaluator prints a window as [start:length]
		return lo, n == 4
	}
	return 0, false
}
