package main

import (
	"golang.org/x/tools/go/ssa"
)

func And(a, b *Term) *Term { return Ite(a, b, K(0)) }
func Or(a, b *Term) *Term  { return Ite(a, K(1), b) }

func acyclic(fn *ssa.Function) bool {
	for _, b := range fn.Blocks {
		for _, s := range b.Succs {
			if s.Index <= b.Index && s.Dominates(b) {
				return false
			}
		}
	}
	return true
}

func topo(fn *ssa.Function) []*ssa.BasicBlock {
	seen := map[*ssa.BasicBlock]bool{}
	var post []*ssa.BasicBlock
	var dfs func(b *ssa.BasicBlock)
	dfs = func(b *ssa.BasicBlock) {
		seen[b] = true
		for _, s := range b.Succs {
			if !seen[s] {
				dfs(s)
			}
		}
		post = append(post, b)
	}
	dfs(fn.Blocks[0])
	for i, j := 0, len(post)-1; i < j; i, j = i+1, j-1 {
		post[i], post[j] = post[j], post[i]
	}
	return post
}

func iteVal(c *Term, a, b Val) Val {
	if c.Op == "c" {
		if c.C.Sign() != 0 {
			return a
		}
		return b
	}
	if valKey(a) == valKey(b) {
		return a
	}
	ta, oka := a.(*Term)
	tb, okb := b.(*Term)
	if oka && okb {
		return Ite(c, ta, tb)
	}
	if s, ok := a.(*Sym); ok {
		a = materialise(s)
	}
	if s, ok := b.(*Sym); ok {
		b = materialise(s)
	}
	aa, oka := a.(*Agg)
	ab, okb := b.(*Agg)
	if oka && okb && len(aa.Elems) == len(ab.Elems) {
		out := &Agg{T: aa.T}
		for i := range aa.Elems {
			out.Elems = append(out.Elems, iteVal(c, aa.Elems[i], ab.Elems[i]))
		}
		return out
	}
	ua, oka := a.(*Tuple)
	ub, okb := b.(*Tuple)
	if oka && okb && len(ua.Elems) == len(ub.Elems) {
		out := &Tuple{}
		for i := range ua.Elems {
			out.Elems = append(out.Elems, iteVal(c, ua.Elems[i], ub.Elems[i]))
		}
		return out
	}
	return &Alt{C: c, A: a, B: b}
}

// Alt is a guarded choice between heterogeneous values.
type Alt struct {
	C    *Term
	A, B Val
}

func iteState(c *Term, a, b State) State {
	out := State{mem: map[*Obj]Val{}}
	for k, v := range a.mem {
		if w, ok := b.mem[k]; ok {
			out.mem[k] = iteVal(c, v, w)
		} else {
			out.mem[k] = v
		}
	}
	for k, w := range b.mem {
		if _, ok := a.mem[k]; !ok {
			out.mem[k] = w
		}
	}
	return out
}
