package main

import (
	"fmt"
	"go/types"
	"os"
	"sort"
	"strings"

	"golang.org/x/tools/go/ssa"
	"golang.org/x/tools/go/ssa/ssautil"
)

// isSDFType reports whether t is the interface sdf.SDF2 or sdf.SDF3.
func isSDFType(t types.Type) bool {
	n, ok := t.(*types.Named)
	if !ok {
		return false
	}
	o := n.Obj()
	if o.Pkg() == nil || o.Pkg().Path() != modPath+"/sdf" {
		return false
	}
	return o.Name() == "SDF2" || o.Name() == "SDF3"
}

func inModule(fn *ssa.Function) bool {
	if fn.Pkg == nil {
		if fn.Parent() != nil {
			return inModule(fn.Parent())
		}
		// instantiated generics / wrappers
		if o := fn.Object(); o != nil && o.Pkg() != nil {
			return strings.HasPrefix(o.Pkg().Path(), modPath)
		}
		return false
	}
	return strings.HasPrefix(fn.Pkg.Pkg.Path(), modPath)
}

// newEval returns an evaluator with the default modular inlining policy:
// module functions and closures are inlined, except functions returning an
// SDF (their result is a fresh symbolic operand) and those named in opaque.
func newEval(ctx *Ctx, opaque ...string) *Evaluator {
	op := map[string]bool{}
	for _, o := range opaque {
		op[o] = true
	}
	return &Evaluator{c: ctx, unroll: os.Getenv("VERIF_NOUNROLL") == "", prog: ctx.Prog, maxDepth: 12, inline: func(fn *ssa.Function) bool {
		if !inModule(fn) {
			return false
		}
		if op[fn.Name()] || op[shortFn(fn)] {
			return false
		}
		if res := fn.Signature.Results(); res.Len() > 0 && isSDFType(res.At(0).Type()) {
			return false
		}
		return true
	}}
}

// newEvalPkg is newEval, except that functions of the package with the given path suffix are
// inlined even when they return an SDF (local helpers such as obj.internalThread are part of
// the entry point being analysed, not operands).
func newEvalPkg(ctx *Ctx, pkgSuffix string, opaque ...string) *Evaluator {
	ev := newEval(ctx, opaque...)
	op := map[string]bool{}
	for _, o := range opaque {
		op[o] = true
	}
	base := ev.inline
	ev.inline = func(fn *ssa.Function) bool {
		if base(fn) {
			return true
		}
		if !inModule(fn) || op[fn.Name()] || op[shortFn(fn)] {
			return false
		}
		return fn.Pkg != nil && strings.HasSuffix(fn.Pkg.Pkg.Path(), pkgSuffix)
	}
	return ev
}

func symArgs(fn *ssa.Function) []Val {
	var args []Val
	for i, p := range fn.Params {
		args = append(args, symVal(paramName(fn, i), p.Type()))
	}
	return args
}

func symFree(fn *ssa.Function) []Val {
	var free []Val
	for _, fv := range fn.FreeVars {
		free = append(free, symVal(fv.Name(), fv.Type()))
	}
	return free
}

// evalRoot evaluates fn on fully symbolic arguments (the root is always
// entered, even if it returns an SDF).
func (ev *Evaluator) evalRoot(fn *ssa.Function) (Val, State) {
	st := State{mem: map[*Obj]Val{}}
	free := symFree(fn)
	ev.bindLiteralCells(fn, free, &st)
	r := ev.Call(fn, symArgs(fn), free, &st)
	return r, st
}

// bindLiteralCells: a function literal evaluated as a root (the body of a goroutine, say) may
// capture a local of its parent that holds another function literal (`index := func(..) ..`
// defined before `go func() { .. index(x) .. }()`). Left symbolic, a call through it is opaque;
// when the captured cell is assigned exactly once, with a literal, the cell is given that
// literal as its content (the literal's own captures stay symbolic).
func (ev *Evaluator) bindLiteralCells(fn *ssa.Function, free []Val, st *State) {
	parent := fn.Parent()
	if parent == nil || len(fn.FreeVars) == 0 {
		return
	}
	var mc *ssa.MakeClosure
	n := 0
	allInstrs(parent, func(_ *ssa.BasicBlock, ins ssa.Instruction) {
		if m, ok := ins.(*ssa.MakeClosure); ok && m.Fn == ssa.Value(fn) {
			mc = m
			n++
		}
	})
	if mc == nil || n != 1 || len(mc.Bindings) != len(fn.FreeVars) {
		return
	}
	for i, b := range mc.Bindings {
		cell, ok := b.(*ssa.Alloc)
		if !ok || cell.Referrers() == nil {
			continue
		}
		var lit *ssa.MakeClosure
		stores := 0
		for _, ref := range *cell.Referrers() {
			if s, ok := ref.(*ssa.Store); ok && s.Addr == ssa.Value(cell) {
				stores++
				lit, _ = s.Val.(*ssa.MakeClosure)
			}
		}
		if stores != 1 || lit == nil {
			continue
		}
		lf, ok := lit.Fn.(*ssa.Function)
		if !ok || lf == fn {
			continue
		}
		fv := &FuncV{Fn: lf}
		for k, lb := range lit.Bindings {
			name := lf.FreeVars[k].Name()
			fv.Free = append(fv.Free, symVal(name, lb.Type()))
		}
		o := ev.newObj(fn.FreeVars[i].Name(), false)
		st.mem[o] = fv
		free[i] = &Ptr{Obj: o}
	}
}

// evalRootWith is evalRoot with some parameters fixed to integer constants (by name): loops
// bounded by them are then executed iteration by iteration.
func (ev *Evaluator) evalRootWith(fn *ssa.Function, consts map[string]int64) (Val, State) {
	st := State{mem: map[*Obj]Val{}}
	args := symArgs(fn)
	for i := range fn.Params {
		if c, ok := consts[paramName(fn, i)]; ok && i < len(args) {
			args[i] = K(c)
		}
	}
	r := ev.Call(fn, args, symFree(fn), &st)
	return r, st
}

// resultObject follows a returned pointer / interface / (x, err) tuple to the
// abstract object it designates, if any.
func resultObject(r Val, st State) (Val, bool) {
	var p *Ptr
	switch x := r.(type) {
	case *Iface:
		p, _ = x.Dyn.(*Ptr)
	case *Ptr:
		p = x
	case *Tuple:
		if len(x.Elems) > 0 {
			return resultObject(x.Elems[0], st)
		}
	case *Alt:
		if v, ok := resultObject(x.A, st); ok {
			return v, true
		}
		return resultObject(x.B, st)
	}
	if p == nil || p.Obj == nil {
		return nil, false
	}
	v, ok := st.mem[p.Obj]
	if !ok {
		return nil, false
	}
	return getPath(v, p.Path), true
}

// fieldOf returns the named field of a struct-typed aggregate value.
func fieldOf(v Val, name string) (Val, bool) {
	if s, ok := v.(*Sym); ok {
		v = materialise(s)
	}
	a, ok := v.(*Agg)
	if !ok || a.T == nil {
		return nil, false
	}
	st, ok := a.T.Underlying().(*types.Struct)
	if !ok {
		return nil, false
	}
	for i := 0; i < st.NumFields(); i++ {
		if st.Field(i).Name() == name && i < len(a.Elems) {
			return a.Elems[i], true
		}
	}
	return nil, false
}

// leafTerms flattens a value into its scalar leaves with dotted names.
func leafTerms(prefix string, v Val, out map[string]*Term) {
	switch x := v.(type) {
	case *Term:
		out[prefix] = x
	case *Sym:
		m := materialise(x)
		if _, same := m.(*Sym); same {
			out[prefix] = A("sym:" + x.Path)
			return
		}
		leafTerms(prefix, m, out)
	case *Agg:
		var st *types.Struct
		if x.T != nil {
			st, _ = x.T.Underlying().(*types.Struct)
		}
		for i, e := range x.Elems {
			n := fmt.Sprintf("%s[%d]", prefix, i)
			if st != nil && i < st.NumFields() {
				n = prefix + "." + st.Field(i).Name()
			}
			leafTerms(n, e, out)
		}
	case *Alt:
		leafTerms(prefix+"?A", x.A, out)
		leafTerms(prefix+"?B", x.B, out)
	}
}

// ---------------------------------------------------------------- debug command

func cmdShow(args []string) int {
	repo := "/repo"
	if r := os.Getenv("VERIF_REPO"); r != "" {
		repo = r
	}
	if len(args) < 2 {
		fmt.Println("usage: sdfxlint show <pkg> <func> [events] [opaque=a,b]")
		return 2
	}
	ctx, err := loadRepo(loadOpts{repo: repo, controls: true})
	if err != nil {
		fmt.Println(err)
		return 2
	}
	var fn *ssa.Function
	if strings.Contains(args[1], "$") {
		for f := range ssautil.AllFunctions(ctx.Prog) {
			if shortFn(f) == args[1] || f.String() == args[1] {
				fn = f
			}
		}
	} else {
		fn = ctx.ssaFunc(args[0], args[1])
	}
	if fn == nil {
		fmt.Println("function not found")
		return 2
	}
	var opaque []string
	events := false
	for _, a := range args[2:] {
		if a == "events" {
			events = true
		}
		if strings.HasPrefix(a, "opaque=") {
			opaque = strings.Split(strings.TrimPrefix(a, "opaque="), ",")
		}
	}
	ev := newEval(ctx, opaque...)
	consts := map[string]int64{}
	for _, a := range args[2:] {
		if i := strings.Index(a, "="); i > 0 && !strings.HasPrefix(a, "opaque=") {
			var v int64
			fmt.Sscan(a[i+1:], &v)
			consts[a[:i]] = v
		}
	}
	r, st := ev.evalRootWith(fn, consts)
	fmt.Printf("== %s steps=%d exceeded=%v\n  ret: %s\n", shortFn(fn), ev.steps, ev.Exceeded, valKey(r))
	if v, ok := resultObject(r, st); ok {
		m := map[string]*Term{}
		leafTerms("", v, m)
		var ks []string
		for k := range m {
			ks = append(ks, k)
		}
		sort.Strings(ks)
		for _, k := range ks {
			fmt.Printf("  %s = %s\n", k, m[k].Key())
		}
	}
	if events {
		for o, v := range st.mem {
			fmt.Printf("  mem o%d(%s) = %s\n", o.id, o.name, shortKey(valKey(v), 300))
		}
		for i, alt := range ev.RootRets {
			for o, v := range alt.State.mem {
				fmt.Printf("  alt%d mem o%d(%s) = %s\n", i, o.id, o.name, shortKey(valKey(v), 200))
			}
		}
		for _, e := range ev.Events {
			var as []string
			for _, a := range e.Args {
				as = append(as, valKey(a))
			}
			fmt.Printf("  event %s(%s)\n", e.Callee, strings.Join(as, " | "))
		}
	}
	var rk []string
	for k := range recs {
		rk = append(rk, k)
	}
	sort.Strings(rk)
	for _, k := range rk {
		fmt.Printf("  rec %s: init=%s step=%s\n", k, recs[k].Init.Key(), recs[k].Step.Key())
	}
	return 0
}

// cmdSurvey prints, for every constructor of the sdf package, the box it stores.
func cmdSurvey(args []string) int {
	ctx, err := loadRepo(loadOpts{repo: "/repo", controls: false})
	if err != nil {
		fmt.Println(err)
		return 2
	}
	for _, fn := range ctx.srcFuncs("sdf") {
		if fn.Parent() != nil || fn.Signature.Recv() != nil {
			continue
		}
		res := fn.Signature.Results()
		if res.Len() == 0 || !isSDFType(res.At(0).Type()) {
			continue
		}
		if len(args) > 0 && !strings.Contains(fn.Name(), args[0]) {
			continue
		}
		ev := newEval(ctx)
		ev.budget = 40000
		ev.evalRoot(fn)
		fmt.Printf("== %s alts=%d steps=%d exceeded=%v\n", fn.Name(), len(ev.RootRets), ev.steps, ev.Exceeded)
		for i, alt := range ev.RootRets {
			v, ok := resultObject(alt.Val, alt.State)
			if !ok {
				fmt.Printf("  alt%d: %s\n", i, shortKey(valKey(alt.Val), 120))
				continue
			}
			tn := "?"
			if a, ok := v.(*Agg); ok && a.T != nil {
				tn = a.T.String()
			}
			if len(args) > 1 && args[1] == "fields" {
				m := map[string]*Term{}
				leafTerms("", v, m)
				var ks []string
				for k := range m {
					ks = append(ks, k)
				}
				sort.Strings(ks)
				fmt.Printf("  alt%d: %s\n", i, tn)
				for _, k := range ks {
					if !strings.HasPrefix(k, ".bb") {
						fmt.Printf("     %s = %s\n", k, shortKey(m[k].Key(), 200))
					}
				}
				continue
			}
			bb, ok := fieldOf(v, "bb")
			if !ok {
				fmt.Printf("  alt%d: %s (no bb field)\n", i, tn)
				continue
			}
			m := map[string]*Term{}
			leafTerms("bb", bb, m)
			var ks []string
			for k := range m {
				ks = append(ks, k)
			}
			sort.Strings(ks)
			fmt.Printf("  alt%d: %s cond=%s\n", i, tn, shortKey(alt.Cond.Key(), 100))
			for _, k := range ks {
				fmt.Printf("     %s = %s\n", k, shortKey(m[k].Key(), 220))
			}
		}
	}
	return 0
}

// cmdSurveyEval prints the Evaluate term of every SDF implementer.
func cmdSurveyEval(args []string) int {
	ctx, err := loadRepo(loadOpts{repo: "/repo", controls: false})
	if err != nil {
		fmt.Println(err)
		return 2
	}
	for _, im := range sdfImplementers(ctx) {
		fn := methodOf(ctx, im.t, "Evaluate")
		if fn == nil {
			continue
		}
		if len(args) > 0 && !strings.Contains(typeShort(im.t), args[0]) {
			continue
		}
		ev := newEval(ctx)
		ev.budget = 40000
		res, _ := ev.evalRoot(fn)
		fmt.Printf("== %s steps=%d exceeded=%v size=%d\n   %s\n", typeShort(im.t), ev.steps, ev.Exceeded, func() int {
			if t, ok := res.(*Term); ok {
				return t.Size()
			}
			return -1
		}(), shortKey(valKey(res), 400))
	}
	return 0
}

func cmdCompose(args []string) int {
	ctx, err := loadRepo(loadOpts{repo: "/repo", controls: false})
	if err != nil {
		fmt.Println(err)
		return 2
	}
	for _, fn := range ctx.srcFuncs("sdf") {
		if fn.Parent() != nil || fn.Signature.Recv() != nil {
			continue
		}
		res := fn.Signature.Results()
		if res.Len() == 0 || !isSDFType(res.At(0).Type()) {
			continue
		}
		if len(args) > 0 && !strings.Contains(fn.Name(), args[0]) {
			continue
		}
		alts, _ := ctorAlts(ctx, fn, "SawTooth", "Clamp")
		for _, ca := range alts {
			r, ev, err := composeMethod(ctx, ca, "Evaluate", "SawTooth", "Clamp")
			if err != nil {
				fmt.Printf("== %s: %v\n", fn.Name(), err)
				continue
			}
			fmt.Printf("== %s -> %s steps=%d\n   %s\n", fn.Name(), typeShort(ca.typ), ev.steps, shortKey(valKey(r), 600))
			if t, ok := r.(*Term); ok && len(args) > 1 {
				describeRec(t, 0, map[string]bool{})
			}
		}
	}
	return 0
}

// describeRec prints the recurrence chain reachable from an atom.
func describeRec(t *Term, depth int, seen map[string]bool) {
	if depth > 6 {
		return
	}
	for _, a := range findSub(t, func(x *Term) bool { return x.Op == "a" }) {
		if rc, ok := recs[a.S]; ok && !seen[a.S] {
			seen[a.S] = true
			fmt.Printf("   %srec %s: init=%s step=%s\n", strings.Repeat(" ", depth), a.S, shortKey(rc.Init.Key(), 120), shortKey(rc.Step.Key(), 500))
			describeRec(rc.Step, depth+1, seen)
			describeRec(rc.Init, depth+1, seen)
		}
	}
}

func cmdAxis(args []string) int {
	ctx, err := loadRepo(loadOpts{repo: "/repo", controls: false})
	if err != nil {
		fmt.Println(err)
		return 2
	}
	for _, pk := range []string{"sdf", "render", "render/dc", "obj", "vec/v2", "vec/v3"} {
		for _, f := range axisLint(ctx, pk) {
			fmt.Printf("%v %s %s :: %s\n", f.ok, ctx.pos(f.pos), f.key, f.detail)
		}
	}
	return 0
}
