package main

// C05 — marching-cubes meshes are closed and consistently outward oriented.
//
// Decided here (structural necessary conditions, exhaustive on the tables):
//  T0  pair table = the 12 edges of the cube under the repo's corner numbering
//  T1  edge mask row = set of edges whose endpoints differ; a triangle row uses
//      exactly those edges
//  T2  directed triangle edges interior to the cell cancel pairwise
//  T3  across each of the 3 x 4096 face-adjacent configuration pairs the
//      face-lying directed edges of one cell are the reversal of the other's
//  T4  face-lying edges keep the inside corner on the right seen from outside
//      (with T2/T3: closed components are outward oriented)
//  T5  rows have length 0 mod 3, no triangle repeats an edge
//  T6  every emitted triangle is behind the !Degenerate test
//  T7  both renderers feed the kernel with the same corner numbering, value
//      k sampled at corner k, iso level 0
//  T8  the edge vertex is computed from that edge's two corners/values only,
//      paired correctly, by an interpolation symmetric under endpoint swap

import (
	"fmt"
	"go/token"
	"math"
	"regexp"
	"sort"
	"strings"

	"golang.org/x/tools/go/ssa"
)

func init() { register("C05", checkC05) }

type mcTables struct {
	pairs [][]int
	mask  []int
	tris  [][]int
	pos   map[string]token.Pos
	rowP  []token.Pos
}

func loadMCTables(ctx *Ctx, r *Report) *mcTables {
	t := &mcTables{pos: map[string]token.Pos{}}
	var err error
	var p token.Pos
	if t.pairs, _, p, err = ctx.table2("render", "mcPairTable"); err != nil {
		r.undecided("T0", "mcPairTable", p, err.Error())
		return nil
	}
	t.pos["pairs"] = p
	if t.mask, p, err = ctx.table1("render", "mcEdgeTable"); err != nil {
		r.undecided("T0", "mcEdgeTable", p, err.Error())
		return nil
	}
	t.pos["mask"] = p
	if t.tris, t.rowP, p, err = ctx.table2("render", "mcTriangleTable"); err != nil {
		r.undecided("T0", "mcTriangleTable", p, err.Error())
		return nil
	}
	t.pos["tris"] = p
	return t
}

type vec3 [3]int

func (a vec3) sub(b vec3) vec3 { return vec3{a[0] - b[0], a[1] - b[1], a[2] - b[2]} }
func (a vec3) dot(b vec3) int  { return a[0]*b[0] + a[1]*b[1] + a[2]*b[2] }
func (a vec3) cross(b vec3) vec3 {
	return vec3{a[1]*b[2] - a[2]*b[1], a[2]*b[0] - a[0]*b[2], a[0]*b[1] - a[1]*b[0]}
}

type mcGeom struct {
	corner [8]vec3 // doubled coordinates (0 or 2)
	pairs  [][]int
	inside func(cfg, c int) bool
	emit   []int
}

func (g *mcGeom) mid(e int) vec3 {
	a, b := g.corner[g.pairs[e][0]], g.corner[g.pairs[e][1]]
	return vec3{(a[0] + b[0]) / 2, (a[1] + b[1]) / 2, (a[2] + b[2]) / 2}
}

func (g *mcGeom) edgeOnFace(e, ax, side int) bool {
	a, b := g.corner[g.pairs[e][0]], g.corner[g.pairs[e][1]]
	return a[ax] == 2*side && b[ax] == 2*side
}

func (g *mcGeom) cornerAt(p vec3) int {
	for i, c := range g.corner {
		if c == p {
			return i
		}
	}
	return -1
}

func (g *mcGeom) mapCorner(c, ax int) int {
	p := g.corner[c]
	p[ax] = 2 - p[ax]
	return g.cornerAt(p)
}

func (g *mcGeom) mapEdge(e, ax int) int {
	a, b := g.mapCorner(g.pairs[e][0], ax), g.mapCorner(g.pairs[e][1], ax)
	for i, p := range g.pairs {
		if (p[0] == a && p[1] == b) || (p[0] == b && p[1] == a) {
			return i
		}
	}
	return -1
}

type dedge struct{ u, v int }

// emitted triangles of a row
func (g *mcGeom) tris(row []int) [][3]int {
	var out [][3]int
	for i := 0; i+2 < len(row); i += 3 {
		out = append(out, [3]int{row[i+g.emit[0]], row[i+g.emit[1]], row[i+g.emit[2]]})
	}
	return out
}

type cellEdges struct {
	face     map[[2]int]map[dedge]int // (axis, side) -> directed edge multiset
	interior map[dedge]int
}

func (g *mcGeom) cell(row []int) cellEdges {
	ce := cellEdges{face: map[[2]int]map[dedge]int{}, interior: map[dedge]int{}}
	for _, t := range g.tris(row) {
		for i := 0; i < 3; i++ {
			u, v := t[i], t[(i+1)%3]
			onFace := false
			for ax := 0; ax < 3 && !onFace; ax++ {
				for s := 0; s < 2; s++ {
					if g.edgeOnFace(u, ax, s) && g.edgeOnFace(v, ax, s) {
						k := [2]int{ax, s}
						if ce.face[k] == nil {
							ce.face[k] = map[dedge]int{}
						}
						ce.face[k][dedge{u, v}]++
						onFace = true
						break
					}
				}
			}
			if !onFace {
				ce.interior[dedge{u, v}]++
			}
		}
	}
	return ce
}

func checkC05(ctx *Ctx, r *Report, tier string) {
	r.Explain = "Marching-cubes case tables verified exhaustively in a topological model whose geometry (corner numbering, inside test, emitted winding, edge-vertex pairing) is read from the repository by symbolic evaluation: mask/row agreement for 256 configurations, in-cell cancellation, reverse matching over all 3x4096 face-adjacent configuration pairs, outward orientation; plus the degenerate-triangle guard, kernel/corner agreement of both renderers and symmetry of the edge interpolation. Not decided: floating-point coincidence of shared vertices beyond symmetry, padding adequacy, the 1-Lipschitz premise of the octree renderer."
	r.Exhaust = true
	r.Trusted = []string{"go/types", "go/ssa", "sdfxlint symbolic evaluator and term normaliser", "vertices on a shared lattice edge coincide when computed from the same endpoint data (T8)"}
	r.Assume = []string{"floating-point rounding is outside the claim", "shape surface lies inside the sampled box"}

	tb := loadMCTables(ctx, r)
	kfn := ctx.ssaFunc("render", "mcToTriangles")
	if kfn == nil {
		r.undecided("T7", "mcToTriangles", 0, "kernel function not found")
		return
	}
	// T6 degenerate guard
	degenerateGuard(ctx, r, emissionFn(kfn, "Triangle3"), "T6", "Triangle3")
	if cf := ctx.ssaFunc("render", "verifCtlKernelNoDegenerate"); cf != nil {
		degenerateGuard(ctx, r, cf, "T6", "Triangle3")
	}
	degenerateTest(ctx, r, "T6", "Triangle3", 3)
	degenerateToleranceZero(ctx, r, "T6", "render")
	equalsAtZeroTolerance(ctx, r, "T6", "v3")
	freshPrimitivePerIteration(ctx, r, "T6", emissionFn(kfn, "Triangle3"), "Triangle3")
	r.floor("T6", 4)
	r.expectControl("T6", "verifCtlKernelNoDegenerate")
	kf, err := analyseKernel(ctx, kfn, 3, "mcInterpolate")
	if err != nil {
		r.undecided("T4", "mcToTriangles", kfn.Pos(), "kernel shape not recognised: "+err.Error())
		return
	}
	// corner numbering from the uniform renderer
	ufn := ctx.ssaFunc("render", "marchingCubes")
	var ucm *cornerModel
	if ufn == nil {
		r.undecided("T7", "marchingCubes", 0, "function not found")
	} else {
		ucm, err = uniformCorners(ctx, ufn, "mcToTriangles", 3, "Get", "newLayerYZ", "Evaluate", "evalRoutines")
		if err != nil {
			r.undecided("T7", "marchingCubes", ufn.Pos(), err.Error())
			ucm = nil
		}
	}
	if ucm != nil {
		r.check("T7", "marchingCubes|corner-literal", ucm.pos, validBits(ucm.bits, 3), "corner offsets (x y z per corner) = "+bitsString(ucm.bits)+": must be the 8 distinct cube corners")
		same := fmt.Sprint(ucm.bits) == fmt.Sprint(ucm.valBits)
		r.check("T7", "marchingCubes|value-k-sampled-at-corner-k", ucm.pos, same, "corner offsets "+bitsString(ucm.bits)+" vs value sample offsets "+bitsString(ucm.valBits))
	}
	// octree renderer
	ofn := ctx.ssaFunc("render", "(*dcache3).processCube")
	if ofn == nil {
		r.undecided("T7", "processCube", 0, "function not found")
	} else {
		ocm, oev, err := treeCorners(ctx, ofn, "mcToTriangles", 3, "evaluate", "isEmpty")
		if err != nil {
			r.undecided("T7", "processCube", ofn.Pos(), err.Error())
		} else {
			if ucm != nil {
				r.check("T7", "processCube|same-corner-numbering-as-uniform", ocm.pos, fmt.Sprint(ocm.bits) == fmt.Sprint(ucm.bits), "octree leaf corners "+bitsString(ocm.bits)+" vs uniform "+bitsString(ucm.bits))
			}
			r.check("T7", "processCube|value-k-sampled-at-corner-k", ocm.pos, fmt.Sprint(ocm.bits) == fmt.Sprint(ocm.valBits), "corner offsets "+bitsString(ocm.bits)+" vs value offsets "+bitsString(ocm.valBits))
			isoZero(r, oev, "processCube")
		}
	}
	if ufn != nil {
		ev := newEval(ctx, "mcToTriangles", "Get", "newLayerYZ", "Evaluate", "evalRoutines")
		ev.evalRoot(ufn)
		isoZero(r, ev, "marchingCubes")
	}
	r.floor("T7", 3)
	if ufn != nil {
		everyCellFeedsKernel(ctx, r, "T9", ufn, "mcToTriangles")
		r.floor("T9", 1)
	}

	// T8 / pairing
	r.check("T8", "mcToTriangles|edge-vertex-from-its-own-corners", kf.pos, kf.pairOK && kf.interpA == 0 && kf.interpB == 1 || kf.pairOK && kf.interpA == 1 && kf.interpB == 0, kf.pairDetail)
	interpSymmetry(ctx, r, "render", "mcInterpolate", "T8")
	if kf2 := ctx.ssaFunc("render", "mcToTriangles"); kf2 != nil {
		everyFlaggedEdgeInterpolated(ctx, r, "T10", kf2, "mcInterpolate", 12)
	}
	r.floor("T8", 2)

	if tb == nil || ucm == nil || !validBits(ucm.bits, 3) {
		return
	}
	g := &mcGeom{pairs: tb.pairs, emit: kf.emit}
	for k := 0; k < 8; k++ {
		g.corner[k] = vec3{2 * ucm.bits[k][0], 2 * ucm.bits[k][1], 2 * ucm.bits[k][2]}
	}
	g.inside = func(cfg, c int) bool { return ((cfg>>uint(c))&1 == 1) == kf.bitIsInside }
	r.Counts["table_rows"] = len(tb.pairs) + len(tb.mask) + len(tb.tris)
	verifyMCTables(r, tb, g, "", kf)

	// positive control: a copy of the tables with one index of one row changed
	if ctb := loadControlMCTables(ctx); ctb != nil {
		verifyMCTables(r, ctb, g, "verifCtl", kf)
		r.expectControl("T1", "verifCtl")
		r.expectControl("T3", "verifCtl")
	} else if !r.controlSkipped() {
		r.undecided("T1", "control-tables", 0, "positive control tables missing")
	}
	r.floor("T1", 256)
	r.floor("T2", 256)
	r.floor("T3", 12288)
	r.floor("T4", 256)
	r.floor("T5", 256)
}

// isoZero: the kernel is called with iso level 0.
func isoZero(r *Report, ev *Evaluator, who string) {
	for _, e := range eventsOf(ev, ".mcToTriangles") {
		if len(e.Args) >= 3 {
			t, _ := e.Args[2].(*Term)
			r.check("T7", who+"|iso-level-0", e.Pos, t != nil && t.IsZero(), "third kernel argument = "+valKey(e.Args[2]))
		}
	}
}

func loadControlMCTables(ctx *Ctx) *mcTables {
	p := ctx.Pkgs["render"]
	t := &mcTables{pos: map[string]token.Pos{}}
	cl, pos := pkgVarLit(p, "verifCtlTriangleTable", nil, ctx.Fset)
	if cl == nil {
		return nil
	}
	n, err := readLit(p.TypesInfo, cl)
	if err != nil {
		return nil
	}
	for _, row := range n.elems {
		ints, ok := row.ints()
		if !ok {
			return nil
		}
		t.tris = append(t.tris, ints)
		t.rowP = append(t.rowP, row.pos)
	}
	t.pos["tris"] = pos
	var e error
	if t.pairs, _, _, e = ctx.table2("render", "mcPairTable"); e != nil {
		return nil
	}
	if t.mask, _, e = ctx.table1("render", "mcEdgeTable"); e != nil {
		return nil
	}
	t.pos["pairs"], t.pos["mask"] = pos, pos
	return t
}

func verifyMCTables(r *Report, tb *mcTables, g *mcGeom, prefix string, kf *kernelFacts) {
	name := func(s string) string { return prefix + s }
	// T0 pair table is the cube's edge set
	ok := len(tb.pairs) == 12
	seen := map[[2]int]bool{}
	for _, p := range tb.pairs {
		if len(p) != 2 || p[0] < 0 || p[0] > 7 || p[1] < 0 || p[1] > 7 {
			ok = false
			continue
		}
		d := g.corner[p[0]].sub(g.corner[p[1]])
		nz := 0
		for _, x := range d {
			if x != 0 {
				nz++
			}
		}
		a, b := p[0], p[1]
		if a > b {
			a, b = b, a
		}
		if nz != 1 || seen[[2]int{a, b}] {
			ok = false
		}
		seen[[2]int{a, b}] = true
	}
	r.check("T0", name("mcPairTable|12-cube-edges"), tb.pos["pairs"], ok, fmt.Sprintf("%v", tb.pairs))
	if !ok {
		return
	}
	ok = len(tb.mask) == 256 && len(tb.tris) == 256
	r.check("T0", name("tables|256-rows"), tb.pos["tris"], ok, fmt.Sprintf("mask rows %d, triangle rows %d", len(tb.mask), len(tb.tris)))
	if !ok {
		return
	}
	cells := make([]cellEdges, 256)
	rowsOK := make([]bool, 256)
	for cfg := 0; cfg < 256; cfg++ {
		row := tb.tris[cfg]
		pos := tb.rowP[cfg]
		// T5
		ok5 := len(row)%3 == 0
		for _, e := range row {
			if e < 0 || e >= 12 {
				ok5 = false
			}
		}
		if ok5 {
			for _, t := range g.tris(row) {
				if t[0] == t[1] || t[1] == t[2] || t[0] == t[2] {
					ok5 = false
				}
			}
		}
		r.check("T5", name(fmt.Sprintf("mcTriangleTable[%d]", cfg)), pos, ok5, fmt.Sprintf("row %v: length multiple of 3, indices in 0..11, no repeated edge in a triangle", row))
		rowsOK[cfg] = ok5
		if !ok5 {
			continue
		}
		// T1
		m := 0
		for e, p := range tb.pairs {
			if g.inside(cfg, p[0]) != g.inside(cfg, p[1]) {
				m |= 1 << uint(e)
			}
		}
		used := 0
		for _, e := range row {
			used |= 1 << uint(e)
		}
		r.check("T1", name(fmt.Sprintf("cfg=%d", cfg)), pos, m == tb.mask[cfg] && used == m,
			fmt.Sprintf("crossing edges 0x%03x, mcEdgeTable 0x%03x, edges used by the triangle row 0x%03x", m, tb.mask[cfg], used))
		// T2
		cells[cfg] = g.cell(row)
		bad := ""
		for de, n := range cells[cfg].interior {
			if cells[cfg].interior[dedge{de.v, de.u}] != n {
				bad += fmt.Sprintf(" %d->%d", de.u, de.v)
			}
		}
		r.check("T2", name(fmt.Sprintf("cfg=%d", cfg)), pos, bad == "", "interior directed edges without reverse:"+bad)
		// T4
		bad = ""
		for k, lst := range cells[cfg].face {
			ax, s := k[0], k[1]
			var n vec3
			n[ax] = 2*s - 1
			for de := range lst {
				P, Q := g.mid(de.u), g.mid(de.v)
				d := Q.sub(P)
				for _, ex := range []struct {
					e int
					X vec3
				}{{de.u, P}, {de.v, Q}} {
					a, b := tb.pairs[ex.e][0], tb.pairs[ex.e][1]
					ain := a
					if !g.inside(cfg, a) {
						ain = b
					}
					if n.dot(d.cross(g.corner[ain].sub(ex.X))) >= 0 {
						bad += fmt.Sprintf(" face(%d,%d):%d->%d", ax, s, de.u, de.v)
					}
				}
			}
		}
		r.check("T4", name(fmt.Sprintf("cfg=%d", cfg)), pos, bad == "", fmt.Sprintf("inside=(%s) emitted order=%v; face edges with the inside corner on the left:%s", kf.bitCmp, kf.emit, bad))
	}
	// T3
	axn := []string{"x", "y", "z"}
	for ax := 0; ax < 3; ax++ {
		var fc []int
		for c := 0; c < 8; c++ {
			if g.corner[c][ax] == 2 {
				fc = append(fc, c)
			}
		}
		for A := 0; A < 256; A++ {
			for B := 0; B < 256; B++ {
				match := true
				for _, c := range fc {
					if g.inside(A, c) != g.inside(B, g.mapCorner(c, ax)) {
						match = false
						break
					}
				}
				if !match {
					continue
				}
				if !rowsOK[A] || !rowsOK[B] {
					r.check("T3", name(fmt.Sprintf("%s+|A=%d|B=%d", axn[ax], A, B)), tb.rowP[A], false, "row malformed (see T5)")
					continue
				}
				sa := map[dedge]int{}
				for de, n := range cells[A].face[[2]int{ax, 1}] {
					sa[dedge{g.mapEdge(de.v, ax), g.mapEdge(de.u, ax)}] += n // mapped and reversed
				}
				sb := cells[B].face[[2]int{ax, 0}]
				eq := len(sa) == len(sb)
				for de, n := range sa {
					if sb[de] != n {
						eq = false
					}
				}
				r.check("T3", name(fmt.Sprintf("%s+|A=%d|B=%d", axn[ax], A, B)), tb.rowP[A], eq,
					fmt.Sprintf("face edges of A reversed %v vs face edges of B %v", sa, sb))
			}
		}
	}
}

// degenerateTest decides what the primitive's Degenerate method itself tests: with the
// vertex comparison (Equals) kept opaque, the result must be true exactly when some pair of
// vertices compares equal, and all n(n-1)/2 pairs must be compared (a filter that forgets a
// pair lets primitives with two identical vertices through).
func degenerateTest(ctx *Ctx, r *Report, rule, recv string, n int) {
	fn := ctx.ssaFunc("sdf", "(*"+recv+").Degenerate")
	if fn == nil {
		fn = ctx.ssaFunc("sdf", "("+recv+").Degenerate")
	}
	key := recv + ".Degenerate|compares-every-pair-of-vertices"
	if fn == nil {
		r.undecided(rule, key, 0, "method not found")
		return
	}
	ev := newEval(ctx, "Equals")
	res, _ := ev.evalRoot(fn)
	t, _ := res.(*Term)
	if t == nil || ev.Exceeded {
		r.undecided(rule, key, fn.Pos(), "result is not a closed form")
		return
	}
	// the opaque comparisons and the vertex pair each one looks at
	eqs := findSub(t, func(x *Term) bool { return x.Op == "call" && strings.HasSuffix(x.S, ".Equals") })
	if len(eqs) == 0 {
		// the comparison is written out: decide the same statement on the closed form itself,
		// for every assignment of {0, 1, 1.001} to the coordinates and tolerances 0 and 0.01
		ev2 := newEval(ctx)
		res2, _ := ev2.evalRoot(fn)
		t2, _ := res2.(*Term)
		if t2 == nil || ev2.Exceeded {
			r.undecided(rule, key, fn.Pos(), "result is not a closed form")
			return
		}
		tolN := paramName(fn, 1)
		// coordinate atoms: <anything>[v].X/Y/Z
		reCoord := regexp.MustCompile(`\[(\d)\]\.([XYZ])$`)
		atomOf := map[[2]int]string{}
		dim := 2
		for _, a := range findSub(t2, func(x *Term) bool { return x.Op == "a" }) {
			if m := reCoord.FindStringSubmatch(a.S); m != nil {
				v := int(m[1][0] - '0')
				ax := strings.Index("XYZ", m[2])
				atomOf[[2]int{v, ax}] = a.S
				if ax == 2 {
					dim = 3
				}
			}
		}
		vals := []float64{0, 1, 1.001}
		nc := n * dim
		coords := make([]float64, nc)
		bad, cases := "", 0
		var rec func(i int)
		rec = func(i int) {
			if bad != "" {
				return
			}
			if i == nc {
				for _, tol := range []float64{0, 0.01} {
					env := map[string]float64{tolN: tol}
					for v := 0; v < n; v++ {
						for a := 0; a < dim; a++ {
							if nm, ok := atomOf[[2]int{v, a}]; ok {
								env[nm] = coords[v*dim+a]
							}
						}
					}
					got, ok := evalFloat(t2, env)
					if !ok {
						bad = " the closed form cannot be evaluated: " + shortKey(t2.Key(), 120)
						return
					}
					want := false
					for v := 0; v < n; v++ {
						for w := v + 1; w < n; w++ {
							same := true
							for a := 0; a < dim; a++ {
								if math.Abs(coords[v*dim+a]-coords[w*dim+a]) > tol {
									same = false
								}
							}
							want = want || same
						}
					}
					cases++
					if (got != 0) != want {
						bad = fmt.Sprintf(" vertices %v with tolerance %g: Degenerate is %v;", coords, tol, got != 0)
						return
					}
				}
				return
			}
			for _, v := range vals {
				coords[i] = v
				rec(i + 1)
			}
		}
		rec(0)
		r.check(rule, key, fn.Pos(), bad == "", fmt.Sprintf("Degenerate ⇔ some two of the %d vertices coincide within the tolerance on every axis (comparison written out: %d assignments evaluated);%s", n, cases, bad))
		return
	}
	pairOf := map[string][2]int{}
	vertexIdx := func(a *Term) int {
		// agg(t[i].X, t[i].Y, ...) or agg(a[i].X, ...)
		k := a.Key()
		for i := 0; i < n; i++ {
			if strings.Contains(k, fmt.Sprintf("[%d].X", i)) && !strings.Contains(k, fmt.Sprintf("[%d].X", (i+1)%n)) {
				return i
			}
		}
		return -1
	}
	pairs := map[[2]int]bool{}
	detail := ""
	ok := true
	for _, e := range eqs {
		if len(e.Args) < 2 {
			continue
		}
		i, j := vertexIdx(e.Args[0]), vertexIdx(e.Args[1])
		if i < 0 || j < 0 || i == j {
			ok = false
			detail += " comparison of " + shortKey(e.Key(), 80) + " is not between two vertices;"
			continue
		}
		if i > j {
			i, j = j, i
		}
		pairs[[2]int{i, j}] = true
		pairOf[e.Key()] = [2]int{i, j}
	}
	want := n * (n - 1) / 2
	if len(pairs) != want {
		ok = false
		detail += fmt.Sprintf(" %d of %d vertex pairs compared: %v;", len(pairs), want, pairs)
	}
	// truth table: true iff some compared pair is equal
	if ok {
		keys := make([]string, 0, len(pairOf))
		for k := range pairOf {
			keys = append(keys, k)
		}
		sort.Strings(keys)
		for m := 0; m < 1<<uint(len(keys)); m++ {
			sub := map[string]*Term{}
			any := false
			for b, k := range keys {
				if m>>uint(b)&1 == 1 {
					sub[k] = K(1)
					any = true
				} else {
					sub[k] = K(0)
				}
			}
			g := substKeys(t, sub)
			if !g.IsConst() || (g.C.Sign() != 0) != any {
				ok = false
				detail += fmt.Sprintf(" with equal pairs mask %b the result is %s;", m, shortKey(g.Key(), 40))
				break
			}
		}
	}
	r.check(rule, key, fn.Pos(), ok, fmt.Sprintf("Degenerate ⇔ some two of the %d vertices coincide (within the tolerance);%s", n, detail))
}

// degenerateGuard: every append to the result slice of primitives in fn is
// control dependent on a Degenerate() call returning false.
// emissionFn: the function that appends the primitives - the kernel itself, or the helper the
// kernel hands its emission loop to.
func emissionFn(kfn *ssa.Function, prim string) *ssa.Function {
	has := func(f *ssa.Function) bool {
		found := false
		allInstrs(f, func(_ *ssa.BasicBlock, ins ssa.Instruction) {
			if c, ok := ins.(*ssa.Call); ok {
				if bi, ok := c.Call.Value.(*ssa.Builtin); ok && bi.Name() == "append" && namedTypeIs(c.Type(), "/sdf", prim) {
					found = true
				}
			}
		})
		return found
	}
	if has(kfn) {
		return kfn
	}
	var out *ssa.Function
	allInstrs(kfn, func(_ *ssa.BasicBlock, ins ssa.Instruction) {
		if c, ok := ins.(*ssa.Call); ok {
			if g := c.Call.StaticCallee(); g != nil && inModule(g) && len(g.Blocks) > 0 && has(g) {
				out = g
			}
		}
	})
	if out != nil {
		return out
	}
	return kfn
}

func degenerateGuard(ctx *Ctx, r *Report, fn *ssa.Function, rule, prim string) {
	n := 0
	allInstrs(fn, func(b *ssa.BasicBlock, ins ssa.Instruction) {
		c, ok := ins.(*ssa.Call)
		if !ok {
			return
		}
		if bi, ok := c.Call.Value.(*ssa.Builtin); !ok || bi.Name() != "append" {
			return
		}
		if !namedTypeIs(c.Type(), "/sdf", prim) {
			return
		}
		n++
		guarded := false
		for _, g := range branchGuards(b) {
			if _, ok := isCallTo(g.cond, "Degenerate"); ok && !g.val {
				guarded = true
			}
		}
		r.check(rule, fmt.Sprintf("%s|append#%d", fn.Name(), n), c.Pos(), guarded, "emission of a primitive must be dominated by the false branch of its Degenerate() test")
	})
	// direct stores into a result slice by index would bypass append: none expected
	if n == 0 {
		r.undecided(rule, fn.Name(), fn.Pos(), "no append of *"+prim+" found: emission idiom not recognised")
	}
	// a degenerate primitive drops itself, not the rest of the cell: inside the emission loop
	// both branches of the Degenerate test stay in the loop (`break` where `continue` was meant
	// discards the second segment of a saddle cell after a zero-length first one)
	descs := loopDescs(fn, topoAll(fn))
	allInstrs(fn, func(b *ssa.BasicBlock, ins ssa.Instruction) {
		iff, ok := ins.(*ssa.If)
		if !ok {
			return
		}
		c, _ := stripNot(iff.Cond)
		if _, isD := isCallTo(c, "Degenerate"); !isD {
			return
		}
		var ld *loopDesc
		for _, d := range descs {
			if d.in[b] && (ld == nil || len(d.order) < len(ld.order)) {
				ld = d
			}
		}
		if ld == nil {
			return
		}
		leaves := ""
		for _, su := range b.Succs {
			// leaving through a block that only returns the result built so far is a `break` too
			if !ld.in[su] {
				leaves = " a branch of the test at " + ctx.pos(branchPos(b, iff)) + " leaves the emission loop;"
			}
		}
		r.check(rule, fn.Name()+"|degenerate-primitive-skips-only-itself", iff.Pos(), leaves == "", "both branches of the Degenerate test continue with the next primitive of the cell;"+leaves)
	})
}

// interpSymmetry: interp(p1,p2,v1,v2,x) == interp(p2,p1,v2,v1,x) and its
// general branch is the linear zero crossing; near-endpoint branches snap to
// that endpoint. Decided on the gated term of the function under all truth
// assignments of its comparison leaves.
func interpSymmetry(ctx *Ctx, r *Report, pkg, name, rule string) {
	fn := ctx.ssaFunc(pkg, name)
	if fn == nil {
		r.undecided(rule, name, 0, "function not found")
		return
	}
	ev := newEval(ctx)
	res, _ := ev.evalRoot(fn)
	leaves := map[string]*Term{}
	leafTerms("", res, leaves)
	if len(leaves) == 0 {
		r.undecided(rule, name, fn.Pos(), "result is not a vector of terms")
		return
	}
	if len(fn.Params) != 5 {
		r.undecided(rule, name, fn.Pos(), "unexpected signature")
		return
	}
	pn := func(i int) string { return paramName(fn, i) }
	p1, p2, v1, v2, x := pn(0), pn(1), pn(2), pn(3), pn(4)
	// swap substitution
	sw := map[string]*Term{v1: A(v2), v2: A(v1)}
	for _, c := range []string{".X", ".Y", ".Z"} {
		sw[p1+c] = A(p2 + c)
		sw[p2+c] = A(p1 + c)
	}
	okSym, okLin := true, true
	detail := ""
	ncases := 0
	for comp, t := range leaves {
		ts := substAtoms(t, sw)
		cas := condAtoms(t)
		cbs := condAtoms(ts)
		all := map[string]*Term{}
		for _, c := range append(cas, cbs...) {
			all[c.Key()] = c
		}
		var keys []string
		for k := range all {
			keys = append(keys, k)
		}
		if len(keys) > 8 {
			r.undecided(rule, name+"|symmetric", fn.Pos(), fmt.Sprintf("%d condition leaves", len(keys)))
			return
		}
		for m := 0; m < 1<<uint(len(keys)); m++ {
			truth := map[string]bool{}
			for i, k := range keys {
				truth[k] = m>>uint(i)&1 == 1
			}
			// consistency: a leaf and its swapped image describe the other endpoint
			a := assume(t, truth)
			b := assume(ts, truth)
			ncases++
			if !equalRat(a, b) {
				okSym = false
				if detail == "" {
					detail = fmt.Sprintf("component %s under %v: %s vs swapped %s", comp, truthStr(truth), shortKey(a.Key(), 120), shortKey(b.Key(), 120))
				}
			}
			// all leaves false = the general branch: linear zero crossing
			allFalse := true
			for _, v := range truth {
				if v {
					allFalse = false
				}
			}
			if allFalse {
				c := comp
				want := Add(A(p1+c), Mul(Div(Sub(A(x), A(v1)), Sub(A(v2), A(v1))), Sub(A(p2+c), A(p1+c))))
				if !equalRat(a, want) {
					okLin = false
					detail += fmt.Sprintf(" general branch of %s is %s, expected p1+(x-v1)/(v2-v1)*(p2-p1)", comp, shortKey(a.Key(), 160))
				}
			}
		}
	}
	r.Counts["interp_cases"] += ncases
	r.check(rule, name+"|symmetric-under-endpoint-swap", fn.Pos(), okSym, "interp(p1,p2,v1,v2,x) must equal interp(p2,p1,v2,v1,x) in every branch: neighbouring cells walk a shared edge in opposite directions. "+detail)
	r.check(rule, name+"|linear-zero-crossing", fn.Pos(), okLin, "general branch ≡ p1 + (x−v1)/(v2−v1)·(p2−p1). "+detail)
}

func truthStr(m map[string]bool) string {
	s := ""
	for k, v := range m {
		s += fmt.Sprintf("[%s=%v]", shortKey(k, 50), v)
	}
	return s
}
