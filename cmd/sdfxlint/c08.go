package main

// C08 — 2D contours are closed and lie on the boundary (tables exhaustive).
//
//  U0  pair table = the 4 edges of the unit square under the repo's numbering
//  U1  edge mask row = set of edges whose corners differ
//  U2  a line row uses every crossing edge exactly once and nothing else, so a
//      lattice-edge vertex gets one segment end from each of the two cells
//      sharing it (degree 2; two segments in the saddle rows)
//  U3  rows have even length, no segment uses one edge twice
//  U4  every emitted segment is behind the !Degenerate test
//  U5  edge vertex computed from that edge's corners/values, interpolation is
//      the symmetric linear zero crossing
//  U6  explicit degree count over all 2 x 64 neighbouring configuration pairs
//  U8  the uniform renderer's column cache samples lattice point (x, j) at base + (x, j)∘inc and
//      the marching loop places the cell corners on the same lattice, axis by axis
//  U7  uniform and quadtree renderers number corners identically, sample value
//      k at corner k, iso level 0
//
// Deliberately not demanded: a consistent direction of the segments (the
// statement asks for even degree, and the table is not consistently directed).

import (
	"fmt"
	"go/token"
)

func init() { register("C08", checkC08) }

func checkC08(ctx *Ctx, r *Report, tier string) {
	r.Explain = "Marching-squares case tables verified exhaustively: mask/row agreement for the 16 configurations, every crossing lattice edge used exactly once per cell (so every contour vertex has degree 2 across all 2x64 neighbouring configuration pairs), degenerate-segment guard, kernel/corner agreement of the uniform and quadtree renderers, symmetric linear interpolation. Geometry (corner numbering, inside test, emitted end order, edge/corner pairing) is read from the source by symbolic evaluation. Not decided: lengths, convergence, saddle geometry, orientation of segments (not required by the property)."
	r.Exhaust = true
	r.Trusted = []string{"go/types", "go/ssa", "sdfxlint symbolic evaluator and term normaliser"}
	r.Assume = []string{"floating-point rounding is outside the claim", "shape boundary lies inside the sampled box"}

	pairs, _, ppos, err := ctx.table2("render", "msPairTable")
	if err != nil {
		r.undecided("U0", "msPairTable", ppos, err.Error())
		return
	}
	mask, mpos, err := ctx.table1("render", "msEdgeTable")
	if err != nil {
		r.undecided("U0", "msEdgeTable", mpos, err.Error())
		return
	}
	lines, rowP, lpos, err := ctx.table2("render", "msLineTable")
	if err != nil {
		r.undecided("U0", "msLineTable", lpos, err.Error())
		return
	}
	kfn := ctx.ssaFunc("render", "msToLines")
	if kfn == nil {
		r.undecided("U7", "msToLines", 0, "kernel function not found")
		return
	}
	degenerateGuard(ctx, r, emissionFn(kfn, "Line2"), "U4", "Line2")
	if cf := ctx.ssaFunc("render", "verifCtlMsKernelNoDegenerate"); cf != nil {
		degenerateGuard(ctx, r, cf, "U4", "Line2")
	}
	r.expectControl("U4", "verifCtlMsKernelNoDegenerate")
	degenerateTest(ctx, r, "U4", "Line2", 2)
	degenerateToleranceZero(ctx, r, "U4", "render")
	equalsAtZeroTolerance(ctx, r, "U4", "v2")
	freshPrimitivePerIteration(ctx, r, "U4", emissionFn(kfn, "Line2"), "Line2")
	r.floor("U4", 4)
	kf, err := analyseKernel(ctx, kfn, 2, "msInterpolate")
	if err != nil {
		r.undecided("U5", "msToLines", kfn.Pos(), "kernel shape not recognised: "+err.Error())
		return
	}
	r.check("U5", "msToLines|edge-vertex-from-its-own-corners", kf.pos, kf.pairOK && kf.interpA+kf.interpB == 1, kf.pairDetail)
	interpSymmetry2(ctx, r, "render", "msInterpolate", "U5")
	if kf2 := ctx.ssaFunc("render", "msToLines"); kf2 != nil {
		everyFlaggedEdgeInterpolated(ctx, r, "U10", kf2, "msInterpolate", 4)
	}
	r.floor("U5", 3)

	// corner numbering
	var ucm *cornerModel
	if ufn := ctx.ssaFunc("render", "marchingSquares"); ufn == nil {
		r.undecided("U7", "marchingSquares", 0, "function not found")
	} else {
		ucm, err = uniformCorners(ctx, ufn, "msToLines", 2, "get", "newLineCache", "evaluate")
		if err != nil {
			r.undecided("U7", "marchingSquares", ufn.Pos(), err.Error())
			ucm = nil
		} else {
			r.check("U7", "marchingSquares|corner-literal", ucm.pos, validBits(ucm.bits, 2), "corner offsets (x y per corner) = "+bitsString(ucm.bits)+": must be the 4 distinct square corners")
			r.check("U7", "marchingSquares|value-k-sampled-at-corner-k", ucm.pos, fmt.Sprint(ucm.bits) == fmt.Sprint(ucm.valBits), "corner offsets "+bitsString(ucm.bits)+" vs value sample offsets "+bitsString(ucm.valBits))
			ev := newEval(ctx, "msToLines", "get", "newLineCache", "evaluate")
			ev.evalRoot(ufn)
			isoZeroK(r, ev, "marchingSquares", "msToLines", "U7")
		}
		// U8: the column cache samples, and the marching loop draws, on one lattice (rule shared with C06 V6)
		sampleLattice(ctx, r, "U8", ufn, "newLineCache", "evaluate", "msToLines", 2)
		r.floor("U8", 2)
		everyCellFeedsKernel(ctx, r, "U9", ufn, "msToLines")
		r.floor("U9", 1)
	}
	if qfn := ctx.ssaFunc("render", "(*dcache2).processSquare"); qfn == nil {
		r.undecided("U7", "processSquare", 0, "function not found")
	} else {
		qcm, qev, err := treeCorners(ctx, qfn, "msToLines", 2, "evaluate", "isEmpty")
		if err != nil {
			r.undecided("U7", "processSquare", qfn.Pos(), err.Error())
		} else {
			if ucm != nil {
				r.check("U7", "processSquare|same-corner-numbering-as-uniform", qcm.pos, fmt.Sprint(qcm.bits) == fmt.Sprint(ucm.bits), "quadtree leaf corners "+bitsString(qcm.bits)+" vs uniform "+bitsString(ucm.bits))
			}
			r.check("U7", "processSquare|value-k-sampled-at-corner-k", qcm.pos, fmt.Sprint(qcm.bits) == fmt.Sprint(qcm.valBits), "corner offsets "+bitsString(qcm.bits)+" vs value offsets "+bitsString(qcm.valBits))
			isoZeroK(r, qev, "processSquare", "msToLines", "U7")
		}
	}
	r.floor("U7", 3)
	if ucm == nil || !validBits(ucm.bits, 2) {
		return
	}
	r.Counts["table_rows"] = len(pairs) + len(mask) + len(lines)
	verifyMSTables(r, pairs, mask, lines, rowP, ucm.bits, kf, "", ppos, lpos)
	// positive control
	if cl, cpos := pkgVarLit(ctx.Pkgs["render"], "verifCtlLineTable", nil, ctx.Fset); cl != nil {
		if n, err := readLit(ctx.Pkgs["render"].TypesInfo, cl); err == nil {
			var clines [][]int
			var cp []token.Pos
			for _, row := range n.elems {
				ints, _ := row.ints()
				clines = append(clines, ints)
				cp = append(cp, row.pos)
			}
			verifyMSTables(r, pairs, mask, clines, cp, ucm.bits, kf, "verifCtl", cpos, cpos)
			r.expectControl("U2", "verifCtl")
		}
	} else if !r.controlSkipped() {
		r.undecided("U2", "control-tables", 0, "positive control table missing")
	}
	r.floor("U1", 16)
	r.floor("U2", 16)
	r.floor("U3", 16)
	r.floor("U6", 128)
}

func isoZeroK(r *Report, ev *Evaluator, who, kernel, rule string) {
	for _, e := range eventsOf(ev, "."+kernel) {
		if len(e.Args) >= 3 {
			t, _ := e.Args[2].(*Term)
			r.check(rule, who+"|iso-level-0", e.Pos, t != nil && t.IsZero(), "third kernel argument = "+valKey(e.Args[2]))
		}
	}
}

func verifyMSTables(r *Report, pairs [][]int, mask []int, lines [][]int, rowP []token.Pos, bits [][]int, kf *kernelFacts, prefix string, ppos, lpos token.Pos) {
	name := func(s string) string { return prefix + s }
	inside := func(cfg, c int) bool { return ((cfg>>uint(c))&1 == 1) == kf.bitIsInside }
	ok := len(pairs) == 4
	seen := map[[2]int]bool{}
	for _, p := range pairs {
		if len(p) != 2 || p[0] < 0 || p[0] > 3 || p[1] < 0 || p[1] > 3 {
			ok = false
			continue
		}
		nz := 0
		for ax := 0; ax < 2; ax++ {
			if bits[p[0]][ax] != bits[p[1]][ax] {
				nz++
			}
		}
		a, b := p[0], p[1]
		if a > b {
			a, b = b, a
		}
		if nz != 1 || seen[[2]int{a, b}] {
			ok = false
		}
		seen[[2]int{a, b}] = true
	}
	r.check("U0", name("msPairTable|4-square-edges"), ppos, ok, fmt.Sprint(pairs))
	if !ok {
		return
	}
	ok = len(mask) == 16 && len(lines) == 16
	r.check("U0", name("tables|16-rows"), lpos, ok, fmt.Sprintf("mask rows %d, line rows %d", len(mask), len(lines)))
	if !ok {
		return
	}
	crossing := make([]int, 16)
	for cfg := 0; cfg < 16; cfg++ {
		row := lines[cfg]
		ok3 := len(row)%2 == 0
		for _, e := range row {
			if e < 0 || e > 3 {
				ok3 = false
			}
		}
		for i := 0; ok3 && i+1 < len(row); i += 2 {
			if row[i] == row[i+1] {
				ok3 = false
			}
		}
		r.check("U3", name(fmt.Sprintf("msLineTable[%d]", cfg)), rowP[cfg], ok3, fmt.Sprintf("row %v: even length, indices 0..3, no segment with both ends on one edge", row))
		m := 0
		for e, p := range pairs {
			if inside(cfg, p[0]) != inside(cfg, p[1]) {
				m |= 1 << uint(e)
			}
		}
		crossing[cfg] = m
		r.check("U1", name(fmt.Sprintf("cfg=%d", cfg)), rowP[cfg], m == mask[cfg], fmt.Sprintf("crossing edges 0x%x, msEdgeTable 0x%x", m, mask[cfg]))
		cnt := [4]int{}
		for _, e := range row {
			if e >= 0 && e <= 3 {
				cnt[e]++
			}
		}
		ok2 := ok3
		for e := 0; e < 4; e++ {
			want := (m >> uint(e)) & 1
			if cnt[e] != want {
				ok2 = false
			}
		}
		r.check("U2", name(fmt.Sprintf("cfg=%d", cfg)), rowP[cfg], ok2, fmt.Sprintf("row %v must use each crossing edge (mask 0x%x) exactly once and no other", row, m))
	}
	// U6 explicit degree across neighbours
	cornerAt := func(b []int) int {
		for i, c := range bits {
			if c[0] == b[0] && c[1] == b[1] {
				return i
			}
		}
		return -1
	}
	mapCorner := func(c, ax int) int {
		b := []int{bits[c][0], bits[c][1]}
		b[ax] = 1 - b[ax]
		return cornerAt(b)
	}
	axn := []string{"x", "y"}
	for ax := 0; ax < 2; ax++ {
		shared := -1
		for e, p := range pairs {
			if bits[p[0]][ax] == 1 && bits[p[1]][ax] == 1 {
				shared = e
			}
		}
		a, b := pairs[shared][0], pairs[shared][1]
		ma, mb := mapCorner(a, ax), mapCorner(b, ax)
		es := -1
		for e, p := range pairs {
			if (p[0] == ma && p[1] == mb) || (p[0] == mb && p[1] == ma) {
				es = e
			}
		}
		for A := 0; A < 16; A++ {
			for B := 0; B < 16; B++ {
				if inside(A, a) != inside(B, ma) || inside(A, b) != inside(B, mb) {
					continue
				}
				deg := 0
				for _, e := range lines[A] {
					if e == shared {
						deg++
					}
				}
				for _, e := range lines[B] {
					if e == es {
						deg++
					}
				}
				want := 0
				if inside(A, a) != inside(A, b) {
					want = 2
				}
				r.check("U6", name(fmt.Sprintf("%s+|A=%d|B=%d", axn[ax], A, B)), rowP[A], deg == want, fmt.Sprintf("segment ends meeting on the shared lattice edge: %d, expected %d", deg, want))
			}
		}
	}
}

// interpSymmetry2 is interpSymmetry for a 2D interpolation function.
func interpSymmetry2(ctx *Ctx, r *Report, pkg, name, rule string) {
	interpSymmetry(ctx, r, pkg, name, rule)
}
