package main

// E5 rules shared by C09, C11, C12: goroutine sites, sink loops, must-call.

import (
	"fmt"
	"go/token"
	"go/types"
	"sort"
	"strings"

	"golang.org/x/tools/go/ssa"
	"golang.org/x/tools/go/ssa/ssautil"
)

var libSSAPkgs = []string{"sdf", "render", "render/dc", "obj"}

type goSite struct {
	in     *ssa.Function
	instr  *ssa.Go
	callee *ssa.Function
	key    string // stable construct key: enclosing function + ordinal
}

func goCallee(g *ssa.Go) *ssa.Function {
	switch v := g.Call.Value.(type) {
	case *ssa.MakeClosure:
		f, _ := v.Fn.(*ssa.Function)
		return f
	case *ssa.Function:
		return v
	}
	return g.Call.StaticCallee()
}

func goSites(ctx *Ctx) []goSite {
	var out []goSite
	for _, fn := range ctx.srcFuncs(libSSAPkgs...) {
		n := 0
		allInstrs(fn, func(b *ssa.BasicBlock, ins ssa.Instruction) {
			if g, ok := ins.(*ssa.Go); ok {
				n++
				out = append(out, goSite{in: fn, instr: g, callee: goCallee(g), key: fmt.Sprintf("%s|go#%d", shortFn(fn), n)})
			}
		})
	}
	return out
}

// recvOp is a channel receive with the comma-ok form driving a loop.
type recvOp struct {
	op      *ssa.UnOp
	block   *ssa.BasicBlock
	body    *ssa.BasicBlock // successor when ok
	done    *ssa.BasicBlock // successor when the channel is exhausted
	chanVal ssa.Value
}

func recvLoops(fn *ssa.Function) []recvOp {
	var out []recvOp
	for _, b := range fn.Blocks {
		for _, ins := range b.Instrs {
			u, ok := ins.(*ssa.UnOp)
			if !ok || u.Op != token.ARROW || !u.CommaOk {
				continue
			}
			iff, ok := b.Instrs[len(b.Instrs)-1].(*ssa.If)
			if !ok {
				continue
			}
			ex, ok := iff.Cond.(*ssa.Extract)
			if !ok || ex.Tuple != u || ex.Index != 1 {
				continue
			}
			out = append(out, recvOp{op: u, block: b, body: b.Succs[0], done: b.Succs[1], chanVal: u.X})
		}
	}
	return out
}

// reachableAvoidingEdges: blocks reachable from entry when the given edges are removed. One kind
// of infeasible path is recognised: a block that tests a variable merged at its own entry against
// nil (`for .. { if err != nil { werr = err; break } }; if werr != nil {`) is left, for each way
// of entering it, only through the branch the merged value decides - nil on the one edge, a
// value known to be non-nil where it was assigned on the other.
func reachableAvoidingEdges(fn *ssa.Function, cut map[[2]*ssa.BasicBlock]bool) map[*ssa.BasicBlock]bool {
	seen := map[*ssa.BasicBlock]bool{}
	seenEdge := map[[2]*ssa.BasicBlock]bool{}
	// decided: for entering b from pred, the index of the only feasible successor, or -1
	decided := func(pred, b *ssa.BasicBlock) int {
		if pred == nil || len(b.Instrs) == 0 {
			return -1
		}
		iff, ok := b.Instrs[len(b.Instrs)-1].(*ssa.If)
		if !ok {
			return -1
		}
		c, neg := stripNot(iff.Cond)
		bo, ok := c.(*ssa.BinOp)
		if !ok || (bo.Op != token.NEQ && bo.Op != token.EQL) {
			return -1
		}
		isNil := func(v ssa.Value) bool { k, ok := v.(*ssa.Const); return ok && k.IsNil() }
		var phi *ssa.Phi
		switch {
		case isNil(bo.Y):
			phi, _ = bo.X.(*ssa.Phi)
		case isNil(bo.X):
			phi, _ = bo.Y.(*ssa.Phi)
		}
		if phi == nil || phi.Block() != b {
			return -1
		}
		// nothing between the merge and the test may have effects that matter here: the block
		// consists of phis, the comparison and the branch
		for _, ins := range b.Instrs {
			switch ins.(type) {
			case *ssa.Phi, *ssa.BinOp, *ssa.UnOp, *ssa.If, *ssa.DebugRef:
			default:
				return -1
			}
		}
		var v ssa.Value
		for i, p := range b.Preds {
			if p == pred {
				v = phi.Edges[i]
			}
		}
		if v == nil {
			return -1
		}
		nonNil, known := false, false
		if isNil(v) {
			known = true
		} else {
			for _, g := range branchGuards(pred) {
				if gb, ok := g.cond.(*ssa.BinOp); ok && (gb.Op == token.NEQ || gb.Op == token.EQL) {
					if (gb.X == v && isNil(gb.Y)) || (gb.Y == v && isNil(gb.X)) {
						if (gb.Op == token.NEQ) == g.val {
							nonNil, known = true, true
						}
					}
				}
			}
		}
		if !known {
			return -1
		}
		// the test is true iff (op is != and the value is non-nil) or (op is == and it is nil)
		truth := (bo.Op == token.NEQ) == nonNil
		if neg {
			truth = !truth
		}
		if truth {
			return 0
		}
		return 1
	}
	var dfs func(pred, b *ssa.BasicBlock)
	dfs = func(pred, b *ssa.BasicBlock) {
		e := [2]*ssa.BasicBlock{pred, b}
		if seenEdge[e] {
			return
		}
		seenEdge[e] = true
		seen[b] = true
		only := decided(pred, b)
		for i, s := range b.Succs {
			if cut[[2]*ssa.BasicBlock{b, s}] || (only >= 0 && i != only) {
				continue
			}
			dfs(b, s)
		}
	}
	if len(fn.Blocks) > 0 {
		dfs(nil, fn.Blocks[0])
	}
	return seen
}

// chanRoot describes where a channel value comes from.
func chanRoot(v ssa.Value) string {
	// a channel passed on with a narrower direction is the same channel
	for i := 0; i < 4; i++ {
		if ct, ok := v.(*ssa.ChangeType); ok {
			v = ct.X
			continue
		}
		if cv, ok := v.(*ssa.Convert); ok {
			v = cv.X
			continue
		}
		break
	}
	switch x := v.(type) {
	case *ssa.UnOp:
		if x.Op == token.MUL {
			switch y := x.X.(type) {
			case *ssa.Global:
				return "global:" + y.Name()
			case *ssa.FreeVar:
				return "captured:" + y.Name()
			case *ssa.FieldAddr:
				return "field"
			}
		}
	case *ssa.FreeVar:
		return "captured:" + x.Name()
	case *ssa.Parameter:
		return "param:" + x.Name()
	case *ssa.MakeChan:
		return "local"
	}
	return "other"
}

// G1: a goroutine that drains a channel may only return after the channel is exhausted.
func ruleSinkOnlyReturnsAfterExhaustion(r *Report, rule string, gs goSite) {
	fn := gs.callee
	if fn == nil || len(fn.Blocks) == 0 {
		r.undecided(rule, gs.key, gs.instr.Pos(), "goroutine body not resolved")
		return
	}
	loops := recvLoops(fn)
	if len(loops) == 0 {
		return // not a draining goroutine: nothing to require
	}
	cut := map[[2]*ssa.BasicBlock]bool{}
	for _, l := range loops {
		cut[[2]*ssa.BasicBlock{l.block, l.done}] = true
	}
	reach := reachableAvoidingEdges(fn, cut)
	bad := ""
	for _, ret := range returnsOf(fn) {
		if reach[ret.Block()] {
			bad += " " + r.ctx.pos(ret.Pos())
		}
	}
	// panics end the goroutine too (and the process), not a hang: ignored
	r.check(rule, gs.key+"|returns-only-after-channel-exhausted", gs.instr.Pos(), bad == "",
		"a sink goroutine that stops receiving leaves the renderer blocked on the unbuffered channel; returns reachable without exhausting the channel:"+bad)
}

// refsTo lists instructions that mention fn as an operand (calls, go, defer, arguments, stores).
type fnRef struct {
	in  *ssa.Function
	ins ssa.Instruction
}

func refsTo(ctx *Ctx, target *ssa.Function) []fnRef {
	var out []fnRef
	for fn := range ssautil.AllFunctions(ctx.Prog) {
		if !inModule(fn) {
			continue
		}
		allInstrs(fn, func(b *ssa.BasicBlock, ins ssa.Instruction) {
			for _, op := range ins.Operands(nil) {
				if *op == ssa.Value(target) {
					out = append(out, fnRef{fn, ins})
					return
				}
			}
		})
	}
	sort.Slice(out, func(i, j int) bool { return out[i].ins.Pos() < out[j].ins.Pos() })
	return out
}

// G2: goroutines per render are bounded.
func ruleGoroutinesBounded(ctx *Ctx, r *Report, rule string, gs goSite) {
	fn := gs.callee
	if fn == nil {
		r.undecided(rule, gs.key, gs.instr.Pos(), "goroutine body not resolved")
		return
	}
	loops := recvLoops(fn)
	terminating := true
	why := ""
	for _, l := range loops {
		root := chanRoot(l.chanVal)
		// a named goroutine function receives its channel as an argument: look at what is passed
		if pr, isParam := l.chanVal.(*ssa.Parameter); isParam {
			if g := gs.instr; g != nil {
				for i, fp := range fn.Params {
					if fp == pr && i < len(g.Call.Args) {
						root = chanRoot(g.Call.Args[i])
					}
				}
			}
		}
		if strings.HasPrefix(root, "global:") || root == "field" || root == "other" {
			terminating = false
			why = "ranges over " + root + " which nothing closes per render"
		}
	}
	// infinite loops without receive are not expected at all
	if len(loops) == 0 && hasCycle(fn) {
		terminating = false
		why = "loops without a channel to end it"
	}
	if terminating {
		// the sink pattern: the channel is created by the enclosing function and handed to the caller who closes it (C11 B4 / C12 G5)
		created := false
		allInstrs(gs.in, func(b *ssa.BasicBlock, ins ssa.Instruction) {
			if _, ok := ins.(*ssa.MakeChan); ok {
				created = true
			}
		})
		r.check(rule, gs.key+"|goroutine-ends-with-its-render", gs.instr.Pos(), created || len(loops) == 0,
			"goroutine drains a channel made by its creator (closed by the caller after Render)")
		return
	}
	// non-terminating workers: the spawning function must run at most once per process
	spawner := gs.in
	for spawner.Parent() != nil {
		spawner = spawner.Parent()
	}
	refs := refsTo(ctx, spawner)
	ok := len(refs) > 0
	detail := ""
	for _, ref := range refs {
		good := false
		if c, isCall := ref.ins.(*ssa.Call); isCall {
			if f := c.Call.StaticCallee(); f != nil && f.String() == "(*sync.Once).Do" && len(c.Call.Args) == 2 {
				if _, isG := c.Call.Args[0].(*ssa.Global); isG && c.Call.Args[1] == ssa.Value(spawner) {
					good = true
				} else {
					detail += fmt.Sprintf(" %s: sync.Once is not a package-level variable (one Once per object still spawns per object);", ctx.pos(ref.ins.Pos()))
				}
			}
		}
		if ref.in.Name() == "init" && ref.in.Parent() == nil {
			good = true
		}
		if !good {
			ok = false
			detail += fmt.Sprintf(" %s in %s;", ctx.pos(ref.ins.Pos()), shortFn(ref.in))
		}
	}
	r.check(rule, gs.key+"|never-ending-workers-started-once-per-process", gs.instr.Pos(), ok,
		"goroutine "+why+"; every reference to "+shortFn(spawner)+" must be (*sync.Once).Do on a package-level Once or init:"+detail)
	// started once, needed for ever: nothing restarts these workers, so one that gives up (idle
	// timeout, error) leaves later renders waiting on a channel nobody reads. The body may
	// return only when its channel is exhausted.
	cut := map[[2]*ssa.BasicBlock]bool{}
	for _, l := range loops {
		cut[[2]*ssa.BasicBlock{l.block, l.done}] = true
	}
	leaves := ""
	for b := range reachableAvoidingEdges(fn, cut) {
		if _, isRet := b.Instrs[len(b.Instrs)-1].(*ssa.Return); isRet {
			leaves = ctx.pos(lastPos(b))
		}
	}
	r.check(rule, gs.key+"|workers-started-once-never-give-up", gs.instr.Pos(), leaves == "",
		"a worker that is started once per process returns only when its channel is closed; it can return at "+leaves)
}

func hasCycle(fn *ssa.Function) bool {
	for _, b := range fn.Blocks {
		for _, s := range b.Succs {
			if s.Dominates(b) {
				return true
			}
		}
	}
	return false
}

// G4: wg.Add(1) before the go statement, deferred wg.Done in the goroutine's entry block.
func ruleWaitGroupPairing(r *Report, rule string, gs goSite) {
	fn := gs.callee
	if fn == nil || len(fn.Blocks) == 0 {
		return
	}
	done := false
	for _, ins := range fn.Blocks[0].Instrs {
		if d, ok := ins.(*ssa.Defer); ok {
			if f := d.Call.StaticCallee(); f != nil && f.String() == "(*sync.WaitGroup).Done" {
				done = true
			}
		}
	}
	doneAny := false
	allInstrs(fn, func(b *ssa.BasicBlock, ins ssa.Instruction) {
		if d, ok := ins.(*ssa.Defer); ok {
			if f := d.Call.StaticCallee(); f != nil && f.String() == "(*sync.WaitGroup).Done" {
				doneAny = true
			}
		}
	})
	added := false
	blk := gs.instr.Block()
	for i := 0; i < instrIndex(gs.instr); i++ {
		if isWaitGroupCall(blk.Instrs[i], "Add") {
			c := blk.Instrs[i].(*ssa.Call)
			if n, ok := constInt(c.Call.Args[1]); ok && n == 1 {
				added = true
			}
		}
	}
	if !added {
		for d := blk.Idom(); d != nil && !added; d = d.Idom() {
			for _, ins := range d.Instrs {
				if isWaitGroupCall(ins, "Add") {
					added = true
				}
			}
		}
	}
	if !doneAny && !added {
		return // goroutine not tracked by a WaitGroup (the worker pool): nothing to pair
	}
	r.check(rule, gs.key+"|wg-add-before-go", gs.instr.Pos(), added, "wg.Add(1) must dominate the go statement of a goroutine that signals Done")
	r.check(rule, gs.key+"|deferred-wg-done-on-entry", gs.instr.Pos(), done, "the goroutine must defer wg.Done() in its entry block so that every exit (including error exits) releases the waiter")
}

// ---------------------------------------------------------------- must-call Close (B3)

type mustCloseMemo map[*ssa.Function]map[int]int // 0 unknown/in progress, 1 yes, 2 no

func (m mustCloseMemo) check(ctx *Ctx, fn *ssa.Function, pi int, depth int) bool {
	if m[fn] == nil {
		m[fn] = map[int]int{}
	}
	if v := m[fn][pi]; v != 0 {
		return v == 1
	}
	m[fn][pi] = 2
	if depth > 8 || len(fn.Blocks) == 0 || pi >= len(fn.Params) {
		return false
	}
	param := fn.Params[pi]
	isClosing := func(ins ssa.Instruction) bool {
		c, ok := ins.(ssa.CallInstruction)
		if !ok {
			return false
		}
		if _, isGo := ins.(*ssa.Go); isGo {
			return false
		}
		cc := c.Common()
		if cc.IsInvoke() && cc.Value == ssa.Value(param) && cc.Method.Name() == "Close" {
			return true
		}
		if f := cc.StaticCallee(); f != nil && inModule(f) {
			for ai, a := range cc.Args {
				if a == ssa.Value(param) && m.check(ctx, f, ai, depth+1) {
					return true
				}
			}
		}
		return false
	}
	// every path from entry to a return passes a closing instruction
	ok := true
	seen := map[*ssa.BasicBlock]bool{}
	var walk func(b *ssa.BasicBlock) bool
	walk = func(b *ssa.BasicBlock) bool {
		for _, ins := range b.Instrs {
			if _, isDefer := ins.(*ssa.Defer); isDefer && isClosing(ins) {
				return true
			}
			if isClosing(ins) {
				return true
			}
			if _, isRet := ins.(*ssa.Return); isRet {
				return false
			}
		}
		for _, s := range b.Succs {
			if seen[s] {
				continue
			}
			seen[s] = true
			if !walk(s) {
				return false
			}
		}
		return true
	}
	seen[fn.Blocks[0]] = true
	ok = walk(fn.Blocks[0])
	if ok {
		m[fn][pi] = 1
	}
	return ok
}

// implementersOf returns the concrete named types of the module (library
// packages) whose pointer or value method set implements iface.
func implementersOf(ctx *Ctx, iface *types.Interface) []types.Type {
	var out []types.Type
	for _, rel := range []string{"sdf", "render", "render/dc", "obj"} {
		p := ctx.Pkgs[rel]
		if p == nil {
			continue
		}
		sc := p.Types.Scope()
		for _, n := range sc.Names() {
			tn, ok := sc.Lookup(n).(*types.TypeName)
			if !ok || tn.IsAlias() {
				continue
			}
			if _, isI := tn.Type().Underlying().(*types.Interface); isI {
				continue
			}
			if types.Implements(tn.Type(), iface) {
				out = append(out, tn.Type())
			} else if types.Implements(types.NewPointer(tn.Type()), iface) {
				out = append(out, types.NewPointer(tn.Type()))
			}
		}
	}
	return out
}

func lookupIface(ctx *Ctx, pkg, name string) *types.Interface {
	p := ctx.Pkgs[pkg]
	if p == nil {
		return nil
	}
	o := p.Types.Scope().Lookup(name)
	if o == nil {
		return nil
	}
	i, _ := o.Type().Underlying().(*types.Interface)
	return i
}

func methodOf(ctx *Ctx, t types.Type, name string) *ssa.Function {
	ms := ctx.Prog.MethodSets.MethodSet(t)
	for i := 0; i < ms.Len(); i++ {
		if ms.At(i).Obj().Name() == name {
			return ctx.Prog.MethodValue(ms.At(i))
		}
	}
	return nil
}

func typeShort(t types.Type) string {
	return strings.ReplaceAll(t.String(), modPath+"/", "")
}
