package main

// Axis-symmetry lint (deviance rule): in a chain of || / && whose operands are
// the same expression up to the axis letter of vector components (X, Y, Z),
// every operand must use one axis throughout and the operands must cover
// distinct axes. A copy-pasted line whose axis letter was not updated
// (`|p.Y−c.Y| > k·s.Y` twice, or `min(|a.Max.Z|, |a.Min.Y|)`) is the defect
// this finds.

import (
	"bytes"
	"fmt"
	"go/ast"
	"go/printer"
	"go/token"
	"regexp"
	"sort"
	"strings"
)

type axisFinding struct {
	pos    token.Pos
	fn     string
	ok     bool
	detail string
	key    string
}

var axisSel = regexp.MustCompile(`\.([XYZ])\b`)

func exprText(fset *token.FileSet, e ast.Expr) string {
	var b bytes.Buffer
	printer.Fprint(&b, fset, e)
	return strings.Join(strings.Fields(b.String()), " ")
}

func flattenBool(e ast.Expr, op token.Token, out *[]ast.Expr) {
	if p, ok := e.(*ast.ParenExpr); ok {
		flattenBool(p.X, op, out)
		return
	}
	if b, ok := e.(*ast.BinaryExpr); ok && b.Op == op {
		flattenBool(b.X, op, out)
		flattenBool(b.Y, op, out)
		return
	}
	*out = append(*out, e)
}

// axisLint scans one package.
func axisLint(ctx *Ctx, pkg string) []axisFinding {
	p := ctx.Pkgs[pkg]
	var out []axisFinding
	if p == nil {
		return nil
	}
	for _, f := range p.Syntax {
		if ctx.Controls[ctx.Fset.Position(f.Pos()).Filename] && !strings.Contains(ctx.Fset.Position(f.Pos()).Filename, "axis") {
			continue
		}
		for _, d := range f.Decls {
			fd, ok := d.(*ast.FuncDecl)
			if !ok || fd.Body == nil {
				continue
			}
			seen := map[ast.Expr]bool{}
			n := 0
			ast.Inspect(fd.Body, func(nd ast.Node) bool {
				b, ok := nd.(*ast.BinaryExpr)
				if !ok || (b.Op != token.LOR && b.Op != token.LAND) || seen[b] {
					return true
				}
				var ops []ast.Expr
				flattenBool(b, b.Op, &ops)
				// mark nested same-op nodes as seen
				ast.Inspect(b, func(x ast.Node) bool {
					if bb, ok := x.(*ast.BinaryExpr); ok && bb.Op == b.Op {
						seen[bb] = true
					}
					return true
				})
				groups := map[string][]string{} // normalised text -> axis signature per member
				for _, o := range ops {
					txt := exprText(ctx.Fset, o)
					ms := axisSel.FindAllStringSubmatch(txt, -1)
					if len(ms) == 0 {
						continue
					}
					sig := ""
					for _, m := range ms {
						sig += m[1]
					}
					norm := axisSel.ReplaceAllString(txt, "._")
					groups[norm] = append(groups[norm], sig)
				}
				for norm, sigs := range groups {
					if len(sigs) < 2 {
						continue
					}
					n++
					okG := true
					detail := ""
					used := map[string]bool{}
					for _, s := range sigs {
						uni := strings.Count(s, string(s[0])) == len(s)
						if !uni {
							okG = false
							detail += " operand mixes axes " + s + ";"
							continue
						}
						if used[string(s[0])] {
							okG = false
							detail += " axis " + string(s[0]) + " is tested twice;"
						}
						used[string(s[0])] = true
					}
					var us []string
					for u := range used {
						us = append(us, u)
					}
					sort.Strings(us)
					out = append(out, axisFinding{pos: b.Pos(), fn: declName(fd), ok: okG, key: fmt.Sprintf("%s.%s|axis-group#%d", pkg, declName(fd), n),
						detail: fmt.Sprintf("per-axis tests `%s` cover axes %v;%s", shortKey(norm, 90), us, detail)})
				}
				return true
			})
		}
	}
	sort.Slice(out, func(i, j int) bool { return out[i].key < out[j].key })
	return out
}
