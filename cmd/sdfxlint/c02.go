package main

// C02 — combinators denote the set / geometric operation they name.
//
// Every combinator's constructor is composed with the Evaluate method of the
// object it builds (symbolic evaluation with the receiver bound to the built
// object) and the resulting closed form — a term over the constructor's
// parameters, the query point and opaque operand evaluations — is compared
// with the documented formula as a rational identity:
//
//  M-spec  Offset, Shell, Difference, Intersection, ScaleUniform, the four
//          extrusions (incl. twist handedness and scale law), Cut (kept side),
//          Elongate, RotateCopy, Revolve (incl. the partial-revolution wedge),
//          Cache
//  M-inv   Transform2D/3D, RotateUnion2D/3D: the matrix stored for evaluation
//          times the matrix parameter is the identity (all entries), and
//          Evaluate applies it to the query point
//  M-fold  Union, Array, RotateUnion: the result is the fold of the default
//          minimum over the operand evaluated at every index / lattice offset
//          / accumulated rotation, starting from the first operand (or +Inf)
//  M1      default blend functions are math.Min / math.Max (visible in the
//          composite because the stored function value is inlined)
//  M5      SawTooth(x, P) ≡ P·(t − ⌊t⌋) − P/2 with t = (x + P/2)/P; vector
//          Clamp is the component-wise clamp
//  M6      Cache2D returns the map entry stored under exactly that point, or
//          the wrapped shape's own value, and stores that value under the point
//
//  M9      Slice2D: the operand is evaluated at a + x·U + y·V with (U, V) an orthonormal,
//          right-handed frame of the plane through a with normal n - for each of the four
//          branches that choose the in-plane x axis (n.X = 0, n.Y = 0, n.Z = 0, general)
//  M10     Loft3D: the profile mix is a0 + k·(a1 − a0) with k = 0 at the bottom, 1 at the top,
//          clamped to [0, 1] outside (a convex combination everywhere: C01's box relies on it)
//  M11     the polynomial blend kernel, evaluated exactly on a rational grid: symmetric,
//          min − k/4 <= poly <= min, equal to min once |a − b| >= k, non-decreasing and
//          1-Lipschitz in each argument (no jump)
//
// Not decided: bounds of the other blends, voxel interpolation weights,
// rotation matrix constructors (unit tests cover those), numerical accuracy.

import (
	"fmt"
	"go/token"
	"go/types"
	"math"
	"math/big"
	"os"
	"regexp"
	"sort"
	"strings"

	"golang.org/x/tools/go/ssa"
)

func init() { register("C02", checkC02) }

func aggT(ts ...*Term) *Term { return &Term{Op: "agg", Args: ts} }
func opEval(op string, pt ...*Term) *Term {
	return Call(op+".Evaluate", aggT(pt...))
}
func half(t *Term) *Term { return Mul(KR(big.NewRat(1, 2)), t) }

var tauC = KF(6.283185307179586)
var piC = KF(3.141592653589793)

type specFn func() *Term

type c02spec struct {
	ctor string
	spec specFn
	note string
}

func checkC02(ctx *Ctx, r *Report, tier string) {
	r.Explain = "Each combinator's constructor is composed symbolically with the Evaluate of the object it returns; the composite closed form over constructor parameters, query point and opaque operand evaluations is compared, as a rational identity, with the formula the operation's name and documentation promise (pointwise min/max, max(a,−b), operand evaluated at the mapped point, distance scaled by k, twist handedness, kept side of a cut, wedge of a partial revolution ...). Stored inverse matrices are validated by multiplying them with the parameter (identity in all entries). Loops (union, array, rotate-union) are validated through their recurrences. Blend bounds, voxel weights and numerical accuracy are not decided. Also: Slice2D's frame, the loft's mix factor, the polynomial blend kernel on an exact rational grid, the screw's taper as the tangent of its angle."
	r.Trusted = []string{"go/types", "go/ssa", "sdfxlint symbolic evaluator (composition of constructor and method)", "exact polynomial identity testing", "operands are arbitrary pure functions (opaque)"}
	r.Assume = []string{"floating-point rounding is outside the claim"}
	pX, pY, pZ := A("p.X"), A("p.Y"), A("p.Z")
	P3 := []*Term{pX, pY, pZ}
	P2 := []*Term{pX, pY}
	absZclip := func(h *Term) *Term { return Sub(Call("math.Abs", pZ), half(h)) }
	rot2 := func(ang *Term, x, y *Term) (*Term, *Term) {
		c, s := Call("math.Cos", ang), Call("math.Sin", ang)
		return Sub(Mul(c, x), Mul(s, y)), Add(Mul(s, x), Mul(c, y))
	}
	scaleXY := func() (*Term, *Term) {
		// p.xy ∘ (m·z + b), m = (1/scale − 1)/height, b = 1/(2·scale) + 1/2
		f := func(sc string, p *Term) *Term {
			inv := Div(K(1), A(sc))
			m := Div(Sub(inv, K(1)), A("height"))
			b := Add(half(inv), KR(big.NewRat(1, 2)))
			return Mul(p, Add(Mul(m, pZ), b))
		}
		return f("scale.X", pX), f("scale.Y", pY)
	}
	nlen3 := Call("math.Sqrt", Add(Mul(A("n.X"), A("n.X")), Mul(A("n.Y"), A("n.Y")), Mul(A("n.Z"), A("n.Z"))))
	vlen2 := Call("math.Sqrt", Add(Mul(A("v.X"), A("v.X")), Mul(A("v.Y"), A("v.Y"))))
	clampC := func(vec string, comp string, dim int) *Term {
		var lo, hi []*Term
		for _, c := range []string{"X", "Y", "Z"}[:dim] {
			a := Call("math.Abs", A("h."+c))
			lo = append(lo, Mul(KR(big.NewRat(-1, 2)), a))
			hi = append(hi, half(a))
		}
		pp := P3
		if dim == 2 {
			pp = P2
		}
		return A(Call("("+modPath+"/vec/"+vec+".Vec).Clamp", aggT(pp...), aggT(lo...), aggT(hi...)).Key() + "." + comp)
	}
	saw := func(n string) *Term {
		return Call(modPath+"/sdf.SawTooth", Call("math.Atan2", pY, pX), Mul(tauC, Div(K(1), Conv("float64", A(n)))))
	}
	rxy := Call("math.Sqrt", Add(Mul(pX, pX), Mul(pY, pY)))
	specs := []c02spec{
		{"Offset3D", func() *Term { return Sub(opEval("sdf", P3...), A("offset")) }, "operand − offset"},
		{"Offset2D", func() *Term { return Sub(opEval("sdf", P2...), A("offset")) }, "operand − offset"},
		{"Shell3D", func() *Term { return Sub(Call("math.Abs", opEval("sdf", P3...)), half(A("thickness"))) }, "|operand| − thickness/2"},
		{"Difference3D", func() *Term { return Call("math.Max", opEval("s0", P3...), Neg(opEval("s1", P3...))) }, "max(a, −b)"},
		{"Difference2D", func() *Term { return Call("math.Max", opEval("s0", P2...), Neg(opEval("s1", P2...))) }, "max(a, −b)"},
		{"Intersect3D", func() *Term { return Call("math.Max", opEval("s0", P3...), opEval("s1", P3...)) }, "max(a, b)"},
		{"Intersect2D", func() *Term { return Call("math.Max", opEval("s0", P2...), opEval("s1", P2...)) }, "max(a, b)"},
		{"ScaleUniform3D", func() *Term {
			k := A("k")
			return Mul(k, opEval("sdf", Div(pX, k), Div(pY, k), Div(pZ, k)))
		}, "k · operand(p/k)"},
		{"ScaleUniform2D", func() *Term {
			k := A("k")
			return Mul(k, opEval("sdf", Div(pX, k), Div(pY, k)))
		}, "k · operand(p/k)"},
		{"Extrude3D", func() *Term { return Call("math.Max", opEval("sdf", pX, pY), absZclip(A("height"))) }, "max(operand(x,y), |z| − height/2)"},
		{"TwistExtrude3D", func() *Term {
			x, y := rot2(Mul(pZ, Div(A("twist"), A("height"))), pX, pY)
			return Call("math.Max", opEval("sdf", x, y), absZclip(A("height")))
		}, "operand at (x,y) rotated by +z·twist/height (the solid's section turns by −z·twist/height)"},
		{"ScaleExtrude3D", func() *Term {
			x, y := scaleXY()
			return Call("math.Max", opEval("sdf", x, y), absZclip(A("height")))
		}, "operand at (x,y)∘(m·z+b): scale 1 at the bottom, `scale` at the top"},
		{"ScaleTwistExtrude3D", func() *Term {
			sx, sy := scaleXY()
			x, y := rot2(Mul(pZ, Div(A("twist"), A("height"))), sx, sy)
			return Call("math.Max", opEval("sdf", x, y), absZclip(A("height")))
		}, "scale, then twist"},
		{"Cut3D", func() *Term {
			d := Add(Mul(Sub(pX, A("a.X")), A("n.X")), Mul(Sub(pY, A("a.Y")), A("n.Y")), Mul(Sub(pZ, A("a.Z")), A("n.Z")))
			return Call("math.Max", Neg(Mul(d, Div(K(1), nlen3))), opEval("sdf", P3...))
		}, "keeps the side the normal points to: max(−(p−a)·n̂, operand)"},
		{"Cut2D", func() *Term {
			// right of the line a + t·v: (p−a)·(−v̂.Y, v̂.X) <= 0
			d := Add(Mul(Sub(pX, A("a.X")), Neg(A("v.Y"))), Mul(Sub(pY, A("a.Y")), A("v.X")))
			return Call("math.Max", Mul(d, Div(K(1), vlen2)), opEval("sdf", P2...))
		}, "keeps the right of the line: max((p−a)·(−v̂.y, v̂.x), operand)"},
		{"Elongate3D", func() *Term {
			return opEval("sdf", Sub(pX, clampC("v3", "X", 3)), Sub(pY, clampC("v3", "Y", 3)), Sub(pZ, clampC("v3", "Z", 3)))
		}, "operand(p − clamp(p, −|h|/2, |h|/2))"},
		{"Elongate2D", func() *Term {
			return opEval("sdf", Sub(pX, clampC("v2", "X", 2)), Sub(pY, clampC("v2", "Y", 2)))
		}, "operand(p − clamp(p, −|h|/2, |h|/2))"},
		{"RotateCopy3D", func() *Term {
			s := saw("num")
			return opEval("sdf", Mul(rxy, Call("math.Cos", s)), Mul(rxy, Call("math.Sin", s)), pZ)
		}, "operand at polar (|xy|, SawTooth(atan2(y,x), τ/num)), z unchanged"},
		{"RotateCopy2D", func() *Term {
			s := saw("n")
			return opEval("sdf", Mul(rxy, Call("math.Cos", s)), Mul(rxy, Call("math.Sin", s)))
		}, "operand at polar (|xy|, SawTooth(atan2(y,x), τ/n))"},
	}
	for _, sp := range specs {
		fn := ctx.ssaFunc("sdf", sp.ctor)
		if fn == nil {
			r.undecided("M-spec", sp.ctor, 0, "constructor not found")
			continue
		}
		alts, _ := ctorAltsFollow(ctx, fn, "SawTooth", "Clamp")
		if len(alts) == 0 {
			r.undecided("M-spec", sp.ctor, fn.Pos(), "no alternative of the constructor builds an object")
			continue
		}
		for _, ca := range alts {
			res, _, err := composeMethod(ctx, ca, "Evaluate", "SawTooth", "Clamp")
			t, _ := res.(*Term)
			if err != nil || t == nil {
				r.undecided("M-spec", sp.ctor, fn.Pos(), fmt.Sprintf("cannot compose: %v %s", err, valKey(res)))
				continue
			}
			want := sp.spec()
			ok := equalRat(stripConvF(t), stripConvF(want))
			if !ok && strings.HasPrefix(sp.ctor, "Elongate") {
				// the vector clamp written out per coordinate with the package's scalar Clamp -
				// accepted when that function is the three-way clamp (decided on its closed form)
				if scalarClampIsClamp(ctx) {
					dim := 3
					if strings.HasSuffix(sp.ctor, "2D") {
						dim = 2
					}
					var args []*Term
					for _, c := range []string{"X", "Y", "Z"}[:dim] {
						a := Call("math.Abs", A("h."+c))
						args = append(args, Sub(A("p."+c), Call(modPath+"/sdf.Clamp", A("p."+c), Mul(KR(big.NewRat(-1, 2)), a), Mul(KR(big.NewRat(1, 2)), a))))
					}
					ok = equalRat(stripConvF(t), stripConvF(opEval("sdf", args...)))
				}
			}
			r.check("M-spec", sp.ctor, fn.Pos(), ok, sp.note+"; composite = "+shortKey(t.Key(), 300)+func() string {
				if ok {
					return ""
				}
				return " ; expected ≡ " + shortKey(want.Key(), 300)
			}())
		}
	}
	r.floor("M-spec", len(specs))
	r.expectControl("M-spec", "verifCtlDifference3D")
	if cf := ctx.ssaFunc("sdf", "verifCtlDifference3D"); cf != nil {
		for _, ca := range firstAlts(ctx, cf) {
			res, _, _ := composeMethod(ctx, ca, "Evaluate")
			t, _ := res.(*Term)
			want := Call("math.Max", opEval("s0", P3...), Neg(opEval("s1", P3...)))
			r.check("M-spec", "verifCtlDifference3D", cf.Pos(), t != nil && equalRat(t, want), "control: difference without the negation")
		}
	}

	checkRevolve(ctx, r)
	checkInverses(ctx, r)
	checkVoxelLattice(ctx, r)
	checkSlice(ctx, r)
	checkRotateToVector(ctx, r)
	checkLoftMix(ctx, r, "M10")
	checkPolyKernel(ctx, r, "M11")
	checkOperandListOwned(ctx, r)
	checkFolds(ctx, r)
	checkSawTooth(ctx, r)
	checkCacheIdentity(ctx, r)
}

func firstAlts(ctx *Ctx, fn *ssa.Function) []ctorAlt {
	a, _ := ctorAlts(ctx, fn)
	return a
}

// stripConvF removes float64 conversions of already-float terms (int→float
// conversions of counters are kept as opaque conversions on both sides).
func stripConvF(t *Term) *Term { return t }

// checkRevolve: the operand is evaluated at (√(x²+y²), z) and the wedge is
// max(−y, n·p) for θ < π, min(−y, n·p) for θ >= π, absent for θ = 0, with
// n = (−sin θ, cos θ), θ = |theta| mod τ.
func checkRevolve(ctx *Ctx, r *Report) {
	fn := ctx.ssaFunc("sdf", "RevolveTheta3D")
	if fn == nil {
		r.undecided("M-spec", "RevolveTheta3D", 0, "not found")
		return
	}
	for _, ca := range firstAlts(ctx, fn) {
		res, _, err := composeMethod(ctx, ca, "Evaluate")
		t, _ := res.(*Term)
		if err != nil || t == nil {
			r.undecided("M-spec", "RevolveTheta3D", fn.Pos(), "cannot compose")
			continue
		}
		pX, pY, pZ := A("p.X"), A("p.Y"), A("p.Z")
		th := Call("math.Mod", Call("math.Abs", A("theta")), tauC)
		a := opEval("sdf", Call("math.Sqrt", Add(Mul(pX, pX), Mul(pY, pY))), pZ)
		d := Add(Mul(Neg(Call("math.Sin", th)), pX), Mul(Call("math.Cos", th), pY))
		nz := Cmp("==", th, K(0)) // the source tests θ != 0, held as !(θ == 0): truth values below are those of θ == 0
		lt := Cmp("<", th, piC)
		cases := []struct {
			name  string
			truth map[string]bool
			want  *Term
		}{
			{"full-revolution", map[string]bool{nz.Key(): true, lt.Key(): true}, a},
			{"less-than-half-turn", map[string]bool{nz.Key(): false, lt.Key(): true}, Call("math.Max", a, Call("math.Max", Neg(pY), d))},
			{"half-turn-or-more", map[string]bool{nz.Key(): false, lt.Key(): false}, Call("math.Max", a, Call("math.Min", Neg(pY), d))},
		}
		conds := map[string]bool{}
		for _, c := range condAtoms(t) {
			conds[c.Key()] = true
		}
		if !conds[nz.Key()] || !conds[lt.Key()] || len(conds) != 2 {
			r.check("M-spec", "RevolveTheta3D|case-structure", fn.Pos(), false, fmt.Sprintf("expected the two tests θ != 0 and θ < π on θ = |theta| mod τ; found %d conditions: %s", len(conds), shortKey(t.Key(), 300)))
			continue
		}
		for _, c := range cases {
			g := assume(t, c.truth)
			r.check("M-spec", "RevolveTheta3D|"+c.name, fn.Pos(), equalRat(g, c.want), "composite in this case: "+shortKey(g.Key(), 260))
		}
	}
}

// checkInverses: M-inv.
func checkInverses(ctx *Ctx, r *Report) {
	type inv struct {
		ctor, field, param string
		n                  int // matrix dimension (3 for M33, 4 for M44)
		evalField          string
	}
	for _, iv := range []inv{{"Transform3D", "inverse", "matrix", 4, "inverse"}, {"Transform2D", "mInv", "m", 3, "mInv"}, {"RotateUnion3D", "step", "step", 4, ""}, {"RotateUnion2D", "step", "m", 3, ""}} {
		fn := ctx.ssaFunc("sdf", iv.ctor)
		if fn == nil {
			r.undecided("M-inv", iv.ctor, 0, "not found")
			continue
		}
		alts := firstAlts(ctx, fn)
		if len(alts) == 0 {
			r.undecided("M-inv", iv.ctor, fn.Pos(), "constructor builds nothing")
			continue
		}
		ca := alts[0]
		fv, ok := fieldOf(ca.obj, iv.field)
		m := map[string]*Term{}
		if ok {
			leafTerms("", fv, m)
		}
		// find the parameter name actually used
		pname := ""
		for _, p := range fn.Params {
			if strings.HasPrefix(p.Type().String(), modPath+"/sdf.M") {
				pname = p.Name()
			}
		}
		n := iv.n
		if len(m) != n*n || pname == "" {
			r.check("M-inv", iv.ctor+"|stored-matrix", fn.Pos(), false, fmt.Sprintf("field %s has %d scalar leaves, expected %d", iv.field, len(m), n*n))
			continue
		}
		F := func(i, j int) *Term { return m[fmt.Sprintf("[%d]", i*n+j)] }
		Pm := func(i, j int) *Term { return A(fmt.Sprintf("%s[%d]", pname, i*n+j)) }
		okAll := true
		detail := ""
		for i := 0; i < n; i++ {
			for j := 0; j < n; j++ {
				s := K(0)
				for k := 0; k < n; k++ {
					s = Add(s, Mul(F(i, k), Pm(k, j)))
				}
				want := K(0)
				if i == j {
					want = K(1)
				}
				if !equalRat(s, want) {
					okAll = false
					detail += fmt.Sprintf(" (%d,%d)", i, j)
				}
			}
		}
		r.check("M-inv", iv.ctor+"|stored-matrix-times-parameter-is-identity", fn.Pos(), okAll, "entries of field·parameter differing from the identity:"+detail)
		if iv.evalField == "" {
			continue
		}
		// Evaluate applies the stored matrix to p
		em := methodOf(ctx, ca.typ, "Evaluate")
		if em == nil {
			continue
		}
		ev := newEval(ctx)
		res, _ := ev.evalRoot(em)
		t, _ := res.(*Term)
		recv := paramName(em, 0)
		dim := n - 1
		var pt []*Term
		comps := []string{"X", "Y", "Z"}[:dim]
		for i := 0; i < dim; i++ {
			s := A(fmt.Sprintf("%s.%s[%d]", recv, iv.evalField, i*n+dim))
			for j, c := range comps {
				s = Add(s, Mul(A(fmt.Sprintf("%s.%s[%d]", recv, iv.evalField, i*n+j)), A("p."+c)))
			}
			pt = append(pt, s)
		}
		want := opEval(recv+".sdf", pt...)
		r.check("M-inv", iv.ctor+"|evaluate-applies-the-stored-matrix", em.Pos(), t != nil && equalRat(t, want), "Evaluate ≡ operand(stored·p); term: "+shortKey(valKey(res), 260))
	}
	r.floor("M-inv", 6)
}

// foldShape analyses a fold result: atom μ whose recurrence chain ends in
// step = MIN(μ, X) or ite(first, X, MIN(μ, X)).
type foldInfo struct {
	minFn   string
	X       *Term
	firstOK bool
	initInf bool
}

func analyseFold(t *Term) (*foldInfo, string) {
	// an explicit answer for the empty list in front of the fold: len(list) == 0 ? const : fold
	for t != nil && t.Op == "ite" {
		c := t.Args[0]
		if c.Op == "not" {
			c = c.Args[0]
		}
		if c.Op != "cmp" || !strings.Contains(c.Key(), "len(") {
			break
		}
		switch {
		case t.Args[1].IsConst():
			t = t.Args[2]
		case t.Args[2].IsConst():
			t = t.Args[1]
		default:
			return nil, "result is not a loop-carried value"
		}
	}
	if t == nil || t.Op != "a" {
		return nil, "result is not a loop-carried value"
	}
	cur := t
	var init0 *Term
	for depth := 0; depth < 6; depth++ {
		rc, ok := recs[cur.S]
		if !ok {
			return nil, "no recurrence for " + cur.S
		}
		if init0 == nil {
			init0 = rc.Init
		}
		st := rc.Step
		if st.Op == "a" {
			if _, ok := recs[st.S]; ok {
				cur = st
				continue
			}
		}
		fi := &foldInfo{}
		// the step is what one iteration does: the loop's own "index < len" test holds there
		inLoop := map[string]bool{}
		for _, c := range condAtoms(st) {
			if c.Op == "cmp" && c.S == "<" && strings.Contains(c.Args[1].Key(), "len(") {
				inLoop[c.Key()] = true
			}
		}
		if len(inLoop) > 0 {
			st = assume(st, inLoop)
		}
		// forms
		body := st
		if st.Op == "ite" {
			// ite(notFirst, MIN(μ,X), X) or ite(first, X, MIN(μ,X))
			a, b := st.Args[1], st.Args[2]
			if a.Op == "call" && len(a.Args) == 2 {
				body = a
				fi.firstOK = b.Key() == otherArg(a, cur).Key()
			} else if b.Op == "call" && len(b.Args) == 2 {
				body = b
				fi.firstOK = a.Key() == otherArg(b, cur).Key()
			}
		}
		if body.Op != "call" || len(body.Args) != 2 {
			return nil, "fold step is not MIN(running, operand): " + shortKey(st.Key(), 200)
		}
		fi.minFn = body.S
		fi.X = otherArg(body, cur)
		if fi.X == nil {
			return nil, "fold step does not combine the running value"
		}
		if init0.IsConst() {
			f, _ := init0.C.Float64()
			fi.initInf = f > 1e300
		}
		if os.Getenv("VERIF_DEBUG") != "" {
			fmt.Println("DEBUG analyseFold init", shortKey(init0.Key(), 160), "| X", shortKey(fi.X.Key(), 160), "| step", shortKey(st.Key(), 600))
		}
		// the first iteration peeled off: the running value starts as the operand with index 0
		// and the loop folds in the operands from index 1 on
		if !fi.firstOK && init0.Op == "call" && fi.X.Op == "call" && indexFamily(init0.S) == indexFamily(fi.X.S) &&
			strings.Contains(init0.S, "[0]") && firstIndexOf(fi.X.S) == 1 && fmt.Sprint(init0.Args) == fmt.Sprint(fi.X.Args) {
			fi.firstOK = true
		}
		return fi, ""
	}
	return nil, "recurrence chain too deep"
}

var reIdxMu = regexp.MustCompile(`\[(?:\+\((-?\d+),)?(μ\d+)\)?\]`)

// firstIndexOf: for an operand name like s.sdf[+(2,μ21)].Evaluate, the value of the index in the
// first iteration (the recurrence's initial value plus the constant), or -1.
func firstIndexOf(name string) int64 {
	m := reIdxMu.FindStringSubmatch(name)
	if m == nil {
		return -1
	}
	rc, ok := recs[m[2]]
	if !ok || !rc.Init.IsConst() || !rc.Init.C.IsInt() || rc.Step.Key() != Add(K(1), A(m[2])).Key() {
		return -1
	}
	k := int64(0)
	if m[1] != "" {
		fmt.Sscan(m[1], &k)
	}
	return k + rc.Init.C.Num().Int64()
}

// indexFamily strips the outermost index of an operand name: s.sdf[0].Evaluate and
// s.sdf[+(1,μ3)].Evaluate are members of the family s.sdf[].Evaluate.
func indexFamily(name string) string {
	i := strings.Index(name, "[")
	if i < 0 {
		return name
	}
	depth := 0
	for j := i; j < len(name); j++ {
		switch name[j] {
		case '[':
			depth++
		case ']':
			depth--
			if depth == 0 {
				return name[:i] + "[]" + name[j+1:]
			}
		}
	}
	return name
}

func otherArg(call *Term, mu *Term) *Term {
	if len(call.Args) != 2 {
		return nil
	}
	// the running value may be μ itself or an outer μ whose chain leads to it
	isRun := func(a *Term) bool {
		if a.Op != "a" {
			return false
		}
		if a.S == mu.S {
			return true
		}
		_, ok := recs[a.S]
		return ok
	}
	if isRun(call.Args[0]) && !isRun(call.Args[1]) {
		return call.Args[1]
	}
	if isRun(call.Args[1]) && !isRun(call.Args[0]) {
		return call.Args[0]
	}
	return nil
}

func checkFolds(ctx *Ctx, r *Report) {
	type fs struct {
		ctor   string
		method string
		dim    int
		kind   string
	}
	for _, f := range []fs{{"Union3D", "Evaluate", 3, "union"}, {"Union2D", "EvaluateSlow", 2, "union"}, {"Array3D", "Evaluate", 3, "array"}, {"Array2D", "Evaluate", 2, "array"}, {"RotateUnion3D", "Evaluate", 3, "rotunion"}, {"RotateUnion2D", "Evaluate", 2, "rotunion"}} {
		fn := ctx.ssaFunc("sdf", f.ctor)
		if fn == nil {
			r.undecided("M-fold", f.ctor, 0, "not found")
			continue
		}
		alts := firstAlts(ctx, fn)
		if len(alts) == 0 {
			r.undecided("M-fold", f.ctor, fn.Pos(), "constructor builds nothing")
			continue
		}
		ca := alts[len(alts)-1]
		res, ev, err := composeMethod(ctx, ca, f.method)
		t, _ := res.(*Term)
		if err != nil {
			r.undecided("M-fold", f.ctor, fn.Pos(), err.Error())
			continue
		}
		fi, why := analyseFold(t)
		if fi == nil {
			r.check("M-fold", f.ctor+"|fold", fn.Pos(), false, why)
			continue
		}
		r.check("M1", f.ctor+"|default-blend-is-math.Min", fn.Pos(), fi.minFn == "math.Min", "the union-like fold uses "+fi.minFn+" by default")
		r.check("M-fold", f.ctor+"|starts-from-the-first-operand-or-infinity", fn.Pos(), fi.firstOK || fi.initInf, "running value starts as the first operand's value or +MaxFloat64")
		// return paths other than the fold's: only an answer for the empty list
		early := 0
		for _, alt := range ev.RootRets {
			if alt.Cond == nil || alt.Cond.IsConst() {
				continue
			}
			onlyLen := true
			for _, ca := range condAtoms(alt.Cond) {
				if !strings.Contains(ca.Key(), "len(") {
					onlyLen = false
				}
			}
			if _, isConst := alt.Val.(*Term); !(onlyLen && isConst && alt.Val.(*Term).IsConst()) && !onlyLen {
				early++
			}
		}
		if early > 0 {
			r.check("M-fold", f.ctor+"|no-early-return", fn.Pos(), false, fmt.Sprintf("%d return paths that do not depend on the list being empty", early))
		}
		if os.Getenv("VERIF_DEBUG") != "" {
			if rc, ok := recs[func() string {
				if t != nil && t.Op == "a" {
					return t.S
				}
				return ""
			}()]; ok {
				fmt.Println("DEBUG fold", f.ctor, "init", shortKey(rc.Init.Key(), 200), "X", shortKey(fi.X.Key(), 200))
			}
		}
		X := fi.X
		okX := X.Op == "call" && strings.HasSuffix(X.S, ".Evaluate") && len(X.Args) == 1 && X.Args[0].Op == "agg" && len(X.Args[0].Args) == f.dim
		detail := shortKey(X.Key(), 260)
		if okX {
			pt := X.Args[0].Args
			comps := []string{"X", "Y", "Z"}[:f.dim]
			switch f.kind {
			case "union":
				// operand i of the stored slice, over all of it, evaluated at p
				for i, c := range comps {
					if pt[i].Key() != "p."+c {
						okX = false
					}
				}
				if !strings.Contains(X.S, "[") {
					okX = false
				}
			case "array":
				// p.k − float(counter_k)·step.k, distinct counters starting at 0 stepping by 1, bounded by num.k
				seen := map[string]bool{}
				for i, c := range comps {
					d := Sub(A("p."+c), pt[i])
					co, rest := splitCoef(d)
					ok := co.Cmp(big.NewRat(1, 1)) == 0 && rest.Op == "*" && len(rest.Args) == 2
					if ok {
						var cnt, stp *Term
						for _, a := range rest.Args {
							if a.Op == "conv" {
								cnt = a.Args[0]
							} else {
								stp = a
							}
						}
						ok = cnt != nil && stp != nil && stp.Key() == "step."+c && cnt.Op == "a" && !seen[cnt.S]
						if ok {
							seen[cnt.S] = true
							rc, has := recs[cnt.S]
							ok = has && rc.Init.IsZero() && rc.Step.Key() == Add(K(1), cnt).Key()
						}
					}
					if !ok {
						okX = false
						detail += fmt.Sprintf(" [axis %s offset %s]", c, shortKey(d.Key(), 80))
					}
				}
				// bounds: the operand evaluation happens under counter_k < num.k
				for _, e := range eventsOf(ev, "invoke:") {
					if !strings.HasSuffix(e.Callee, ".Evaluate") || e.Cond == nil {
						continue
					}
					for _, c := range comps {
						if len(findSub(e.Cond, func(x *Term) bool {
							return x.Op == "cmp" && x.S == "<" && x.Args[1].Key() == "num."+c && x.Args[0].Op == "a"
						})) != 1 {
							okX = false
							detail += " [loop over axis " + c + " is not bounded by num." + c + "]"
						}
					}
				}
			case "rotunion":
				// operand(R·p) with R a loop-carried matrix starting at the identity and multiplied by the stored step
				n := f.dim + 1
				base := ""
				for i := 0; i < f.dim && okX; i++ {
					for _, at := range findSub(pt[i], func(x *Term) bool { return x.Op == "a" }) {
						a := at.S
						if strings.HasPrefix(a, "μ") && strings.Contains(a, "[") {
							b := a[:strings.Index(a, "[")]
							if base == "" {
								base = b
							} else if base != b {
								okX = false
							}
						}
					}
					var want *Term = A(fmt.Sprintf("%s[%d]", base, i*n+f.dim))
					for j, c := range comps {
						want = Add(want, Mul(A(fmt.Sprintf("%s[%d]", base, i*n+j)), A("p."+c)))
					}
					if base == "" || !equalRat(pt[i], want) {
						okX = false
					}
				}
				if okX {
					// identity start
					for i := 0; i < n*n; i++ {
						rc, has := recs[fmt.Sprintf("%s[%d]", base, i)]
						if !has {
							rc, has = recs[fmt.Sprintf("%s.%d", base, i)]
						}
						want := K(0)
						if i/n == i%n {
							want = K(1)
						}
						if !has || rc.Init.Key() != want.Key() {
							okX = false
							detail += fmt.Sprintf(" [rotation entry %d does not start at the identity]", i)
							break
						}
					}
					// each iteration multiplies the running matrix by the stored step: R' = R · S
					sv, _ := fieldOf(ca.obj, "step")
					sm := map[string]*Term{}
					leafTerms("", sv, sm)
					for i := 0; okX && i < n; i++ {
						for j := 0; j < n; j++ {
							rc, has := recs[fmt.Sprintf("%s[%d]", base, i*n+j)]
							if !has {
								okX = false
								break
							}
							want := K(0)
							for k := 0; k < n; k++ {
								sk := sm[fmt.Sprintf("[%d]", k*n+j)]
								if sk == nil {
									okX = false
									break
								}
								want = Add(want, Mul(A(fmt.Sprintf("%s[%d]", base, i*n+k)), sk))
							}
							if okX && !equalRat(rc.Step, want) {
								okX = false
								detail += fmt.Sprintf(" [running matrix entry (%d,%d) is not (R·step)]", i, j)
							}
						}
					}
				}
			}
		}
		r.check("M-fold", f.ctor+"|operand-evaluated-at-the-mapped-point", fn.Pos(), okX, detail)
	}
	r.floor("M-fold", 12)
	r.floor("M1", 6)
}

// checkSawTooth: M5.
func checkSawTooth(ctx *Ctx, r *Report) {
	fn := ctx.ssaFunc("sdf", "SawTooth")
	if fn == nil || len(fn.Params) != 2 {
		r.undecided("M5", "SawTooth", 0, "not found")
		return
	}
	ev := newEval(ctx)
	res, _ := ev.evalRoot(fn)
	t, _ := res.(*Term)
	x, p := A(paramName(fn, 0)), A(paramName(fn, 1))
	tt := Div(Add(x, half(p)), p)
	want := Sub(Mul(p, Sub(tt, Call("math.Floor", tt))), half(p))
	// the floor argument must itself be (x + P/2)/P
	okF := false
	if t != nil {
		fl := findSub(t, func(y *Term) bool { return y.Op == "call" && y.S == "math.Floor" })
		okF = len(fl) == 1 && equalRat(fl[0].Args[0], tt)
		if okF {
			// compare with the floor replaced by a common atom
			m := map[string]*Term{fl[0].Key(): A("FLOOR")}
			g := substKeys(t, m)
			w := Sub(Mul(p, Sub(tt, A("FLOOR"))), half(p))
			okF = equalRat(g, w)
		}
	}
	r.check("M5", "SawTooth|closed-form", fn.Pos(), okF, "SawTooth(x,P) ≡ P·(t−⌊t⌋) − P/2, t = (x+P/2)/P (range [−P/2, P/2), SawTooth(0)=0); term: "+shortKey(valKey(res), 200)+" expected "+shortKey(want.Key(), 120))
	// vector clamps
	for _, pk := range []struct {
		pkg, name string
		dim       int
	}{{"vec/v3", "(Vec).Clamp", 3}, {"vec/v2", "(Vec).Clamp", 2}} {
		cf := ctx.ssaFunc(pk.pkg, pk.name)
		if cf == nil {
			r.undecided("M5", pk.pkg+".Clamp", 0, "not found")
			continue
		}
		ev := newEval(ctx)
		res, _ := ev.evalRoot(cf)
		m := map[string]*Term{}
		leafTerms("", res, m)
		a, lo, hi := paramName(cf, 0), paramName(cf, 1), paramName(cf, 2)
		ok := len(m) == pk.dim
		for _, c := range []string{"X", "Y", "Z"}[:pk.dim] {
			t := m["."+c]
			if t == nil {
				ok = false
				continue
			}
			// exhaustive over orderings of (x, lo, hi) with lo <= hi
			leaves, isOrd := orderLeaves(t)
			if !isOrd || len(leaves) > 3 {
				ok = false
				continue
			}
			names := []string{a + "." + c, lo + "." + c, hi + "." + c}
			forAllOrderings(names, func(env map[string]*big.Rat, v []int) bool {
				if v[1] > v[2] {
					return true
				}
				got := int(evalT(t, env).Num().Int64())
				want := v[0]
				if want < v[1] {
					want = v[1]
				}
				if want > v[2] {
					want = v[2]
				}
				if got != want {
					ok = false
				}
				return true
			})
		}
		r.check("M5", pk.pkg+".Clamp|component-wise-clamp", cf.Pos(), ok, "Clamp(x, lo, hi) = min(max(x, lo), hi) per component, for every ordering of the three values")
	}
	r.floor("M5", 3)
}

// checkCacheIdentity: M6.
func checkCacheIdentity(ctx *Ctx, r *Report) {
	fn := ctx.ssaFunc("sdf", "Cache2D")
	if fn == nil {
		r.undecided("M6", "Cache2D", 0, "not found")
		return
	}
	for _, ca := range firstAlts(ctx, fn) {
		res, ev, err := composeMethod(ctx, ca, "Evaluate")
		if err != nil {
			r.undecided("M6", "Cache2D", fn.Pos(), err.Error())
			continue
		}
		t, _ := res.(*Term)
		own := opEval("sdf", A("p.X"), A("p.Y"))
		ok := t != nil && t.Op == "ite"
		detail := ""
		if ok {
			hit, miss := t.Args[1], t.Args[2]
			if !strings.HasPrefix(hit.Key(), "lookup(") {
				hit, miss = miss, hit
			}
			ok = strings.HasPrefix(hit.Key(), "lookup(") && strings.HasSuffix(hit.Key(), ",sym:p)") && miss.Key() == own.Key()
			detail = "hit=" + shortKey(hit.Key(), 80) + " miss=" + shortKey(miss.Key(), 80)
		}
		r.check("M6", "Cache2D|returns-own-value-or-entry-stored-under-p", fn.Pos(), ok, detail)
		stored := false
		for _, e := range eventsOf(ev, "mapupdate") {
			if len(e.Args) == 3 && valKey(e.Args[1]) == "sym:p" {
				if v, ok := e.Args[2].(*Term); ok && v.Key() == own.Key() {
					stored = true
				}
			}
		}
		r.check("M6", "Cache2D|stores-own-value-under-p", fn.Pos(), stored, "cache[p] = wrapped.Evaluate(p) for exactly that p")
	}
	r.floor("M6", 2)
}

// ---------------------------------------------------------------- M7: matrix algebra

func init() {
	prev := registry["C02"].run
	registry["C02"] = propDef{run: func(ctx *Ctx, r *Report, tier string) {
		prev(ctx, r, tier)
		checkMatrices(ctx, r)
		screwSpec(ctx, r, "M-spec")
	}}
}

func matLeaves(v Val, n int) []*Term {
	m := map[string]*Term{}
	leafTerms("", v, m)
	out := make([]*Term, n)
	for i := 0; i < n; i++ {
		out[i] = m[fmt.Sprintf("[%d]", i)]
	}
	return out
}

// checkMatrices: the matrix constructors and products have their textbook
// closed forms (Rodrigues rotation about the normalised axis, right-handed;
// homogeneous translation/scale; row-major products; inverse·m = I).
func checkMatrices(ctx *Ctx, r *Report) {
	evalFn := func(name string) (*ssa.Function, Val) {
		fn := ctx.ssaFunc("sdf", name)
		if fn == nil {
			r.undecided("M7", name, 0, "not found")
			return nil, nil
		}
		ev := newEval(ctx)
		res, _ := ev.evalRoot(fn)
		return fn, res
	}
	cmpMat := func(key string, fn *ssa.Function, got []*Term, want []*Term, note string) {
		ok := len(got) == len(want)
		bad := ""
		for i := range want {
			if !ok {
				break
			}
			if got[i] == nil || !equalRat(got[i], want[i]) {
				bad += fmt.Sprintf(" [%d]", i)
			}
		}
		r.check("M7", key, fn.Pos(), ok && bad == "", note+"; entries differing:"+bad)
	}
	// Rotate3d
	if fn, res := evalFn("Rotate3d"); fn != nil {
		v, a := paramName(fn, 0), paramName(fn, 1)
		L := Call("math.Sqrt", Add(Mul(A(v+".X"), A(v+".X")), Mul(A(v+".Y"), A(v+".Y")), Mul(A(v+".Z"), A(v+".Z"))))
		ax := []*Term{Div(A(v+".X"), L), Div(A(v+".Y"), L), Div(A(v+".Z"), L)}
		c, s := Call("math.Cos", A(a)), Call("math.Sin", A(a))
		m := Sub(K(1), c)
		eps := func(i, j, k int) int64 {
			if (i+1)%3 == j && (j+1)%3 == k {
				return 1
			}
			if (i+2)%3 == j && (j+2)%3 == k {
				return -1
			}
			return 0
		}
		want := make([]*Term, 16)
		for i := 0; i < 4; i++ {
			for j := 0; j < 4; j++ {
				switch {
				case i == 3 || j == 3:
					want[i*4+j] = K(0)
					if i == j {
						want[i*4+j] = K(1)
					}
				default:
					t := Mul(m, ax[i], ax[j])
					if i == j {
						t = Add(t, c)
					}
					// R_ij += -s·ε_ijk v_k  (right-hand rule)
					for k := 0; k < 3; k++ {
						if e := eps(i, j, k); e != 0 {
							t = Sub(t, Mul(K(e), s, ax[k]))
						}
					}
					want[i*4+j] = t
				}
			}
		}
		cmpMat("Rotate3d|rodrigues-right-handed", fn, matLeaves(res, 16), want, "R = c·I + (1−c)·v̂v̂ᵀ + s·[v̂]×")
	}
	if fn, res := evalFn("Rotate2d"); fn != nil {
		a := paramName(fn, 0)
		c, s := Call("math.Cos", A(a)), Call("math.Sin", A(a))
		cmpMat("Rotate2d|counter-clockwise", fn, matLeaves(res, 9), []*Term{c, Neg(s), K(0), s, c, K(0), K(0), K(0), K(1)}, "[[c,−s,0],[s,c,0],[0,0,1]]")
	}
	if fn, res := evalFn("Rotate"); fn != nil {
		a := paramName(fn, 0)
		c, s := Call("math.Cos", A(a)), Call("math.Sin", A(a))
		cmpMat("Rotate|counter-clockwise", fn, matLeaves(res, 4), []*Term{c, Neg(s), s, c}, "[[c,−s],[s,c]]")
	}
	if fn, res := evalFn("Translate3d"); fn != nil {
		v := paramName(fn, 0)
		I := K(1)
		Z := K(0)
		cmpMat("Translate3d", fn, matLeaves(res, 16), []*Term{I, Z, Z, A(v + ".X"), Z, I, Z, A(v + ".Y"), Z, Z, I, A(v + ".Z"), Z, Z, Z, I}, "identity with the translation in the last column")
	}
	if fn, res := evalFn("Translate2d"); fn != nil {
		v := paramName(fn, 0)
		I, Z := K(1), K(0)
		cmpMat("Translate2d", fn, matLeaves(res, 9), []*Term{I, Z, A(v + ".X"), Z, I, A(v + ".Y"), Z, Z, I}, "identity with the translation in the last column")
	}
	if fn, res := evalFn("Scale3d"); fn != nil {
		v := paramName(fn, 0)
		I, Z := K(1), K(0)
		cmpMat("Scale3d", fn, matLeaves(res, 16), []*Term{A(v + ".X"), Z, Z, Z, Z, A(v + ".Y"), Z, Z, Z, Z, A(v + ".Z"), Z, Z, Z, Z, I}, "diagonal scale")
	}
	if fn, res := evalFn("Scale2d"); fn != nil {
		v := paramName(fn, 0)
		I, Z := K(1), K(0)
		cmpMat("Scale2d", fn, matLeaves(res, 9), []*Term{A(v + ".X"), Z, Z, Z, A(v + ".Y"), Z, Z, Z, I}, "diagonal scale")
	}
	// products
	for _, pm := range []struct {
		name string
		n    int
	}{{"(M44).Mul", 4}, {"(M33).Mul", 3}, {"(M22).Mul", 2}} {
		if fn, res := evalFn(pm.name); fn != nil {
			a, b := paramName(fn, 0), paramName(fn, 1)
			n := pm.n
			want := make([]*Term, n*n)
			for i := 0; i < n; i++ {
				for j := 0; j < n; j++ {
					s := K(0)
					for k := 0; k < n; k++ {
						s = Add(s, Mul(A(fmt.Sprintf("%s[%d]", a, i*n+k)), A(fmt.Sprintf("%s[%d]", b, k*n+j))))
					}
					want[i*n+j] = s
				}
			}
			cmpMat(pm.name+"|row-major-product", fn, matLeaves(res, n*n), want, "(a·b)_ij = Σ_k a_ik b_kj")
		}
	}
	for _, pm := range []struct {
		name string
		n    int
	}{{"(M44).MulPosition", 4}, {"(M33).MulPosition", 3}} {
		if fn, res := evalFn(pm.name); fn != nil {
			a, b := paramName(fn, 0), paramName(fn, 1)
			n := pm.n
			d := n - 1
			comps := []string{"X", "Y", "Z"}[:d]
			m := map[string]*Term{}
			leafTerms("", res, m)
			ok := len(m) == d
			for i, c := range comps {
				s := A(fmt.Sprintf("%s[%d]", a, i*n+d))
				for j, cj := range comps {
					s = Add(s, Mul(A(fmt.Sprintf("%s[%d]", a, i*n+j)), A(b+"."+cj)))
				}
				if m["."+c] == nil || !equalRat(m["."+c], s) {
					ok = false
				}
			}
			r.check("M7", pm.name+"|affine-map-of-a-position", fn.Pos(), ok, "(M·p)_i = Σ_j M_ij p_j + M_i,last")
		}
	}
	for _, pm := range []struct {
		name string
		n    int
	}{{"(M44).Inverse", 4}, {"(M33).Inverse", 3}, {"(M22).Inverse", 2}} {
		if fn, res := evalFn(pm.name); fn != nil {
			a := paramName(fn, 0)
			n := pm.n
			got := matLeaves(res, n*n)
			ok := true
			bad := ""
			for i := 0; i < n && ok; i++ {
				for j := 0; j < n; j++ {
					s := K(0)
					for k := 0; k < n; k++ {
						if got[i*n+k] == nil {
							ok = false
							break
						}
						s = Add(s, Mul(got[i*n+k], A(fmt.Sprintf("%s[%d]", a, k*n+j))))
					}
					want := K(0)
					if i == j {
						want = K(1)
					}
					if ok && !equalRat(s, want) {
						bad += fmt.Sprintf(" (%d,%d)", i, j)
					}
				}
			}
			r.check("M7", pm.name+"|inverse-times-matrix-is-identity", fn.Pos(), ok && bad == "", "entries of Inverse(m)·m differing from I:"+bad)
		}
	}
	r.floor("M7", 12)
}

// screwSpec: the composite of Screw3D and ScrewSDF3.Evaluate is
// max(|z| − length/2, thread(SawTooth(z − starts·pitch·atan2(y,x)/τ, pitch), r [+ z·tan(taper)]))
// (right-handed for positive starts, period = pitch).
func screwSpec(ctx *Ctx, r *Report, rule string) {
	fn := ctx.ssaFunc("sdf", "Screw3D")
	if fn == nil {
		r.undecided(rule, "Screw3D", 0, "not found")
		return
	}
	alts, _ := ctorAlts(ctx, fn, "SawTooth")
	if len(alts) == 0 {
		r.undecided(rule, "Screw3D", fn.Pos(), "constructor builds nothing")
		return
	}
	for _, ca := range alts {
		res, _, err := composeMethod(ctx, ca, "Evaluate", "SawTooth")
		t, _ := res.(*Term)
		if err != nil || t == nil {
			r.undecided(rule, "Screw3D", fn.Pos(), "cannot compose")
			continue
		}
		pX, pY, pZ := A("p.X"), A("p.Y"), A("p.Z")
		rr := Call("math.Sqrt", Add(Mul(pX, pX), Mul(pY, pY)))
		th := Call("math.Atan2", pY, pX)
		z := Sub(pZ, Mul(Conv("float64", A("starts")), A("pitch"), th, Div(K(1), tauC)))
		x0 := Call(modPath+"/sdf.SawTooth", z, A("pitch"))
		clip := Sub(Call("math.Abs", pZ), half(A("length")))
		tp := Cmp("==", A("taper"), K(0)) // taper != 0 is held as !(taper == 0)
		conds := condAtoms(t)
		okC := len(conds) == 0 || (len(conds) == 1 && conds[0].Key() == tp.Key())
		if !okC {
			r.check(rule, "Screw3D|case-structure", fn.Pos(), false, "unexpected case distinctions: "+shortKey(t.Key(), 300))
			continue
		}
		plain := assume(t, map[string]bool{tp.Key(): true})
		want := Call("math.Max", clip, opEval("thread", x0, rr))
		r.check(rule, "Screw3D|helix-right-handed-period-pitch", fn.Pos(), equalRat(plain, want),
			"untapered: max(|z|−length/2, thread(SawTooth(z − starts·pitch·θ/τ, pitch), r)); composite = "+shortKey(plain.Key(), 300))
		tap := assume(t, map[string]bool{tp.Key(): false})
		// taper is documented as an angle (radians): the cone's slope is its tangent - the same
		// tan(taper) the constructor uses for the bounding box
		wantT := Call("math.Max", clip, opEval("thread", x0, Add(rr, Mul(pZ, Call("math.Tan", A("taper"))))))
		r.check(rule, "Screw3D|taper-shifts-the-radius-linearly-in-z", fn.Pos(), equalRat(tap, wantT), "tapered: radius argument r + z·tan(taper) for a taper angle; composite = "+shortKey(tap.Key(), 300))
	}
}

// ---------------------------------------------------------------- M8: voxel wrapper

// checkVoxelLattice: NewVoxelSDF3 samples the wrapped shape at P(I) for every lattice index I
// and stores the value under I; VoxelSDF3.Evaluate interpolates between the stored values of
// the cell it computes from the query point. The two sides have to agree on the lattice: at
// p = P(I) the evaluation must take cell I with zero offsets, i.e. return exactly the value
// stored for I (weight 1) and ignore the seven other corners (weight 0). Decided on the
// closed forms: the constructor's sample position and stored fields are substituted into the
// closed form of Evaluate, int(float(I)) is folded to I, and the eight corner weights are
// compared with (1,0,...,0) as rational identities.
func checkVoxelLattice(ctx *Ctx, r *Report) {
	ctor := ctx.ssaFunc("sdf", "NewVoxelSDF3")
	meth := ctx.ssaFunc("sdf", "(*VoxelSDF3).Evaluate")
	key := "NewVoxelSDF3|samples-and-lookups-share-one-lattice"
	if ctor == nil || meth == nil {
		r.undecided("M8", key, 0, "constructor or Evaluate not found")
		return
	}
	ev := newEval(ctx)
	res, st := ev.evalRoot(ctor)
	obj, ok := resultObject(res, st)
	if !ok || ev.Exceeded {
		r.undecided("M8", key, ctor.Pos(), "constructor result is not a fresh object in closed form")
		return
	}
	fields := map[string]*Term{}
	leafTerms("", obj, fields)
	// the sample stored under index I
	var idx []*Term
	var pos []*Term
	for _, e := range ev.Events {
		if e.Callee != "mapupdate" || len(e.Args) < 3 {
			continue
		}
		k, _ := e.Args[1].(*Agg)
		v, _ := e.Args[2].(*Term)
		if k == nil || v == nil || v.Op != "call" || !strings.HasSuffix(v.S, ".Evaluate") || len(v.Args) != 1 || v.Args[0].Op != "agg" {
			continue
		}
		idx, pos = nil, nil
		for _, x := range k.Elems {
			if t, ok := x.(*Term); ok && t.Op == "a" {
				idx = append(idx, t)
			}
		}
		pos = v.Args[0].Args
	}
	if len(idx) != 3 || len(pos) != 3 {
		r.check("M8", key, ctor.Pos(), false, "no store of operand.Evaluate(P(I)) under the lattice index I found in the constructor")
		return
	}
	// the trilinear form over symbolic offsets is a large polynomial: lift the size cap for it
	savedCap := termCap
	termCap = 400000
	defer func() { termCap = savedCap }()
	ev2 := newEval(ctx, "Clamp")
	res2, _ := ev2.evalRoot(meth)
	c, _ := res2.(*Term)
	if c == nil || ev2.Exceeded {
		r.undecided("M8", key, meth.Pos(), "Evaluate is not a closed form")
		return
	}
	recv := paramName(meth, 0)
	pt := paramName(meth, 1)
	// a query point clamped to the box first: the sample positions lie in the box, where the
	// clamp is the identity (it must be a clamp of the point itself to the box's own corners)
	clampOK := true
	c = rebuild(c, func(x *Term) *Term {
		if x.Op == "a" && strings.Contains(x.S, ".Clamp(") {
			for _, ax := range []string{"X", "Y", "Z"} {
				if strings.HasSuffix(x.S, ")."+ax) {
					if !strings.Contains(x.S, "agg("+pt+".X,"+pt+".Y,"+pt+".Z)") || !strings.Contains(x.S, recv+".bb.Min.X") || !strings.Contains(x.S, recv+".bb.Max.X") {
						clampOK = false
					}
					return A(pt + "." + ax)
				}
			}
		}
		return nil
	})
	// |q − clamp(q)| vanishes there
	for i := 0; i < 3; i++ {
		c = rebuild(c, func(x *Term) *Term {
			if x.Op == "call" && x.S == "math.Sqrt" && len(x.Args) == 1 && x.Args[0].IsZero() {
				return K(0)
			}
			return nil
		})
	}
	if !clampOK {
		r.check("M8", key, meth.Pos(), false, "the query point is clamped, but not to the corners of the stored box")
		return
	}
	// the stored fields are named (N.X for numVoxels.X, ...) wherever they occur in the sample
	// position, so that the substituted terms stay small
	abbrev := map[string]*Term{}
	sub := map[string]*Term{}
	for f, t := range fields {
		if t.Op == "a" || t.IsConst() {
			sub[recv+f] = t
			continue
		}
		nm := A("field" + f)
		abbrev[t.Key()] = nm
		sub[recv+f] = nm // ".numVoxels.X" -> field.numVoxels.X
	}
	for i := range pos {
		pos[i] = substKeys(pos[i], abbrev)
	}
	for i, ax := range []string{"X", "Y", "Z"} {
		sub[pt+"."+ax] = pos[i]
	}
	c1 := substAtoms(c, sub)
	// int(float(I)) = I
	unfolded := 0
	c1 = rebuild(c1, func(x *Term) *Term {
		if x.Op == "conv" && strings.HasPrefix(x.S, "int") {
			for _, k := range idx {
				if equalRat(x.Args[0], Conv("float64", k)) {
					return k
				}
			}
			hasIdx := false
			as := map[string]bool{}
			x.Atoms(as)
			for _, k := range idx {
				if as[k.S] {
					hasIdx = true
				}
			}
			if hasIdx {
				unfolded++
			}
			if os.Getenv("VERIF_DEBUG") != "" {
				fmt.Println("DEBUG conv:int arg", hasIdx, shortKey(x.Args[0].Key(), 400))
			}
		}
		return nil
	})
	// the eight stored corner values are the lookup atoms
	var corners []string
	as := map[string]bool{}
	c.Atoms(as)
	for a := range as {
		if strings.HasPrefix(a, "lookup(") {
			corners = append(corners, a)
		}
	}
	sort.Strings(corners)
	own := ""
	for _, a := range corners {
		if !strings.Contains(a, "+(1,") {
			own = a
		}
	}
	okAll := len(corners) == 8 && own != "" && unfolded == 0
	detail := fmt.Sprintf("%d corner values, %d index computations that do not reduce to I at the sample positions;", len(corners), unfolded)
	if okAll {
		for _, a := range corners {
			m := map[string]*Term{}
			for _, b := range corners {
				if a == b {
					m[b] = K(1)
				} else {
					m[b] = K(0)
				}
			}
			w := substAtoms(c1, m)
			want := K(0)
			if a == own {
				want = K(1)
			}
			if os.Getenv("VERIF_DEBUG") != "" {
				fmt.Println("DEBUG weight", a == own, shortKey(w.Key(), 700))
			}
			if !equalRat(w, want) {
				okAll = false
				detail += fmt.Sprintf(" weight of %s at a sample position is not %s;", shortKey(a, 60), want.Key())
			}
		}
	}
	r.check("M8", key, ctor.Pos(), okAll, "at every sample position P(I) Evaluate returns the value stored for I; "+detail)
	r.floor("M8", 1)
}

// ---------------------------------------------------------------- M9: planar slice

// checkSlice: the composite of Slice2D and SliceSDF2.Evaluate is operand(Q(p)) with Q affine in
// p. Per branch of the axis choice (the zero pattern of n decides it): Q(0) ≡ a, the images U, V
// of the 2D unit vectors satisfy U·n ≡ 0, V·n ≡ 0, U·V ≡ 0 (rational identities, the square
// roots of the normalisations opaque), and - numerically, at a few parameter points inside the
// checker - |U| = |V| = 1 and (U × V)·n > 0.
func checkSlice(ctx *Ctx, r *Report) {
	fn := ctx.ssaFunc("sdf", "Slice2D")
	if fn == nil {
		r.undecided("M9", "Slice2D", 0, "constructor not found")
		return
	}
	savedCap := termCap
	termCap = 400000
	defer func() { termCap = savedCap }()
	alts, _ := ctorAlts(ctx, fn)
	if len(alts) != 1 {
		r.undecided("M9", "Slice2D", fn.Pos(), fmt.Sprintf("%d object-building alternatives, expected 1", len(alts)))
		return
	}
	res, _, err := composeMethod(ctx, alts[0], "Evaluate")
	t, _ := res.(*Term)
	if err != nil || t == nil || t.Op != "call" || !strings.HasSuffix(t.S, ".Evaluate") || len(t.Args) != 1 || t.Args[0].Op != "agg" || len(t.Args[0].Args) != 3 {
		r.undecided("M9", "Slice2D", fn.Pos(), "composite is not operand(Q): "+shortKey(valKey(res), 200))
		return
	}
	Q := t.Args[0].Args
	comps := []string{"X", "Y", "Z"}
	nz := func(c string) string { return Cmp("==", A("n."+c), K(0)).Key() }
	type sliceCase struct {
		name  string
		truth map[string]bool
		zero  string
	}
	cases := []sliceCase{
		{"n.X=0", nil, "X"},
		{"n.X≠0,n.Y=0", map[string]bool{nz("X"): false}, "Y"},
		{"n.X≠0,n.Y≠0,n.Z=0", map[string]bool{nz("X"): false, nz("Y"): false}, "Z"},
		{"general", map[string]bool{nz("X"): false, nz("Y"): false, nz("Z"): false}, ""},
	}
	dot := func(a, b []*Term) *Term {
		return Add(Mul(a[0], b[0]), Mul(a[1], b[1]), Mul(a[2], b[2]))
	}
	for _, c := range cases {
		key := "Slice2D|" + c.name
		var q, q0, U, V, n []*Term
		okShape := true
		for i := range Q {
			x := Q[i]
			if c.truth != nil {
				x = assume(x, c.truth)
			}
			if c.zero != "" {
				x = substAtoms(x, map[string]*Term{"n." + c.zero: K(0)})
			}
			if len(condAtoms(x)) != 0 {
				okShape = false
			}
			q = append(q, x)
			z := substAtoms(x, map[string]*Term{"p.X": K(0), "p.Y": K(0)})
			q0 = append(q0, z)
			U = append(U, Sub(substAtoms(x, map[string]*Term{"p.X": K(1), "p.Y": K(0)}), z))
			V = append(V, Sub(substAtoms(x, map[string]*Term{"p.X": K(0), "p.Y": K(1)}), z))
			if comps[i] == c.zero {
				n = append(n, K(0))
			} else {
				n = append(n, A("n."+comps[i]))
			}
		}
		if !okShape {
			r.undecided("M9", key, fn.Pos(), "the mapped point still depends on a condition in this case: "+shortKey(q[0].Key(), 200))
			continue
		}
		okAff, okOrigin := true, true
		for i := range q {
			okAff = okAff && equalRat(q[i], Add(q0[i], Mul(A("p.X"), U[i]), Mul(A("p.Y"), V[i])))
			okOrigin = okOrigin && equalRat(q0[i], A("a."+comps[i]))
		}
		r.check("M9", key+"|affine-with-origin-a", fn.Pos(), okAff && okOrigin, "the 2D origin maps to a and the map is affine in p; Q.X = "+shortKey(q[0].Key(), 160))
		okPlane := equalRat(dot(U, n), K(0)) && equalRat(dot(V, n), K(0))
		r.check("M9", key+"|axes-lie-in-the-plane", fn.Pos(), okPlane, "U·n ≡ 0 and V·n ≡ 0 (the images of the 2D axes are perpendicular to the slicing normal); U = ("+shortKey(U[0].Key(), 80)+", "+shortKey(U[1].Key(), 80)+", "+shortKey(U[2].Key(), 80)+")")
		r.check("M9", key+"|axes-perpendicular", fn.Pos(), equalRat(dot(U, V), K(0)), "U·V ≡ 0")
		// unit length and handedness: numeric evaluation of the closed forms inside the checker
		okUnit, okHand, nEval := true, true, 0
		for _, pt := range [][3]float64{{0.7, -1.3, 2.1}, {-2.5, 0.4, -0.9}, {1.1, 1.7, 0.6}, {-0.3, -2.2, -1.4}} {
			env := map[string]float64{"n.X": pt[0], "n.Y": pt[1], "n.Z": pt[2], "a.X": 0.5, "a.Y": -1.5, "a.Z": 2.5}
			var u, v [3]float64
			good := true
			for i := 0; i < 3; i++ {
				var o1, o2 bool
				u[i], o1 = evalFloat(U[i], env)
				v[i], o2 = evalFloat(V[i], env)
				good = good && o1 && o2
			}
			if !good {
				continue
			}
			nEval++
			nn := [3]float64{env["n.X"], env["n.Y"], env["n.Z"]}
			for i, cc := range comps {
				if cc == c.zero {
					nn[i] = 0
				}
			}
			uu := u[0]*u[0] + u[1]*u[1] + u[2]*u[2]
			vv := v[0]*v[0] + v[1]*v[1] + v[2]*v[2]
			cx := [3]float64{u[1]*v[2] - u[2]*v[1], u[2]*v[0] - u[0]*v[2], u[0]*v[1] - u[1]*v[0]}
			okUnit = okUnit && math.Abs(uu-1) < 1e-9 && math.Abs(vv-1) < 1e-9
			okHand = okHand && cx[0]*nn[0]+cx[1]*nn[1]+cx[2]*nn[2] > 0
		}
		if nEval == 0 {
			r.undecided("M9", key+"|unit-axes", fn.Pos(), "closed forms could not be evaluated numerically")
			continue
		}
		r.check("M9", key+"|unit-axes", fn.Pos(), okUnit, "|U| = |V| = 1 (distances in the slice are distances in space)")
		r.check("M9", key+"|right-handed", fn.Pos(), okHand, "(U × V)·n > 0: the slice is seen from the side the normal points to, not mirrored")
	}
	r.floor("M9", 20)
}

// ---------------------------------------------------------------- M10: the loft's profile mix

// checkLoftMix: in the composite of Loft3D and LoftSDF3.Evaluate the value whose sign selects
// "inside the boundary" is the mix A of the two profile distances. With (a0, a1) = (0, 1) it is the
// mix factor k(z) itself: it must be 0 at the bottom face, 1 at the top face, within [0, 1] and
// non-decreasing for every z (sampled, exact arithmetic), and A must be the affine combination
// a0 + k·(a1 − a0). An unclamped k extrapolates the profiles beyond the caps of a rounded loft:
// material outside the hull of the two profile boxes.
func checkLoftMix(ctx *Ctx, r *Report, rule string) {
	fn := ctx.ssaFunc("sdf", "Loft3D")
	if fn == nil {
		r.undecided(rule, "Loft3D", 0, "not found")
		return
	}
	alts, _ := ctorAlts(ctx, fn)
	if len(alts) != 1 {
		r.undecided(rule, "Loft3D", fn.Pos(), fmt.Sprintf("%d object-building alternatives", len(alts)))
		return
	}
	res, _, err := composeMethod(ctx, alts[0], "Evaluate")
	t, _ := res.(*Term)
	if err != nil || t == nil {
		r.undecided(rule, "Loft3D", fn.Pos(), "cannot compose constructor and Evaluate")
		return
	}
	isOp := func(x *Term, op string) bool {
		return x.Op == "call" && x.S == op+".Evaluate"
	}
	op0, op1 := paramName(fn, 0), paramName(fn, 1)
	// the mixed value: the left side of a sign test that mentions both profiles
	var mixT *Term
	for _, c := range findSub(t, func(x *Term) bool { return x.Op == "cmp" && (x.S == "<" || x.S == ">" || x.S == "<=" || x.S == ">=") }) {
		for i := 0; i < 2; i++ {
			if c.Args[1-i].IsZero() && len(findSub(c.Args[i], func(x *Term) bool { return isOp(x, op0) })) > 0 && len(findSub(c.Args[i], func(x *Term) bool { return isOp(x, op1) })) > 0 {
				mixT = c.Args[i]
			}
		}
	}
	if mixT == nil {
		r.undecided(rule, "Loft3D", fn.Pos(), "no sign test of a value mixing both profiles in the composite: "+shortKey(t.Key(), 200))
		return
	}
	at := func(v0, v1 *Term) *Term {
		return rebuild(mixT, func(x *Term) *Term {
			switch {
			case isOp(x, op0):
				return v0
			case isOp(x, op1):
				return v1
			}
			return nil
		})
	}
	k := at(K(0), K(1))
	okAff := equalRat(mixT, Add(opEval(op0, A("p.X"), A("p.Y")), Mul(k, Sub(opEval(op1, A("p.X"), A("p.Y")), opEval(op0, A("p.X"), A("p.Y"))))))
	r.check(rule, "Loft3D|mix-is-an-affine-combination-of-the-two-profiles", fn.Pos(), okAff, "A = a0 + k·(a1 − a0); A = "+shortKey(mixT.Key(), 200))
	// k(z) on samples: height 10, round 1 -> stored half height H = 4
	hN, rN := paramName(fn, 2), paramName(fn, 3)
	bad := ""
	prev := big.NewRat(-1, 1)
	n := 0
	for _, z := range []int64{-12, -8, -5, -4, -3, -2, 0, 1, 2, 4, 5, 9, 40} {
		env := map[string]*big.Rat{"p.Z": big.NewRat(z, 1), "p.X": big.NewRat(0, 1), "p.Y": big.NewRat(0, 1), hN: big.NewRat(10, 1), rN: big.NewRat(1, 1)}
		var kv *big.Rat
		func() {
			defer func() {
				if recover() != nil {
					kv = nil
				}
			}()
			kv = evalT(k, env)
		}()
		if kv == nil {
			r.undecided(rule, "Loft3D|mix-factor", fn.Pos(), "the mix factor is not an arithmetic function of z: "+shortKey(k.Key(), 160))
			return
		}
		n++
		want := ""
		switch {
		case z <= -4 && kv.Sign() != 0:
			want = "0 at and below the bottom face"
		case z >= 4 && kv.Cmp(big.NewRat(1, 1)) != 0:
			want = "1 at and above the top face"
		case kv.Sign() < 0 || kv.Cmp(big.NewRat(1, 1)) > 0:
			want = "within [0, 1]"
		case kv.Cmp(prev) < 0:
			want = "non-decreasing in z"
		}
		if want != "" && len(bad) < 300 {
			bad += fmt.Sprintf(" z=%d (faces at ±4): k = %s, expected %s;", z, kv.RatString(), want)
		}
		prev = kv
	}
	r.check(rule, "Loft3D|mix-factor-runs-from-0-to-1-and-is-clamped", fn.Pos(), bad == "", fmt.Sprintf("%d heights, exact arithmetic on the closed form of k(z);%s", n, bad))
	r.floor(rule, 2)
}

// ---------------------------------------------------------------- M11: the polynomial blend kernel

// checkPolyKernel evaluates the closed form of sdf.poly(a, b, k) exactly on a rational grid:
// k in {1, 1/2, 3}, a in {0, 5/4, -2}, d = b - a from -2k to 2k in steps of k/64.
func checkPolyKernel(ctx *Ctx, r *Report, rule string) {
	// the kernel is taken through the public constructor: PolyMin(k) returns a function value
	// (a closure over k, a bound method of a small type ...), which is applied to symbolic a, b
	blend := func(ctor string) (*Term, *ssa.Function) {
		fn := ctx.ssaFunc("sdf", ctor)
		if fn == nil || len(fn.Params) != 1 {
			return nil, fn
		}
		ev := newEval(ctx)
		res, _ := ev.evalRoot(fn)
		fv, ok := res.(*FuncV)
		if !ok || fv.Fn == nil {
			return nil, fn
		}
		ev2 := newEval(ctx)
		st := State{mem: map[*Obj]Val{}}
		out := ev2.Call(fv.Fn, []Val{A("a"), A("b")}, fv.Free, &st)
		t, _ := out.(*Term)
		if ev2.Exceeded {
			return nil, fn
		}
		return t, fn
	}
	t, fn := blend("PolyMin")
	if fn == nil {
		r.undecided(rule, "PolyMin", 0, "not found")
		return
	}
	if t == nil {
		r.undecided(rule, "PolyMin", fn.Pos(), "PolyMin(k) does not evaluate to a function with a closed form")
		return
	}
	tMax, _ := blend("PolyMax")
	value := func(env map[string]*big.Rat) (v *big.Rat) {
		defer func() {
			if recover() != nil {
				v = nil
			}
		}()
		return evalT(t, env)
	}
	valueMax := func(env map[string]*big.Rat) (v *big.Rat) {
		defer func() {
			if recover() != nil {
				v = nil
			}
		}()
		if tMax == nil {
			return nil
		}
		return evalT(tMax, env)
	}
	aN, bN, kN := "a", "b", paramName(fn, 0)
	bad := map[string]string{}
	note := func(what, msg string) {
		if bad[what] == "" {
			bad[what] = msg
		}
	}
	n := 0
	q := func(a, b int64) *big.Rat { return big.NewRat(a, b) }
	for _, kv := range []*big.Rat{q(1, 1), q(1, 2), q(3, 1)} {
		step := new(big.Rat).Mul(kv, q(1, 64))
		quarter := new(big.Rat).Mul(kv, q(1, 4))
		for _, av := range []*big.Rat{q(0, 1), q(5, 4), q(-2, 1)} {
			var prev *big.Rat
			for i := int64(-128); i <= 128; i++ {
				d := new(big.Rat).Mul(step, q(i, 1))
				bv := new(big.Rat).Add(av, d)
				v := value(map[string]*big.Rat{aN: av, bN: bv, kN: kv})
				w := value(map[string]*big.Rat{aN: bv, bN: av, kN: kv})
				if v == nil || w == nil {
					r.undecided(rule, "PolyMin", fn.Pos(), "the kernel is not an arithmetic function of its arguments")
					return
				}
				n++
				mn := av
				if bv.Cmp(av) < 0 {
					mn = bv
				}
				at := fmt.Sprintf("a=%s b=%s k=%s: poly=%s", av.RatString(), bv.RatString(), kv.RatString(), v.RatString())
				if v.Cmp(w) != 0 {
					note("symmetric", at+" but poly(b,a)="+w.RatString())
				}
				if tMax != nil {
					// PolyMax(k)(x, y) = -PolyMin(k)(-x, -y)
					mx := valueMax(map[string]*big.Rat{aN: new(big.Rat).Neg(av), bN: new(big.Rat).Neg(bv), kN: kv})
					if mx == nil || new(big.Rat).Neg(mx).Cmp(v) != 0 {
						note("PolyMax-is-the-mirror-image", at+" but PolyMax(-a,-b) is not its negative")
					}
				}
				if v.Cmp(mn) > 0 {
					note("never-above-the-minimum", at)
				}
				if new(big.Rat).Sub(mn, v).Cmp(quarter) > 0 {
					note("at-most-k/4-below-the-minimum", at)
				}
				if new(big.Rat).Abs(d).Cmp(kv) >= 0 && v.Cmp(mn) != 0 {
					note("plain-minimum-once-the-operands-differ-by-k", at)
				}
				if prev != nil {
					dv := new(big.Rat).Sub(v, prev)
					if dv.Sign() < 0 {
						note("non-decreasing-in-each-argument", at+fmt.Sprintf(" after %s one step earlier", prev.RatString()))
					}
					if dv.Cmp(step) > 0 {
						note("1-Lipschitz-in-each-argument", at+fmt.Sprintf(" after %s one step (%s) earlier: a jump", prev.RatString(), step.RatString()))
					}
				}
				prev = v
			}
		}
	}
	r.Counts["poly_kernel_points"] = n
	for _, what := range []string{"symmetric", "PolyMax-is-the-mirror-image", "never-above-the-minimum", "at-most-k/4-below-the-minimum", "plain-minimum-once-the-operands-differ-by-k", "non-decreasing-in-each-argument", "1-Lipschitz-in-each-argument"} {
		r.check(rule, "PolyMin|"+what, fn.Pos(), bad[what] == "", fmt.Sprintf("%d grid points, exact rational evaluation of the closed form; %s", n, bad[what]))
	}
	r.floor(rule, 7)
}

// checkOperandListOwned (M12): a combinator that takes its operands as a slice (the variadic
// unions) is "the minimum over its operands" only while its operand list stays what it was built
// from. The variadic parameter is the caller's own slice when called as f(parts...): a list
// field that shares its backing array with the parameter changes when the caller reuses the slice,
// and filtering into it in place rewrites the caller's operands. Decided on the SSA form: the
// roots of every slice of SDFs stored into a field (through re-slicing, append's first argument,
// phis and loads of the same field) must not include a parameter.
func checkOperandListOwned(ctx *Ctx, r *Report) {
	n := 0
	for _, fn := range ctx.srcFuncs("sdf") {
		if fn.Parent() != nil || fn.Signature.Recv() != nil {
			continue
		}
		res := fn.Signature.Results()
		if res.Len() == 0 || !isSDFType(res.At(0).Type()) {
			continue
		}
		isSDFSlice := func(t types.Type) bool {
			sl, ok := t.Underlying().(*types.Slice)
			return ok && isSDFType(sl.Elem())
		}
		hasParam := false
		for _, p := range fn.Params {
			if isSDFSlice(p.Type()) {
				hasParam = true
			}
		}
		if !hasParam {
			continue
		}
		sameCell := func(a, b ssa.Value) bool {
			fa, ok1 := a.(*ssa.FieldAddr)
			fb, ok2 := b.(*ssa.FieldAddr)
			return a == b || (ok1 && ok2 && fa.X == fb.X && fa.Field == fb.Field)
		}
		var roots func(v ssa.Value, seen map[ssa.Value]bool, out map[string]bool)
		roots = func(v ssa.Value, seen map[ssa.Value]bool, out map[string]bool) {
			if seen[v] {
				return
			}
			seen[v] = true
			switch x := v.(type) {
			case *ssa.Parameter:
				out["parameter "+x.Name()] = true
			case *ssa.Slice:
				roots(x.X, seen, out)
			case *ssa.ChangeType:
				roots(x.X, seen, out)
			case *ssa.Phi:
				for _, e := range x.Edges {
					roots(e, seen, out)
				}
			case *ssa.Call:
				if b, ok := x.Call.Value.(*ssa.Builtin); ok && b.Name() == "append" {
					roots(x.Call.Args[0], seen, out)
				} else {
					out["fresh"] = true
				}
			case *ssa.UnOp:
				if x.Op == token.MUL {
					allInstrs(fn, func(_ *ssa.BasicBlock, ins ssa.Instruction) {
						if st, ok := ins.(*ssa.Store); ok && sameCell(st.Addr, x.X) {
							roots(st.Val, seen, out)
						}
					})
				}
			default:
				out["fresh"] = true
			}
		}
		perField := map[int][]string{}
		fieldPos := map[int]token.Pos{}
		allInstrs(fn, func(_ *ssa.BasicBlock, ins ssa.Instruction) {
			st, ok := ins.(*ssa.Store)
			if !ok || !isSDFSlice(st.Val.Type()) {
				return
			}
			fa, ok := st.Addr.(*ssa.FieldAddr)
			if !ok {
				return
			}
			out := map[string]bool{}
			roots(st.Val, map[ssa.Value]bool{}, out)
			if _, seen := perField[fa.Field]; !seen {
				perField[fa.Field] = nil
				fieldPos[fa.Field] = st.Pos()
			}
			for k := range out {
				if strings.HasPrefix(k, "parameter ") {
					perField[fa.Field] = append(perField[fa.Field], k+" (store at "+ctx.pos(st.Pos())+")")
					fieldPos[fa.Field] = st.Pos()
				}
			}
		})
		for f, shared := range perField {
			sort.Strings(shared)
			n++
			r.check("M12", fmt.Sprintf("%s|operand-list-field#%d-does-not-share-the-callers-slice", fn.Name(), f), fieldPos[f], len(shared) == 0,
				"the stored operand list is built in storage the constructor allocated; shares a backing array with: "+strings.Join(shared, ", "))
		}
	}
	_ = n
	r.floor("M12", 2)
}

// checkRotateToVector (M13): RotateToVector(a, b) is the rotation that takes the direction of a to
// the direction of b, for vectors of any length: the special cases (same direction, opposite
// direction) are decided on the unit vectors, like the general formula - which divides by
// 1 + â·b̂ and is singular exactly for opposite directions. If the vectors are normalised only
// after the special cases have been tested, opposite vectors of different length reach the
// singularity and every entry of the matrix is NaN (an arrow pointing straight down, Orient3D
// with {0,0,-10}). The closed form is evaluated on pairs of different lengths.
func checkRotateToVector(ctx *Ctx, r *Report) {
	fn := ctx.ssaFunc("sdf", "RotateToVector")
	if fn == nil || len(fn.Params) != 2 {
		r.undecided("M13", "RotateToVector", 0, "not found")
		return
	}
	savedCap := termCap
	termCap = 400000
	ev := newEval(ctx)
	res, _ := ev.evalRoot(fn)
	termCap = savedCap
	m := map[string]*Term{}
	leafTerms("", res, m)
	if len(m) != 16 {
		r.undecided("M13", "RotateToVector", fn.Pos(), fmt.Sprintf("the result has %d scalar entries, expected 16", len(m)))
		return
	}
	an, bn := paramName(fn, 0), paramName(fn, 1)
	bad := ""
	n := 0
	for _, c := range [][2][3]float64{
		{{0, 0, 1}, {0, 0, -10}}, {{0, 0, 3}, {0, 0, -1}}, {{1, 2, 2}, {-2, -4, -4}}, // opposite, different lengths
		{{0, 0, 1}, {0, 0, 5}}, {{2, 0, 0}, {7, 0, 0}}, // same direction, different lengths
		{{1, 0, 0}, {0, 3, 0}}, {{1, 2, 3}, {-3, 1, 2}}, {{0, 0, 2}, {1, 1, 0}}, // generic
	} {
		a, b := c[0], c[1]
		env := map[string]float64{an + ".X": a[0], an + ".Y": a[1], an + ".Z": a[2], bn + ".X": b[0], bn + ".Y": b[1], bn + ".Z": b[2]}
		var mat [16]float64
		okE := true
		for i := 0; i < 16; i++ {
			t := m[fmt.Sprintf("[%d]", i)]
			if t == nil {
				okE = false
				break
			}
			v, ok := evalFloat(t, env)
			if !ok {
				okE = false
				break
			}
			mat[i] = v
		}
		if !okE {
			bad = fmt.Sprintf(" a=%v b=%v: the matrix cannot be evaluated (a division by zero, or not a closed form of the two vectors);", a, b)
			break
		}
		n++
		la := math.Sqrt(a[0]*a[0] + a[1]*a[1] + a[2]*a[2])
		lb := math.Sqrt(b[0]*b[0] + b[1]*b[1] + b[2]*b[2])
		opposite := (a[0]/la+b[0]/lb)*(a[0]/la+b[0]/lb)+(a[1]/la+b[1]/lb)*(a[1]/la+b[1]/lb)+(a[2]/la+b[2]/lb)*(a[2]/la+b[2]/lb) < 1e-20
		off := 0.0
		finite := true
		for i := 0; i < 3; i++ {
			got := (mat[i*4+0]*a[0] + mat[i*4+1]*a[1] + mat[i*4+2]*a[2]) / la
			if math.IsNaN(got) || math.IsInf(got, 0) {
				finite = false
			}
			off = math.Max(off, math.Abs(got-b[i]/lb))
		}
		switch {
		case !finite:
			bad += fmt.Sprintf(" a=%v b=%v: the matrix has non-finite entries;", a, b)
		case !opposite && off > 1e-9:
			bad += fmt.Sprintf(" a=%v b=%v: the image of â is %g away from b̂;", a, b, off)
		}
	}
	r.check("M13", "RotateToVector|directions-of-any-length", fn.Pos(), bad == "" && n > 0, fmt.Sprintf("%d pairs (opposite, same and generic directions, different lengths): finite, and the image of â is b̂ except for the documented choice at opposite directions;%s", n, bad))
	r.floor("M13", 1)
}

// scalarClampIsClamp: sdf.Clamp(x, a, b) is a below a, b above b and x in between.
func scalarClampIsClamp(ctx *Ctx) bool {
	fn := ctx.ssaFunc("sdf", "Clamp")
	if fn == nil || len(fn.Params) != 3 {
		return false
	}
	ev := newEval(ctx)
	res, _ := ev.evalRoot(fn)
	t, _ := res.(*Term)
	if t == nil {
		return false
	}
	x, a, b := paramName(fn, 0), paramName(fn, 1), paramName(fn, 2)
	for _, c := range [][4]float64{{-3, -1, 2, -1}, {5, -1, 2, 2}, {0.5, -1, 2, 0.5}, {-1, -1, 2, -1}, {2, -1, 2, 2}} {
		got, ok := evalFloat(t, map[string]float64{x: c[0], a: c[1], b: c[2]})
		if !ok || got != c[3] {
			return false
		}
	}
	return true
}
