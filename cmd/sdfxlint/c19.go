package main

// C19 — dual contouring: the stitching tables and orientation rules.
//
// A one-level refinement model of the octree (8 children at the offsets of
// dcChildMinOffsets, cells 2 units wide) is built in the checker and every
// stitching table of render/dc/dc3v1.go is verified against it:
//
//  K1a child offsets: index = 4x+2y+z ↔ (x,y,z) ∈ {0,1}³; dcVertMap agrees
//  K1b dcEdgevmap: the 12 cube edges, grouped x,y,z, each ordered low → high
//  K1c dcCellProcFaceMask: the 12 pairs of children adjacent along `dir`
//  K1d dcCellProcEdgeMask: per axis the two quadruples of children around the
//      interior edge, in the block order (0,0),(0,1),(1,0),(1,1) of the (u,v)
//      axes with (u,v,dir) right-handed (so 0→1→3→2 is one fixed sense)
//  K1e dcFaceProcFaceMask: for two cells adjacent across a face, the 4 pairs
//      of children touching across it
//  K1f dcFaceProcEdgeMask: the 4 edges inside the shared face: which cell each
//      quad member comes from, which child, in the block order of its axis
//  K1g dcEdgeProcEdgeMask: for 4 cells around an edge, the children touching
//      each half of it
//  K1h dcProcessEdgeMask: the local edge of cell j that is the shared edge
//  K2  orientation: quads are emitted (0,1,3),(0,3,2) resp. flipped, flip ⇔
//      the low end of the edge is solid, corner bit ⇔ Evaluate < 0: with K1d
//      the normal points from solid to void; dc3v2: far edges, neighbour
//      offsets, quad order and flip predicate give outward normals on all axes
//  K3  dc3v2 emits only behind its degenerate test
//  K5  per-axis tests in render/dc cover each axis once (copy/paste lint)
//
// Not decided: QEF placement, distances, the acknowledged boundary holes.

import (
	"fmt"
	"go/ast"
	"go/token"
	"strings"

	"golang.org/x/tools/go/ssa"
)

func init() { register("C19", checkC19) }

type iv3 [3]int

func (a iv3) add(b iv3) iv3 { return iv3{a[0] + b[0], a[1] + b[1], a[2] + b[2]} }
func (a iv3) sub(b iv3) iv3 { return iv3{a[0] - b[0], a[1] - b[1], a[2] - b[2]} }
func unitI(d int) iv3       { var u iv3; u[d] = 1; return u }
func crossI(a, b iv3) iv3 {
	return iv3{a[1]*b[2] - a[2]*b[1], a[2]*b[0] - a[0]*b[2], a[0]*b[1] - a[1]*b[0]}
}

func checkC19(ctx *Ctx, r *Report, tier string) {
	r.Explain = "The dual-contouring stitching tables are verified exhaustively against a one-level refinement model of the octree built from the repository's own child offsets (adjacent child pairs, interior-edge quadruples in a fixed right-handed block order, face/edge recursion masks, local-edge lookup), and the orientation rule (emission order, flip predicate, corner-sign convention) is shown to produce normals from solid to void in both renderers; the degenerate filter of the voxel renderer and a per-axis copy/paste lint are checked. Vertex placement (QEF), distances and the documented boundary holes are not decided; determinism lints for these renderers run under C09."
	r.Exhaust = true
	r.Trusted = []string{"go/types", "go/ssa", "the refinement model in the checker"}
	r.Assume = []string{"surface strictly inside the sampled volume"}
	// v3i.Vec literals are structs: read them through the struct-literal reader
	offs, opos, err := readVecTableI(ctx, "render/dc", "dcChildMinOffsets")
	if err != nil || len(offs) != 8 {
		r.undecided("K1a", "dcChildMinOffsets", opos, fmt.Sprint(err))
		return
	}
	var child [8]iv3
	idxOf := map[iv3]int{}
	ok := true
	for i, o := range offs {
		if len(o) != 3 {
			ok = false
			continue
		}
		child[i] = iv3{o[0], o[1], o[2]}
		if o[0]*4+o[1]*2+o[2] != i || o[0]&^1 != 0 || o[1]&^1 != 0 || o[2]&^1 != 0 {
			ok = false
		}
		idxOf[child[i]] = i
	}
	r.check("K1a", "dcChildMinOffsets|index-is-4x+2y+z", opos, ok && len(idxOf) == 8, fmt.Sprint(offs))
	if !ok {
		return
	}
	if vm, _, p, err := ctx.table2("render/dc", "dcVertMap"); err == nil {
		r.check("K1a", "dcVertMap|same-numbering", p, fmt.Sprint(vm) == fmt.Sprint(offs), "corner numbering equals child numbering")
	}
	// K1b
	ev, _, epos, err := ctx.table2("render/dc", "dcEdgevmap")
	if err != nil || len(ev) != 12 {
		r.undecided("K1b", "dcEdgevmap", epos, fmt.Sprint(err))
		return
	}
	edgeAxis := make([]int, 12)
	seenE := map[[2]int]bool{}
	okE := true
	for i, e := range ev {
		d := child[e[1]].sub(child[e[0]])
		ax := -1
		for k := 0; k < 3; k++ {
			if d == unitI(k) {
				ax = k
			}
		}
		edgeAxis[i] = ax
		if ax != i/4 || seenE[[2]int{e[0], e[1]}] {
			okE = false
		}
		seenE[[2]int{e[0], e[1]}] = true
	}
	r.check("K1b", "dcEdgevmap|12-edges-grouped-by-axis-low-to-high", epos, okE, fmt.Sprint(ev))
	// (u,v) axes per dir from the first quadruple of dcCellProcEdgeMask
	ce, _, cepos, err := ctx.table2("render/dc", "dcCellProcEdgeMask")
	if err != nil || len(ce) != 6 {
		r.undecided("K1d", "dcCellProcEdgeMask", cepos, fmt.Sprint(err))
		return
	}
	var uAx, vAx [3]int
	for i, row := range ce {
		if len(row) != 5 {
			r.check("K1d", fmt.Sprintf("dcCellProcEdgeMask[%d]", i), cepos, false, "row shape")
			continue
		}
		dir := row[4]
		c := [4]iv3{child[row[0]], child[row[1]], child[row[2]], child[row[3]]}
		okR := dir >= 0 && dir < 3
		detail := ""
		if okR {
			// same dir-coordinate; block order
			dv, du := c[1].sub(c[0]), c[2].sub(c[0])
			u, v := -1, -1
			for k := 0; k < 3; k++ {
				if dv == unitI(k) {
					v = k
				}
				if du == unitI(k) {
					u = k
				}
			}
			okR = u >= 0 && v >= 0 && u != dir && v != dir && u != v && c[3] == c[0].add(du).add(dv)
			for _, x := range c {
				if x[dir] != c[0][dir] {
					okR = false
				}
			}
			if okR {
				// right-handed (u, v, dir)
				okR = crossI(unitI(u), unitI(v)) == unitI(dir)
				if !okR {
					detail = "block axes (u,v,dir) are not right-handed: the quad sense differs from the other axes"
				}
				if i%2 == 0 {
					uAx[dir], vAx[dir] = u, v
				} else if uAx[dir] != u || vAx[dir] != v {
					okR = false
					detail = "the two quadruples of this axis use different block orders"
				}
				if c[0][dir] != i%2 {
					// first row: children on the low side of dir, second: high side
					okR = okR && (c[0][dir] == 0 || c[0][dir] == 1)
				}
			}
		}
		r.check("K1d", fmt.Sprintf("dcCellProcEdgeMask[%d]", i), cepos, okR, fmt.Sprintf("%v %s", row, detail))
	}
	// both halves of each axis present
	halves := map[[2]int]bool{}
	for _, row := range ce {
		if len(row) == 5 && row[4] >= 0 && row[4] < 3 {
			halves[[2]int{row[4], child[row[0]][row[4]]}] = true
		}
	}
	r.check("K1d", "dcCellProcEdgeMask|six-interior-edges", cepos, len(halves) == 6, "two interior half-edges per axis")
	block := func(dir, j int) iv3 {
		var p iv3
		p[uAx[dir]] = j / 2
		p[vAx[dir]] = j % 2
		return p
	}
	// K1c
	if cf, _, p, err := ctx.table2("render/dc", "dcCellProcFaceMask"); err == nil {
		seen := map[[2]int]bool{}
		okC := len(cf) == 12
		for _, row := range cf {
			if len(row) != 3 || row[2] < 0 || row[2] > 2 || child[row[1]].sub(child[row[0]]) != unitI(row[2]) {
				okC = false
				continue
			}
			seen[[2]int{row[0], row[1]}] = true
		}
		r.check("K1c", "dcCellProcFaceMask|12-adjacent-child-pairs", p, okC && len(seen) == 12, fmt.Sprint(cf))
	} else {
		r.undecided("K1c", "dcCellProcFaceMask", p, err.Error())
	}
	// K1e
	if ff, p, err := ctx.table3("render/dc", "dcFaceProcFaceMask"); err == nil {
		okF := len(ff) == 3
		for dir, rows := range ff {
			seen := map[int]bool{}
			for _, row := range rows {
				if len(row) != 3 || row[2] != dir {
					okF = false
					continue
				}
				a, b := child[row[0]], child[row[1]]
				// node[0] is the low cell: its child on the high side; node[1]'s child on the low side; same other coordinates
				if a[dir] != 1 || b[dir] != 0 {
					okF = false
				}
				for k := 0; k < 3; k++ {
					if k != dir && a[k] != b[k] {
						okF = false
					}
				}
				seen[row[0]] = true
			}
			if len(rows) != 4 || len(seen) != 4 {
				okF = false
			}
		}
		r.check("K1e", "dcFaceProcFaceMask|children-touching-across-the-shared-face", p, okF, "for each axis the 4 pairs (high-side child of the low cell, low-side child of the high cell) with equal other coordinates")
	} else {
		r.undecided("K1e", "dcFaceProcFaceMask", p, err.Error())
	}
	// K1f
	if fe, p, err := ctx.table3("render/dc", "dcFaceProcEdgeMask"); err == nil {
		orders := [2][4]int{{0, 0, 1, 1}, {0, 1, 0, 1}}
		okAll := len(fe) == 3
		detail := ""
		for dir, rows := range fe {
			seenEdge := map[string]bool{}
			for ri, row := range rows {
				if len(row) != 6 || row[0] < 0 || row[0] > 1 || row[5] < 0 || row[5] > 2 || row[5] == dir {
					okAll = false
					detail += fmt.Sprintf(" [%d][%d] shape;", dir, ri)
					continue
				}
				ed := row[5]
				var pos [4]iv3
				for j := 0; j < 4; j++ {
					pos[j] = child[row[1+j]]
					if orders[row[0]][j] == 1 {
						pos[j] = pos[j].add(iv3{2 * unitI(dir)[0], 2 * unitI(dir)[1], 2 * unitI(dir)[2]})
					}
				}
				// block around an edge along ed, in that axis's block order
				base := pos[0]
				okR := true
				for j := 0; j < 4; j++ {
					if pos[j] != base.add(block(ed, j)) {
						okR = false
					}
				}
				// the edge lies in the shared face: the block straddles dir-coordinate 1|2
				if !(base[dir] == 1) {
					okR = false
				}
				if !okR {
					okAll = false
					detail += fmt.Sprintf(" [%d][%d]=%v: members at %v are not the block (0,0),(0,1),(1,0),(1,1) around an edge along axis %d inside the shared face;", dir, ri, row, pos, ed)
				}
				seenEdge[fmt.Sprint(ed, base)] = true
			}
			if len(rows) != 4 || len(seenEdge) != 4 {
				okAll = false
				detail += fmt.Sprintf(" axis %d: %d distinct in-face edges;", dir, len(seenEdge))
			}
		}
		r.check("K1f", "dcFaceProcEdgeMask|in-face-edges", p, okAll, "4 edges per shared face (2 per in-face axis), each as a block of sub-cells in the canonical order;"+detail)
	} else {
		r.undecided("K1f", "dcFaceProcEdgeMask", p, err.Error())
	}
	// K1g
	if ee, p, err := ctx.table3("render/dc", "dcEdgeProcEdgeMask"); err == nil {
		okAll := len(ee) == 3
		detail := ""
		for dir, rows := range ee {
			if len(rows) != 2 {
				okAll = false
				continue
			}
			for half, row := range rows {
				if len(row) != 5 || row[4] != dir {
					okAll = false
					continue
				}
				for j := 0; j < 4; j++ {
					// cell j sits at block(dir,j); its child touching the shared edge has the opposite block coordinates
					want := iv3{}
					b := block(dir, j)
					want[uAx[dir]] = 1 - b[uAx[dir]]
					want[vAx[dir]] = 1 - b[vAx[dir]]
					want[dir] = half
					if child[row[j]] != want {
						okAll = false
						detail += fmt.Sprintf(" [%d][%d][%d]=%d, expected child %d;", dir, half, j, row[j], idxOf[want])
					}
				}
			}
		}
		r.check("K1g", "dcEdgeProcEdgeMask|children-touching-each-half-of-the-edge", p, okAll, detail)
	} else {
		r.undecided("K1g", "dcEdgeProcEdgeMask", p, err.Error())
	}
	// K1h
	if pe, _, p, err := ctx.table2("render/dc", "dcProcessEdgeMask"); err == nil {
		okAll := len(pe) == 3
		detail := ""
		for dir, row := range pe {
			if len(row) != 4 {
				okAll = false
				continue
			}
			for j := 0; j < 4; j++ {
				b := block(dir, j)
				var lo iv3
				lo[uAx[dir]] = 1 - b[uAx[dir]]
				lo[vAx[dir]] = 1 - b[vAx[dir]]
				hi := lo.add(unitI(dir))
				want := -1
				for e, vv := range ev {
					if child[vv[0]] == lo && child[vv[1]] == hi {
						want = e
					}
				}
				if row[j] != want {
					okAll = false
					detail += fmt.Sprintf(" [%d][%d]=%d, expected edge %d;", dir, j, row[j], want)
				}
			}
		}
		r.check("K1h", "dcProcessEdgeMask|local-edge-of-each-cell-is-the-shared-edge", p, okAll, detail)
	} else {
		r.undecided("K1h", "dcProcessEdgeMask", p, err.Error())
	}
	checkDCOrientationV1(ctx, r)
	checkDCV2(ctx, r)
	n := 0
	for _, f := range axisLint(ctx, "render/dc") {
		n++
		r.check("K5", f.key, f.pos, f.ok, f.detail)
	}
	r.floor("K5", 4)
	r.floor("K1d", 7)
}

// checkDCOrientationV1: K2 for the octree renderer.
func checkDCOrientationV1(ctx *Ctx, r *Report) {
	fn := ctx.ssaFunc("render/dc", "dcContourProcessEdge")
	leaf := ctx.ssaFunc("render/dc", "(*dcOctree).computeOctreeLeaf")
	if fn == nil || leaf == nil {
		r.undecided("K2", "dcContourProcessEdge", 0, "not found")
		return
	}
	// corner bit ⇔ Evaluate < 0
	bitSolid := false
	allInstrs(leaf, func(b *ssa.BasicBlock, ins ssa.Instruction) {
		bo, ok := ins.(*ssa.BinOp)
		if !ok || bo.Op != token.LSS {
			return
		}
		if c, ok := bo.X.(*ssa.Call); ok && c.Call.IsInvoke() && c.Call.Method.Name() == "Evaluate" {
			if z, ok := bo.Y.(*ssa.Const); ok && z.Value != nil && z.Float64() == 0 {
				// the comparison feeds the branch that sets the bit
				for _, ref := range *bo.Referrers() {
					if iff, ok := ref.(*ssa.If); ok {
						for _, i2 := range iff.Block().Succs[0].Instrs {
							if b2, ok := i2.(*ssa.BinOp); ok && b2.Op == token.OR {
								bitSolid = true
							}
						}
					}
				}
			}
		}
	})
	r.check("K2", "computeOctreeLeaf|corner-bit-means-solid", leaf.Pos(), bitSolid, "bit i of `corners` is set iff Evaluate(corner i) < 0")
	// emission orders per flip branch
	type app struct {
		k     int64
		guard string
	}
	var flipPhi ssa.Value
	var apps []app
	allInstrs(fn, func(b *ssa.BasicBlock, ins ssa.Instruction) {
		c, ok := ins.(*ssa.Call)
		if !ok {
			return
		}
		bi, ok := c.Call.Value.(*ssa.Builtin)
		if !ok || bi.Name() != "append" {
			return
		}
		// the appended element: a [1]int varargs array holding indices[k]
		var k int64 = -1
		if sl, ok := c.Call.Args[1].(*ssa.Slice); ok {
			if al, ok := sl.X.(*ssa.Alloc); ok {
				for _, ref := range *al.Referrers() {
					if ia, ok := ref.(*ssa.IndexAddr); ok {
						for _, r2 := range *ia.Referrers() {
							if st, ok := r2.(*ssa.Store); ok {
								if ld, ok := st.Val.(*ssa.UnOp); ok {
									if src, ok := ld.X.(*ssa.IndexAddr); ok {
										if kk, ok := constInt(src.Index); ok {
											k = kk
										}
									}
								}
							}
						}
					}
				}
			}
		}
		g := "?"
		for _, gd := range branchGuards(b) {
			if phi, ok := gd.cond.(*ssa.Phi); ok {
				isFlip := len(neqZeroSources(phi, 0, map[ssa.Value]bool{})) > 0
				if isFlip {
					flipPhi = phi
					g = fmt.Sprint(gd.val)
				}
			}
		}
		apps = append(apps, app{k, g})
	})
	seq := map[string][]int64{}
	for _, a := range apps {
		seq[a.guard] = append(seq[a.guard], a.k)
	}
	okSeq := fmt.Sprint(seq["false"]) == "[0 1 3 0 3 2]" && fmt.Sprint(seq["true"]) == "[0 3 1 0 2 3]"
	r.check("K2", "dcContourProcessEdge|quad-orders", fn.Pos(), okSeq && flipPhi != nil,
		fmt.Sprintf("not flipped: %v (expected 0 1 3 0 3 2: sense −dir for a right-handed block), flipped: %v (expected the reverse sense)", seq["false"], seq["true"]))
	// flip ⇔ low end of the edge solid: m1 = (corners >> dcEdgevmap[edge][0]) & 1, flip = m1 != 0
	lowEnd := false
	if phi, ok := flipPhi.(*ssa.Phi); ok {
		for _, bo := range neqZeroSources(phi, 0, map[ssa.Value]bool{}) {
			// bo.X = (corners >> c1) & 1 with c1 = dcEdgevmap[edge][0]
			and, ok := bo.X.(*ssa.BinOp)
			if !ok || and.Op != token.AND {
				continue
			}
			shr, ok := and.X.(*ssa.BinOp)
			if !ok || shr.Op != token.SHR {
				continue
			}
			// shift amount: load of dcEdgevmap[...][0]
			v := shr.Y
			if cv, ok := v.(*ssa.Convert); ok {
				v = cv.X
			}
			if ld, ok := v.(*ssa.UnOp); ok {
				if ia, ok := ld.X.(*ssa.IndexAddr); ok {
					if k, ok := constInt(ia.Index); ok && k == 0 {
						lowEnd = true
					}
				}
			}
		}
	}
	r.check("K2", "dcContourProcessEdge|flip-iff-low-end-of-the-edge-is-solid", fn.Pos(), lowEnd, "flip = (corner at dcEdgevmap[edge][0]) != 0: with low→high edges (K1b) and right-handed blocks (K1d) the emitted normal points from solid to void")
}

// checkDCV2: K2/K3 for the voxel renderer (dc3v2.go).
func checkDCV2(ctx *Ctx, r *Report) {
	p := ctx.Pkgs["render/dc"]
	fd := ctx.funcDecl("render/dc", "(*DualContouringV2).generateTriangles")
	if fd == nil {
		r.undecided("K2", "dc3v2.generateTriangles", 0, "not found")
		return
	}
	corners, _, err1 := readFloatVecTable(ctx, "render/dc", "dcCorners")
	far, _, err2 := readVecTableI(ctx, "render/dc", "dcFarEdges")
	if err1 != nil || err2 != nil || len(corners) != 8 || len(far) != 3 {
		r.undecided("K2", "dc3v2.tables", fd.Pos(), fmt.Sprint(err1, err2))
		return
	}
	// neighbour offsets per ai, in source order k1,k2,k3
	offs := map[int][]iv3{}
	cur := -1
	ast.Inspect(fd.Body, func(n ast.Node) bool {
		switch x := n.(type) {
		case *ast.IfStmt:
			if be, ok := x.Cond.(*ast.BinaryExpr); ok && be.Op == token.EQL {
				if id, ok := be.X.(*ast.Ident); ok && id.Name == "ai" {
					if tv, ok := p.TypesInfo.Types[be.Y]; ok && tv.Value != nil {
						v, _ := constantToRat(tv.Value)
						cur = int(v.Num().Int64())
						collectOffsets(p, x.Body, cur, offs)
						if blk, ok := x.Else.(*ast.BlockStmt); ok {
							collectOffsets(p, blk, cur+1, offs)
						}
					}
				}
			}
		}
		return true
	})
	okN := len(offs[0]) == 3 && len(offs[1]) == 3 && len(offs[2]) == 3
	r.check("K2", "dc3v2.generateTriangles|neighbour-offsets-found", fd.Pos(), okN, fmt.Sprint(offs))
	if !okN {
		return
	}
	// triangle literals: indices of k in order
	var tris [][]string
	ast.Inspect(fd.Body, func(n ast.Node) bool {
		cl, ok := n.(*ast.CompositeLit)
		if !ok || len(cl.Elts) != 3 {
			return true
		}
		if tv, ok := p.TypesInfo.Types[cl]; !ok || !strings.HasSuffix(tv.Type.String(), "sdf.Triangle3") {
			return true
		}
		var ks []string
		for _, e := range cl.Elts {
			ks = append(ks, strings.Fields(exprText(ctx.Fset, e))[0])
		}
		tris = append(tris, ks)
		return true
	})
	want := [][]string{{"vertices[k0]", "vertices[k1.bufIndex]", "vertices[k3.bufIndex]"}, {"vertices[k0]", "vertices[k3.bufIndex]", "vertices[k2.bufIndex]"}}
	okT := fmt.Sprint(tris) == fmt.Sprint(want)
	r.check("K2", "dc3v2.generateTriangles|quad-order", fd.Pos(), okT, fmt.Sprintf("triangles %v (expected (k0,k1,k3),(k0,k3,k2))", tris))
	// flip predicate text: ((inside >> edge.X) & 1) != uint8(ai&1)
	flipTxt := ""
	ast.Inspect(fd.Body, func(n ast.Node) bool {
		if is, ok := n.(*ast.IfStmt); ok {
			body := exprText(ctx.Fset, is.Cond)
			hasFlip := false
			ast.Inspect(is.Body, func(m ast.Node) bool {
				if ce, ok := m.(*ast.CallExpr); ok {
					if id, ok := ce.Fun.(*ast.Ident); ok && id.Name == "dcFlip" {
						hasFlip = true
					}
				}
				return true
			})
			if hasFlip {
				flipTxt = body
			}
		}
		return true
	})
	flipNeq := strings.Contains(flipTxt, "edge.X") && strings.Contains(flipTxt, "!=") && strings.Contains(flipTxt, "ai&1")
	flipEq := strings.Contains(flipTxt, "edge.X") && strings.Contains(flipTxt, "==") && strings.Contains(flipTxt, "ai&1")
	if !flipNeq && !flipEq {
		r.undecided("K2", "dc3v2.generateTriangles|flip-predicate", fd.Pos(), "flip predicate not recognised: "+flipTxt)
		return
	}
	// geometric verdict per axis and per sign of the low corner
	okO := okT
	detail := ""
	for ai := 0; ai < 3; ai++ {
		lo, hi := far[ai][0], far[ai][1]
		d := iv3{int(corners[hi][0] - corners[lo][0]), int(corners[hi][1] - corners[lo][1]), int(corners[hi][2] - corners[lo][2])}
		if d != unitI(ai) {
			okO = false
			detail += fmt.Sprintf(" far edge %d is not along axis %d from low to high;", ai, ai)
			continue
		}
		k1, k3 := offs[ai][0], offs[ai][2]
		n := crossI(k1, k3) // normal of (k0,k1,k3)
		for lowSolid := 0; lowSolid < 2; lowSolid++ {
			flip := lowSolid != ai&1
			if flipEq {
				flip = !flip
			}
			nn := n
			if flip {
				nn = iv3{-n[0], -n[1], -n[2]}
			}
			// outward = +axis when the low end is solid
			wantSign := -1
			if lowSolid == 1 {
				wantSign = 1
			}
			if nn[ai]*wantSign <= 0 {
				okO = false
				detail += fmt.Sprintf(" axis %d, low end solid=%d: normal %v points into the solid;", ai, lowSolid, nn)
			}
		}
		// the three neighbours are the cells sharing the far edge
		a, b := (ai+1)%3, (ai+2)%3
		cells := map[iv3]bool{offs[ai][0]: true, offs[ai][1]: true, offs[ai][2]: true}
		if !cells[unitI(a)] || !cells[unitI(b)] || !cells[unitI(a).add(unitI(b))] {
			okO = false
			detail += fmt.Sprintf(" axis %d: neighbours %v are not the three other cells around the far edge;", ai, offs[ai])
		}
	}
	r.check("K2", "dc3v2.generateTriangles|normals-point-from-solid-to-void", fd.Pos(), okO, "for each axis and both sign cases of the far edge"+detail)
	// K3
	fn := ctx.ssaFunc("render/dc", "(*DualContouringV2).generateTriangles")
	if fn != nil {
		n := 0
		allInstrs(fn, func(b *ssa.BasicBlock, ins ssa.Instruction) {
			s, ok := ins.(*ssa.Send)
			if !ok {
				return
			}
			n++
			cnt := 0
			for _, g := range branchGuards(b) {
				if _, ok := isCallTo(g.cond, "Degenerate"); ok && !g.val {
					cnt++
				}
			}
			r.check("K3", fmt.Sprintf("dc3v2.generateTriangles|send#%d", n), s.Pos(), cnt >= 2, fmt.Sprintf("both triangles of a quad are tested with !Degenerate before they are emitted (%d tests dominate the send)", cnt))
		})
		if n == 0 {
			r.undecided("K3", "dc3v2.generateTriangles", fn.Pos(), "no emission found")
		}
	}
}

func collectOffsets(p interface{}, blk *ast.BlockStmt, ai int, out map[int][]iv3) {
	if _, done := out[ai]; done {
		return
	}
	ast.Inspect(blk, func(n ast.Node) bool {
		if is, ok := n.(*ast.IfStmt); ok {
			_ = is
			return false // nested else-if handled by the caller
		}
		cl, ok := n.(*ast.CompositeLit)
		if !ok || len(cl.Elts) != 3 {
			return true
		}
		var v iv3
		for i, e := range cl.Elts {
			if bl, ok := e.(*ast.BasicLit); ok {
				fmt.Sscan(bl.Value, &v[i])
			} else {
				return true
			}
		}
		out[ai] = append(out[ai], v)
		return true
	})
}

func readFloatVecTable(ctx *Ctx, pkg, name string) ([][3]float64, token.Pos, error) {
	p := ctx.Pkgs[pkg]
	cl, pos := pkgVarLit(p, name, ctx.Controls, ctx.Fset)
	if cl == nil {
		return nil, token.NoPos, fmt.Errorf("table %s not found", name)
	}
	var out [][3]float64
	for _, el := range cl.Elts {
		c, ok := el.(*ast.CompositeLit)
		if !ok || len(c.Elts) != 3 {
			return nil, pos, fmt.Errorf("element shape")
		}
		var row [3]float64
		for i, x := range c.Elts {
			tv, ok := p.TypesInfo.Types[x]
			if !ok || tv.Value == nil {
				return nil, pos, fmt.Errorf("non-constant")
			}
			r, _ := constantToRat(tv.Value)
			row[i], _ = r.Float64()
		}
		out = append(out, row)
	}
	return out, pos, nil
}

func readVecTableI(ctx *Ctx, pkg, name string) ([][]int, token.Pos, error) {
	p := ctx.Pkgs[pkg]
	cl, pos := pkgVarLit(p, name, ctx.Controls, ctx.Fset)
	if cl == nil {
		return nil, token.NoPos, fmt.Errorf("table %s not found", name)
	}
	var out [][]int
	for _, el := range cl.Elts {
		c, ok := el.(*ast.CompositeLit)
		if !ok {
			return nil, pos, fmt.Errorf("element shape")
		}
		var row []int
		for _, x := range c.Elts {
			tv, ok := p.TypesInfo.Types[x]
			if !ok || tv.Value == nil {
				return nil, pos, fmt.Errorf("non-constant")
			}
			r, _ := constantToRat(tv.Value)
			row = append(row, int(r.Num().Int64()))
		}
		out = append(out, row)
	}
	return out, pos, nil
}

// neqZeroSources follows phi edges to the comparisons `x != 0` that feed them.
func neqZeroSources(v ssa.Value, depth int, seen map[ssa.Value]bool) []*ssa.BinOp {
	if depth > 4 || seen[v] {
		return nil
	}
	seen[v] = true
	switch x := v.(type) {
	case *ssa.Phi:
		var out []*ssa.BinOp
		for _, e := range x.Edges {
			out = append(out, neqZeroSources(e, depth+1, seen)...)
		}
		return out
	case *ssa.BinOp:
		if x.Op == token.NEQ {
			if z, ok := constInt(x.Y); ok && z == 0 {
				return []*ssa.BinOp{x}
			}
		}
	}
	return nil
}
