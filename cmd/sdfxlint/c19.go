package main

// C19 — dual contouring: the stitching tables and orientation rules.
//
// A one-level refinement model of the octree (8 children at the offsets of
// dcChildMinOffsets, cells 2 units wide) is built in the checker and every
// stitching table of render/dc/dc3v1.go is verified against it:
//
//  K1a child offsets: index = 4x+2y+z ↔ (x,y,z) ∈ {0,1}³; dcVertMap agrees
//  K1b dcEdgevmap: the 12 cube edges, grouped x,y,z, each ordered low → high
//  K1c dcCellProcFaceMask: the 12 pairs of children adjacent along `dir`
//  K1d dcCellProcEdgeMask: per axis the two quadruples of children around the
//      interior edge, in the block order (0,0),(0,1),(1,0),(1,1) of the (u,v)
//      axes with (u,v,dir) right-handed (so 0→1→3→2 is one fixed sense)
//  K1e dcFaceProcFaceMask: for two cells adjacent across a face, the 4 pairs
//      of children touching across it
//  K1f dcFaceProcEdgeMask: the 4 edges inside the shared face: which cell each
//      quad member comes from, which child, in the block order of its axis
//  K1g dcEdgeProcEdgeMask: for 4 cells around an edge, the children touching
//      each half of it
//  K1h dcProcessEdgeMask: the local edge of cell j that is the shared edge
//  K2  orientation: quads are emitted (0,1,3),(0,3,2) resp. flipped, flip ⇔
//      the low end of the edge is solid, corner bit ⇔ Evaluate < 0: with K1d
//      the normal points from solid to void; dc3v2: far edges, neighbour
//      offsets, quad order and flip predicate give outward normals on all axes
//  K3  dc3v2 emits only behind its degenerate test
//  K5  per-axis tests in render/dc cover each axis once (copy/paste lint)
//  K6  every octree corner sample position is one function of the integer lattice index
//  K7  Populate's lattice pruning never discards a node that overlaps the sampled lattice
//  K8  dc3v2 voxels tile the box: Min + cells·cellSize ≡ Max, starts advance by cellSize
//  K9  a child skipped on a distance evaluation: evaluated at the centre of its world box,
//      threshold not below that box's half diagonal (refuted on lattice configurations)
//  K10 nextPowerOfTwo(v) is the smallest power of two >= v (constant evaluation of the function
//      for v = 1..1100 and around every power of two up to 2^20): the octree's halving only
//      tiles a cube whose side is a power of two
//  K11 warn-once blocks (if !flag { log; flag = true }) contain nothing but the message and the
//      flag: what is returned or emitted must not depend on whether the warning was already given
//
// Not decided: QEF placement, distances, the acknowledged boundary holes.

import (
	"fmt"
	"go/ast"
	"go/token"
	"go/types"
	"golang.org/x/tools/go/ssa/ssautil"
	"math"
	"math/big"
	"regexp"
	"sort"
	"strconv"
	"strings"

	"golang.org/x/tools/go/ssa"
)

func init() { register("C19", checkC19) }

type iv3 [3]int

func (a iv3) add(b iv3) iv3 { return iv3{a[0] + b[0], a[1] + b[1], a[2] + b[2]} }
func (a iv3) sub(b iv3) iv3 { return iv3{a[0] - b[0], a[1] - b[1], a[2] - b[2]} }
func unitI(d int) iv3       { var u iv3; u[d] = 1; return u }
func crossI(a, b iv3) iv3 {
	return iv3{a[1]*b[2] - a[2]*b[1], a[2]*b[0] - a[0]*b[2], a[0]*b[1] - a[1]*b[0]}
}

func checkC19(ctx *Ctx, r *Report, tier string) {
	r.Explain = "The dual-contouring stitching tables are verified exhaustively against a one-level refinement model of the octree built from the repository's own child offsets (adjacent child pairs, interior-edge quadruples in a fixed right-handed block order, face/edge recursion masks, local-edge lookup), and the orientation rule (emission order, flip predicate, corner-sign convention) is shown to produce normals from solid to void in both renderers; the degenerate filter of the voxel renderer and a per-axis copy/paste lint are checked. Vertex placement (QEF), distances and the documented boundary holes are not decided; determinism lints for these renderers run under C09. Also: the octree's lattice pruning over all small configurations, voxel tiling of the V2 renderer, distance culling (if any) against the node's true half diagonal, nextPowerOfTwo on 1150 arguments, warn-once blocks."
	r.Exhaust = true
	r.Trusted = []string{"go/types", "go/ssa", "the refinement model in the checker"}
	r.Assume = []string{"surface strictly inside the sampled volume"}
	// v3i.Vec literals are structs: read them through the struct-literal reader
	offs, opos, err := readVecTableI(ctx, "render/dc", "dcChildMinOffsets")
	if err != nil || len(offs) != 8 {
		r.undecided("K1a", "dcChildMinOffsets", opos, fmt.Sprint(err))
		return
	}
	var child [8]iv3
	idxOf := map[iv3]int{}
	ok := true
	for i, o := range offs {
		if len(o) != 3 {
			ok = false
			continue
		}
		child[i] = iv3{o[0], o[1], o[2]}
		if o[0]*4+o[1]*2+o[2] != i || o[0]&^1 != 0 || o[1]&^1 != 0 || o[2]&^1 != 0 {
			ok = false
		}
		idxOf[child[i]] = i
	}
	r.check("K1a", "dcChildMinOffsets|index-is-4x+2y+z", opos, ok && len(idxOf) == 8, fmt.Sprint(offs))
	if !ok {
		return
	}
	if vm, _, p, err := ctx.table2("render/dc", "dcVertMap"); err == nil {
		r.check("K1a", "dcVertMap|same-numbering", p, fmt.Sprint(vm) == fmt.Sprint(offs), "corner numbering equals child numbering")
	}
	// K1b
	ev, _, epos, err := ctx.table2("render/dc", "dcEdgevmap")
	if err != nil || len(ev) != 12 {
		r.undecided("K1b", "dcEdgevmap", epos, fmt.Sprint(err))
		return
	}
	edgeAxis := make([]int, 12)
	seenE := map[[2]int]bool{}
	okE := true
	for i, e := range ev {
		d := child[e[1]].sub(child[e[0]])
		ax := -1
		for k := 0; k < 3; k++ {
			if d == unitI(k) {
				ax = k
			}
		}
		edgeAxis[i] = ax
		if ax != i/4 || seenE[[2]int{e[0], e[1]}] {
			okE = false
		}
		seenE[[2]int{e[0], e[1]}] = true
	}
	r.check("K1b", "dcEdgevmap|12-edges-grouped-by-axis-low-to-high", epos, okE, fmt.Sprint(ev))
	// (u,v) axes per dir from the first quadruple of dcCellProcEdgeMask
	ce, _, cepos, err := ctx.table2("render/dc", "dcCellProcEdgeMask")
	if err != nil || len(ce) != 6 {
		r.undecided("K1d", "dcCellProcEdgeMask", cepos, fmt.Sprint(err))
		return
	}
	var uAx, vAx [3]int
	for i, row := range ce {
		if len(row) != 5 {
			r.check("K1d", fmt.Sprintf("dcCellProcEdgeMask[%d]", i), cepos, false, "row shape")
			continue
		}
		dir := row[4]
		c := [4]iv3{child[row[0]], child[row[1]], child[row[2]], child[row[3]]}
		okR := dir >= 0 && dir < 3
		detail := ""
		if okR {
			// same dir-coordinate; block order
			dv, du := c[1].sub(c[0]), c[2].sub(c[0])
			u, v := -1, -1
			for k := 0; k < 3; k++ {
				if dv == unitI(k) {
					v = k
				}
				if du == unitI(k) {
					u = k
				}
			}
			okR = u >= 0 && v >= 0 && u != dir && v != dir && u != v && c[3] == c[0].add(du).add(dv)
			for _, x := range c {
				if x[dir] != c[0][dir] {
					okR = false
				}
			}
			if okR {
				// right-handed (u, v, dir)
				okR = crossI(unitI(u), unitI(v)) == unitI(dir)
				if !okR {
					detail = "block axes (u,v,dir) are not right-handed: the quad sense differs from the other axes"
				}
				if i%2 == 0 {
					uAx[dir], vAx[dir] = u, v
				} else if uAx[dir] != u || vAx[dir] != v {
					okR = false
					detail = "the two quadruples of this axis use different block orders"
				}
				if c[0][dir] != i%2 {
					// first row: children on the low side of dir, second: high side
					okR = okR && (c[0][dir] == 0 || c[0][dir] == 1)
				}
			}
		}
		r.check("K1d", fmt.Sprintf("dcCellProcEdgeMask[%d]", i), cepos, okR, fmt.Sprintf("%v %s", row, detail))
	}
	// both halves of each axis present
	halves := map[[2]int]bool{}
	for _, row := range ce {
		if len(row) == 5 && row[4] >= 0 && row[4] < 3 {
			halves[[2]int{row[4], child[row[0]][row[4]]}] = true
		}
	}
	r.check("K1d", "dcCellProcEdgeMask|six-interior-edges", cepos, len(halves) == 6, "two interior half-edges per axis")
	block := func(dir, j int) iv3 {
		var p iv3
		p[uAx[dir]] = j / 2
		p[vAx[dir]] = j % 2
		return p
	}
	// K1c
	if cf, _, p, err := ctx.table2("render/dc", "dcCellProcFaceMask"); err == nil {
		seen := map[[2]int]bool{}
		okC := len(cf) == 12
		for _, row := range cf {
			if len(row) != 3 || row[2] < 0 || row[2] > 2 || child[row[1]].sub(child[row[0]]) != unitI(row[2]) {
				okC = false
				continue
			}
			seen[[2]int{row[0], row[1]}] = true
		}
		r.check("K1c", "dcCellProcFaceMask|12-adjacent-child-pairs", p, okC && len(seen) == 12, fmt.Sprint(cf))
	} else {
		r.undecided("K1c", "dcCellProcFaceMask", p, err.Error())
	}
	// K1e
	if ff, p, err := ctx.table3("render/dc", "dcFaceProcFaceMask"); err == nil {
		okF := len(ff) == 3
		for dir, rows := range ff {
			seen := map[int]bool{}
			for _, row := range rows {
				if len(row) != 3 || row[2] != dir {
					okF = false
					continue
				}
				a, b := child[row[0]], child[row[1]]
				// node[0] is the low cell: its child on the high side; node[1]'s child on the low side; same other coordinates
				if a[dir] != 1 || b[dir] != 0 {
					okF = false
				}
				for k := 0; k < 3; k++ {
					if k != dir && a[k] != b[k] {
						okF = false
					}
				}
				seen[row[0]] = true
			}
			if len(rows) != 4 || len(seen) != 4 {
				okF = false
			}
		}
		r.check("K1e", "dcFaceProcFaceMask|children-touching-across-the-shared-face", p, okF, "for each axis the 4 pairs (high-side child of the low cell, low-side child of the high cell) with equal other coordinates")
	} else {
		r.undecided("K1e", "dcFaceProcFaceMask", p, err.Error())
	}
	// K1f
	if fe, p, err := ctx.table3("render/dc", "dcFaceProcEdgeMask"); err == nil {
		orders := [2][4]int{{0, 0, 1, 1}, {0, 1, 0, 1}}
		okAll := len(fe) == 3
		detail := ""
		for dir, rows := range fe {
			seenEdge := map[string]bool{}
			for ri, row := range rows {
				if len(row) != 6 || row[0] < 0 || row[0] > 1 || row[5] < 0 || row[5] > 2 || row[5] == dir {
					okAll = false
					detail += fmt.Sprintf(" [%d][%d] shape;", dir, ri)
					continue
				}
				ed := row[5]
				var pos [4]iv3
				for j := 0; j < 4; j++ {
					pos[j] = child[row[1+j]]
					if orders[row[0]][j] == 1 {
						pos[j] = pos[j].add(iv3{2 * unitI(dir)[0], 2 * unitI(dir)[1], 2 * unitI(dir)[2]})
					}
				}
				// block around an edge along ed, in that axis's block order
				base := pos[0]
				okR := true
				for j := 0; j < 4; j++ {
					if pos[j] != base.add(block(ed, j)) {
						okR = false
					}
				}
				// the edge lies in the shared face: the block straddles dir-coordinate 1|2
				if !(base[dir] == 1) {
					okR = false
				}
				if !okR {
					okAll = false
					detail += fmt.Sprintf(" [%d][%d]=%v: members at %v are not the block (0,0),(0,1),(1,0),(1,1) around an edge along axis %d inside the shared face;", dir, ri, row, pos, ed)
				}
				seenEdge[fmt.Sprint(ed, base)] = true
			}
			if len(rows) != 4 || len(seenEdge) != 4 {
				okAll = false
				detail += fmt.Sprintf(" axis %d: %d distinct in-face edges;", dir, len(seenEdge))
			}
		}
		r.check("K1f", "dcFaceProcEdgeMask|in-face-edges", p, okAll, "4 edges per shared face (2 per in-face axis), each as a block of sub-cells in the canonical order;"+detail)
	} else {
		r.undecided("K1f", "dcFaceProcEdgeMask", p, err.Error())
	}
	// K1g
	if ee, p, err := ctx.table3("render/dc", "dcEdgeProcEdgeMask"); err == nil {
		okAll := len(ee) == 3
		detail := ""
		for dir, rows := range ee {
			if len(rows) != 2 {
				okAll = false
				continue
			}
			for half, row := range rows {
				if len(row) != 5 || row[4] != dir {
					okAll = false
					continue
				}
				for j := 0; j < 4; j++ {
					// cell j sits at block(dir,j); its child touching the shared edge has the opposite block coordinates
					want := iv3{}
					b := block(dir, j)
					want[uAx[dir]] = 1 - b[uAx[dir]]
					want[vAx[dir]] = 1 - b[vAx[dir]]
					want[dir] = half
					if child[row[j]] != want {
						okAll = false
						detail += fmt.Sprintf(" [%d][%d][%d]=%d, expected child %d;", dir, half, j, row[j], idxOf[want])
					}
				}
			}
		}
		r.check("K1g", "dcEdgeProcEdgeMask|children-touching-each-half-of-the-edge", p, okAll, detail)
	} else {
		r.undecided("K1g", "dcEdgeProcEdgeMask", p, err.Error())
	}
	// K1h
	if pe, _, p, err := ctx.table2("render/dc", "dcProcessEdgeMask"); err == nil {
		okAll := len(pe) == 3
		detail := ""
		for dir, row := range pe {
			if len(row) != 4 {
				okAll = false
				continue
			}
			for j := 0; j < 4; j++ {
				b := block(dir, j)
				var lo iv3
				lo[uAx[dir]] = 1 - b[uAx[dir]]
				lo[vAx[dir]] = 1 - b[vAx[dir]]
				hi := lo.add(unitI(dir))
				want := -1
				for e, vv := range ev {
					if child[vv[0]] == lo && child[vv[1]] == hi {
						want = e
					}
				}
				if row[j] != want {
					okAll = false
					detail += fmt.Sprintf(" [%d][%d]=%d, expected edge %d;", dir, j, row[j], want)
				}
			}
		}
		r.check("K1h", "dcProcessEdgeMask|local-edge-of-each-cell-is-the-shared-edge", p, okAll, detail)
	} else {
		r.undecided("K1h", "dcProcessEdgeMask", p, err.Error())
	}
	checkDCOrientationV1(ctx, r)
	checkLeafCornerLattice(ctx, r)
	checkOctreePruning(ctx, r)
	checkDCV2(ctx, r)
	checkVoxelTiling(ctx, r)
	checkDistanceCulling(ctx, r)
	checkVertexLockBounds(ctx, r)
	checkOneLatticeForBothPasses(ctx, r)
	checkVoxelCornerLattice(ctx, r)
	checkTreeSettingsInherited(ctx, r)
	checkLatticeToWorld(ctx, r)
	checkRootCoversAllAxes(ctx, r)
	checkSolveKeepsAccumulators(ctx, r)
	checkSampleCacheKey(ctx, r)
	degenerateToleranceZero(ctx, r, "K3", "render/dc")
	checkPowerOfTwo(ctx, r)
	checkWarnOnceBlocks(ctx, r)
	n := 0
	for _, f := range axisLint(ctx, "render/dc") {
		n++
		r.check("K5", f.key, f.pos, f.ok, f.detail)
	}
	r.floor("K5", 4)
	r.expectControl("K5", "verifCtlFarFromCell")
	r.floor("K1d", 7)
}

// checkDCOrientationV1: K2 for the octree renderer.
func checkDCOrientationV1(ctx *Ctx, r *Report) {
	fn := ctx.ssaFunc("render/dc", "dcContourProcessEdge")
	leaf := ctx.ssaFunc("render/dc", "(*dcOctree).computeOctreeLeaf")
	if fn == nil || leaf == nil {
		r.undecided("K2", "dcContourProcessEdge", 0, "not found")
		return
	}
	// corner bit ⇔ Evaluate < 0
	bitSolid := false
	allInstrs(leaf, func(b *ssa.BasicBlock, ins ssa.Instruction) {
		bo, ok := ins.(*ssa.BinOp)
		if !ok || bo.Op != token.LSS {
			return
		}
		if c, ok := bo.X.(*ssa.Call); ok && c.Call.IsInvoke() && c.Call.Method.Name() == "Evaluate" {
			if z, ok := bo.Y.(*ssa.Const); ok && z.Value != nil && z.Float64() == 0 {
				// the comparison feeds the branch that sets the bit
				for _, ref := range *bo.Referrers() {
					if iff, ok := ref.(*ssa.If); ok {
						for _, i2 := range iff.Block().Succs[0].Instrs {
							if b2, ok := i2.(*ssa.BinOp); ok && b2.Op == token.OR {
								bitSolid = true
							}
						}
					}
				}
			}
		}
	})
	r.check("K2", "computeOctreeLeaf|corner-bit-means-solid", leaf.Pos(), bitSolid, "bit i of `corners` is set iff Evaluate(corner i) < 0")
	// emission orders per flip branch, read from the symbolic execution of the function (its
	// four-iteration loop is unrolled): every append event carries its path condition, whose
	// last conjunct is the flip flag or its negation, and the values it appends.
	ev := newEval(ctx)
	ev.evalRoot(fn)
	seq := map[string][]int64{}
	var flipTerm *Term
	okShape := !ev.Exceeded
	shapeDetail := ""
	for _, e := range eventsOf(ev, "append") {
		cs := conjuncts(e.Cond)
		if len(cs) == 0 {
			okShape = false
			shapeDetail = "append without a path condition"
			continue
		}
		last := cs[len(cs)-1]
		g := "true"
		if last.Op == "not" {
			last, g = last.Args[0], "false"
		}
		if flipTerm == nil {
			flipTerm = last
		} else if flipTerm.Key() != last.Key() {
			okShape = false
			shapeDetail = "appends are guarded by different flags: " + shortKey(flipTerm.Key(), 80) + " / " + shortKey(last.Key(), 80)
		}
		for _, v := range appendedVals(e) {
			k := int64(-1)
			if t, ok := v.(*Term); ok && t.Op == "a" {
				var kk int64
				if n, _ := fmt.Sscanf(t.S, "node[%d].drawInfo.index", &kk); n == 1 && t.S == fmt.Sprintf("node[%d].drawInfo.index", kk) {
					k = kk
				}
			}
			seq[g] = append(seq[g], k)
		}
	}
	okSeq := okShape && fmt.Sprint(seq["false"]) == "[0 1 3 0 3 2]" && fmt.Sprint(seq["true"]) == "[0 3 1 0 2 3]"
	r.check("K2", "dcContourProcessEdge|quad-orders", fn.Pos(), okSeq && flipTerm != nil,
		fmt.Sprintf("not flipped: %v (expected 0 1 3 0 3 2: sense −dir for a right-handed block), flipped: %v (expected the reverse sense) %s", seq["false"], seq["true"], shapeDetail))
	// flip ⇔ low end of the edge solid: every value the flag can take is
	// ((corners >> dcEdgevmap[edge][0]) & 1) != 0 of one of the four nodes (or its initial false)
	lowEnd := flipTerm != nil
	nLeaf := 0
	detail := ""
	if flipTerm != nil {
		for _, lf := range iteLeaves(flipTerm) {
			if lf.IsZero() {
				continue // initial value, overwritten by the first node (size < MaxInt)
			}
			nLeaf++
			c := lf
			neg := false
			if c.Op == "not" {
				c, neg = c.Args[0], true
			}
			ok := neg && c.Op == "cmp" && c.S == "==" && (c.Args[0].IsZero() || c.Args[1].IsZero())
			if ok {
				bit := c.Args[0]
				if bit.IsZero() {
					bit = c.Args[1]
				}
				// op&(op>>(node[i].drawInfo.corners, dcEdgevmap[...][0]), 1)
				ok = bit.Op == "call" && bit.S == "op&" && len(bit.Args) == 2
				if ok {
					sh, one := bit.Args[0], bit.Args[1]
					if sh.IsOne() {
						sh, one = one, sh
					}
					ok = one.IsOne() && sh.Op == "call" && sh.S == "op>>" && strings.HasSuffix(sh.Args[0].Key(), ".drawInfo.corners") &&
						strings.Contains(sh.Args[1].Key(), "dcEdgevmap") && strings.HasSuffix(strings.TrimSuffix(sh.Args[1].Key(), ")"), "[0]")
				}
			}
			if !ok {
				lowEnd = false
				detail += " flag value " + shortKey(lf.Key(), 120) + ";"
			}
		}
	}
	r.check("K2", "dcContourProcessEdge|flip-iff-low-end-of-the-edge-is-solid", fn.Pos(), lowEnd && nLeaf > 0, "flip = (corner at dcEdgevmap[edge][0]) != 0: with low→high edges (K1b) and right-handed blocks (K1d) the emitted normal points from solid to void"+detail)
}

// conjuncts splits a right-nested conjunction ite(a, ite(b, c, 0), 0) into [a b c].
func conjuncts(c *Term) []*Term {
	var out []*Term
	for c != nil {
		if c.Op == "ite" && c.Args[2].IsZero() {
			out = append(out, conjuncts(c.Args[0])...)
			c = c.Args[1]
			continue
		}
		if !c.IsOne() {
			out = append(out, c)
		}
		break
	}
	return out
}

// iteLeaves returns the values a gated term can take.
func iteLeaves(t *Term) []*Term {
	if t.Op == "ite" {
		return append(iteLeaves(t.Args[1]), iteLeaves(t.Args[2])...)
	}
	return []*Term{t}
}

// appendedVals returns the values an append event adds (its variadic slice, read from the
// state snapshot of the event).
func appendedVals(e Event) []Val {
	var out []Val
	for _, a := range e.Args[1:] {
		sv, ok := a.(*SliceV)
		if !ok || sv.Arr == nil {
			out = append(out, a)
			continue
		}
		agg, ok := e.State.mem[sv.Arr].(*Agg)
		if !ok {
			out = append(out, a)
			continue
		}
		hi := len(agg.Elems)
		if sv.Len >= 0 && sv.Lo+sv.Len <= hi {
			hi = sv.Lo + sv.Len
		}
		for i := sv.Lo; i < hi; i++ {
			out = append(out, agg.Elems[i])
		}
	}
	return out
}

// checkDCV2: K2/K3 for the voxel renderer (dc3v2.go), decided on the symbolic execution of
// generateTriangles: its axis loop is unrolled, the immutable tables dcFarEdges/dcCorners are
// read from their literals, and each emission (send) is examined in its state snapshot.
func checkDCV2(ctx *Ctx, r *Report) {
	fn := ctx.ssaFunc("render/dc", "(*DualContouringV2).generateTriangles")
	cin := voxelCornersFn(ctx)
	if fn == nil || cin == nil {
		r.undecided("K2", "dc3v2.generateTriangles", 0, "not found")
		return
	}
	corners, _, err1 := readFloatVecTable(ctx, "render/dc", "dcCorners")
	if err1 != nil || len(corners) != 8 {
		r.undecided("K2", "dc3v2.tables", fn.Pos(), fmt.Sprint(err1))
		return
	}
	// --- corner bit i ⇔ the SDF is negative at dcCorners[i]
	{
		savedCap := termCap
		termCap = 200000
		ev := newEval(ctx, "evaluateCached")
		res, _ := ev.evalRoot(cin)
		termCap = savedCap
		t, _ := res.(*Term)
		ok := t != nil && !ev.Exceeded && t.Op != "top"
		detail := ""
		if ok {
			seenA := map[string]bool{}
			var atoms []*Term
			for _, a := range findSub(t, func(x *Term) bool { return x.Op == "cmp" }) {
				if !seenA[a.Key()] {
					seenA[a.Key()] = true
					atoms = append(atoms, a)
				}
			}
			ok = len(atoms) == 8
			detail = fmt.Sprintf("%d sign tests", len(atoms))
			// the sample points: per axis two coordinates, a low one and a high one a cell size apart
			sample := func(a *Term) []*Term {
				if a.Op == "cmp" && a.S == "<" && a.Args[1].IsZero() && a.Args[0].Op == "call" && len(a.Args[0].Args) == 2 && a.Args[0].Args[1].Op == "agg" && len(a.Args[0].Args[1].Args) == 3 {
					return a.Args[0].Args[1].Args
				}
				return nil
			}
			var lo, hi [3]*Term
			sizeN := ""
			for i, p := range cin.Params {
				if strings.Contains(strings.ToLower(p.Name()), "size") {
					sizeN = paramName(cin, i)
				}
			}
			for ax := 0; ok && ax < 3; ax++ {
				coords := map[string]*Term{}
				for _, a := range atoms {
					if pt := sample(a); pt != nil {
						coords[pt[ax].Key()] = pt[ax]
					}
				}
				if len(coords) != 2 || sizeN == "" {
					ok = false
					detail = fmt.Sprintf("axis %s: %d distinct sample coordinates (expected a low and a high one)", axes3[ax], len(coords))
					break
				}
				var cs []*Term
				for _, c := range coords {
					cs = append(cs, c)
				}
				switch {
				case equalRat(stripConv(Sub(cs[1], cs[0])), A(sizeN+"."+axes3[ax])):
					lo[ax], hi[ax] = cs[0], cs[1]
				case equalRat(stripConv(Sub(cs[0], cs[1])), A(sizeN+"."+axes3[ax])):
					lo[ax], hi[ax] = cs[1], cs[0]
				default:
					ok = false
					detail = fmt.Sprintf("axis %s: the two sample coordinates are not one cell size apart", axes3[ax])
				}
			}
			for c := 0; ok && c < 8; c++ {
				// the sample point of corner c
				var pt [3]*Term
				for ax := 0; ax < 3; ax++ {
					pt[ax] = lo[ax]
					if corners[c][ax] != 0 {
						pt[ax] = hi[ax]
					}
				}
				want := aggT(pt[0], pt[1], pt[2]).Key()
				truth := map[string]bool{}
				hit := 0
				for _, a := range atoms {
					isC := sample(a) != nil && a.Args[0].Args[1].Key() == want
					truth[a.Key()] = isC
					if isC {
						hit++
					}
				}
				g := assume(t, truth)
				if hit != 1 || !g.IsConst() || g.C.Cmp(big.NewRat(1<<uint(c), 1)) != 0 {
					ok = false
					detail = fmt.Sprintf("only corner %d solid (sample at %s): result %s, expected %d", c, shortKey(want, 120), shortKey(g.Key(), 80), 1<<uint(c))
				}
			}
		} else {
			detail = "not a closed form"
		}
		r.check("K2", "dc3v2.computeCornersInside|corner-bit-means-solid", cin.Pos(), ok, "bit i of the result is set iff the distance at the cell's corner dcCorners[i] (low/high coordinate per axis, a cell size apart) is negative; "+detail)
	}
	// --- emissions
	vertexNames = map[string]map[string]bool{}
	ev := newEval(ctx, cin.Name(), "Degenerate")
	ev.evalRoot(fn)
	sends := eventsOf(ev, "send")
	r.check("K2", "dc3v2.generateTriangles|one-emission-per-axis", fn.Pos(), len(sends) == 3 && !ev.Exceeded, fmt.Sprintf("%d emissions found on the unrolled axis loop (expected 3)", len(sends)))
	if len(sends) != 3 {
		return
	}
	okO := true
	detail := ""
	for ai, e := range sends {
		bad := func(f string, a ...interface{}) {
			okO = false
			detail += fmt.Sprintf(" axis %d: ", ai) + fmt.Sprintf(f, a...) + ";"
		}
		// the crossing test names the far edge: !(bit(lo) == bit(hi))
		lo, hi := -1, -1
		var inside *Term
		nDegen := 0
		for _, c := range conjuncts(e.Cond) {
			if c.Op == "not" && c.Args[0].Op == "cmp" && c.Args[0].S == "==" {
				b1, x1, ok1 := cornerBit(c.Args[0].Args[0])
				b2, x2, ok2 := cornerBit(c.Args[0].Args[1])
				if ok1 && ok2 && x1.Key() == x2.Key() {
					lo, hi, inside = b1, b2, x1
				}
			}
			if c.Op == "not" && strings.Contains(c.Args[0].Key(), "Degenerate") {
				nDegen++
			}
		}
		r.check("K3", fmt.Sprintf("dc3v2.generateTriangles|send#%d", ai+1), e.Pos, nDegen >= 2, fmt.Sprintf("both triangles of a quad are tested with !Degenerate before they are emitted (%d tests on the path)", nDegen))
		if lo < 0 || lo > 7 || hi < 0 || hi > 7 {
			bad("no crossing test of the two ends of a far edge on the path to the emission")
			continue
		}
		d := iv3{int(corners[hi][0] - corners[lo][0]), int(corners[hi][1] - corners[lo][1]), int(corners[hi][2] - corners[lo][2])}
		axis := -1
		for k := 0; k < 3; k++ {
			if d == unitI(k) {
				axis = k
			}
		}
		if axis < 0 {
			bad("the tested corners %d→%d are not a lattice edge from low to high", lo, hi)
			continue
		}
		// the cell's far corner is 7: the edge must end there (the three cells sharing it are +1 neighbours)
		if hi != 7 {
			bad("the tested edge %d→%d does not end at the far corner", lo, hi)
		}
		// the two triangles
		tris, flipAtom, msg := sentTriangles(e)
		if msg != "" {
			bad("%s", msg)
			continue
		}
		// flip ⇔ f(low bit): the atom compares the low-end bit with a constant
		var parity int64 = -1
		if flipAtom != nil && flipAtom.Op == "cmp" && flipAtom.S == "==" {
			for k := 0; k < 2; k++ {
				bt, x, ok := cornerBit(flipAtom.Args[k])
				o := flipAtom.Args[1-k]
				if ok && bt == lo && x.Key() == inside.Key() && o.IsConst() && o.C.IsInt() {
					parity = o.C.Num().Int64()
				}
			}
		}
		if flipAtom == nil || parity < 0 {
			bad("the winding does not depend on the low-end bit of the tested edge (flip atom %v)", flipAtom)
			continue
		}
		a, b := (axis+1)%3, (axis+2)%3
		for lowSolid := int64(0); lowSolid < 2; lowSolid++ {
			truth := map[string]bool{flipAtom.Key(): lowSolid == parity}
			cells := map[iv3]int{}
			for ti, tri := range tris {
				var offs [3]iv3
				okT := true
				for vi, x := range tri {
					o, ok := vertexOffset(assume(x, truth))
					if !ok {
						okT = false
						bad("vertex %d of triangle %d is not vertices[<cell>.bufIndex]: %s", vi, ti, shortKey(assume(x, truth).Key(), 100))
					}
					offs[vi] = o
				}
				if !okT {
					continue
				}
				if offs[0] != (iv3{}) {
					bad("triangle %d does not start at the cell's own vertex", ti)
				}
				n := crossI(offs[1].sub(offs[0]), offs[2].sub(offs[0]))
				want := -1
				if lowSolid == 1 {
					want = 1 // low end solid: outward is +axis
				}
				if n[axis]*want <= 0 {
					bad("low end solid=%d: triangle %d has normal %v, pointing into the solid", lowSolid, ti, n)
				}
				cells[offs[1]]++
				cells[offs[2]]++
			}
			ua, ub := unitI(a), unitI(b)
			if cells[ua] != 1 || cells[ub] != 1 || cells[ua.add(ub)] != 2 || len(cells) != 3 {
				bad("low end solid=%d: the quad does not join the three other cells around the far edge along their diagonal: %v", lowSolid, cells)
			}
		}
	}
	r.check("K2", "dc3v2.generateTriangles|normals-point-from-solid-to-void", fn.Pos(), okO, "for each axis and both sign cases of the far edge, from the emitted vertex order"+detail)
}

// cornerCoord is the key of cellStart.A + c·cellSize.A for c in {0,1}.
func cornerCoord(ax string, c float64) string {
	if c == 0 {
		return A("cellStart." + ax).Key()
	}
	return Add(A("cellStart."+ax), A("cellSize."+ax)).Key()
}

// cornerBit matches (x >> k) & 1 with constant k.
func cornerBit(t *Term) (int, *Term, bool) {
	if t.Op == "conv" {
		t = t.Args[0]
	}
	if t.Op != "call" || t.S != "op&" || len(t.Args) != 2 {
		return 0, nil, false
	}
	sh, one := t.Args[0], t.Args[1]
	if sh.IsOne() {
		sh, one = one, sh
	}
	if !one.IsOne() || sh.Op != "call" || sh.S != "op>>" {
		return 0, nil, false
	}
	k := sh.Args[1]
	if k.Op == "conv" {
		k = k.Args[0]
	}
	if !k.IsConst() || !k.C.IsInt() {
		return 0, nil, false
	}
	return int(k.C.Num().Int64()), sh.Args[0], true
}

// sentTriangles reads the two triangles of a send event: per triangle the X component term of
// each of its three vertices (a gated term when the winding is conditional), and the single
// condition atom the winding depends on.
func sentTriangles(e Event) (tris [][3]*Term, flip *Term, msg string) {
	if len(e.Args) < 2 {
		return nil, nil, "send without a value"
	}
	atoms := map[string]*Term{}
	var read func(v Val) ([][3]*Term, string)
	read = func(v Val) ([][3]*Term, string) {
		if alt, isAlt := v.(*Alt); isAlt && alt.C != nil {
			// the quad written out once per winding: `if flip { t = {..} } else { t = {..} }`
			ta, ma := read(alt.A)
			tb, mb := read(alt.B)
			if ma != "" || mb != "" {
				return nil, ma + mb
			}
			if len(ta) != len(tb) {
				return nil, "the two windings emit different numbers of triangles"
			}
			var out [][3]*Term
			for i := range ta {
				var tri [3]*Term
				for k := 0; k < 3; k++ {
					tri[k] = Ite(alt.C, ta[i][k], tb[i][k])
				}
				out = append(out, tri)
			}
			return out, ""
		}
		sv, ok := v.(*SliceV)
		if !ok || sv.Arr == nil {
			return nil, "the value sent is not a locally built slice"
		}
		agg, ok := e.State.mem[sv.Arr].(*Agg)
		if !ok {
			return nil, "slice contents unknown"
		}
		hi := len(agg.Elems)
		if sv.Len >= 0 && sv.Lo+sv.Len <= hi {
			hi = sv.Lo + sv.Len
		}
		var out [][3]*Term
		for i := sv.Lo; i < hi; i++ {
			p, ok := agg.Elems[i].(*Ptr)
			if !ok || p.Obj == nil {
				return nil, fmt.Sprintf("element %d of the sent slice is not a single triangle object (%s)", i, shortKey(valKey(agg.Elems[i]), 80))
			}
			tv, ok := e.State.mem[p.Obj].(*Agg)
			if !ok || len(tv.Elems) != 3 {
				return nil, "triangle contents unknown"
			}
			var tri [3]*Term
			for k, v := range tv.Elems {
				xv, _ := fieldOf(v, "X")
				x, ok := xv.(*Term)
				if !ok {
					return nil, "vertex component is not a scalar term"
				}
				tri[k] = x
			}
			out = append(out, tri)
		}
		return out, ""
	}
	tris, msg = read(e.Args[1])
	if msg != "" {
		return nil, nil, msg
	}
	for _, tri := range tris {
		for _, x := range tri {
			for _, c := range condAtoms(x) {
				atoms[c.Key()] = c
			}
		}
	}
	if len(tris) != 2 {
		return nil, nil, fmt.Sprintf("%d triangles emitted per crossing, expected 2", len(tris))
	}
	if len(atoms) > 1 {
		return nil, nil, fmt.Sprintf("the winding depends on %d conditions", len(atoms))
	}
	for _, c := range atoms {
		flip = c
	}
	return tris, flip, ""
}

var (
	reLookupOff = regexp.MustCompile(`^([\w.]+)\[lookup\(sym:([\w.]+),\{(.*)\}\)\.bufIndex\]\.X$`)
	reSelfVert  = regexp.MustCompile(`^([\w.]+)\[([\w.]+)\[[^\[\]]*\]\.bufIndex\]\.X$`)
	reCellPart  = regexp.MustCompile(`^(?:\+\((-?\d+),)?([\w.]+)\[[^\[\]]*\]\.cellIndex\.([XYZ])\)?$`)
)

// vertexNames: the names the vertex list, the voxel list and the voxel map go by in the terms
// of one check (parameters, or fields of a parameter); each must be used consistently.
var vertexNames = map[string]map[string]bool{}

func noteVertexName(kind, name string) bool {
	if vertexNames[kind] == nil {
		vertexNames[kind] = map[string]bool{}
	}
	vertexNames[kind][name] = true
	return len(vertexNames[kind]) == 1
}

// vertexOffset: the cell, relative to the current one, whose vertex the term reads:
// vertices[info[i].bufIndex].X is the cell itself, vertices[lookup(infoI,{cellIndex+o}).bufIndex].X
// the neighbour at offset o.
func vertexOffset(t *Term) (iv3, bool) {
	if t.Op != "a" {
		return iv3{}, false
	}
	if m := reSelfVert.FindStringSubmatch(t.S); m != nil && !strings.Contains(t.S, "lookup(") {
		return iv3{}, noteVertexName("vertices", m[1]) && noteVertexName("voxels", m[2])
	}
	m := reLookupOff.FindStringSubmatch(t.S)
	if m == nil {
		return iv3{}, false
	}
	if !noteVertexName("vertices", m[1]) || !noteVertexName("map", m[2]) {
		return iv3{}, false
	}
	parts := splitTop(m[3])
	if len(parts) != 3 {
		return iv3{}, false
	}
	var o iv3
	for i, p := range parts {
		pm := reCellPart.FindStringSubmatch(p)
		if pm == nil || pm[3] != axes3[i] || (pm[1] == "") != !strings.HasSuffix(p, ")") || !noteVertexName("voxels", pm[2]) {
			return iv3{}, false
		}
		if pm[1] != "" {
			k, err := strconv.Atoi(pm[1])
			if err != nil {
				return iv3{}, false
			}
			o[i] = k
		}
	}
	return o, true
}

// splitTop splits a space separated list at nesting depth 0.
func splitTop(s string) []string {
	var out []string
	depth, start := 0, 0
	for i, c := range s {
		switch c {
		case '(', '[', '{':
			depth++
		case ')', ']', '}':
			depth--
		case ' ':
			if depth == 0 {
				out = append(out, s[start:i])
				start = i + 1
			}
		}
	}
	return append(out, s[start:])
}

func readFloatVecTable(ctx *Ctx, pkg, name string) ([][3]float64, token.Pos, error) {
	p := ctx.Pkgs[pkg]
	cl, pos := pkgVarLit(p, name, ctx.Controls, ctx.Fset)
	if cl == nil {
		return nil, token.NoPos, fmt.Errorf("table %s not found", name)
	}
	var out [][3]float64
	for _, el := range cl.Elts {
		c, ok := el.(*ast.CompositeLit)
		if !ok || len(c.Elts) != 3 {
			return nil, pos, fmt.Errorf("element shape")
		}
		var row [3]float64
		for i, x := range c.Elts {
			tv, ok := p.TypesInfo.Types[x]
			if !ok || tv.Value == nil {
				return nil, pos, fmt.Errorf("non-constant")
			}
			r, _ := constantToRat(tv.Value)
			row[i], _ = r.Float64()
		}
		out = append(out, row)
	}
	return out, pos, nil
}

func readVecTableI(ctx *Ctx, pkg, name string) ([][]int, token.Pos, error) {
	p := ctx.Pkgs[pkg]
	cl, pos := pkgVarLit(p, name, ctx.Controls, ctx.Fset)
	if cl == nil {
		return nil, token.NoPos, fmt.Errorf("table %s not found", name)
	}
	var out [][]int
	for _, el := range cl.Elts {
		c, ok := el.(*ast.CompositeLit)
		if !ok {
			return nil, pos, fmt.Errorf("element shape")
		}
		var row []int
		for _, x := range c.Elts {
			tv, ok := p.TypesInfo.Types[x]
			if !ok || tv.Value == nil {
				return nil, pos, fmt.Errorf("non-constant")
			}
			r, _ := constantToRat(tv.Value)
			row = append(row, int(r.Num().Int64()))
		}
		out = append(out, row)
	}
	return out, pos, nil
}

// ---------------------------------------------------------------- K6: shared corner samples

// checkLeafCornerLattice: a lattice corner is shared by up to eight octree leaves, and every
// leaf decides the corner's sign from its own evaluation of the SDF there. The leaves agree -
// and the surface closes - only if they evaluate at bit-identical coordinates, i.e. if the
// position is one floating-point function of the integer lattice index (leaf offset + corner
// offset, added as integers). A position assembled in floating point from the leaf's origin
// plus a multiple of the cell size is rounded differently in neighbouring leaves. Decided on
// float-faithful terms of the eight corner evaluations of computeOctreeLeaf (loop unrolled).
func checkLeafCornerLattice(ctx *Ctx, r *Report) {
	fn := ctx.ssaFunc("render/dc", "(*dcOctree).computeOctreeLeaf")
	key := "computeOctreeLeaf|corner-positions-are-one-function-of-the-integer-lattice-index"
	if fn == nil {
		r.undecided("K6", key, 0, "not found")
		return
	}
	ev := newEval(ctx, "dcApproximateZeroCrossingPosition", "dcCalculateSurfaceNormal")
	ev.faithful = true
	ev.evalRoot(fn)
	var corners []Event
	for _, e := range ev.Events {
		if e.Callee == "invoke:d.Evaluate" || strings.HasSuffix(e.Callee, ".Evaluate") && strings.HasPrefix(e.Callee, "invoke:") {
			corners = append(corners, e)
		}
	}
	if len(corners) < 8 || ev.Exceeded {
		r.check("K6", key, fn.Pos(), false, fmt.Sprintf("%d corner evaluations found on the unrolled corner loop (expected 8)", len(corners)))
		return
	}
	corners = corners[:8]
	recv := paramName(fn, 0)
	ok := true
	detail := ""
	var shape0 [3]string
	for ci, e := range corners {
		m := map[string]*Term{}
		if len(e.Args) > 0 {
			leafTerms("", e.Args[len(e.Args)-1], m)
		}
		for ai, ax := range []string{"X", "Y", "Z"} {
			t := m["."+ax]
			if t == nil {
				ok = false
				detail += fmt.Sprintf(" corner %d: position is not a closed form;", ci)
				continue
			}
			atom := recv + ".minOffset." + ax
			// the maximal integer sub-terms that carry the leaf offset
			nInt := 0
			shape := rebuildRaw(t, func(x *Term) *Term {
				if x.Op == "conv" && strings.HasPrefix(x.S, "float") {
					as := map[string]bool{}
					x.Atoms(as)
					if as[atom] {
						if hasFloatOp(x.Args[0]) {
							return nil
						}
						nInt++
						return A("□")
					}
				}
				return nil
			})
			as := map[string]bool{}
			shape.Atoms(as)
			if as[atom] || nInt == 0 {
				ok = false
				detail += fmt.Sprintf(" corner %d axis %s: the leaf offset enters the position outside an integer lattice index (%s);", ci, ax, shortKey(t.Key(), 140))
				continue
			}
			if ci == 0 {
				shape0[ai] = shape.Key()
			} else if shape.Key() != shape0[ai] {
				ok = false
				detail += fmt.Sprintf(" corner %d axis %s is computed by a different sequence of operations than corner 0;", ci, ax)
			}
		}
	}
	if len(detail) > 700 {
		detail = detail[:700] + "…"
	}
	r.check("K6", key, fn.Pos(), ok, "every corner sample position is F(float(leaf offset + corner offset)) with one F: neighbouring leaves evaluate shared corners at identical coordinates;"+detail)
	r.floor("K6", 1)
}

// rebuildRaw maps f over t top-down without re-normalising (float-faithful terms must keep their shape).
func rebuildRaw(t *Term, f func(*Term) *Term) *Term {
	if r := f(t); r != nil {
		return r
	}
	if len(t.Args) == 0 {
		return t
	}
	args := make([]*Term, len(t.Args))
	for i, a := range t.Args {
		args[i] = rebuildRaw(a, f)
	}
	return &Term{Op: t.Op, S: t.S, Args: args, C: t.C}
}

func hasFloatOp(t *Term) bool {
	return len(findSub(t, func(x *Term) bool { return x.Op == "f+" || x.Op == "f*" || x.Op == "f/" || x.Op == "fneg" })) > 0
}

// ---------------------------------------------------------------- K7: octree pruning

// checkOctreePruning: Populate discards a node (and with it every leaf below) when an integer
// test on its lattice range says it lies outside the sampled volume. relToSDF maps the lattice
// indices [0, cellCounts] onto the bounding box, so a node [m, m+size] that overlaps that range
// on every axis must never be discarded: its cells carry surface. The test is read as a
// closed-form condition from the source and evaluated (in the checker, integer arithmetic
// with Go's truncating division) on every octree configuration with up to 16 cells per axis:
// mesh size M in {2,4,8,16}, cell count c in 1..M, node size a power of two, node origin a
// multiple of its size. Exhaustive over that finite family, one axis varied at a time.
func checkOctreePruning(ctx *Ctx, r *Report) {
	fn := ctx.ssaFunc("render/dc", "(*dcOctree).Populate")
	key := "Populate|never-discards-a-node-that-overlaps-the-sampled-lattice"
	if fn == nil {
		r.undecided("K7", key, 0, "not found")
		return
	}
	ev := newEval(ctx, "computeOctreeLeaf")
	ev.evalRoot(fn)
	recv := paramName(fn, 0)
	var prune *Term
	for _, alt := range ev.RootRets {
		if alt.Cond == nil || alt.Cond.IsConst() {
			continue
		}
		as := map[string]bool{}
		alt.Cond.Atoms(as)
		if as[recv+".cellCounts.X"] && len(conjuncts(alt.Cond)) <= 1 {
			prune = alt.Cond
			break
		}
	}
	if prune == nil {
		// no early return at all: nothing is ever discarded
		r.check("K7", key, fn.Pos(), true, "no pruning return found: every node is populated")
		r.floor("K7", 1)
		return
	}
	atoms := map[string]bool{}
	prune.Atoms(atoms)
	known := map[string]bool{recv + ".meshSize": true, recv + ".size": true}
	for _, ax := range []string{"X", "Y", "Z"} {
		known[recv+".minOffset."+ax] = true
		known[recv+".cellCounts."+ax] = true
	}
	for a := range atoms {
		if !known[a] {
			r.undecided("K7", key, fn.Pos(), "the pruning test depends on "+a+", which the lattice model does not bind")
			return
		}
	}
	n, bad := 0, 0
	detail := ""
	ri := func(v int64) *big.Rat { return big.NewRat(v, 1) }
	for axis, ax := range []string{"X", "Y", "Z"} {
		for _, M := range []int64{2, 4, 8, 16} {
			for c := int64(1); c <= M; c++ {
				for s := int64(2); s <= M; s *= 2 {
					for m := int64(0); m+s <= M; m += s {
						env := map[string]*big.Rat{recv + ".meshSize": ri(M), recv + ".size": ri(s)}
						for k, o := range []string{"X", "Y", "Z"} {
							if k == axis {
								env[recv+".minOffset."+o] = ri(m)
								env[recv+".cellCounts."+o] = ri(c)
							} else {
								env[recv+".minOffset."+o] = ri(0)
								env[recv+".cellCounts."+o] = ri(M)
							}
						}
						n++
						overlaps := m < c
						pruned := evalT(prune, env).Sign() != 0
						if overlaps && pruned {
							bad++
							if bad <= 3 {
								detail += fmt.Sprintf(" axis %s: mesh %d, %d cells, node [%d,%d] is discarded although cells %d..%d are sampled;", ax, M, c, m, m+s, m, minI64(m+s, c))
							}
						}
					}
				}
			}
		}
	}
	r.Counts["octree_configurations"] = n
	r.check("K7", key, fn.Pos(), bad == 0, fmt.Sprintf("%d configurations (mesh ≤ 16 per axis) evaluated on the closed form of the pruning test, %d wrongly discarded;%s", n, bad, detail))
	r.floor("K7", 1)
}

func minI64(a, b int64) int64 {
	if a < b {
		return a
	}
	return b
}

// ---------------------------------------------------------------- K8: the voxel lattice of the V2 renderer

// checkVoxelTiling: placeVertices visits cells (i,j,k), 0 <= index < cells, and hands each to
// placeVertex as (cellStart, cellCentre, cellSize). The cells have to tile the sampled box: the
// start of cell `cells` on every axis is the box's Max (with a fixed nominal size and a
// truncated cell count a strip at the Max side is never sampled and the mesh is open there),
// consecutive starts differ by cellSize, the centre is start + size/2.
func checkVoxelTiling(ctx *Ctx, r *Report) {
	fn := ctx.ssaFunc("render/dc", "(*DualContouringV2).placeVertices")
	if fn == nil {
		r.undecided("K8", "placeVertices", 0, "not found")
		return
	}
	ev := newEval(ctx, "placeVertex", "BoundingBox")
	ev.evalRoot(fn)
	es := eventsOf(ev, ".placeVertex")
	if len(es) != 1 || ev.Exceeded {
		r.undecided("K8", "placeVertices", fn.Pos(), fmt.Sprintf("%d placeVertex calls, expected 1", len(es)))
		return
	}
	var vecs [][]*Term
	for _, a := range es[0].Args {
		if pt := pointTerms(a, 3); pt != nil {
			vecs = append(vecs, pt)
		}
	}
	if len(vecs) < 3 {
		r.undecided("K8", "placeVertices", es[0].Pos, "placeVertex is not called with (start, centre, size) vectors")
		return
	}
	start, centre, size := vecs[len(vecs)-3], vecs[len(vecs)-2], vecs[len(vecs)-1]
	cells := paramName(fn, 2)
	ok, detail := true, ""
	for i, ax := range []string{"X", "Y", "Z"} {
		// the running index of this axis
		idx := map[string]*Term{}
		for _, c := range findSub(start[i], func(x *Term) bool {
			return x.Op == "conv" && len(x.Args) == 1 && x.Args[0].Op == "a" && strings.HasPrefix(x.Args[0].S, "μ")
		}) {
			idx[c.Key()] = c
		}
		if len(idx) != 1 {
			ok = false
			detail += fmt.Sprintf(" axis %s: cell start is not a function of one running index: %s;", ax, shortKey(start[i].Key(), 120))
			continue
		}
		var ik string
		for k := range idx {
			ik = k
		}
		at := func(t *Term, v *Term) *Term { return substKeys(t, map[string]*Term{ik: v}) }
		base := at(start[i], K(0))
		mirror := map[string]*Term{}
		for _, a := range atomList(base) {
			if strings.Contains(a, ".Min.") {
				mirror[a] = A(strings.Replace(a, ".Min.", ".Max.", 1))
			}
		}
		if len(mirror) == 0 {
			ok = false
			detail += fmt.Sprintf(" axis %s: cell 0 does not start at a box Min: %s;", ax, shortKey(base.Key(), 100))
			continue
		}
		end := at(start[i], Conv("float64", A(cells+"."+ax)))
		if !equalRat(stripConv(end), stripConv(substAtoms(base, mirror))) {
			ok = false
			detail += fmt.Sprintf(" axis %s: cell number `cells` starts at %s, the box ends at %s;", ax, shortKey(stripConv(end).Key(), 140), shortKey(substAtoms(base, mirror).Key(), 80))
		}
		if !equalRat(Sub(at(start[i], K(1)), base), size[i]) {
			ok = false
			detail += fmt.Sprintf(" axis %s: consecutive cell starts differ by %s, the cell size passed on is %s;", ax, shortKey(Sub(at(start[i], K(1)), base).Key(), 100), shortKey(size[i].Key(), 100))
		}
		if !equalRat(centre[i], Add(start[i], Mul(KR(big.NewRat(1, 2)), size[i]))) {
			ok = false
			detail += fmt.Sprintf(" axis %s: centre is not start + size/2;", ax)
		}
		// every cell of the axis is visited: the running index is bounded by `cells` itself
		mu := idx[ik].Args[0]
		bound := ""
		for _, c := range conjuncts(es[0].Cond) {
			g := c
			if g.Op == "not" {
				continue
			}
			if g.Op == "cmp" && len(g.Args) == 2 && g.Args[0].Key() == mu.Key() && (g.S == "<" || g.S == "<=") {
				bound = g.S + " " + g.Args[1].Key()
			}
		}
		if bound != "< "+cells+"."+ax {
			ok = false
			detail += fmt.Sprintf(" axis %s: the cell index runs while it is %q, expected \"< %s.%s\" (every cell, the outermost layer included: a surface within one cell of the far faces has its vertices there);", ax, bound, cells, ax)
		}
	}
	r.check("K8", "placeVertices|cells-tile-the-box", es[0].Pos, ok, "Min + cells·cellSize ≡ Max, starts advance by cellSize, centre = start + size/2 on every axis;"+detail)
	r.floor("K8", 1)
}

// ---------------------------------------------------------------- K9: distance based culling of octree nodes

// checkDistanceCulling: when Populate skips a child because the shape's distance at some point
// exceeds a threshold, the point has to be the centre of the child's world box and the
// threshold at least the box's half diagonal - of the box this octree really gives the node:
// relToSDF stretches `cellCounts` cells over the bounding box on each axis, so cells are not
// cubes. The centre is compared as a rational identity; the bound is *refuted* by evaluating
// both closed forms on lattice configurations (a configuration with threshold < half diagonal
// culls a node whose corner region the surface can still cross). No refutation is not a proof:
// the evidence says how many configurations were tried.
func checkDistanceCulling(ctx *Ctx, r *Report) {
	fn := ctx.ssaFunc("render/dc", "(*dcOctree).Populate")
	rel := ctx.ssaFunc("render/dc", "(*dcOctree).relToSDF")
	key := "Populate|distance-culling"
	if fn == nil || rel == nil {
		r.undecided("K9", key, 0, "Populate or relToSDF not found")
		return
	}
	ev := newEval(ctx, "computeOctreeLeaf")
	ev.evalRoot(fn)
	hasEval := func(t *Term) bool {
		return len(findSub(t, func(x *Term) bool { return x.Op == "call" && strings.HasSuffix(x.S, ".Evaluate") })) > 0
	}
	type cull struct {
		e Event
		c *Term
	}
	var culls []cull
	for _, e := range ev.Events {
		if !(strings.HasPrefix(e.Callee, "rec:") && strings.HasSuffix(e.Callee, ".Populate")) && !strings.HasSuffix(e.Callee, ".computeOctreeLeaf") {
			continue
		}
		for _, c := range conjuncts(e.Cond) {
			if hasEval(c) {
				culls = append(culls, cull{e, c})
			}
		}
	}
	if len(culls) == 0 {
		r.check("K9", key, fn.Pos(), true, "no child is skipped on the strength of a distance evaluation")
		r.floor("K9", 1)
		return
	}
	evr := newEval(ctx)
	res, _ := evr.evalRoot(rel)
	W := pointTerms(res, 3)
	if W == nil {
		r.undecided("K9", key, fn.Pos(), "lattice-to-world map is not a closed form")
		return
	}
	idx := paramName(rel, 2)
	recv := paramName(fn, 0)
	world := func(ax int, off *Term) *Term {
		t := substAtoms(W[ax], map[string]*Term{idx + "." + []string{"X", "Y", "Z"}[ax]: off})
		// relToSDF's receiver and Populate's receiver share their lattice fields
		return rebuild(t, func(x *Term) *Term {
			if x.Op == "a" && strings.HasPrefix(x.S, paramName(rel, 0)+".") {
				return A(recv + strings.TrimPrefix(x.S, paramName(rel, 0)))
			}
			return nil
		})
	}
	nRefuted, nCfg := 0, 0
	for i, cu := range culls {
		ck := fmt.Sprintf("%s#%d", key, i+1)
		if !cu.e.Pos.IsValid() {
			cu.e.Pos = fn.Pos()
		}
		g, neg := cu.c, false
		if g.Op == "not" {
			g, neg = g.Args[0], true
		}
		var abs, T *Term
		visitedIfSmall := false
		if g.Op == "cmp" && len(g.Args) == 2 {
			isAbs := func(x *Term) bool { return x.Op == "call" && x.S == "math.Abs" && hasEval(x) }
			switch {
			case isAbs(g.Args[0]) && !hasEval(g.Args[1]):
				abs, T = g.Args[0], g.Args[1]
				visitedIfSmall = (neg && (g.S == ">" || g.S == ">=")) || (!neg && (g.S == "<" || g.S == "<="))
			case isAbs(g.Args[1]) && !hasEval(g.Args[0]):
				abs, T = g.Args[1], g.Args[0]
				visitedIfSmall = (neg && (g.S == "<" || g.S == "<=")) || (!neg && (g.S == ">" || g.S == ">="))
			}
		}
		if abs == nil || !visitedIfSmall || abs.Args[0].Op != "call" || len(abs.Args[0].Args) != 1 || abs.Args[0].Args[0].Op != "agg" || len(abs.Args[0].Args[0].Args) != 3 {
			r.undecided("K9", ck, cu.e.Pos, "a child is skipped depending on a distance evaluation, but not in the form |d(centre)| > threshold: "+shortKey(cu.c.Key(), 160))
			continue
		}
		C := abs.Args[0].Args[0].Args
		// the child node
		var child Val
		if p, ok := cu.e.Args[0].(*Ptr); ok && p.Obj != nil {
			child = getPath(cu.e.State.mem[p.Obj], p.Path)
		} else if tp, ok := cu.e.Args[0].(*Tuple); ok && len(tp.Elems) > 0 {
			if p, ok := tp.Elems[0].(*Ptr); ok && p.Obj != nil {
				child = getPath(cu.e.State.mem[p.Obj], p.Path)
			}
		}
		mo, ok1 := fieldOf(child, "minOffset")
		sz, ok2 := fieldOf(child, "size")
		m := pointTerms(mo, 3)
		s, _ := sz.(*Term)
		if !ok1 || !ok2 || m == nil || s == nil {
			r.undecided("K9", ck, cu.e.Pos, "the skipped child's lattice position is not in closed form")
			continue
		}
		okC, detail := true, ""
		var half []*Term
		for ax := 0; ax < 3; ax++ {
			lo, hi := world(ax, m[ax]), world(ax, Add(m[ax], s))
			if !equalRat(stripConv(C[ax]), stripConv(Mul(KR(big.NewRat(1, 2)), Add(lo, hi)))) {
				okC = false
				detail += fmt.Sprintf(" axis %d: distance is taken at %s;", ax, shortKey(C[ax].Key(), 100))
			}
			half = append(half, Mul(KR(big.NewRat(1, 2)), Sub(hi, lo)))
		}
		r.check("K9", ck+"|distance-taken-at-the-node-centre", cu.e.Pos, okC, "the evaluation point is the centre of the child's world box;"+detail)
		// the bound, on lattice configurations
		bad, tried := "", 0
		for _, M := range []float64{4, 8, 16, 64} {
			for _, cc := range [][3]float64{{1, 1, 1}, {1, 0.5, 0.5}, {1, 0.25, 1}, {0.5, 1, 0.25}, {0.25, 0.5, 1}} {
				for _, bb := range [][3]float64{{2, 2, 2}, {4, 1, 1}, {1, 3, 2}, {1, 1, 5}} {
					for sz := 2.0; sz <= M; sz *= 2 {
						env := map[string]float64{recv + ".meshSize": M, recv + ".size": sz}
						for ax, a := range []string{"X", "Y", "Z"} {
							env[recv+".minOffset."+a] = 0
							env[recv+".cellCounts."+a] = math.Max(1, M*cc[ax])
							env["call:d.BoundingBox().Min."+a] = -bb[ax] / 2
							env["call:d.BoundingBox().Max."+a] = bb[ax] / 2
						}
						tv, ok := evalFloat(stripConv(T), env)
						h2 := 0.0
						for ax := 0; ax < 3 && ok; ax++ {
							var hv float64
							hv, ok = evalFloat(stripConv(half[ax]), env)
							h2 += hv * hv
						}
						if !ok {
							continue
						}
						tried++
						if tv < math.Sqrt(h2)*(1-1e-9) {
							nRefuted++
							if len(bad) < 300 {
								bad += fmt.Sprintf(" mesh %g, cells (%g,%g,%g), box %gx%gx%g, node size %g: threshold %.4g < half diagonal %.4g;", M, env[recv+".cellCounts.X"], env[recv+".cellCounts.Y"], env[recv+".cellCounts.Z"], bb[0], bb[1], bb[2], sz, tv, math.Sqrt(h2))
							}
						}
					}
				}
			}
		}
		nCfg += tried
		if tried == 0 {
			r.undecided("K9", ck+"|threshold-covers-the-half-diagonal", cu.e.Pos, "threshold or box extent could not be evaluated: "+shortKey(T.Key(), 120))
			continue
		}
		r.check("K9", ck+"|threshold-covers-the-half-diagonal", cu.e.Pos, bad == "", fmt.Sprintf("%d lattice configurations (non-cubic boxes, per-axis cell counts): the culling threshold must be at least the half diagonal of the child's world box;%s", tried, bad))
	}
	r.Counts["culling_configurations"] = nCfg
	r.floor("K9", 1)
}

// ---------------------------------------------------------------- K10 / K11

func checkPowerOfTwo(ctx *Ctx, r *Report) {
	fn := ctx.ssaFunc("render/dc", "nextPowerOfTwo")
	if fn == nil || len(fn.Params) != 1 {
		r.undecided("K10", "nextPowerOfTwo", 0, "not found")
		return
	}
	vals := map[int64]bool{}
	for v := int64(1); v <= 1100; v++ {
		vals[v] = true
	}
	for k := uint(1); k <= 20; k++ {
		for d := int64(-2); d <= 2; d++ {
			if v := int64(1)<<k + d; v >= 1 {
				vals[v] = true
			}
		}
	}
	var vs []int64
	for v := range vals {
		vs = append(vs, v)
	}
	sort.Slice(vs, func(i, j int) bool { return vs[i] < vs[j] })
	bad, n := "", 0
	pn := paramName(fn, 0)
	for _, v := range vs {
		ev := newEval(ctx)
		res, _ := ev.evalRootWith(fn, map[string]int64{pn: v})
		t, _ := res.(*Term)
		want := int64(1)
		for want < v {
			want <<= 1
		}
		n++
		if t == nil || !t.IsConst() || t.C.Cmp(big.NewRat(want, 1)) != 0 {
			g := "?"
			if t != nil {
				g = shortKey(t.Key(), 40)
			}
			if len(bad) < 200 {
				bad += fmt.Sprintf(" nextPowerOfTwo(%d) = %s, expected %d;", v, g, want)
			}
		}
	}
	r.Counts["power_of_two_arguments"] = n
	r.check("K10", "nextPowerOfTwo|smallest-power-of-two-not-below-the-argument", fn.Pos(), bad == "", fmt.Sprintf("%d arguments evaluated on the function's own closed form;%s", n, bad))
	r.floor("K10", 1)
}

// checkWarnOnceBlocks: the region controlled by `if !recv.flag` that also sets recv.flag = true.
func checkWarnOnceBlocks(ctx *Ctx, r *Report) {
	fx := newFxEngine(ctx)
	n := 0
	for _, fn := range ctx.srcFuncs("render/dc") {
		if len(fn.Blocks) == 0 {
			continue
		}
		fn := fn
		k := 0
		for _, b := range fn.Blocks {
			iff, ok := b.Instrs[len(b.Instrs)-1].(*ssa.If)
			if !ok {
				continue
			}
			// cond: !load(field) (true branch) or load(field) (false branch)
			cond := iff.Cond
			target := b.Succs[1]
			if u, ok := cond.(*ssa.UnOp); ok && u.Op == token.NOT {
				cond = u.X
				target = b.Succs[0]
			}
			ld, ok := cond.(*ssa.UnOp)
			if !ok || ld.Op != token.MUL {
				continue
			}
			fa, ok := ld.X.(*ssa.FieldAddr)
			if !ok {
				continue
			}
			// the region: blocks dominated by the branch target
			setsFlag := false
			var region []*ssa.BasicBlock
			for _, x := range fn.Blocks {
				if target.Dominates(x) && len(target.Preds) == 1 {
					region = append(region, x)
				}
			}
			for _, x := range region {
				for _, ins := range x.Instrs {
					if st, ok := ins.(*ssa.Store); ok {
						if fa2, ok := st.Addr.(*ssa.FieldAddr); ok && fa2.X == fa.X && fa2.Field == fa.Field {
							if c, ok := st.Val.(*ssa.Const); ok && c.Value != nil && c.Value.String() == "true" {
								setsFlag = true
							}
						}
					}
				}
			}
			if !setsFlag {
				continue
			}
			n++
			k++
			bad := ""
			for _, x := range region {
				for _, ins := range x.Instrs {
					switch y := ins.(type) {
					case *ssa.Return:
						bad += " a return inside the block (later calls take the other path);"
					case *ssa.Store:
						if fa2, ok := y.Addr.(*ssa.FieldAddr); ok && fa2.X == fa.X && fa2.Field == fa.Field {
							continue
						}
						if ia, ok := y.Addr.(*ssa.IndexAddr); ok {
							if _, isAlloc := ia.X.(*ssa.Alloc); isAlloc {
								continue // the variadic argument array of the log call
							}
						}
						bad += " a store other than the flag;"
					case *ssa.Call:
						if f := y.Call.StaticCallee(); f != nil && f.Pkg != nil {
							switch f.Pkg.Pkg.Path() {
							case "log", "fmt":
								continue
							}
							if inModule(f) {
								// a pure helper that formats an operand of the message
								pure := true
								for _, w := range fx.summarize(f).writes {
									if w.root.kind != "fresh" {
										pure = false
									}
								}
								if pure {
									continue
								}
							}
						}
						bad += " a call other than logging;"
					case *ssa.Send, *ssa.Go, *ssa.Defer, *ssa.MapUpdate, *ssa.Panic:
						bad += " an effect other than logging;"
					}
				}
			}
			// values defined in the region must not be used outside it
			for _, x := range region {
				for _, ins := range x.Instrs {
					v, ok := ins.(ssa.Value)
					if !ok || v.Referrers() == nil {
						continue
					}
					for _, ref := range *v.Referrers() {
						in := false
						for _, y := range region {
							if ref.Block() == y {
								in = true
							}
						}
						if !in {
							bad += " a value computed in the block is used after it;"
						}
					}
				}
			}
			wpos := fa.Pos()
			if !wpos.IsValid() {
				wpos = fn.Pos()
			}
			r.check("K11", fmt.Sprintf("%s|warn-once#%d|only-logs-and-sets-its-flag", shortFn(fn), k), wpos, bad == "", "the block runs once per renderer value: anything else in it makes the first occurrence behave differently from all later ones;"+bad)
		}
	}
	if n == 0 {
		r.check("K11", "render/dc|no-warn-once-blocks", 0, true, "no warn-once blocks")
	}
	r.floor("K11", 1)
}

// checkVertexLockBounds (K12): with vertex locking on, a QEF solution outside its own cell is
// replaced by the mass point. "Its own cell" is the world image of [minOffset, minOffset + size]
// on each axis. Decided on the closed form of dcBoundVertexPosition: the solution is compared
// below with W(minOffset) and above with W(minOffset + size), W the lattice-to-world map of
// relToSDF - an upper bound taken at the octree's (not the node's) far corner never fires and
// lets vertices leave the cell, the "within one cell of the surface" clause with them.
func checkVertexLockBounds(ctx *Ctx, r *Report) {
	fn := ctx.ssaFunc("render/dc", "dcBoundVertexPosition")
	rel := ctx.ssaFunc("render/dc", "(*dcOctree).relToSDF")
	if fn == nil && rel != nil {
		// under another name (or as a method of the node): the function that maps lattice
		// offsets to the world and falls back to the mass point
		for f := range ssautil.AllFunctions(ctx.Prog) {
			if !inModule(f) || f.Pkg == nil || !strings.HasSuffix(f.Pkg.Pkg.Path(), "/render/dc") || len(f.Blocks) == 0 || f.Parent() != nil {
				continue
			}
			mass, maps := false, false
			allInstrs(f, func(_ *ssa.BasicBlock, ins ssa.Instruction) {
				if c, ok := ins.(*ssa.Call); ok {
					if g := c.Call.StaticCallee(); g != nil {
						mass = mass || g.Name() == "MassPoint"
						maps = maps || g == rel
					}
				}
			})
			if mass && maps && (fn == nil || f.Pos() < fn.Pos()) {
				fn = f
			}
		}
	}
	key := "dcBoundVertexPosition|bounds-are-the-node's-own-cell"
	if fn == nil || rel == nil {
		r.undecided("K12", key, 0, "dcBoundVertexPosition or relToSDF not found")
		return
	}
	ev := newEval(ctx, "MassPoint")
	res, _ := ev.evalRoot(fn)
	evr := newEval(ctx)
	wres, _ := evr.evalRoot(rel)
	W := pointTerms(wres, 3)
	out := pointTerms(res, 3)
	if W == nil || out == nil {
		r.undecided("K12", key, fn.Pos(), "the function or the lattice-to-world map is not a closed form")
		return
	}
	sdfI, leafI, qI := -1, -1, -1
	for i, p := range fn.Params {
		ts := p.Type().String()
		switch {
		case strings.HasSuffix(ts, "sdf.SDF3") && sdfI < 0:
			sdfI = i
		case strings.HasSuffix(ts, "dc.dcOctree") && leafI < 0:
			leafI = i
		case strings.HasSuffix(ts, "v3.Vec") && qI < 0:
			qI = i
		}
	}
	if sdfI < 0 || leafI < 0 || qI < 0 {
		r.undecided("K12", key, fn.Pos(), "no (shape, node, position) parameters")
		return
	}
	leaf, q := paramName(fn, leafI), paramName(fn, qI)
	idx := paramName(rel, 2)
	world := func(ax int, off *Term) *Term {
		t := substAtoms(W[ax], map[string]*Term{idx + "." + axes3[ax]: off})
		t = rebuild(t, func(x *Term) *Term {
			if x.Op == "a" && strings.HasPrefix(x.S, paramName(rel, 0)+".") {
				return A(leaf + strings.TrimPrefix(x.S, paramName(rel, 0)))
			}
			return nil
		})
		// the SDF parameter carries a different name in the two functions
		return rebuild(t, func(x *Term) *Term {
			if x.Op == "a" && strings.HasPrefix(x.S, paramName(rel, 1)+".") {
				return A(paramName(fn, sdfI) + strings.TrimPrefix(x.S, paramName(rel, 1)))
			}
			if x.Op == "call" && strings.HasPrefix(x.S, paramName(rel, 1)+".") {
				return &Term{Op: "call", S: paramName(fn, sdfI) + strings.TrimPrefix(x.S, paramName(rel, 1)), Args: x.Args}
			}
			return nil
		})
	}
	var cmps []*Term
	for _, o := range out {
		cmps = append(cmps, findSub(o, func(x *Term) bool { return x.Op == "cmp" && len(x.Args) == 2 })...)
	}
	bad := ""
	nB := 0
	for ax := 0; ax < 3; ax++ {
		qa := q + "." + axes3[ax]
		lo := world(ax, A(leaf+".minOffset."+axes3[ax]))
		hi := world(ax, Add(A(leaf+".minOffset."+axes3[ax]), A(leaf+".size")))
		var gotLo, gotHi *Term
		for _, c := range cmps {
			a, b, op := c.Args[0], c.Args[1], c.S
			if b.Key() == qa {
				a, b = b, a
				op = map[string]string{"<": ">", ">": "<", "<=": ">=", ">=": "<="}[op]
			}
			if a.Key() != qa {
				continue
			}
			switch op {
			case "<", "<=":
				gotLo = b
			case ">", ">=":
				gotHi = b
			}
		}
		if gotLo == nil || gotHi == nil {
			bad += fmt.Sprintf(" axis %s: the solution is not compared with both ends of the cell;", axes3[ax])
			continue
		}
		nB += 2
		if !equalRat(stripConv(gotLo), stripConv(lo)) {
			bad += fmt.Sprintf(" axis %s: lower bound %s is not W(minOffset);", axes3[ax], shortKey(gotLo.Key(), 120))
		}
		if !equalRat(stripConv(gotHi), stripConv(hi)) {
			bad += fmt.Sprintf(" axis %s: upper bound %s is not W(minOffset + size);", axes3[ax], shortKey(gotHi.Key(), 120))
		}
	}
	r.check("K12", key, fn.Pos(), bad == "", fmt.Sprintf("%d bounds compared as rational identities with the world image of the node's lattice cell;%s", nB, bad))
	r.floor("K12", 1)
}

// checkOneLatticeForBothPasses (K13): the voxel renderer places vertices on the lattice of the
// padded box (its shape wrapper enlarges Max by 1e-12) and then stitches them by sampling the
// corners of each voxel again. Both passes must sample the same lattice: a corner recomputed from
// the shape's raw box differs from the placement pass's corner by the padding, and a face lying
// exactly on a grid plane is seen from one side only. Decided by a backward slice from the
// position arguments of every computeCornersInside call (through arithmetic, phis, parameters
// and their call sites): it may reach the wrapper's BoundingBox or geometry recorded on the
// voxel, never BoundingBox invoked on the wrapped interface value.
func checkOneLatticeForBothPasses(ctx *Ctx, r *Report) {
	target := voxelCornersFn(ctx)
	if target == nil {
		r.undecided("K13", "computeCornersInside", 0, "not found")
		return
	}
	n := 0
	for _, ref := range refsTo(ctx, target) {
		c, ok := ref.ins.(*ssa.Call)
		if !ok || c.Call.StaticCallee() != target || ctx.isControlPos(c.Pos()) {
			continue
		}
		n++
		var raw []string
		seen := map[ssa.Value]bool{}
		var back func(v ssa.Value, fn *ssa.Function, depth int)
		back = func(v ssa.Value, fn *ssa.Function, depth int) {
			if v == nil || seen[v] || depth > 40 {
				return
			}
			seen[v] = true
			switch x := v.(type) {
			case *ssa.Const, *ssa.Global, *ssa.Alloc:
				if a, ok := x.(*ssa.Alloc); ok {
					// a local: follow what is stored into it
					for _, rf := range *a.Referrers() {
						if st, ok := rf.(*ssa.Store); ok && st.Addr == ssa.Value(a) {
							back(st.Val, fn, depth+1)
						}
					}
				}
				return
			case *ssa.Parameter:
				for i, p := range x.Parent().Params {
					if p != x {
						continue
					}
					for _, cr := range refsTo(ctx, x.Parent()) {
						if cc, ok := cr.ins.(*ssa.Call); ok && cc.Call.StaticCallee() == x.Parent() && i < len(cc.Call.Args) {
							back(cc.Call.Args[i], cr.in, depth+1)
						}
					}
				}
				return
			case *ssa.UnOp:
				if x.Op == token.MUL {
					if _, isField := x.X.(*ssa.FieldAddr); isField {
						if al, ok := x.X.(*ssa.FieldAddr).X.(*ssa.Alloc); ok {
							back(al, fn, depth+1)
						}
						return // recorded on an object
					}
					if _, isIdx := x.X.(*ssa.IndexAddr); isIdx {
						return
					}
				}
				back(x.X, fn, depth+1)
				return
			case *ssa.Call:
				if x.Call.IsInvoke() && x.Call.Method.Name() == "BoundingBox" {
					raw = append(raw, ctx.pos(x.Pos()))
					return
				}
				if g := x.Call.StaticCallee(); g != nil && g.Name() == "BoundingBox" {
					return // the wrapper's padded box
				}
				for _, a := range x.Call.Args {
					back(a, fn, depth+1)
				}
				return
			}
			if ins, ok := v.(ssa.Instruction); ok {
				for _, op := range ins.Operands(nil) {
					if *op != nil {
						back(*op, fn, depth+1)
					}
				}
			}
		}
		for _, a := range c.Call.Args {
			// the position arguments: vectors of floats (not the receiver, the shape or the index)
			st, ok := a.Type().Underlying().(*types.Struct)
			if !ok || st.NumFields() == 0 {
				continue
			}
			if b, ok := st.Field(0).Type().Underlying().(*types.Basic); !ok || b.Info()&types.IsFloat == 0 {
				continue
			}
			back(a, ref.in, 0)
		}
		sort.Strings(raw)
		r.check("K13", fmt.Sprintf("%s|corner-positions#%d-come-from-the-placement-lattice", shortFn(ref.in), n), c.Pos(), len(raw) == 0,
			"the corner positions sampled here derive from the wrapper's padded box or from geometry recorded per voxel; raw BoundingBox() of the wrapped shape reached at: "+strings.Join(raw, ", "))
	}
	r.floor("K13", 2)
}

// checkVoxelCornerLattice (K14): K6 for the voxel renderer. A lattice corner is shared by up to
// eight voxels; each decides the corner's sign from its own evaluation there, and the quads
// close only if all of them evaluate at bit-identical coordinates. (Min + size·i) + size and
// Min + size·(i+1) differ by an ulp every few cells: a flat face lying between the two values
// is inside for one voxel and outside for its neighbour. Decided on float-faithful terms of the
// eight corner evaluations of computeCornersInside: each coordinate is one function F of
// float(voxel index + corner offset), the sum taken in integers.
func checkVoxelCornerLattice(ctx *Ctx, r *Report) {
	fn := voxelCornersFn(ctx)
	key := "computeCornersInside|corner-positions-are-one-function-of-the-integer-lattice-index"
	if fn == nil {
		r.undecided("K14", key, 0, "not found")
		return
	}
	ev := newEval(ctx, "evaluateCached")
	ev.faithful = true
	ev.evalRoot(fn)
	corners := eventsOf(ev, ".evaluateCached")
	if len(corners) < 8 || ev.Exceeded {
		r.check("K14", key, fn.Pos(), false, fmt.Sprintf("%d corner evaluations found on the unrolled corner loop (expected 8)", len(corners)))
		return
	}
	corners = corners[:8]
	// the voxel's integer index: a parameter that is a vector of integers
	idxN := ""
	for i, p := range fn.Params {
		if st, ok := p.Type().Underlying().(*types.Struct); ok && st.NumFields() == 3 {
			if b, ok := st.Field(0).Type().Underlying().(*types.Basic); ok && b.Info()&types.IsInteger != 0 {
				idxN = paramName(fn, i)
			}
		}
	}
	if idxN == "" {
		r.check("K14", key, fn.Pos(), false, "the corner positions are assembled in floating point from the voxel's origin (no integer voxel index reaches computeCornersInside): voxel i computes its far corners as (Min + size·i) + size, voxel i+1 the same corners as Min + size·(i+1)")
		r.floor("K14", 1)
		return
	}
	ok := true
	detail := ""
	var shape0 [3]string
	for ci, e := range corners {
		m := map[string]*Term{}
		if len(e.Args) > 0 {
			leafTerms("", e.Args[len(e.Args)-1], m)
		}
		for ai, ax := range []string{"X", "Y", "Z"} {
			t := m["."+ax]
			if t == nil {
				ok = false
				detail += fmt.Sprintf(" corner %d: position is not a closed form;", ci)
				continue
			}
			atom := idxN + "." + ax
			nInt := 0
			shape := rebuildRaw(t, func(x *Term) *Term {
				if x.Op == "conv" && strings.HasPrefix(x.S, "float") {
					as := map[string]bool{}
					x.Atoms(as)
					if as[atom] {
						if hasFloatOp(x.Args[0]) {
							return nil
						}
						nInt++
						return A("□")
					}
				}
				return nil
			})
			as := map[string]bool{}
			shape.Atoms(as)
			if as[atom] || nInt == 0 {
				ok = false
				detail += fmt.Sprintf(" corner %d axis %s: the voxel index enters the position outside an integer lattice index (%s);", ci, ax, shortKey(t.Key(), 140))
				continue
			}
			if ci == 0 {
				shape0[ai] = shape.Key()
			} else if shape.Key() != shape0[ai] {
				ok = false
				detail += fmt.Sprintf(" corner %d axis %s is computed by a different sequence of operations than corner 0;", ci, ax)
			}
		}
	}
	if len(detail) > 700 {
		detail = detail[:700] + "…"
	}
	r.check("K14", key, fn.Pos(), ok, "every corner sample position is F(float(voxel index + corner offset)) with one F: neighbouring voxels evaluate shared corners at identical coordinates;"+detail)
	r.floor("K14", 1)
}

// voxelCornersFn: the function of the voxel renderer that samples the eight corners of a voxel and
// returns their inside/outside bits - found by what it does (it calls the cached evaluation of
// the wrapped shape and returns an 8-bit mask), whatever it is called and whether it is a method.
func voxelCornersFn(ctx *Ctx) *ssa.Function {
	var out *ssa.Function
	for _, f := range ctx.srcFuncs("render/dc") {
		if len(f.Blocks) == 0 || f.Signature.Results().Len() != 1 {
			continue
		}
		if b, ok := f.Signature.Results().At(0).Type().Underlying().(*types.Basic); !ok || b.Kind() != types.Uint8 {
			continue
		}
		calls := false
		allInstrs(f, func(_ *ssa.BasicBlock, ins ssa.Instruction) {
			if c, ok := ins.(*ssa.Call); ok {
				if g := c.Call.StaticCallee(); g != nil && g.Name() == "evaluateCached" {
					calls = true
				}
			}
		})
		if calls && (out == nil || f.Pos() < out.Pos()) {
			out = f
		}
	}
	return out
}

// checkTreeSettingsInherited (K15): what the octree is built with (conditioning limit, vertex
// locking, lattice size) is a setting of the whole tree. dcNewOctree puts its parameters into
// fields of the root; every node Populate creates must carry the same values as its parent -
// a child literal that leaves one out gets the zero value, and e.g. vertex locking silently
// stops at the root (leaves place their vertices wherever the QEF puts them).
func checkTreeSettingsInherited(ctx *Ctx, r *Report) {
	nfn := ctx.ssaFunc("render/dc", "dcNewOctree")
	pfn := ctx.ssaFunc("render/dc", "(*dcOctree).Populate")
	if nfn == nil || pfn == nil {
		r.undecided("K15", "dcOctree", 0, "dcNewOctree or Populate not found")
		return
	}
	// settings: fields of the root that are a constructor parameter as it is
	ev0 := newEval(ctx)
	res0, st0 := ev0.evalRoot(nfn)
	root, ok := resultObject(res0, st0)
	if !ok {
		r.undecided("K15", "dcNewOctree", nfn.Pos(), "the root is not a fresh object")
		return
	}
	params := map[string]bool{}
	for i := range nfn.Params {
		params[paramName(nfn, i)] = true
	}
	ag, _ := root.(*Agg)
	var settings []string
	if ag != nil && ag.T != nil {
		if stt, ok := ag.T.Underlying().(*types.Struct); ok {
			for i := 0; i < stt.NumFields() && i < len(ag.Elems); i++ {
				m := map[string]*Term{}
				leafTerms("", ag.Elems[i], m)
				all := len(m) > 0
				for _, t := range m {
					if t.Op != "a" || !params[strings.SplitN(t.S, ".", 2)[0]] {
						all = false
					}
				}
				if all {
					settings = append(settings, stt.Field(i).Name())
				}
			}
		}
	}
	if len(settings) == 0 {
		r.undecided("K15", "dcNewOctree", nfn.Pos(), "no field of the root is set from a parameter")
		return
	}
	ev := newEval(ctx, "computeOctreeLeaf")
	ev.evalRoot(pfn)
	recv := paramName(pfn, 0)
	bad := ""
	nChildren := 0
	for _, e := range ev.Events {
		if !(strings.HasPrefix(e.Callee, "rec:") && strings.HasSuffix(e.Callee, ".Populate")) && !strings.HasSuffix(e.Callee, ".computeOctreeLeaf") {
			continue
		}
		var child Val
		switch a := e.Args[0].(type) {
		case *Ptr:
			if a.Obj != nil {
				child = getPath(e.State.mem[a.Obj], a.Path)
			}
		case *Tuple:
			if len(a.Elems) == 2 {
				child = a.Elems[1]
			}
		}
		if child == nil {
			continue
		}
		nChildren++
		for _, f := range settings {
			cv, ok := fieldOf(child, f)
			if !ok {
				continue
			}
			m := map[string]*Term{}
			leafTerms("", cv, m)
			for k, t := range m {
				want := recv + "." + f + k
				if t.Key() != want && !strings.Contains(bad, " "+f+" ") {
					bad += fmt.Sprintf(" %s of a child is %s, the parent's is %s;", f, shortKey(t.Key(), 60), want)
				}
			}
		}
	}
	if nChildren == 0 {
		r.undecided("K15", "Populate", pfn.Pos(), "no child node found")
		return
	}
	sort.Strings(settings)
	r.check("K15", "Populate|children-carry-the-tree's-settings", pfn.Pos(), bad == "", fmt.Sprintf("settings %v on %d child events;%s", settings, nChildren, bad))
	r.floor("K15", 1)
}

// degenerateToleranceZero: the filters that drop degenerate primitives before emission compare
// vertices for identity (tolerance 0). With a positive tolerance a primitive whose vertices are
// distinct but close is dropped as well and its neighbours lose the edges they shared with it.
func degenerateToleranceZero(ctx *Ctx, r *Report, rule string, pkgs ...string) {
	n := 0
	for _, fn := range ctx.srcFuncs(pkgs...) {
		if len(fn.Blocks) == 0 {
			continue
		}
		k := 0
		allInstrs(fn, func(_ *ssa.BasicBlock, ins ssa.Instruction) {
			c, ok := ins.(*ssa.Call)
			if !ok {
				return
			}
			g := c.Call.StaticCallee()
			if g == nil || g.Name() != "Degenerate" || !inModule(g) || len(c.Call.Args) != 2 {
				return
			}
			k++
			n++
			kc, isC := c.Call.Args[1].(*ssa.Const)
			zero := false
			if isC && kc.Value != nil {
				if q, ok := constantToRat(kc.Value); ok && q.Sign() == 0 {
					zero = true
				}
			}
			r.check(rule, fmt.Sprintf("%s|Degenerate#%d|tolerance-0", shortFn(fn), k), c.Pos(), zero, "the degenerate filter tests for identical vertices; tolerance argument: "+c.Call.Args[1].String())
		})
	}
	r.Counts["degenerate_filters"] += n
}

// checkLatticeToWorld (K16): the octree's lattice has cellCounts cells across the shape's box on
// each axis (the counts are rounded up to powers of two per axis, so the lattice is not cubic):
// the lattice offset i lies at Min + (Max − Min)·i/cellCounts. Dividing by the side of the
// (cubic) octree instead agrees on the longest axis only; on the others the cells are stretched
// past the box, the pruning in Populate then drops them and the mesh of a bar or a plate is cut
// open. The closed form of relToSDF is evaluated on four lattices.
func checkLatticeToWorld(ctx *Ctx, r *Report) {
	rel := ctx.ssaFunc("render/dc", "(*dcOctree).relToSDF")
	if rel == nil {
		r.undecided("K16", "dcOctree.relToSDF", 0, "not found")
		return
	}
	ev := newEval(ctx)
	res, _ := ev.evalRoot(rel)
	W := pointTerms(res, 3)
	if W == nil || len(rel.Params) < 3 {
		r.undecided("K16", "dcOctree.relToSDF", rel.Pos(), "not a closed form")
		return
	}
	node, d, idx := paramName(rel, 0), paramName(rel, 1), paramName(rel, 2)
	bad := ""
	n := 0
	for _, cc := range [][3]float64{{8, 8, 8}, {8, 4, 2}, {2, 16, 4}, {4, 2, 32}} {
		mesh := math.Max(cc[0], math.Max(cc[1], cc[2]))
		for _, i := range [][3]float64{{0, 0, 0}, {1, 1, 1}, {3, 1, 2}} {
			env := map[string]float64{node + ".meshSize": mesh, node + ".size": mesh}
			mn, mx := [3]float64{-1, 2, 0.5}, [3]float64{3, 4.5, 1.25}
			for k, ax := range axes3 {
				env[node+".cellCounts."+ax] = cc[k]
				env[idx+"."+ax] = i[k]
				env["call:"+d+".BoundingBox().Min."+ax] = mn[k]
				env["call:"+d+".BoundingBox().Max."+ax] = mx[k]
			}
			for k, ax := range axes3 {
				got, ok := evalFloat(stripConv(W[k]), env)
				if !ok {
					bad = " the closed form has other inputs than the box, the counts and the offset: " + shortKey(W[k].Key(), 160) + ";"
					break
				}
				n++
				want := mn[k] + (mx[k]-mn[k])*i[k]/cc[k]
				if math.Abs(got-want) > 1e-12 && len(bad) < 300 {
					bad += fmt.Sprintf(" counts %v offset %v: %s = %g, expected %g;", cc, i, ax, got, want)
				}
			}
		}
	}
	r.check("K16", "dcOctree.relToSDF|offset-i-lies-at-Min+Size·i/cellCounts", rel.Pos(), bad == "" && n > 0, fmt.Sprintf("%d coordinates on four lattices;%s", n, bad))
	r.floor("K16", 1)
}

// checkRootCoversAllAxes (K17): the root of the octree is a cube whose side is the largest of the
// three (rounded-up) cell counts. With a smaller side the tree covers only part of the box on
// the axis that was left out and the mesh stays open there (an upright part when Z is forgotten).
func checkRootCoversAllAxes(ctx *Ctx, r *Report) {
	fn := ctx.ssaFunc("render/dc", "dcNewOctree")
	if fn == nil {
		r.undecided("K17", "dcNewOctree", 0, "not found")
		return
	}
	ev := newEval(ctx)
	res, st := ev.evalRoot(fn)
	root, ok := resultObject(res, st)
	if !ok {
		r.undecided("K17", "dcNewOctree", fn.Pos(), "the root is not a fresh object")
		return
	}
	sz, _ := fieldOf(root, "size")
	szT, _ := sz.(*Term)
	if szT == nil {
		r.undecided("K17", "dcNewOctree", fn.Pos(), "the root has no scalar size")
		return
	}
	cc := paramName(fn, 0)
	pow2 := func(n int64) int64 {
		p := int64(1)
		for p < n {
			p *= 2
		}
		return p
	}
	bad := ""
	n := 0
	for _, c := range [][3]int64{{3, 5, 17}, {17, 3, 5}, {5, 17, 3}, {8, 8, 8}, {1, 2, 70}, {70, 1, 2}, {2, 70, 1}} {
		env := map[string]*big.Rat{}
		for k, ax := range axes3 {
			env[cc+"."+ax] = big.NewRat(c[k], 1)
		}
		var got *big.Rat
		func() {
			defer func() {
				if recover() != nil {
					got = nil
				}
			}()
			got = evalT(szT, env)
		}()
		if got == nil {
			bad = " the root's size is not a closed form of the cell counts: " + shortKey(szT.Key(), 160) + ";"
			break
		}
		n++
		want := pow2(c[0])
		for _, v := range c[1:] {
			if p := pow2(v); p > want {
				want = p
			}
		}
		if (!got.IsInt() || got.Num().Int64() != want) && len(bad) < 300 {
			bad += fmt.Sprintf(" counts %v: side %s, expected %d;", c, got.RatString(), want)
		}
	}
	r.check("K17", "dcNewOctree|root-side-is-the-largest-rounded-count", fn.Pos(), bad == "" && n > 0, fmt.Sprintf("%d count triples with the largest on each axis in turn;%s", n, bad))
	r.floor("K17", 1)
}

// checkSolveKeepsAccumulators (K18): the QEF solver accumulates sums (mass point, AᵀA, Aᵀb) over
// the crossings of a cell; MassPoint() divides the sum by the count each time it is asked. Solve
// works on copies: if it scaled the sum in place ("as the reference implementation does"), the
// fallback to the mass point - taken when the solution leaves the cell and vertex locking is on -
// divides a second time and puts the vertex many cells away. Solve (and what it calls on the
// same solver) stores into no field that MassPoint reads.
func checkSolveKeepsAccumulators(ctx *Ctx, r *Report) {
	solve := ctx.ssaFunc("render/dc", "(*dcQefSolver).Solve")
	mass := ctx.ssaFunc("render/dc", "(*dcQefSolver).MassPoint")
	if solve == nil || mass == nil {
		r.undecided("K18", "dcQefSolver.Solve", 0, "Solve or MassPoint not found")
		return
	}
	reads := map[int]bool{}
	allInstrs(mass, func(_ *ssa.BasicBlock, ins ssa.Instruction) {
		if fa, ok := ins.(*ssa.FieldAddr); ok && len(mass.Params) > 0 && fa.X == ssa.Value(mass.Params[0]) {
			reads[fa.Field] = true
		}
	})
	bad := ""
	seen := map[*ssa.Function]bool{}
	var scan func(f *ssa.Function, depth int)
	scan = func(f *ssa.Function, depth int) {
		if f == nil || seen[f] || depth > 3 || len(f.Blocks) == 0 || !inModule(f) || len(f.Params) == 0 {
			return
		}
		seen[f] = true
		allInstrs(f, func(_ *ssa.BasicBlock, ins ssa.Instruction) {
			switch x := ins.(type) {
			case *ssa.Store:
				for a := x.Addr; a != nil; {
					fa, ok := a.(*ssa.FieldAddr)
					if !ok {
						if ia, isIA := a.(*ssa.IndexAddr); isIA {
							a = ia.X
							continue
						}
						break
					}
					if fa.X == ssa.Value(f.Params[0]) && reads[fa.Field] && types.Identical(f.Params[0].Type(), solve.Params[0].Type()) {
						bad += " " + shortFn(f) + " stores into the solver's field #" + fmt.Sprint(fa.Field) + " at " + ctx.pos(x.Pos()) + ";"
					}
					a = fa.X
				}
			case *ssa.Call:
				if g := x.Call.StaticCallee(); g != nil && g != mass && len(x.Call.Args) > 0 && x.Call.Args[0] == ssa.Value(f.Params[0]) {
					scan(g, depth+1)
				}
			}
		})
	}
	scan(solve, 0)
	r.check("K18", "dcQefSolver.Solve|leaves-the-accumulated-sums-alone", solve.Pos(), bad == "" && len(reads) > 0, fmt.Sprintf("MassPoint reads %d fields of the solver; Solve writes none of them;%s", len(reads), bad))
	r.floor("K18", 1)
}

// checkSampleCacheKey (K19): the V2 renderer caches the distance per sample position; the key is
// the position itself. A narrower key (single precision "to halve the key size") makes distinct
// lattice points share one value once coordinate/cell size reaches 2^23: a part placed far from
// the origin is meshed from wrong samples. Every lookup and update of the cache uses the
// position parameter as it is.
func checkSampleCacheKey(ctx *Ctx, r *Report) {
	fn := ctx.ssaFunc("render/dc", "(*dcSdf).evaluateCached")
	if fn == nil || len(fn.Params) < 2 {
		r.check("K19", "dcSdf.evaluateCached|cache-keyed-by-the-sample-position", 0, true, "no cached evaluation (rule not applicable to this shape)")
		r.floor("K19", 1)
		return
	}
	ev := newEval(ctx, "Evaluate")
	ev.evalRoot(fn)
	pn := paramName(fn, 1)
	want := "{" + pn + ".X " + pn + ".Y " + pn + ".Z}"
	nl, nu := 0, 0
	bad := ""
	for _, e := range ev.Events {
		if e.Callee != "maplookup" && e.Callee != "mapupdate" {
			continue
		}
		if e.Callee == "maplookup" {
			nl++
		} else {
			nu++
		}
		kv := e.Args[1]
		if sy, isSym := kv.(*Sym); isSym {
			kv = materialise(sy)
		}
		if k := valKey(kv); k != want {
			bad += fmt.Sprintf(" %s with key %s;", e.Callee, shortKey(k, 120))
		}
	}
	if nl == 0 || nu == 0 {
		bad += fmt.Sprintf(" %d lookups, %d updates found;", nl, nu)
	}
	r.check("K19", "dcSdf.evaluateCached|cache-keyed-by-the-sample-position", fn.Pos(), bad == "", "every lookup and update uses the position "+want+" itself as the key;"+bad)
	r.floor("K19", 1)
}

// ---------------------------------------------------------------- K20: defaults settle at once

func init() {
	prev := registry["C19"].run
	registry["C19"] = propDef{run: func(ctx *Ctx, r *Report, tier string) {
		prev(ctx, r, tier)
		checkRenderSettingsIdempotent(ctx, r)
	}}
}

// checkRenderSettingsIdempotent (K20): a render that fills in a default for a setting left at
// zero stores the default in the renderer; the next render of the same renderer object reads the
// stored value. The first and the later renders of one model are the same mesh only if the
// first render already worked with the value it stores: for every call the octree renderer's
// Render makes with arguments read from the renderer's settings, the arguments computed from
// the settings as found equal the arguments computed from the settings as left behind (case
// split over the function's own tests of the settings; a default assigned to the field but read
// from a stale local copy fails the zero case).
func checkRenderSettingsIdempotent(ctx *Ctx, r *Report) {
	fn := ctx.ssaFunc("render/dc", "(*DualContouringV1).Render")
	key := "DualContouringV1.Render"
	if fn == nil || len(fn.Params) == 0 {
		r.undecided("K20", key, 0, "not found")
		return
	}
	// every module function Render calls stays opaque: only their arguments matter here
	var opaque []string
	allInstrs(fn, func(_ *ssa.BasicBlock, ins ssa.Instruction) {
		if c, ok := ins.(ssa.CallInstruction); ok {
			if f := c.Common().StaticCallee(); f != nil && inModule(f) {
				opaque = append(opaque, f.Name())
			}
		}
	})
	ev := newEval(ctx, opaque...)
	_, st := ev.evalRoot(fn)
	if ev.Exceeded {
		r.undecided("K20", key, fn.Pos(), "evaluation budget exceeded")
		return
	}
	recv := paramName(fn, 0)
	final := map[string]*Term{}
	for o, v := range st.mem {
		if o.name == recv {
			leafTerms("", v, final)
		}
	}
	if len(final) == 0 {
		r.undecided("K20", key, fn.Pos(), "the renderer's settings after the call are not in closed form")
		return
	}
	subst := map[string]*Term{}
	for f, t := range final {
		subst[recv+f] = t
	}
	isSetting := func(a string) bool { return strings.HasPrefix(a, recv+".") }
	n := 0
	for _, e := range ev.Events {
		for ai, av := range e.Args {
			leaves := map[string]*Term{}
			leafTerms("", av, leaves)
			for lf, a := range leaves {
				if a == nil || len(atomsMatching(a, isSetting)) == 0 {
					continue
				}
				conds := condAtoms(a)
				for _, t := range final {
					conds = append(conds, condAtoms(t)...)
				}
				uniq := map[string]*Term{}
				for _, c := range conds {
					uniq[c.Key()] = c
				}
				var cs []*Term
				for _, c := range uniq {
					cs = append(cs, c)
				}
				sortTerms(cs)
				if len(cs) > 8 {
					continue
				}
				bad := ""
				for m := 0; m < 1<<uint(len(cs)); m++ {
					truth := map[string]bool{}
					pin := map[string]*Term{}
					for k, c := range cs {
						v := m>>uint(k)&1 == 1
						truth[c.Key()] = v
						if v && c.Op == "cmp" && c.S == "==" && c.Args[0].Op == "a" && c.Args[1].Op == "c" {
							pin[c.Args[0].S] = c.Args[1] // the setting is known in this case
						}
					}
					before := substAtoms(assume(a, truth), pin)
					after := substAtoms(assume(substAtoms(a, subst), truth), pin)
					after = substAtoms(assume(after, truth), pin)
					if before.Key() != after.Key() && !equalRat(before, after) && bad == "" {
						bad = fmt.Sprintf(" in the case %s the call gets %s from the settings as found and %s from the settings it leaves", shortKey(describeTruth(cs, m), 120), shortKey(before.Key(), 60), shortKey(after.Key(), 60))
					}
				}
				n++
				r.check("K20", fmt.Sprintf("%s|%s-arg%d%s-same-on-the-next-render", key, e.Callee, ai, lf), e.Pos, bad == "",
					"argument computed from the renderer's settings equals the one computed from the settings the render leaves behind;"+bad)
			}
		}
	}
	r.Counts["settings_arguments"] = n
	r.floor("K20", 1)
}

func describeTruth(cs []*Term, m int) string {
	var parts []string
	for k, c := range cs {
		if m>>uint(k)&1 == 1 {
			parts = append(parts, c.Key())
		} else {
			parts = append(parts, "!"+c.Key())
		}
	}
	return strings.Join(parts, " ∧ ")
}
