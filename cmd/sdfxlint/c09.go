package main

// C09 — rendering is deterministic across runs, schedules and CPU counts.
//
// Scope: every module function reachable (static calls, closures, go
// statements, function values, interface methods by class hierarchy) from a
// Render method, a sink entry point (To*, Save*, write*, WriteTriangles), the
// dual-contouring renderers, and Evaluate/BoundingBox of every SDF implementer.
//
//  D1  no iteration over a map
//  D2  no unseeded / time / process dependent source: math/rand, crypto/rand,
//      time.Now/Since, os.Getpid, runtime.NumGoroutine; no rand.Rand method
//  D3  no select with more than one ready alternative
//  D4  nothing reachable from a worker goroutine (a `go` whose body is not a
//      sink) writes to a Triangle3Writer/Line2Writer or sends a batch: the
//      renderer goroutine is the single producer (sequence, not just multiset)
//  D5  the parallel layer evaluation waits for all batches before returning
//  D6  runtime.NumCPU/GOMAXPROCS only bounds the loop that spawns workers
//  D7  no function in scope writes package-level (global) memory, except
//      through sync primitives: renders do not influence one another
//  D8  (whole library) pseudo-random numbers only from a generator seeded with a constant
//  D9  Render / Info leave nothing of this render on the renderer value: no reference-typed
//      field written, no scalar field set to a computed value (constants are tolerated)
//
// Not decided: IEEE determinism of floating point (trusted); 3MF container
// bytes (the library documents them as non-identical).

import (
	"fmt"
	"go/token"
	"go/types"
	"sort"
	"strings"

	"golang.org/x/tools/go/ssa"
	"golang.org/x/tools/go/ssa/ssautil"
)

func init() { register("C09", checkC09) }

func renderRoots(ctx *Ctx) []*ssa.Function {
	var roots []*ssa.Function
	add := func(f *ssa.Function) {
		if f != nil && len(f.Blocks) > 0 {
			roots = append(roots, f)
		}
	}
	for _, in := range []string{"Render3", "Render2"} {
		if iface := lookupIface(ctx, "render", in); iface != nil {
			for _, t := range implementersOf(ctx, iface) {
				add(methodOf(ctx, t, "Render"))
			}
		}
	}
	for _, fn := range ctx.srcFuncs("render", "render/dc", "sdf") {
		if fn.Parent() != nil {
			continue
		}
		n := fn.Name()
		if fn.Signature.Recv() == nil && (strings.HasPrefix(n, "To") && fn.Pkg.Pkg.Name() == "render" || strings.HasPrefix(n, "Save") || strings.HasPrefix(n, "write") || n == "WriteTriangles") {
			add(fn)
		}
		if n == "Render" && fn.Pkg.Pkg.Name() == "dc" {
			add(fn)
		}
	}
	for _, im := range sdfImplementers(ctx) {
		add(methodOf(ctx, im.t, "Evaluate"))
		add(methodOf(ctx, im.t, "BoundingBox"))
	}
	return roots
}

// reachFrom computes the module functions reachable from roots.
func reachFrom(e *fxEngine, roots []*ssa.Function, followSDF bool) map[*ssa.Function]bool {
	seen := map[*ssa.Function]bool{}
	var visit func(f *ssa.Function)
	visit = func(f *ssa.Function) {
		if f == nil || seen[f] || len(f.Blocks) == 0 {
			return
		}
		seen[f] = true
		if !inModule(f) {
			return // third-party / std bodies are not scanned by the lint rules
		}
		allInstrs(f, func(b *ssa.BasicBlock, ins ssa.Instruction) {
			if mc, ok := ins.(*ssa.MakeClosure); ok {
				if g, ok := mc.Fn.(*ssa.Function); ok {
					visit(g)
				}
			}
			if c, ok := ins.(ssa.CallInstruction); ok {
				for _, g := range e.callees(c.Common()) {
					visit(g)
				}
			}
			// a module function handed over as a value (a split function given to a scanner, a
			// comparator given to sort) is run by whoever receives it
			var ops [8]*ssa.Value
			for _, op := range ins.Operands(ops[:0]) {
				if op == nil || *op == nil {
					continue
				}
				if g, ok := (*op).(*ssa.Function); ok && inModule(g) {
					visit(g)
				}
			}
		})
	}
	for _, r := range roots {
		visit(r)
	}
	return seen
}

func structOf(t types.Type) *types.Struct {
	for {
		switch u := t.(type) {
		case *types.Pointer:
			t = u.Elem()
			continue
		}
		break
	}
	st, _ := t.Underlying().(*types.Struct)
	return st
}

func fieldType(st *types.Struct, name string) types.Type {
	for i := 0; i < st.NumFields(); i++ {
		if st.Field(i).Name() == name {
			return st.Field(i).Type()
		}
	}
	return nil
}

// allLibFuncs: every function of the library packages, package initialisers and closures included.
func allLibFuncs(ctx *Ctx) []*ssa.Function {
	var out []*ssa.Function
	for fn := range ssautil.AllFunctions(ctx.Prog) {
		if fn.Pkg == nil || len(fn.Blocks) == 0 || !inModule(fn) || strings.Contains(fn.Pkg.Pkg.Path(), "/examples/") {
			continue
		}
		out = append(out, fn)
	}
	sort.Slice(out, func(i, j int) bool { return out[i].String() < out[j].String() })
	return out
}

var nondetCalls = map[string]string{
	"time.Now": "wall clock", "time.Since": "wall clock", "os.Getpid": "process id", "runtime.NumGoroutine": "scheduler state",
	"os.Hostname": "environment", "os.Getenv": "environment",
}

func checkC09(ctx *Ctx, r *Report, tier string) {
	r.Explain = "Lint-style rules over every module function reachable from the renderers, the sink entry points and every shape's Evaluate: no map iteration, no random/time/process dependent source, no multi-way select, workers cannot reach the output writer (single producer), the layer evaluation waits for all its batches, the CPU count only bounds the worker-spawning loop, and nothing in scope writes package-level memory (renders cannot influence each other). With IEEE determinism of floating point these make the emitted sequence a function of the model, renderer and resolution. 3MF container bytes are outside the claim (documented by the library)."
	r.Trusted = []string{"go/types", "go/ssa", "class-hierarchy resolution of interface and function-value calls", "IEEE-754 determinism of the Go arithmetic used"}
	r.Assume = []string{"user-supplied shapes and callbacks are deterministic"}
	e := newFxEngine(ctx)
	roots := renderRoots(ctx)
	scope := reachFrom(e, roots, true)
	var fns []*ssa.Function
	for f := range scope {
		if inModule(f) {
			fns = append(fns, f)
		}
	}
	sort.Slice(fns, func(i, j int) bool { return fns[i].String() < fns[j].String() })
	r.Counts["roots"] = len(roots)
	r.Counts["functions_in_scope"] = len(fns)
	for _, fn := range fns {
		key := shortFn(fn)
		var d1, d2, d3 []string
		allInstrs(fn, func(b *ssa.BasicBlock, ins ssa.Instruction) {
			switch x := ins.(type) {
			case *ssa.Range:
				if _, ok := x.X.Type().Underlying().(*types.Map); ok {
					d1 = append(d1, ctx.pos(x.Pos()))
				}
			case *ssa.Select:
				if len(x.States) > 1 || (!x.Blocking && len(x.States) > 0) {
					d3 = append(d3, ctx.pos(x.Pos()))
				}
			case ssa.CallInstruction:
				f := x.Common().StaticCallee()
				if f == nil {
					return
				}
				name := f.String()
				if f.Pkg != nil {
					pp := f.Pkg.Pkg.Path()
					if pp == "math/rand" || pp == "math/rand/v2" || pp == "crypto/rand" {
						d2 = append(d2, fmt.Sprintf("%s at %s", name, ctx.pos(ins.Pos())))
						return
					}
				}
				if f.Signature.Recv() != nil && strings.Contains(f.Signature.Recv().Type().String(), "math/rand.Rand") {
					d2 = append(d2, fmt.Sprintf("%s at %s", name, ctx.pos(ins.Pos())))
					return
				}
				if why, ok := nondetCalls[name]; ok {
					d2 = append(d2, fmt.Sprintf("%s (%s) at %s", name, why, ctx.pos(ins.Pos())))
				}
			}
		})
		r.check("D1", key, fn.Pos(), len(d1) == 0, "map iteration order is random: "+strings.Join(d1, " "))
		r.check("D2", key, fn.Pos(), len(d2) == 0, "non-deterministic source: "+strings.Join(d2, "; "))
		r.check("D3", key, fn.Pos(), len(d3) == 0, "select among several alternatives depends on scheduling: "+strings.Join(d3, " "))
		// D7 global writes
		s := e.summarize(fn)
		var gw []string
		for _, w := range s.writes {
			if w.root.kind == "global" && strings.HasPrefix(w.root.name, modPath) { // also under a lock: mutual exclusion does not undo the coupling of successive renders
				gw = append(gw, fmt.Sprintf("%s [%s]", w.root, shortKey(w.why, 160)))
			}
		}
		sort.Strings(gw)
		r.check("D7", key, fn.Pos(), len(gw) == 0, "package-level memory written during rendering couples concurrent or successive renders: "+strings.Join(gw, "; "))
	}
	// D9: a renderer carries configuration, not results. Whatever a Render call leaves behind in
	// reference-typed state of its receiver (a map, a slice, a pointer: caches, scratch buffers)
	// is seen by the next Render call on the same value, which then depends on the history of
	// the renderer and not only on model, renderer settings and resolution. The same holds for a
	// scalar field set to a computed value (a memoised resolution is the first model's). Scalar
	// fields set to a constant (warn-once flags, the default of an unset option) are tolerated.
	// Info is part of the protocol (ToDXF/ToSVG/ToSTL call Info, then Render) and is held to
	// the same rule.
	nRender := 0
	var renderMethods []*ssa.Function
	for _, in := range []string{"Render3", "Render2"} {
		if iface := lookupIface(ctx, "render", in); iface != nil {
			for _, t := range implementersOf(ctx, iface) {
				renderMethods = append(renderMethods, methodOf(ctx, t, "Render"), methodOf(ctx, t, "Info"))
			}
		}
	}
	// the dual-contouring renderers have a Render method of their own shape (channel output)
	for _, fn := range ctx.srcFuncs("render/dc") {
		if (fn.Name() == "Render" || fn.Name() == "Info") && fn.Signature.Recv() != nil && fn.Parent() == nil {
			renderMethods = append(renderMethods, fn)
		}
	}
	{
		for _, fn := range renderMethods {
			if fn == nil || len(fn.Blocks) == 0 {
				continue
			}
			nRender++
			st := structOf(fn.Signature.Recv().Type())
			var bad []string
			for _, w := range e.summarize(fn).writes {
				if w.root.kind != "param" || w.root.idx != 0 {
					continue
				}
				if st != nil && w.field != "" {
					if ft := fieldType(st, w.field); ft != nil {
						switch ft.Underlying().(type) {
						case *types.Basic:
							// a scalar set to a constant (warn-once flag, default of an unset option)
							// carries nothing of this render's model into the next one
							if st, ok := w.origin.(*ssa.Store); ok {
								if _, isConst := st.Val.(*ssa.Const); isConst {
									continue
								}
							}
							bad = append(bad, fmt.Sprintf("scalar field %q set to a computed value [%s]", w.field, shortKey(w.why, 120)))
							continue
						}
					}
				}
				bad = append(bad, fmt.Sprintf("field %q [%s]", w.field, shortKey(w.why, 120)))
			}
			sort.Strings(bad)
			r.check("D9", shortFn(fn)+"|leaves-no-reference-state-on-the-renderer", fn.Pos(), len(bad) == 0, "receiver state written during Render that outlives the call: "+strings.Join(bad, "; "))
		}
	}
	r.Counts["render_methods"] = nRender
	r.floor("D9", 4)
	r.expectControl("D9", "verifCtlStatefulRenderer")
	// D8: model construction. Shapes built from the same parameters must be the same shape in
	// every process: the library may draw pseudo-random numbers only from a generator it seeds
	// with a constant (sdf.sdfRand), never from the process-global source (randomly seeded since
	// go 1.20) nor from a source seeded at run time.
	nRand := 0
	for _, fn := range allLibFuncs(ctx) {
		var bad []string
		uses := 0
		allInstrs(fn, func(b *ssa.BasicBlock, ins ssa.Instruction) {
			c, ok := ins.(ssa.CallInstruction)
			if !ok {
				return
			}
			f := c.Common().StaticCallee()
			if f == nil || f.Pkg == nil {
				return
			}
			pp := f.Pkg.Pkg.Path()
			if (pp != "math/rand" && pp != "math/rand/v2" && pp != "crypto/rand") || f.Name() == "init" {
				return
			}
			uses++
			switch {
			case pp == "crypto/rand":
				bad = append(bad, fmt.Sprintf("%s at %s", f.String(), ctx.pos(ins.Pos())))
			case f.Signature.Recv() != nil:
				// a method of an explicit generator: its seed is checked where it is created
			case f.Name() == "New" || f.Name() == "NewZipf":
			case strings.HasPrefix(f.Name(), "NewSource") || f.Name() == "NewPCG" || f.Name() == "NewChaCha8":
				for _, a := range c.Common().Args {
					if _, isC := a.(*ssa.Const); !isC {
						bad = append(bad, fmt.Sprintf("%s seeded with a run-time value at %s", f.Name(), ctx.pos(ins.Pos())))
					}
				}
			default:
				bad = append(bad, fmt.Sprintf("%s draws from the process-global source at %s", f.String(), ctx.pos(ins.Pos())))
			}
		})
		if uses > 0 {
			nRand++
			r.check("D8", shortFn(fn), fn.Pos(), len(bad) == 0, "pseudo-random numbers only from a constant-seeded generator: "+strings.Join(bad, "; "))
		}
	}
	r.Counts["functions_using_rand"] = nRand
	r.floor("D8", 2)
	r.expectControl("D8", "VerifCtlJitter")
	r.floor("D1", 100)
	r.expectControl("D1", "VerifCtlRangeOverMap")
	r.expectControl("D2", "VerifCtlJitter")
	r.expectControl("D7", "VerifCtlGlobalScratch")

	// D4: workers cannot reach the writer
	nWorkers := 0
	for _, gs := range goSites(ctx) {
		if gs.callee == nil {
			continue
		}
		isSink := false
		for _, l := range recvLoops(gs.callee) {
			if ch, ok := l.chanVal.Type().Underlying().(*types.Chan); ok {
				if _, isSlice := ch.Elem().Underlying().(*types.Slice); isSlice {
					isSink = true
				}
			}
		}
		if isSink {
			continue
		}
		nWorkers++
		ws := reachFrom(e, []*ssa.Function{gs.callee}, true)
		bad := ""
		for f := range ws {
			if !inModule(f) {
				continue
			}
			allInstrs(f, func(b *ssa.BasicBlock, ins ssa.Instruction) {
				switch x := ins.(type) {
				case *ssa.Send:
					if ch, ok := x.Chan.Type().Underlying().(*types.Chan); ok {
						if _, isSlice := ch.Elem().Underlying().(*types.Slice); isSlice {
							bad += fmt.Sprintf(" batch send at %s in %s;", ctx.pos(x.Pos()), shortFn(f))
						}
					}
				case ssa.CallInstruction:
					c := x.Common()
					if c.IsInvoke() && c.Method.Name() == "Write" && (namedTypeIs(c.Value.Type(), "/sdf", "Triangle3Writer") || namedTypeIs(c.Value.Type(), "/sdf", "Line2Writer")) {
						bad += fmt.Sprintf(" output.Write at %s in %s;", ctx.pos(ins.Pos()), shortFn(f))
					}
				}
			})
		}
		r.check("D4", gs.key+"|worker-cannot-reach-the-output", gs.instr.Pos(), bad == "", "only the render goroutine may produce output (a second producer makes the sequence schedule dependent):"+bad)
	}
	r.Counts["worker_goroutines"] = nWorkers
	r.floor("D4", 1)
	r.expectControl("D4", "verifCtlWorkerWrites")

	// D5 barrier
	if lfn := ctx.ssaFunc("render", "(*layerYZ).Evaluate"); lfn != nil {
		n := 0
		for _, site := range batchSites(lfn) { // sends, or calls of a helper that sends (shared with C06/V5)
			n++
			r.check("D5", fmt.Sprintf("layerYZ.Evaluate|wait-after-send#%d", n), site.ins.Pos(), everyPathHits(site.ins, func(x ssa.Instruction) bool { return isWaitGroupCall(x, "Wait") }), "values of a layer are read right after Evaluate returns: every batch must have completed")
		}
		if n == 0 {
			r.undecided("D5", "layerYZ.Evaluate", lfn.Pos(), "no send found")
		}
	} else {
		r.undecided("D5", "layerYZ.Evaluate", 0, "not found")
	}
	r.floor("D5", 1)

	// D6 CPU count taint
	nCPU := 0
	for _, fn := range ctx.srcFuncs(libSSAPkgs...) {
		allInstrs(fn, func(b *ssa.BasicBlock, ins ssa.Instruction) {
			c, ok := ins.(*ssa.Call)
			if !ok {
				return
			}
			f := c.Call.StaticCallee()
			if f == nil || (f.String() != "runtime.NumCPU" && f.String() != "runtime.GOMAXPROCS") {
				return
			}
			nCPU++
			bad := cpuTaint(ctx, c, 0)
			r.check("D6", fmt.Sprintf("%s|%s#%d", shortFn(fn), f.Name(), nCPU), c.Pos(), bad == "", "the CPU count may only bound the loop that spawns workers:"+bad)
		})
	}
	r.floor("D6", 1)
	r.expectControl("D6", "verifCtlBatchFromCPU")
}

// cpuTaint follows a CPU-count value: allowed uses are conversions and a `<`
// / `<=` comparison against an induction variable that controls a loop whose
// body starts goroutines. Everything else is reported.
func cpuTaint(ctx *Ctx, v ssa.Value, depth int) string {
	if depth > 6 {
		return " too deep;"
	}
	bad := ""
	for _, ref := range *v.Referrers() {
		switch x := ref.(type) {
		case *ssa.DebugRef:
		case *ssa.Convert:
			bad += cpuTaint(ctx, x, depth+1)
		case *ssa.BinOp:
			ok := false
			if x.Op == token.LSS || x.Op == token.LEQ || x.Op == token.GTR || x.Op == token.GEQ {
				other := x.X
				if other == v {
					other = x.Y
				}
				if phi, isPhi := other.(*ssa.Phi); isPhi {
					// loop header comparison; the loop body must contain a go statement
					hdr := phi.Block()
					for _, b := range x.Parent().Blocks {
						if hdr.Dominates(b) && reachableFrom(b)[hdr] {
							for _, ins := range b.Instrs {
								if _, isGo := ins.(*ssa.Go); isGo {
									ok = true
								}
							}
						}
					}
					// and the comparison only feeds the loop branch
					for _, r2 := range *x.Referrers() {
						if _, isIf := r2.(*ssa.If); !isIf {
							if _, isDbg := r2.(*ssa.DebugRef); !isDbg {
								ok = false
							}
						}
					}
				}
			}
			if !ok {
				bad += fmt.Sprintf(" used in %s at %s;", x.Op, ctx.pos(x.Pos()))
			}
		case *ssa.Phi:
			// count-down spawn loop: `for n := NumCPU(); n > 0; n--` - the phi is compared with a
			// constant to leave the loop, stepped by a constant into itself, and the loop spawns
			okPhi := false
			hdr := x.Block()
			for _, b := range x.Parent().Blocks {
				if hdr.Dominates(b) && reachableFrom(b)[hdr] {
					for _, ins := range b.Instrs {
						if _, isGo := ins.(*ssa.Go); isGo {
							okPhi = true
						}
					}
				}
			}
			for _, r2 := range *x.Referrers() {
				switch y := r2.(type) {
				case *ssa.DebugRef:
				case *ssa.BinOp:
					_, cx := y.X.(*ssa.Const)
					_, cy := y.Y.(*ssa.Const)
					switch y.Op {
					case token.LSS, token.LEQ, token.GTR, token.GEQ, token.NEQ, token.EQL:
						for _, r3 := range *y.Referrers() {
							if _, isIf := r3.(*ssa.If); !isIf {
								if _, isDbg := r3.(*ssa.DebugRef); !isDbg {
									okPhi = false
								}
							}
						}
						if !cx && !cy {
							okPhi = false
						}
					case token.ADD, token.SUB:
						// the step: constant, and it only feeds the phi
						if !cx && !cy {
							okPhi = false
						}
						for _, r3 := range *y.Referrers() {
							if r3 != ssa.Instruction(x) {
								if _, isDbg := r3.(*ssa.DebugRef); !isDbg {
									okPhi = false
								}
							}
						}
					default:
						okPhi = false
					}
				default:
					okPhi = false
				}
			}
			if !okPhi {
				bad += fmt.Sprintf(" flows into %T at %s;", ref, ctx.pos(ref.Pos()))
			}
		default:
			bad += fmt.Sprintf(" flows into %T at %s;", ref, ctx.pos(ref.Pos()))
		}
	}
	return bad
}
