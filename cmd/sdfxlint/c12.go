package main

// C12 — rendering always returns and does not accumulate goroutines.
//
//  G1  a goroutine that drains a channel returns only after the channel is
//      exhausted (otherwise the producer blocks forever on the unbuffered
//      channel when a write fails part-way)
//  G2  goroutines per render are bounded: a goroutine either drains a channel
//      made by its creator, or — if it never ends — its spawner is referenced
//      only through (*sync.Once).Do on a package-level Once (or init)
//  G3  when the sink cannot be created (the write* helper returns an error)
//      the channel result is never used: the error branch leaves first
//  G4  wg.Add(1) dominates each sink `go`; the goroutine defers wg.Done()
//  G5  in every To*: Render, then close(output), then wg.Wait(), on every path
//
// The statement's fault points (create; first, n-th, final flush) are exactly
// the error branches these rules quantify over. Not decided: blocking inside
// third-party encoders or the operating system.

import (
	"fmt"
	"go/token"
	"go/types"
	"strings"

	"golang.org/x/tools/go/ssa"
)

func init() { register("C12", checkC12) }

func checkC12(ctx *Ctx, r *Report, tier string) {
	r.Explain = "All go statements of the library (discovered, not listed) are classified: draining goroutines may return only through the channel-exhaustion edge (reachability with that edge cut), never-ending workers must be started through a package-level sync.Once, WaitGroup Add/deferred Done pairing; every render-to-sink entry point uses the channel only on the no-error branch of its creation and runs Render, close, Wait in that order on every path. This decides the stated fault classes (creation failure, write failure at any flush) structurally. Not decided: blocking inside third-party encoders/OS."
	r.Trusted = []string{"go/types", "go/ssa dominators and CFG", "semantics of unbuffered channels, close, sync.WaitGroup, sync.Once"}
	r.Assume = []string{"third-party encoders and the OS do not block forever"}
	sites := goSites(ctx)
	r.Counts["go_statements"] = len(sites)
	nSinks := 0
	for _, gs := range sites {
		if ctx.isControlPos(gs.instr.Pos()) {
			// controls are checked through the same rules
		}
		if gs.callee != nil && len(recvLoops(gs.callee)) > 0 {
			nSinks++
		}
		ruleSinkOnlyReturnsAfterExhaustion(r, "G1", gs)
		ruleGoroutinesBounded(ctx, r, "G2", gs)
		ruleWaitGroupPairing(r, "G4", gs)
	}
	r.Counts["draining_goroutines"] = nSinks
	r.floor("G1", 3)
	r.floor("G2", 3)
	r.floor("G4", 4)
	r.expectControl("G1", "verifCtlSinkEarlyReturn")
	r.expectControl("G2", "verifCtlWorkersPerCall")
	r.expectControl("G4", "verifCtlSinkNoDone")

	// entry points
	n := 0
	for _, fn := range ctx.srcFuncs("render", "sdf", "obj", "render/dc") {
		if fn.Parent() != nil {
			continue
		}
		for _, sc := range sinkCreations(fn) {
			n++
			ruleSinkUse(ctx, r, fn, sc)
		}
	}
	r.Counts["sink_creations"] = n
	// G8: what runs before a render can start (the entry points and the functions that create
	// their sinks) has no unbounded loop: a "create the directory and try again" loop around
	// os.Create spins for ever on a dangling link or an empty path, and the call never returns.
	nLoops := 0
	seenFn := map[*ssa.Function]bool{}
	var bounded func(fn *ssa.Function, depth int)
	bounded = func(fn *ssa.Function, depth int) {
		if fn == nil || seenFn[fn] || depth > 2 || len(fn.Blocks) == 0 || !inModule(fn) {
			return
		}
		seenFn[fn] = true
		descs := loopDescs(fn, topoAll(fn))
		k := 0
		for _, b := range fn.Blocks {
			isHdr := false
			for _, p := range b.Preds {
				if isBackEdge(p, b) {
					isHdr = true
				}
			}
			if !isHdr {
				continue
			}
			k++
			nLoops++
			ok, why := loopBounded(fn, b, descs)
			r.check("G8", fmt.Sprintf("%s|loop#%d|bounded", shortFn(fn), k), b.Instrs[0].Pos(), ok, "a loop on the way to the render has a bounding exit test; "+why)
		}
	}
	for _, fn := range ctx.srcFuncs("render") {
		if fn.Parent() != nil {
			continue
		}
		scs := sinkCreations(fn)
		if len(scs) == 0 {
			continue
		}
		bounded(fn, 0)
		for _, sc := range scs {
			if g := sc.call.Call.StaticCallee(); g != nil {
				bounded(g, 1)
			}
		}
	}
	r.check("G8", "entry points and sink creators|loops-examined", 0, true, fmt.Sprintf("%d loops in %d functions", nLoops, len(seenFn)))
	r.floor("G5", 6)
	r.expectControl("G3", "verifCtlToNoReturnOnError")
	r.expectControl("G5", "verifCtlToWaitBeforeClose")
	ruleLockReleased(ctx, r)
	ruleSemaphoreReleased(ctx, r)
}

// ruleLockReleased (G6): every mutex the library takes is released on every way out of the
// function that took it - including the early returns of error branches. A lock that survives
// a failed save blocks every later render in the process for ever (and each of them pins its
// sink goroutine). Decided per Lock/RLock call on the CFG: every path from the call to a return
// or panic passes the matching Unlock/RUnlock of the same mutex (same field of the same object,
// or same package variable), or the function defers it.
func ruleLockReleased(ctx *Ctx, r *Report) {
	sameMutex := func(a, b ssa.Value) bool {
		if a == b {
			return true
		}
		fa, ok1 := a.(*ssa.FieldAddr)
		fb, ok2 := b.(*ssa.FieldAddr)
		return ok1 && ok2 && fa.X == fb.X && fa.Field == fb.Field
	}
	n := 0
	for _, fn := range ctx.srcFuncs("render", "sdf", "obj", "render/dc") {
		if len(fn.Blocks) == 0 {
			continue
		}
		ord := 0
		allInstrs(fn, func(b *ssa.BasicBlock, ins ssa.Instruction) {
			if _, isCall := ins.(*ssa.Call); !isCall {
				return
			}
			m, ok := isMutexCall(ins, "Lock")
			un := "Unlock"
			if !ok {
				m, ok = isMutexCall(ins, "RLock")
				un = "RUnlock"
			}
			if !ok {
				return
			}
			ord++
			n++
			deferred := false
			allInstrs(fn, func(_ *ssa.BasicBlock, d ssa.Instruction) {
				if _, isDefer := d.(*ssa.Defer); isDefer {
					if m2, ok := isMutexCall(d, un); ok && sameMutex(m, m2) {
						deferred = true
					}
				}
			})
			bad := ""
			if !deferred {
				seen := map[*ssa.BasicBlock]bool{}
				var walk func(blk *ssa.BasicBlock, from int)
				walk = func(blk *ssa.BasicBlock, from int) {
					for i := from; i < len(blk.Instrs); i++ {
						x := blk.Instrs[i]
						if _, isCall := x.(*ssa.Call); isCall {
							if m2, ok := isMutexCall(x, un); ok && sameMutex(m, m2) {
								return
							}
						}
						switch x.(type) {
						case *ssa.Return, *ssa.Panic:
							if bad == "" {
								bad = " the exit at " + ctx.pos(lastPos(blk)) + " is reached with the mutex held;"
							}
							return
						}
					}
					for _, su := range blk.Succs {
						if !seen[su] {
							seen[su] = true
							walk(su, 0)
						}
					}
				}
				idx := 0
				for i, x := range b.Instrs {
					if x == ins {
						idx = i + 1
					}
				}
				walk(b, idx)
			}
			r.check("G6", fmt.Sprintf("%s|lock#%d-released-on-every-exit", shortFn(fn), ord), ins.Pos(), bad == "", "every path from the Lock to a return passes the matching "+un+" (or it is deferred);"+bad)
		})
	}
	r.Counts["lock_sites"] = n
	r.floor("G6", 6)

	// G7: sync.Mutex is not re-entrant. While a method holds a mutex field of its receiver it
	// calls no method of the same receiver that takes that mutex again (directly or through
	// further methods of the receiver): the call would wait for its own caller for ever.
	type mkey struct {
		recv  string
		field int
	}
	direct := map[*ssa.Function]map[mkey]bool{}
	calls := map[*ssa.Function][]*ssa.Function{} // methods called on the same receiver
	var fns []*ssa.Function
	for _, fn := range ctx.srcFuncs("render", "sdf", "obj", "render/dc") {
		if len(fn.Blocks) == 0 || fn.Signature.Recv() == nil || len(fn.Params) == 0 {
			continue
		}
		fns = append(fns, fn)
		direct[fn] = map[mkey]bool{}
		allInstrs(fn, func(_ *ssa.BasicBlock, ins ssa.Instruction) {
			if _, isCall := ins.(*ssa.Call); !isCall {
				return
			}
			for _, name := range []string{"Lock", "RLock"} {
				if m, ok := isMutexCall(ins, name); ok {
					if fa, ok := m.(*ssa.FieldAddr); ok && fa.X == ssa.Value(fn.Params[0]) {
						direct[fn][mkey{fn.Signature.Recv().Type().String(), fa.Field}] = true
					}
				}
			}
			c := ins.(*ssa.Call)
			if g := c.Call.StaticCallee(); g != nil && inModule(g) && g.Signature.Recv() != nil && len(c.Call.Args) > 0 && c.Call.Args[0] == ssa.Value(fn.Params[0]) {
				calls[fn] = append(calls[fn], g)
			}
		})
	}
	takes := func(g *ssa.Function, k mkey) bool {
		seen := map[*ssa.Function]bool{}
		var rec func(f *ssa.Function) bool
		rec = func(f *ssa.Function) bool {
			if seen[f] {
				return false
			}
			seen[f] = true
			if direct[f][k] {
				return true
			}
			for _, h := range calls[f] {
				if rec(h) {
					return true
				}
			}
			return false
		}
		return rec(g)
	}
	nHeld := 0
	for _, fn := range fns {
		for k := range direct[fn] {
			k := k
			// instructions executed while the mutex is held
			bad := ""
			allInstrs(fn, func(b *ssa.BasicBlock, ins ssa.Instruction) {
				if _, isCall := ins.(*ssa.Call); !isCall {
					return
				}
				m, ok := isMutexCall(ins, "Lock")
				un := "Unlock"
				if !ok {
					m, ok = isMutexCall(ins, "RLock")
					un = "RUnlock"
				}
				fa, isF := m.(*ssa.FieldAddr)
				if !ok || !isF || fa.X != ssa.Value(fn.Params[0]) || fa.Field != k.field {
					return
				}
				seen := map[*ssa.BasicBlock]bool{}
				var walk func(blk *ssa.BasicBlock, from int)
				walk = func(blk *ssa.BasicBlock, from int) {
					for i := from; i < len(blk.Instrs); i++ {
						x := blk.Instrs[i]
						c, isCall := x.(*ssa.Call)
						if !isCall {
							continue
						}
						if m2, ok := isMutexCall(x, un); ok && sameMutex(m, m2) {
							return
						}
						if g := c.Call.StaticCallee(); g != nil && inModule(g) && g.Signature.Recv() != nil && len(c.Call.Args) > 0 && c.Call.Args[0] == ssa.Value(fn.Params[0]) && takes(g, k) {
							bad += fmt.Sprintf(" %s is called at %s while the mutex it takes is held;", shortFn(g), ctx.pos(c.Pos()))
						}
					}
					for _, su := range blk.Succs {
						if !seen[su] {
							seen[su] = true
							walk(su, 0)
						}
					}
				}
				walk(b, instrIndex(ins)+1)
			})
			nHeld++
			r.check("G7", fmt.Sprintf("%s|no-call-back-into-its-own-mutex#%d", shortFn(fn), k.field), fn.Pos(), bad == "", "sync.Mutex is not re-entrant;"+bad)
		}
	}
	r.floor("G7", 4)
}

// lastPos: the last valid position among a block's instructions.
func lastPos(b *ssa.BasicBlock) token.Pos {
	for i := len(b.Instrs) - 1; i >= 0; i-- {
		if p := b.Instrs[i].Pos(); p.IsValid() {
			return p
		}
	}
	return token.NoPos
}

// sinkCreation: a call whose (first) result is a send-only channel of slices.
type sinkCreation struct {
	call *ssa.Call
	ch   ssa.Value // the channel value
	err  ssa.Value // the error result, or nil
}

func isSinkChan(t types.Type) bool {
	c, ok := t.Underlying().(*types.Chan)
	if !ok {
		return false
	}
	_, isSlice := c.Elem().Underlying().(*types.Slice)
	return isSlice
}

func sinkCreations(fn *ssa.Function) []sinkCreation {
	var out []sinkCreation
	allInstrs(fn, func(b *ssa.BasicBlock, ins ssa.Instruction) {
		c, ok := ins.(*ssa.Call)
		if !ok {
			return
		}
		f := c.Call.StaticCallee()
		if f != nil && !inModule(f) {
			return
		}
		if c.Call.IsInvoke() {
			return
		}
		// a sink may also be started through a function value (a writer passed as parameter)
		sig, ok := c.Call.Value.Type().Underlying().(*types.Signature)
		if !ok {
			return
		}
		res := sig.Results()
		switch {
		case res.Len() == 1 && isSinkChan(res.At(0).Type()):
			// a function that only hands the channel on to its own caller (a writer built on a
			// shared streaming helper) creates no sink of its own: its caller does
			forwarded := len(*c.Referrers()) > 0
			for _, ref := range *c.Referrers() {
				switch ref.(type) {
				case *ssa.Return, *ssa.DebugRef:
				default:
					forwarded = false
				}
			}
			if forwarded {
				return
			}
			out = append(out, sinkCreation{call: c, ch: c})
		case res.Len() == 2 && isSinkChan(res.At(0).Type()) && isErrorType(res.At(1).Type()):
			sc := sinkCreation{call: c}
			for _, ref := range *c.Referrers() {
				if ex, ok := ref.(*ssa.Extract); ok {
					if ex.Index == 0 {
						sc.ch = ex
					} else {
						sc.err = ex
					}
				}
			}
			out = append(out, sc)
		}
	})
	return out
}

func sinkCalleeName(sc sinkCreation) string {
	if f := sc.call.Call.StaticCallee(); f != nil {
		return f.Name()
	}
	return "(writer function value)"
}

func mayReturnError(f *ssa.Function) bool {
	for _, ret := range returnsOf(f) {
		if len(ret.Results) == 0 {
			continue
		}
		last := ret.Results[len(ret.Results)-1]
		if c, ok := last.(*ssa.Const); ok && c.Value == nil {
			continue
		}
		return true
	}
	return false
}

func ruleSinkUse(ctx *Ctx, r *Report, fn *ssa.Function, sc sinkCreation) {
	calleeName := sinkCalleeName(sc)
	callee := sc.call.Call.StaticCallee()
	key := fmt.Sprintf("%s|%s", shortFn(fn), calleeName)
	// G3 (a writer reached through a function value may fail, as far as this function knows)
	if sc.err != nil && (callee == nil || mayReturnError(callee)) {
		if sc.ch == nil {
			r.check("G3", key+"|channel-unused", sc.call.Pos(), true, "channel result discarded")
		} else {
			bad := ""
			for _, ref := range *sc.ch.Referrers() {
				if _, isDbg := ref.(*ssa.DebugRef); isDbg {
					continue
				}
				ok := false
				for _, g := range branchGuards(ref.Block()) {
					bo, isB := g.cond.(*ssa.BinOp)
					if !isB {
						continue
					}
					if bo.X != sc.err && bo.Y != sc.err {
						continue
					}
					if (bo.Op == token.NEQ && !g.val) || (bo.Op == token.EQL && g.val) {
						ok = true
					}
				}
				if !ok {
					bad += " " + ctx.pos(ref.Pos())
				}
			}
			r.check("G3", key+"|channel-used-only-when-creation-succeeded", sc.call.Pos(), bad == "",
				"when "+calleeName+" fails its channel is nil; a send on a nil channel blocks forever. Uses not guarded by err == nil:"+bad)
		}
	} else if sc.err != nil {
		r.check("G3", key+"|creation-cannot-fail", sc.call.Pos(), true, calleeName+" returns a nil error on every path: obligation vacuous today")
	}
	if sc.ch == nil {
		return
	}
	// G5: Render(...) -> close(ch) -> wg.Wait(), helper-aware (shared with C11/B4)
	ruleSinkOrder(ctx, r, "G5", fn, sc)
	_ = strings.TrimSpace
}

// ruleSemaphoreReleased (G9): a package-level channel of empty structs used as a counting
// semaphore (send = take a slot, receive = give it back) is the channel form of G6: every path
// from the send to a return or panic of the function gives the slot back - by a receive from the
// same channel, by a deferred call that receives from it, or by handing it to a goroutine or a
// called function that receives from it. A slot kept by the early return of an error branch is
// gone for the life of the process; after `cap` failed saves every later save waits for ever.
func ruleSemaphoreReleased(ctx *Ctx, r *Report) {
	semOf := func(v ssa.Value) *ssa.Global {
		u, ok := v.(*ssa.UnOp)
		if !ok || u.Op != token.MUL {
			return nil
		}
		g, ok := u.X.(*ssa.Global)
		if !ok {
			return nil
		}
		pt, ok := g.Type().(*types.Pointer)
		if !ok {
			return nil
		}
		ch, ok := pt.Elem().Underlying().(*types.Chan)
		if !ok {
			return nil
		}
		st, ok := ch.Elem().Underlying().(*types.Struct)
		if !ok || st.NumFields() != 0 {
			return nil
		}
		return g
	}
	var receives func(fn *ssa.Function, g *ssa.Global, seen map[*ssa.Function]bool) bool
	receives = func(fn *ssa.Function, g *ssa.Global, seen map[*ssa.Function]bool) bool {
		if fn == nil || seen[fn] || len(seen) > 200 {
			return false
		}
		seen[fn] = true
		found := false
		allInstrs(fn, func(_ *ssa.BasicBlock, ins ssa.Instruction) {
			if found {
				return
			}
			if u, ok := ins.(*ssa.UnOp); ok && u.Op == token.ARROW && semOf(u.X) == g {
				found = true
				return
			}
			if c, ok := ins.(ssa.CallInstruction); ok {
				if cf := calleeOfCommon(c.Common()); cf != nil && inModule(cf) && receives(cf, g, seen) {
					found = true
				}
			}
		})
		return found
	}
	hands := func(ins ssa.Instruction, g *ssa.Global) bool {
		if u, ok := ins.(*ssa.UnOp); ok && u.Op == token.ARROW && semOf(u.X) == g {
			return true
		}
		if c, ok := ins.(ssa.CallInstruction); ok {
			if cf := calleeOfCommon(c.Common()); cf != nil && inModule(cf) {
				return receives(cf, g, map[*ssa.Function]bool{})
			}
		}
		return false
	}
	n := 0
	for _, fn := range ctx.srcFuncs("render", "sdf", "obj", "render/dc") {
		if len(fn.Blocks) == 0 {
			continue
		}
		ord := 0
		allInstrs(fn, func(b *ssa.BasicBlock, ins ssa.Instruction) {
			snd, ok := ins.(*ssa.Send)
			if !ok {
				return
			}
			g := semOf(snd.Chan)
			if g == nil {
				return
			}
			ord++
			n++
			deferred := false
			allInstrs(fn, func(_ *ssa.BasicBlock, d ssa.Instruction) {
				if _, isDefer := d.(*ssa.Defer); isDefer && hands(d, g) {
					deferred = true
				}
			})
			bad := ""
			if !deferred {
				seen := map[*ssa.BasicBlock]bool{}
				var walk func(blk *ssa.BasicBlock, from int)
				walk = func(blk *ssa.BasicBlock, from int) {
					for i := from; i < len(blk.Instrs); i++ {
						x := blk.Instrs[i]
						if hands(x, g) {
							return
						}
						switch x.(type) {
						case *ssa.Return, *ssa.Panic:
							if bad == "" {
								bad = " the exit at " + ctx.pos(lastPos(blk)) + " is reached with the slot still taken;"
							}
							return
						}
					}
					for _, su := range blk.Succs {
						if !seen[su] {
							seen[su] = true
							walk(su, 0)
						}
					}
				}
				idx := 0
				for i, x := range b.Instrs {
					if x == ins {
						idx = i + 1
					}
				}
				walk(b, idx)
			}
			r.check("G9", fmt.Sprintf("%s|slot#%d-of-%s-given-back-on-every-exit", shortFn(fn), ord, g.Name()), ins.Pos(), bad == "",
				"every path from the send on the semaphore channel to a return passes a receive from it, or hands the slot to a goroutine / deferred call / callee that receives from it;"+bad)
		})
	}
	r.Counts["semaphore_sites"] = n
	r.expectControl("G9", "verifCtlSlotLeak")
}

// calleeOfCommon: the function a call, go or defer statement runs when that is known statically
// (a named function, a method, or a function literal written at the call).
func calleeOfCommon(c *ssa.CallCommon) *ssa.Function {
	if f := c.StaticCallee(); f != nil {
		return f
	}
	if mc, ok := c.Value.(*ssa.MakeClosure); ok {
		f, _ := mc.Fn.(*ssa.Function)
		return f
	}
	return nil
}
