package main

// E1: loading. The repository's Go packages are loaded from source on every
// run (go/packages, LoadAllSyntax), with the positive controls injected as an
// overlay (files that exist only in memory, in the directories of the packages
// they extend), then the whole program is converted to SSA.

import (
	"fmt"
	"go/ast"
	"go/token"
	"go/types"
	"os"
	"path/filepath"
	"sort"
	"strings"

	"golang.org/x/tools/go/packages"
	"golang.org/x/tools/go/ssa"
	"golang.org/x/tools/go/ssa/ssautil"
)

const modPath = "github.com/deadsy/sdfx"

// libPatterns are the library packages every check loads.
var libPatterns = []string{"./sdf", "./render", "./render/dc", "./obj", "./vec/..."}

type Ctx struct {
	Repo     string
	Fset     *token.FileSet
	Pkgs     map[string]*packages.Package // keyed by path relative to the module ("sdf", "render/dc", ...)
	All      []*packages.Package          // every package reachable (deps included)
	Prog     *ssa.Program
	SSA      map[string]*ssa.Package
	Controls map[string]bool // absolute file names of overlay control files
	NFuncs   int
	GOARCH   string
	GOOS     string
}

type loadOpts struct {
	repo     string
	controls bool
	examples bool
	goarch   string
	goos     string
}

func verifDir() string {
	if d := os.Getenv("VERIF_DIR"); d != "" {
		return d
	}
	exe, err := os.Executable()
	if err == nil {
		d := filepath.Dir(filepath.Dir(exe)) // <verif>/bin/sdfxlint
		if _, err := os.Stat(filepath.Join(d, "MANIFEST.json")); err == nil {
			return d
		}
	}
	return "/verif"
}

// controlOverlay reads /verif/controls/<pkgdir>__<name>.go.txt and maps each
// onto <repo>/<pkgdir>/zz_verifctl_<name>.go.
func controlOverlay(repo string) (map[string][]byte, map[string]bool, error) {
	ov := map[string][]byte{}
	names := map[string]bool{}
	dir := filepath.Join(verifDir(), "controls")
	ents, err := os.ReadDir(dir)
	if err != nil {
		return nil, nil, err
	}
	for _, e := range ents {
		n := e.Name()
		if !strings.HasSuffix(n, ".go.txt") {
			continue
		}
		i := strings.Index(n, "__")
		if i < 0 {
			continue
		}
		pkgdir := strings.ReplaceAll(n[:i], "_", "/")
		base := strings.TrimSuffix(n[i+2:], ".go.txt")
		b, err := os.ReadFile(filepath.Join(dir, n))
		if err != nil {
			return nil, nil, err
		}
		target := filepath.Join(repo, pkgdir, "zz_verifctl_"+base+".go")
		ov[target] = b
		names[target] = true
	}
	return ov, names, nil
}

func loadRepo(o loadOpts) (*Ctx, error) {
	repo, err := filepath.Abs(o.repo)
	if err != nil {
		return nil, err
	}
	fset := token.NewFileSet()
	env := append(os.Environ(), "GOFLAGS=-mod=mod", "GOPROXY=off", "GOSUMDB=off", "GOWORK=off", "GOTOOLCHAIN=local")
	if o.goarch != "" {
		env = append(env, "GOARCH="+o.goarch, "CGO_ENABLED=0")
	}
	if o.goos != "" {
		env = append(env, "GOOS="+o.goos, "CGO_ENABLED=0")
	}
	cfg := &packages.Config{
		Mode:  packages.LoadAllSyntax,
		Dir:   repo,
		Fset:  fset,
		Env:   env,
		Tests: false,
	}
	ctx := &Ctx{Repo: repo, Fset: fset, Pkgs: map[string]*packages.Package{}, SSA: map[string]*ssa.Package{}, Controls: map[string]bool{}, GOARCH: o.goarch, GOOS: o.goos}
	if o.controls {
		ov, names, err := controlOverlay(repo)
		if err != nil {
			return nil, fmt.Errorf("controls: %v", err)
		}
		cfg.Overlay = ov
		ctx.Controls = names
	}
	pats := append([]string{}, libPatterns...)
	if o.examples {
		pats = append(pats, "./examples/...")
	}
	pkgs, err := packages.Load(cfg, pats...)
	if err != nil {
		return nil, err
	}
	if len(pkgs) == 0 {
		return nil, fmt.Errorf("no packages loaded from %s", repo)
	}
	var errs []string
	packages.Visit(pkgs, nil, func(p *packages.Package) {
		for _, e := range p.Errors {
			errs = append(errs, e.Error())
		}
		ctx.All = append(ctx.All, p)
	})
	if len(errs) > 0 {
		sort.Strings(errs)
		if len(errs) > 8 {
			errs = errs[:8]
		}
		return nil, fmt.Errorf("load/type errors: %s", strings.Join(errs, "; "))
	}
	for _, p := range pkgs {
		if strings.HasPrefix(p.PkgPath, modPath) {
			rel := strings.TrimPrefix(strings.TrimPrefix(p.PkgPath, modPath), "/")
			ctx.Pkgs[rel] = p
		}
	}
	for _, need := range []string{"sdf", "render", "render/dc", "obj", "vec/v2", "vec/v3", "vec/v2i", "vec/v3i", "vec/conv"} {
		if ctx.Pkgs[need] == nil {
			return nil, fmt.Errorf("package %s/%s not loaded", modPath, need)
		}
	}
	prog, _ := ssautil.AllPackages(pkgs, ssa.InstantiateGenerics)
	prog.Build()
	ctx.Prog = prog
	for rel, p := range ctx.Pkgs {
		ctx.SSA[rel] = prog.Package(p.Types)
	}
	for fn := range ssautil.AllFunctions(prog) {
		if fn.Pkg != nil && strings.HasPrefix(fn.Pkg.Pkg.Path(), modPath) {
			ctx.NFuncs++
		}
	}
	return ctx, nil
}

// ---------------------------------------------------------------- helpers

func (c *Ctx) pos(p token.Pos) string {
	if !p.IsValid() {
		return "-"
	}
	pp := c.Fset.Position(p)
	f := pp.Filename
	if rel, err := filepath.Rel(c.Repo, f); err == nil && !strings.HasPrefix(rel, "..") {
		f = rel
	}
	return fmt.Sprintf("%s:%d", f, pp.Line)
}

func (c *Ctx) isControlPos(p token.Pos) bool {
	if !p.IsValid() {
		return false
	}
	return c.Controls[c.Fset.Position(p).Filename]
}

// libPkgs returns the module's own library packages in deterministic order.
func (c *Ctx) libPkgs() []*packages.Package {
	var ks []string
	for k := range c.Pkgs {
		ks = append(ks, k)
	}
	sort.Strings(ks)
	var out []*packages.Package
	for _, k := range ks {
		out = append(out, c.Pkgs[k])
	}
	return out
}

// funcDecl finds a top-level function or method declaration by package and
// name ("mcToTriangles", "(*dcache3).processCube", "(Box3).MinMaxDist2").
func (c *Ctx) funcDecl(pkg, name string) *ast.FuncDecl {
	p := c.Pkgs[pkg]
	if p == nil {
		return nil
	}
	for _, f := range p.Syntax {
		if c.Controls[c.Fset.Position(f.Pos()).Filename] {
			continue
		}
		for _, d := range f.Decls {
			fd, ok := d.(*ast.FuncDecl)
			if !ok {
				continue
			}
			if declName(fd) == name {
				return fd
			}
		}
	}
	return nil
}

func declName(fd *ast.FuncDecl) string {
	if fd.Recv == nil || len(fd.Recv.List) == 0 {
		return fd.Name.Name
	}
	t := fd.Recv.List[0].Type
	star := ""
	if s, ok := t.(*ast.StarExpr); ok {
		star = "*"
		t = s.X
	}
	if ix, ok := t.(*ast.IndexExpr); ok {
		t = ix.X
	}
	id, _ := t.(*ast.Ident)
	if id == nil {
		return fd.Name.Name
	}
	return "(" + star + id.Name + ")." + fd.Name.Name
}

// ssaFunc finds the SSA function for a package-level function or method.
func (c *Ctx) ssaFunc(pkg, name string) *ssa.Function {
	sp := c.SSA[pkg]
	if sp == nil {
		return nil
	}
	if !strings.HasPrefix(name, "(") {
		return sp.Func(name)
	}
	// "(*T).M" or "(T).M"
	r := strings.Index(name, ").")
	if r < 0 {
		return nil
	}
	tn := strings.TrimPrefix(name[1:r], "*")
	ptr := strings.HasPrefix(name[1:r], "*")
	mn := name[r+2:]
	obj := sp.Pkg.Scope().Lookup(tn)
	if obj == nil {
		return nil
	}
	var t types.Type = obj.Type()
	if ptr {
		t = types.NewPointer(t)
	}
	sel := c.Prog.MethodSets.MethodSet(t).Lookup(sp.Pkg, mn)
	if sel == nil {
		return nil
	}
	return c.Prog.MethodValue(sel)
}

// srcFuncs returns every source-level function (incl. methods and closures)
// of the given module packages, in deterministic order.
func (c *Ctx) srcFuncs(pkgs ...string) []*ssa.Function {
	want := map[*ssa.Package]bool{}
	for _, p := range pkgs {
		if sp := c.SSA[p]; sp != nil {
			want[sp] = true
		}
	}
	var out []*ssa.Function
	for fn := range ssautil.AllFunctions(c.Prog) {
		if fn.Pkg == nil || !want[fn.Pkg] || fn.Synthetic != "" || len(fn.Blocks) == 0 {
			continue
		}
		out = append(out, fn)
	}
	sort.Slice(out, func(i, j int) bool {
		if out[i].Pos() != out[j].Pos() {
			return out[i].Pos() < out[j].Pos()
		}
		return out[i].String() < out[j].String()
	})
	return out
}

func shortFn(fn *ssa.Function) string {
	s := fn.String()
	s = strings.ReplaceAll(s, modPath+"/", "")
	return s
}
