package main

// E1: loading. The repository's Go packages are loaded from source on every
// run (go/packages, LoadAllSyntax), with the positive controls injected as an
// overlay (files that exist only in memory, in the directories of the packages
// they extend), then the whole program is converted to SSA.

import (
	"fmt"
	"go/ast"
	"go/token"
	"go/types"
	"os"
	"path/filepath"
	"sort"
	"strings"

	"golang.org/x/tools/go/packages"
	"golang.org/x/tools/go/ssa"
	"golang.org/x/tools/go/ssa/ssautil"
)

const modPath = "github.com/deadsy/sdfx"

// libPatterns are the library packages every check loads.
var libPatterns = []string{"./sdf", "./render", "./render/dc", "./obj", "./vec/..."}

type Ctx struct {
	Repo     string
	Fset     *token.FileSet
	Pkgs     map[string]*packages.Package // keyed by path relative to the module ("sdf", "render/dc", ...)
	All      []*packages.Package          // every package reachable (deps included)
	Prog     *ssa.Program
	SSA      map[string]*ssa.Package
	Controls map[string]bool // absolute file names of overlay control files
	NFuncs   int
	GOARCH   string
	GOOS     string
	// SkippedControls: control files (pkgdir-less base names, e.g. "c06") left out because they no
	// longer type-check against the tree under analysis
	SkippedControls []string
}

type loadOpts struct {
	repo     string
	controls bool
	examples bool
	goarch   string
	goos     string
}

func verifDir() string {
	if d := os.Getenv("VERIF_DIR"); d != "" {
		return d
	}
	exe, err := os.Executable()
	if err == nil {
		d := filepath.Dir(filepath.Dir(exe)) // <verif>/bin/sdfxlint
		if _, err := os.Stat(filepath.Join(d, "MANIFEST.json")); err == nil {
			return d
		}
	}
	return "/verif"
}

// controlOverlay reads /verif/controls/<pkgdir>__<name>.go.txt and maps each
// onto <repo>/<pkgdir>/zz_verifctl_<name>.go.
func controlOverlay(repo string) (map[string][]byte, map[string]bool, error) {
	ov := map[string][]byte{}
	names := map[string]bool{}
	dir := filepath.Join(verifDir(), "controls")
	ents, err := os.ReadDir(dir)
	if err != nil {
		return nil, nil, err
	}
	for _, e := range ents {
		n := e.Name()
		if !strings.HasSuffix(n, ".go.txt") {
			continue
		}
		i := strings.Index(n, "__")
		if i < 0 {
			continue
		}
		pkgdir := strings.ReplaceAll(n[:i], "_", "/")
		base := strings.TrimSuffix(n[i+2:], ".go.txt")
		b, err := os.ReadFile(filepath.Join(dir, n))
		if err != nil {
			return nil, nil, err
		}
		target := filepath.Join(repo, pkgdir, "zz_verifctl_"+base+".go")
		ov[target] = b
		names[target] = true
	}
	return ov, names, nil
}

// loadRepo loads the repository with the positive-control overlay. A control file is written
// against the repository's internal types; when an edit of the repository makes one of them
// stop type-checking (and nothing else fails), the load is repeated without that control and
// the control is reported as skipped instead of making every check undecidable.
func loadRepo(o loadOpts) (*Ctx, error) {
	skip := map[string]bool{}
	for attempt := 0; ; attempt++ {
		ctx, bad, err := loadRepoOnce(o, skip)
		if err == nil {
			for f := range skip {
				ctx.SkippedControls = append(ctx.SkippedControls, strings.TrimSuffix(strings.TrimPrefix(filepath.Base(f), "zz_verifctl_"), ".go"))
			}
			sort.Strings(ctx.SkippedControls)
			return ctx, nil
		}
		if len(bad) == 0 || attempt >= 3 {
			return nil, err
		}
		for _, f := range bad {
			skip[f] = true
		}
	}
}

// loadRepoOnce: bad lists the control files that alone account for the type errors (if any).
func loadRepoOnce(o loadOpts, skip map[string]bool) (*Ctx, []string, error) {
	ctx, bad, err := loadRepoImpl(o, skip)
	return ctx, bad, err
}

func loadRepoImpl(o loadOpts, skip map[string]bool) (*Ctx, []string, error) {
	repo, err := filepath.Abs(o.repo)
	if err != nil {
		return nil, nil, err
	}
	fset := token.NewFileSet()
	env := append(os.Environ(), "GOFLAGS=-mod=mod", "GOPROXY=off", "GOSUMDB=off", "GOWORK=off", "GOTOOLCHAIN=local")
	if o.goarch != "" {
		env = append(env, "GOARCH="+o.goarch, "CGO_ENABLED=0")
	}
	if o.goos != "" {
		env = append(env, "GOOS="+o.goos, "CGO_ENABLED=0")
	}
	cfg := &packages.Config{
		Mode:  packages.LoadAllSyntax,
		Dir:   repo,
		Fset:  fset,
		Env:   env,
		Tests: false,
	}
	ctx := &Ctx{Repo: repo, Fset: fset, Pkgs: map[string]*packages.Package{}, SSA: map[string]*ssa.Package{}, Controls: map[string]bool{}, GOARCH: o.goarch, GOOS: o.goos}
	if o.controls {
		ov, names, err := controlOverlay(repo)
		if err != nil {
			return nil, nil, fmt.Errorf("controls: %v", err)
		}
		for f := range skip {
			delete(ov, f)
			delete(names, f)
		}
		cfg.Overlay = ov
		ctx.Controls = names
	}
	pats := append([]string{}, libPatterns...)
	if o.examples {
		pats = append(pats, "./examples/...")
	}
	pkgs, err := packages.Load(cfg, pats...)
	if err != nil {
		return nil, nil, err
	}
	if len(pkgs) == 0 {
		return nil, nil, fmt.Errorf("no packages loaded from %s", repo)
	}
	var errs []string
	onlyControls := true
	badCtl := map[string]bool{}
	packages.Visit(pkgs, nil, func(p *packages.Package) {
		for _, e := range p.Errors {
			errs = append(errs, e.Error())
			file := e.Pos
			if i := strings.Index(file, ":"); i >= 0 {
				file = file[:i]
			}
			if ctx.Controls[file] {
				badCtl[file] = true
			} else {
				onlyControls = false
			}
		}
		ctx.All = append(ctx.All, p)
	})
	if len(errs) > 0 {
		sort.Strings(errs)
		if len(errs) > 8 {
			errs = errs[:8]
		}
		var bad []string
		if onlyControls {
			for f := range badCtl {
				bad = append(bad, f)
			}
		}
		return nil, bad, fmt.Errorf("load/type errors: %s", strings.Join(errs, "; "))
	}
	for _, p := range pkgs {
		if strings.HasPrefix(p.PkgPath, modPath) {
			rel := strings.TrimPrefix(strings.TrimPrefix(p.PkgPath, modPath), "/")
			ctx.Pkgs[rel] = p
		}
	}
	for _, need := range []string{"sdf", "render", "render/dc", "obj", "vec/v2", "vec/v3", "vec/v2i", "vec/v3i", "vec/conv"} {
		if ctx.Pkgs[need] == nil {
			return nil, nil, fmt.Errorf("package %s/%s not loaded", modPath, need)
		}
	}
	prog, _ := ssautil.AllPackages(pkgs, ssa.InstantiateGenerics)
	prog.Build()
	ctx.Prog = prog
	for rel, p := range ctx.Pkgs {
		ctx.SSA[rel] = prog.Package(p.Types)
	}
	for fn := range ssautil.AllFunctions(prog) {
		if fn.Pkg != nil && strings.HasPrefix(fn.Pkg.Pkg.Path(), modPath) {
			ctx.NFuncs++
		}
	}
	return ctx, nil, nil
}

// ---------------------------------------------------------------- helpers

func (c *Ctx) pos(p token.Pos) string {
	if !p.IsValid() {
		return "-"
	}
	pp := c.Fset.Position(p)
	f := pp.Filename
	if rel, err := filepath.Rel(c.Repo, f); err == nil && !strings.HasPrefix(rel, "..") {
		f = rel
	}
	return fmt.Sprintf("%s:%d", f, pp.Line)
}

func (c *Ctx) isControlPos(p token.Pos) bool {
	if !p.IsValid() {
		return false
	}
	return c.Controls[c.Fset.Position(p).Filename]
}

// libPkgs returns the module's own library packages in deterministic order.
func (c *Ctx) libPkgs() []*packages.Package {
	var ks []string
	for k := range c.Pkgs {
		ks = append(ks, k)
	}
	sort.Strings(ks)
	var out []*packages.Package
	for _, k := range ks {
		out = append(out, c.Pkgs[k])
	}
	return out
}

// funcDecl finds a top-level function or method declaration by package and
// name ("mcToTriangles", "(*dcache3).processCube", "(Box3).MinMaxDist2").
func (c *Ctx) funcDecl(pkg, name string) *ast.FuncDecl {
	p := c.Pkgs[pkg]
	if p == nil {
		return nil
	}
	for _, f := range p.Syntax {
		if c.Controls[c.Fset.Position(f.Pos()).Filename] {
			continue
		}
		for _, d := range f.Decls {
			fd, ok := d.(*ast.FuncDecl)
			if !ok {
				continue
			}
			if declName(fd) == name {
				return fd
			}
		}
	}
	return nil
}

func declName(fd *ast.FuncDecl) string {
	if fd.Recv == nil || len(fd.Recv.List) == 0 {
		return fd.Name.Name
	}
	t := fd.Recv.List[0].Type
	star := ""
	if s, ok := t.(*ast.StarExpr); ok {
		star = "*"
		t = s.X
	}
	if ix, ok := t.(*ast.IndexExpr); ok {
		t = ix.X
	}
	id, _ := t.(*ast.Ident)
	if id == nil {
		return fd.Name.Name
	}
	return "(" + star + id.Name + ")." + fd.Name.Name
}

// ssaFunc finds the SSA function for a package-level function or method.
func (c *Ctx) ssaFunc(pkg, name string) *ssa.Function {
	sp := c.SSA[pkg]
	if sp == nil {
		return nil
	}
	if !strings.HasPrefix(name, "(") {
		return sp.Func(name)
	}
	// "(*T).M" or "(T).M"
	r := strings.Index(name, ").")
	if r < 0 {
		return nil
	}
	tn := strings.TrimPrefix(name[1:r], "*")
	ptr := strings.HasPrefix(name[1:r], "*")
	mn := name[r+2:]
	obj := sp.Pkg.Scope().Lookup(tn)
	if obj == nil {
		return nil
	}
	var t types.Type = obj.Type()
	if ptr {
		t = types.NewPointer(t)
	}
	sel := c.Prog.MethodSets.MethodSet(t).Lookup(sp.Pkg, mn)
	if sel == nil {
		return nil
	}
	return c.Prog.MethodValue(sel)
}

// srcFuncs returns every source-level function (incl. methods and closures)
// of the given module packages, in deterministic order.
func (c *Ctx) srcFuncs(pkgs ...string) []*ssa.Function {
	want := map[*ssa.Package]bool{}
	for _, p := range pkgs {
		if sp := c.SSA[p]; sp != nil {
			want[sp] = true
		}
	}
	var out []*ssa.Function
	for fn := range ssautil.AllFunctions(c.Prog) {
		if fn.Pkg == nil || !want[fn.Pkg] || fn.Synthetic != "" || len(fn.Blocks) == 0 {
			continue
		}
		out = append(out, fn)
	}
	sort.Slice(out, func(i, j int) bool {
		if out[i].Pos() != out[j].Pos() {
			return out[i].Pos() < out[j].Pos()
		}
		return out[i].String() < out[j].String()
	})
	return out
}

func shortFn(fn *ssa.Function) string {
	s := fn.String()
	s = strings.ReplaceAll(s, modPath+"/", "")
	return s
}
