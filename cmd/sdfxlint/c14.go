package main

// C14 — the STL loader is total: error or mesh, never a panic or hang.
//
// Scope: module functions reachable from render.LoadSTL.
//
//  L1  every index / slice expression on a slice is justified: constant index
//      below a length lower bound established by a dominating len() guard
//      (propagated through x[c:] and through helpers that return as many
//      elements as they are given), the induction variable of a loop bounded
//      by len() of the same slice, or a strided loop i += k with accesses up
//      to i+k-1 protected by a dominating len(x)%k == 0 guard
//  L2  an allocation sized by file content (not by a constant or the length
//      of an existing slice) is reachable only through a call guarded by
//      fileSize == int64(count)*50 + 84, computed without overflow
//      (conversion to int64 before the multiplication)
//  L3  every loop is a range loop, a loop bounded by len()/a loaded count, or
//      driven by (*bufio.Scanner).Scan; there is no unconditional loop
//  L4  no panic, log.Fatal/Panic, os.Exit, unchecked type assertion or integer
//      division by a non-constant; no error result is discarded (Close apart)
//
// Trusted: bufio.Scanner (over-long line → ErrTooLong), encoding/binary, strconv.

import (
	"fmt"
	"go/constant"
	"go/token"
	"go/types"
	"math/big"
	"sort"
	"strings"

	"golang.org/x/tools/go/ssa"
)

func init() { register("C14", checkC14) }

func checkC14(ctx *Ctx, r *Report, tier string) {
	r.Explain = "A guard-dominance bounds checker over the SSA of every function reachable from LoadSTL: each slice index is justified by a dominating length guard, a len-bounded induction variable or a modulus-guarded stride; content-sized allocation only behind the size equation (overflow-free); loops are bounded or scanner driven; no explicit panic/exit, no unchecked assertion, no discarded error. This decides 'never a panic, never a hang, no allocation out of proportion' for the stated classes; the standard library's own totality is trusted."
	r.Trusted = []string{"go/types", "go/ssa dominators", "bufio.Scanner, encoding/binary, strconv, os are total (return errors)"}
	r.Assume = []string{"reading a file of n bytes terminates"}
	root := ctx.ssaFunc("render", "LoadSTL")
	if root == nil {
		r.undecided("L1", "LoadSTL", 0, "entry point not found")
		return
	}
	e := newFxEngine(ctx)
	scope := reachFrom(e, []*ssa.Function{root}, false)
	var fns []*ssa.Function
	for f := range scope {
		if inModule(f) {
			fns = append(fns, f)
		}
	}
	// second entry point: obj.ImportSTL hands the loaded list on to the mesh importer, whose own
	// indexing of the list (the first triangle seeds the bounding box) must be total as well
	if imp := ctx.ssaFunc("obj", "ImportSTL"); imp != nil {
		n := 0
		for f := range reachFrom(e, []*ssa.Function{imp}, false) {
			if inModule(f) && f.Pkg != nil && strings.HasSuffix(f.Pkg.Pkg.Path(), "/obj") && !scope[f] {
				fns = append(fns, f)
				n++
			}
		}
		r.Counts["importer_functions"] = n
	} else {
		r.undecided("L1", "obj.ImportSTL", 0, "second entry point not found")
	}
	for _, name := range []string{"verifCtlLoadAsciiNoGuard", "verifCtlLoadBinaryUnguarded"} {
		if cf := ctx.ssaFunc("render", name); cf != nil {
			fns = append(fns, cf)
		}
	}
	sort.Slice(fns, func(i, j int) bool { return fns[i].String() < fns[j].String() })
	r.Counts["functions_in_scope"] = len(fns)
	lc := &lenChecker{ctx: ctx, sameLen: map[*ssa.Function]int{}}
	for _, fn := range fns {
		lc.sameLen[fn] = lenPreserving(fn)
	}
	nIdx := 0
	for _, fn := range fns {
		nIdx += lc.checkIndices(r, fn)
		checkLoops(ctx, r, fn)
		checkNoPanic(ctx, r, fn)
	}
	r.Counts["index_sites"] = nIdx
	r.floor("L1", 8)
	r.floor("L3", 4)
	r.floor("L4", 4)
	r.expectControl("L1", "verifCtlLoadAsciiNoGuard")
	// L2
	checkContentAlloc(ctx, r, fns, root)
	r.floor("L2", 1)
	r.expectControl("L2", "verifCtlLoadBinaryUnguarded")
}

// lenPreserving: fn returns (as first result, on its non-error returns) a
// slice made with len(param j); returns j or -1.
func lenPreserving(fn *ssa.Function) int {
	if fn.Signature.Results().Len() == 0 {
		return -1
	}
	if _, ok := fn.Signature.Results().At(0).Type().Underlying().(*types.Slice); !ok {
		return -1
	}
	res := -2
	for _, ret := range returnsOf(fn) {
		v := ret.Results[0]
		if c, ok := v.(*ssa.Const); ok && c.Value == nil {
			continue // nil result (error path)
		}
		ms, ok := v.(*ssa.MakeSlice)
		if !ok {
			return -1
		}
		ln, ok := ms.Len.(*ssa.Call)
		if !ok {
			return -1
		}
		bi, ok := ln.Call.Value.(*ssa.Builtin)
		if !ok || bi.Name() != "len" {
			return -1
		}
		j := -1
		for i, p := range fn.Params {
			if ln.Call.Args[0] == ssa.Value(p) {
				j = i
			}
		}
		if j < 0 || (res != -2 && res != j) {
			return -1
		}
		res = j
	}
	if res == -2 {
		return -1
	}
	return res
}

type lenChecker struct {
	ctx     *Ctx
	sameLen map[*ssa.Function]int
	// noCallers: do not derive bounds for a parameter from the call sites of its function
	noCallers bool
}

func lenCallOf(v ssa.Value) (ssa.Value, bool) {
	c, ok := v.(*ssa.Call)
	if !ok {
		return nil, false
	}
	bi, ok := c.Call.Value.(*ssa.Builtin)
	if !ok || bi.Name() != "len" {
		return nil, false
	}
	return c.Call.Args[0], true
}

// sameSlice: two SSA values denote the same slice (identical, or loads of the same local variable without an intervening store).
func sameSlice(a, b ssa.Value) bool {
	if a == b {
		return true
	}
	la, ok1 := a.(*ssa.UnOp)
	lb, ok2 := b.(*ssa.UnOp)
	if ok1 && ok2 && la.Op == token.MUL && lb.Op == token.MUL && la.X == lb.X {
		return true
	}
	return false
}

// minLen: a lower bound of len(x) valid in block at (−1 = unknown).
func (lc *lenChecker) minLen(x ssa.Value, at *ssa.BasicBlock, depth int) int64 {
	if depth > 8 {
		return -1
	}
	best := int64(-1)
	up := func(v int64) {
		if v > best {
			best = v
		}
	}
	for _, g := range branchGuards(at) {
		// a predicate helper, `if isVertexLine(tokens) {`: what its true result implies
		if c, isCall := g.cond.(*ssa.Call); isCall && g.val {
			if f := c.Call.StaticCallee(); f != nil && inModule(f) && len(f.Blocks) > 0 && len(f.Params) == len(c.Call.Args) {
				for j, a := range c.Call.Args {
					if sameSlice(a, x) {
						up(lc.lenWhenTrue(f, f.Params[j], depth+1))
					}
				}
			}
			continue
		}
		bo, ok := g.cond.(*ssa.BinOp)
		if !ok {
			continue
		}
		arg, isLen := lenCallOf(bo.X)
		k, isK := constInt(bo.Y)
		op := bo.Op
		if !isLen {
			arg, isLen = lenCallOf(bo.Y)
			k, isK = constInt(bo.X)
			op = flipTok(op)
		}
		if !isLen || !isK || !sameSlice(arg, x) {
			continue
		}
		if !g.val {
			op = negTok(op)
		}
		switch op {
		case token.EQL, token.GEQ:
			up(k)
		case token.GTR:
			up(k + 1)
		case token.NEQ:
			if k == 0 {
				up(1) // a length is never negative: len != 0 is len >= 1
			}
		}
	}
	switch v := x.(type) {
	case *ssa.Parameter:
		// every caller in the module passes a slice of at least this length
		fn := v.Parent()
		pi := -1
		for i, p := range fn.Params {
			if p == v {
				pi = i
			}
		}
		refs := refsTo(lc.ctx, fn)
		if lc.noCallers {
			refs = nil
		}
		if pi >= 0 && len(refs) > 0 && fn.Object() != nil && !fn.Object().Exported() {
			least := int64(-2)
			for _, ref := range refs {
				call, isCall := ref.ins.(*ssa.Call)
				if !isCall || call.Call.StaticCallee() != fn || pi >= len(call.Call.Args) {
					least = -1
					break
				}
				m := lc.minLen(call.Call.Args[pi], call.Block(), depth+1)
				if least == -2 || m < least {
					least = m
				}
			}
			if least >= 0 {
				up(least)
			}
		}
	case *ssa.Slice:
		if k, okG := groupSlice(v, v.Block()); okG {
			up(k)
		}
		if v.High == nil {
			lo := int64(0)
			if v.Low != nil {
				c, ok := constInt(v.Low)
				if !ok {
					// arr[a·k+c:] of an array of N elements with 0 <= k < n: at least
					// N − (a·(n−1)+c) elements remain
					if pt, isP := v.X.Type().Underlying().(*types.Pointer); isP {
						if at, isA := pt.Elem().Underlying().(*types.Array); isA {
							isInd := func(x ssa.Value) bool { _, n, ok := boundedInduction(x, v.Block()); return ok && n >= 1 }
							if coef, base, k0, okA := affineOfStop(v.Low, isInd); okA && base != nil && coef >= 0 {
								if _, n, okB := boundedInduction(base, v.Block()); okB && n >= 1 {
									if rem := at.Len() - (coef*(n-1) + k0); rem >= 0 {
										up(rem)
									}
								}
							}
						}
					}
					return best
				}
				lo = c
			}
			if m := lc.minLen(v.X, v.Block(), depth+1); m >= 0 {
				up(m - lo)
			}
			// arr[c:] of a fixed-size array
			if pt, isP := v.X.Type().Underlying().(*types.Pointer); isP {
				if at, isA := pt.Elem().Underlying().(*types.Array); isA && at.Len()-lo >= 0 {
					up(at.Len() - lo)
				}
			}
		} else if h, ok := constInt(v.High); ok {
			lo := int64(0)
			if v.Low != nil {
				c, ok := constInt(v.Low)
				if !ok {
					return best
				}
				lo = c
			}
			up(h - lo)
		} else if v.Low != nil {
			// x[a·(k+c1) : a·(k+c2)]: a window of constant length a·(c2−c1)
			ca, ba, ka, ok1 := affineOf(v.Low)
			cb, bb, kb, ok2 := affineOf(v.High)
			if ok1 && ok2 && ca == cb && ba == bb && ba != nil && kb-ka >= 0 {
				up(kb - ka)
			}
		}
	case *ssa.Extract:
		if c, ok := v.Tuple.(*ssa.Call); ok && v.Index == 0 {
			if f := c.Call.StaticCallee(); f != nil {
				if j, ok := lc.sameLen[f]; ok && j >= 0 && j < len(c.Call.Args) {
					if m := lc.minLen(c.Call.Args[j], c.Block(), depth+1); m >= 0 {
						up(m)
					}
				}
			}
		}
	case *ssa.MakeSlice:
		if c, ok := constInt(v.Len); ok {
			up(c)
		}
	case *ssa.Phi:
		// a window sliding over a slice, `for w := xs; len(w) != 0; w = w[k:]`: if len(xs) is a
		// multiple of k so is every len(w), and a non-empty window holds at least k elements
		if len(v.Edges) == 2 && best >= 1 {
			var init ssa.Value
			var step *ssa.Slice
			for i, e := range v.Edges {
				if isBackEdge(v.Block().Preds[i], v.Block()) {
					step, _ = e.(*ssa.Slice)
				} else {
					init = e
				}
			}
			if step != nil && init != nil && step.X == ssa.Value(v) && step.High == nil && step.Low != nil {
				if k, ok := constInt(step.Low); ok && k > 0 && modGuard(init, k, v.Block()) {
					up(k)
				}
			}
		}
	}
	return best
}

// maxLen: an upper bound of len(x) valid in block at: the exact length a dominating guard
// `len(x) == k` establishes, minus what a constant re-slice x[c:] or x[c:d] cuts off.
func (lc *lenChecker) maxLen(x ssa.Value, at *ssa.BasicBlock, depth int) (int64, bool) {
	if depth > 6 {
		return 0, false
	}
	for _, g := range branchGuards(at) {
		if c, isCall := g.cond.(*ssa.Call); isCall && g.val {
			// a predicate helper whose true result implies len(arg) == k
			if f := c.Call.StaticCallee(); f != nil && inModule(f) && len(f.Blocks) > 0 && len(f.Params) == len(c.Call.Args) {
				for j, a := range c.Call.Args {
					if sameSlice(a, x) {
						if k, ok := lc.exactLenWhenTrue(f, f.Params[j]); ok {
							return k, true
						}
					}
				}
			}
			continue
		}
		bo, ok := g.cond.(*ssa.BinOp)
		if !ok {
			continue
		}
		arg, isLen := lenCallOf(bo.X)
		k, isK := constInt(bo.Y)
		op := bo.Op
		if !isLen {
			arg, isLen = lenCallOf(bo.Y)
			k, isK = constInt(bo.X)
			op = flipTok(op)
		}
		if !isLen || !isK || !sameSlice(arg, x) {
			continue
		}
		if !g.val {
			op = negTok(op)
		}
		switch op {
		case token.EQL, token.LEQ:
			return k, true
		case token.LSS:
			return k - 1, true
		}
	}
	if v, ok := x.(*ssa.Slice); ok {
		lo := int64(0)
		if v.Low != nil {
			c, ok := constInt(v.Low)
			if !ok {
				return 0, false
			}
			lo = c
		}
		if v.High != nil {
			if h, ok := constInt(v.High); ok {
				return h - lo, true
			}
			return 0, false
		}
		if pt, isP := v.X.Type().Underlying().(*types.Pointer); isP {
			if at, isA := pt.Elem().Underlying().(*types.Array); isA {
				return at.Len() - lo, true
			}
		}
		if m, ok := lc.maxLen(v.X, v.Block(), depth+1); ok {
			return m - lo, true
		}
	}
	return 0, false
}

// exactLenWhenTrue: the boolean function fn returns true only when len(p) == k.
func (lc *lenChecker) exactLenWhenTrue(fn *ssa.Function, p *ssa.Parameter) (int64, bool) {
	var out int64
	found, consistent := false, true
	allInstrs(fn, func(b *ssa.BasicBlock, ins ssa.Instruction) {
		bo, ok := ins.(*ssa.BinOp)
		if !ok || bo.Op != token.EQL {
			return
		}
		arg, isLen := lenCallOf(bo.X)
		k, isK := constInt(bo.Y)
		if !isLen {
			arg, isLen = lenCallOf(bo.Y)
			k, isK = constInt(bo.X)
		}
		if isLen && isK && sameSlice(arg, p) {
			if found && out != k {
				consistent = false
			}
			out, found = k, true
		}
	})
	// the equality must be what the lower bound rests on as well: true implies len >= k
	if !found || !consistent || lc.lenWhenTrue(fn, p, 1) != out {
		return 0, false
	}
	return out, true
}

// lenWhenTrue: a lower bound of len(p) that holds whenever the boolean function fn returns true
// (p one of its parameters): the guards that dominate each way of producing a true result,
// the least over those ways.
func (lc *lenChecker) lenWhenTrue(fn *ssa.Function, p *ssa.Parameter, depth int) int64 {
	const impossible = int64(1) << 40
	var when func(v ssa.Value, blk *ssa.BasicBlock, d int) int64
	when = func(v ssa.Value, blk *ssa.BasicBlock, d int) int64 {
		if d > 6 {
			return -1
		}
		here := lc.minLenLocal(p, blk, depth)
		switch x := v.(type) {
		case *ssa.Const:
			if x.Value != nil && x.Value.Kind() == constant.Bool && !constant.BoolVal(x.Value) {
				return impossible
			}
			return here
		case *ssa.Phi:
			least := impossible
			for i, e := range x.Edges {
				if b := when(e, x.Block().Preds[i], d+1); b < least {
					least = b
				}
			}
			return least
		case *ssa.BinOp:
			arg, isLen := lenCallOf(x.X)
			k, isK := constInt(x.Y)
			op := x.Op
			if !isLen {
				arg, isLen = lenCallOf(x.Y)
				k, isK = constInt(x.X)
				op = flipTok(op)
			}
			if isLen && isK && sameSlice(arg, p) {
				switch op {
				case token.EQL, token.GEQ:
					if k > here {
						return k
					}
				case token.GTR:
					if k+1 > here {
						return k + 1
					}
				}
			}
		}
		return here
	}
	least := impossible
	n := 0
	allInstrs(fn, func(b *ssa.BasicBlock, ins ssa.Instruction) {
		if ret, ok := ins.(*ssa.Return); ok && len(ret.Results) == 1 {
			n++
			if v := when(ret.Results[0], b, 0); v < least {
				least = v
			}
		}
	})
	if n == 0 || least == impossible {
		return -1
	}
	return least
}

// minLenLocal: minLen without looking at the callers of the function (the bound must hold for
// the helper's own argument, whoever calls it).
func (lc *lenChecker) minLenLocal(x ssa.Value, at *ssa.BasicBlock, depth int) int64 {
	saved := lc.noCallers
	lc.noCallers = true
	defer func() { lc.noCallers = saved }()
	return lc.minLen(x, at, depth)
}

func flipTok(op token.Token) token.Token {
	switch op {
	case token.LSS:
		return token.GTR
	case token.LEQ:
		return token.GEQ
	case token.GTR:
		return token.LSS
	case token.GEQ:
		return token.LEQ
	}
	return op
}

// inductionOver: idx is a loop index bounded by len(x): either the canonical
// range form (phi[-1]+1 < len(x)) or phi[0..] with a dominating phi < len(x);
// returns the stride (1 for ranges) and the offset of idx above the phi.
// boundedInduction: idx is the index variable of a counted loop that dominates `at`:
// 0 <= idx < N on every iteration. N is returned as an SSA value (bound) and, when it is a
// compile-time constant (a literal, or the length of an array ranged over), as n >= 0.
func boundedInduction(idx ssa.Value, at *ssa.BasicBlock) (bound ssa.Value, n int64, ok bool) {
	v := idx
	var viaAdd *ssa.BinOp
	if bo, isB := v.(*ssa.BinOp); isB && bo.Op == token.ADD {
		if c, isC := constInt(bo.Y); isC && c == 1 {
			viaAdd = bo
			v = bo.X
		}
	}
	p, isPhi := v.(*ssa.Phi)
	if !isPhi || len(p.Edges) != 2 {
		return nil, -1, false
	}
	var init, step ssa.Value
	for i, e := range p.Edges {
		if isBackEdge(p.Block().Preds[i], p.Block()) {
			step = e
		} else {
			init = e
		}
	}
	i0, okI := constInt(init)
	sb, okS := step.(*ssa.BinOp)
	if !okI || !okS || sb.Op != token.ADD || sb.X != ssa.Value(p) {
		return nil, -1, false
	}
	if k, okK := constInt(sb.Y); !okK || k != 1 {
		return nil, -1, false
	}
	hdr := p.Block()
	iff, okIf := hdr.Instrs[len(hdr.Instrs)-1].(*ssa.If)
	if !okIf || !hdr.Succs[0].Dominates(at) {
		return nil, -1, false
	}
	cmp, okC := iff.Cond.(*ssa.BinOp)
	if !okC || cmp.Op != token.LSS {
		return nil, -1, false
	}
	switch {
	case i0 == -1 && viaAdd != nil && cmp.X == ssa.Value(sb) && (viaAdd == sb || (viaAdd.X == sb.X && viaAdd.Op == sb.Op)):
		// range form: the index is phi+1, tested before the body
	case i0 == 0 && viaAdd == nil && cmp.X == ssa.Value(p):
		// counted form
	default:
		return nil, -1, false
	}
	n = -1
	if c, isC := constInt(cmp.Y); isC {
		n = c
	}
	return cmp.Y, n, true
}

// indexOfResult: idx is the result of bytes.Index* / strings.Index* applied to x, used where a
// dominating guard has established idx >= 0: such a result is below len(x).
func indexOfResult(idx, x ssa.Value, at *ssa.BasicBlock) bool {
	c, ok := idx.(*ssa.Call)
	if !ok {
		return false
	}
	f := c.Call.StaticCallee()
	if f == nil || f.Pkg == nil || (f.Pkg.Pkg.Path() != "bytes" && f.Pkg.Pkg.Path() != "strings") || !strings.HasPrefix(f.Name(), "Index") || len(c.Call.Args) == 0 || !sameSlice(c.Call.Args[0], x) {
		return false
	}
	for _, g := range branchGuards(at) {
		bo, ok := g.cond.(*ssa.BinOp)
		if !ok {
			continue
		}
		op, l, r := bo.Op, bo.X, bo.Y
		if !g.val {
			op = negTok(op)
		}
		if k, isK := constInt(r); isK && l == idx {
			if (op == token.GEQ && k >= 0) || (op == token.GTR && k >= -1) || (op == token.NEQ && k == -1) {
				return true
			}
		}
		if k, isK := constInt(l); isK && r == idx {
			if (op == token.LEQ && k >= 0) || (op == token.LSS && k >= -1) {
				return true
			}
		}
	}
	return false
}

// groupSlice: v is x[K*n : K*n+K] where n is the counter of a loop `for n := 0; n < len(x)/K; n++`
// (the n-th group of K elements). Such a slice is in range and has length K.
func groupSlice(v *ssa.Slice, at *ssa.BasicBlock) (int64, bool) {
	if v.Low == nil || v.High == nil {
		return 0, false
	}
	mulOf := func(x ssa.Value) (ssa.Value, int64, bool) {
		bo, ok := x.(*ssa.BinOp)
		if !ok || bo.Op != token.MUL {
			return nil, 0, false
		}
		if k, ok := constInt(bo.X); ok {
			return bo.Y, k, true
		}
		if k, ok := constInt(bo.Y); ok {
			return bo.X, k, true
		}
		return nil, 0, false
	}
	n, k, ok := mulOf(v.Low)
	if !ok || k <= 0 {
		return 0, false
	}
	hb, ok := v.High.(*ssa.BinOp)
	if !ok || hb.Op != token.ADD {
		return 0, false
	}
	n2, k2, ok2 := mulOf(hb.X)
	kk, okK := constInt(hb.Y)
	if !ok2 || !okK || n2 != n || k2 != k || kk != k {
		return 0, false
	}
	bound, _, okB := boundedInduction(n, at)
	if !okB {
		return 0, false
	}
	q, ok := bound.(*ssa.BinOp)
	if !ok || q.Op != token.QUO {
		return 0, false
	}
	arg, isLen := lenCallOf(q.X)
	d, isD := constInt(q.Y)
	if !isLen || !isD || d != k || !sameSlice(arg, v.X) {
		return 0, false
	}
	return k, true
}

// nonNegative: v is a counter that starts at a non-negative constant and only grows by
// non-negative constants (through phis), or a non-negative constant, or a length.
func nonNegative(v ssa.Value, depth int, seen map[ssa.Value]bool) bool {
	if depth > 8 {
		return false
	}
	if seen[v] {
		return true // a cycle through phis/increments adds nothing negative
	}
	seen[v] = true
	switch x := v.(type) {
	case *ssa.Const:
		c, ok := constInt(x)
		return ok && c >= 0
	case *ssa.Phi:
		for _, e := range x.Edges {
			if !nonNegative(e, depth+1, seen) {
				return false
			}
		}
		return true
	case *ssa.BinOp:
		if x.Op == token.ADD {
			return nonNegative(x.X, depth+1, seen) && nonNegative(x.Y, depth+1, seen)
		}
	case *ssa.Call:
		if _, isLen := lenCallOf(x); isLen {
			return true
		}
	}
	return false
}

// indexUpperBound: a constant hi with 0 <= idx <= hi established structurally, or ok=false.
func indexUpperBound(idx ssa.Value, at *ssa.BasicBlock) (hi int64, ok bool) {
	if c, isC := constInt(idx); isC && c >= 0 {
		return c, true
	}
	if _, n, okB := boundedInduction(idx, at); okB && n > 0 {
		return n - 1, true
	}
	if bo, isB := idx.(*ssa.BinOp); isB && bo.Op == token.REM {
		if k, isC := constInt(bo.Y); isC && k > 0 && nonNegative(bo.X, 0, map[ssa.Value]bool{}) {
			return k - 1, true
		}
	}
	return 0, false
}

func inductionOver(idx ssa.Value, x ssa.Value, at *ssa.BasicBlock) (stride int64, off int64, phi *ssa.Phi, ok bool) {
	off = 0
	v := idx
	if bo, isB := v.(*ssa.BinOp); isB && bo.Op == token.ADD {
		if c, isC := constInt(bo.Y); isC {
			off = c
			v = bo.X
		}
	}
	p, isPhi := v.(*ssa.Phi)
	if !isPhi || len(p.Edges) != 2 {
		return 0, 0, nil, false
	}
	var init, step ssa.Value
	for i, e := range p.Edges {
		if isBackEdge(p.Block().Preds[i], p.Block()) {
			step = e
		} else {
			init = e
		}
	}
	if init == nil || step == nil {
		return 0, 0, nil, false
	}
	i0, okI := constInt(init)
	sb, okS := step.(*ssa.BinOp)
	if !okI || !okS || sb.Op != token.ADD || sb.X != ssa.Value(p) {
		return 0, 0, nil, false
	}
	k, okK := constInt(sb.Y)
	if !okK || k <= 0 {
		return 0, 0, nil, false
	}
	// canonical range: init -1, idx = phi+1, header compares phi+1 < len(x)
	hdr := p.Block()
	iff, okIf := hdr.Instrs[len(hdr.Instrs)-1].(*ssa.If)
	if !okIf {
		return 0, 0, nil, false
	}
	cmp, okC := iff.Cond.(*ssa.BinOp)
	if !okC || cmp.Op != token.LSS {
		return 0, 0, nil, false
	}
	arg, isLen := lenCallOf(cmp.Y)
	if !isLen || !sameSlice(arg, x) {
		return 0, 0, nil, false
	}
	if !hdr.Succs[0].Dominates(at) {
		return 0, 0, nil, false
	}
	if i0 == -1 && k == 1 && cmp.X == ssa.Value(sb) {
		// range form: valid index is phi+1
		return 1, off - 1, p, true
	}
	if i0 >= 0 && cmp.X == ssa.Value(p) {
		return k, off, p, true
	}
	return 0, 0, nil, false
}

// modGuard: a dominating guard establishes len(x) % k == 0 at block at.
func modGuard(x ssa.Value, k int64, at *ssa.BasicBlock) bool {
	for _, g := range branchGuards(at) {
		bo, ok := g.cond.(*ssa.BinOp)
		if !ok {
			continue
		}
		rem, ok := bo.X.(*ssa.BinOp)
		z, okZ := constInt(bo.Y)
		if !ok || !okZ || z != 0 || rem.Op != token.REM {
			continue
		}
		arg, isLen := lenCallOf(rem.X)
		kk, okK := constInt(rem.Y)
		if !isLen || !okK || kk != k || !sameSlice(arg, x) {
			continue
		}
		if (bo.Op == token.EQL && g.val) || (bo.Op == token.NEQ && !g.val) {
			return true
		}
	}
	return false
}

func (lc *lenChecker) checkIndices(r *Report, fn *ssa.Function) int {
	n := 0
	ctx := lc.ctx
	allInstrs(fn, func(b *ssa.BasicBlock, ins ssa.Instruction) {
		var x, idx ssa.Value
		var pos token.Pos
		kind := ""
		switch v := ins.(type) {
		case *ssa.IndexAddr:
			x, idx, pos, kind = v.X, v.Index, v.Pos(), "index"
		case *ssa.Index:
			x, idx, pos, kind = v.X, v.Index, v.Pos(), "index"
		case *ssa.Slice:
			if _, isSlice := v.X.Type().Underlying().(*types.Slice); !isSlice {
				if _, isStr := v.X.Type().Underlying().(*types.Basic); !isStr {
					return // slicing a local array pointer with constant bounds is checked by the compiler
				}
			}
			if v.Low == nil && v.High == nil {
				return
			}
			n++
			key := fmt.Sprintf("%s|slice-expr#%d", shortFn(fn), n)
			if k, okG := groupSlice(v, b); okG {
				r.check("L1", key, v.Pos(), true, fmt.Sprintf("x[%d*n : %d*n+%d] with n < len(x)/%d: the group lies within the slice (%d*n+%d <= %d*(len/%d) <= len)", k, k, k, k, k, k, k, k))
				return
			}
			m := lc.minLen(v.X, b, 0)
			ok := true
			detail := fmt.Sprintf("known lower bound of len: %d", m)
			for _, bound := range []ssa.Value{v.Low, v.High} {
				if bound == nil {
					continue
				}
				if indexOfResult(bound, v.X, b) {
					continue // a non-negative Index* result of the same slice is below its length
				}
				c, isC := constInt(bound)
				if !isC || m < 0 || c > m {
					ok = false
					detail += fmt.Sprintf("; bound %s not below it", bound.String())
				}
			}
			r.check("L1", key, v.Pos(), ok, "slice bounds must not exceed an established length; "+detail)
			return
		default:
			return
		}
		// arrays (fixed size)
		xt := x.Type().Underlying()
		if p, ok := xt.(*types.Pointer); ok {
			xt = p.Elem().Underlying()
		}
		if at, ok := xt.(*types.Array); ok {
			if c, isC := constInt(idx); isC && c >= 0 && c < at.Len() {
				return // constant index into a fixed-size array: checked by the compiler
			}
			if hi, okB := indexUpperBound(idx, b); okB && hi < at.Len() {
				n++
				r.check("L1", fmt.Sprintf("%s|%s#%d", shortFn(fn), kind, n), pos, true, fmt.Sprintf("index into a %d-element array is structurally bounded by %d", at.Len(), hi))
				return
			}
		}
		n++
		key := fmt.Sprintf("%s|%s#%d", shortFn(fn), kind, n)
		if _, isMap := xt.(*types.Map); isMap {
			return
		}
		if c, isC := constInt(idx); isC {
			m := lc.minLen(x, b, 0)
			r.check("L1", key, pos, c >= 0 && m > c, fmt.Sprintf("constant index %d needs a dominating guard establishing len > %d; established lower bound: %d", c, c, m))
			return
		}
		stride, off, _, ok := inductionOver(idx, x, b)
		if !ok {
			// a slice made with len(y) indexed by the induction variable of a loop over y
			if ms, isMS := x.(*ssa.MakeSlice); isMS {
				if y, isLen := lenCallOf(ms.Len); isLen {
					stride, off, _, ok = inductionOver(idx, y, b)
				}
			}
		}
		if !ok {
			// an index with a structural constant bound against an established minimum length
			if hi, okB := indexUpperBound(idx, b); okB {
				if m := lc.minLen(x, b, 0); m > hi {
					r.check("L1", key, pos, true, fmt.Sprintf("index bounded by %d, length at least %d", hi, m))
					return
				}
			}
			// for i := 0; i < n; i++ over a slice made with length n
			if bound, _, okB := boundedInduction(idx, b); okB {
				if ms, isMS := x.(*ssa.MakeSlice); isMS && ms.Len == bound {
					r.check("L1", key, pos, true, "index is the counter of a loop bounded by the length the slice was made with")
					return
				}
			}
		}
		if !ok && indexOfResult(idx, x, b) {
			r.check("L1", key, pos, true, "index is the non-negative result of an Index* search in the same slice (always below its length)")
			return
		}
		if !ok {
			// `func f(in []T, out []U) { for i := range in { out[i] = .. } }`: the index runs over
			// another parameter; every caller must hand over an `out` at least as long as `in`
			if px, isP := x.(*ssa.Parameter); isP && fn.Object() != nil && !fn.Object().Exported() {
				for yi, py := range fn.Params {
					if py == px {
						continue
					}
					if _, isSl := py.Type().Underlying().(*types.Slice); !isSl {
						continue
					}
					st, of, _, okY := inductionOver(idx, py, b)
					if !okY || st != 1 || of != 0 {
						continue
					}
					xi := -1
					for i, p := range fn.Params {
						if p == px {
							xi = i
						}
					}
					refs := refsTo(lc.ctx, fn)
					all := len(refs) > 0 && xi >= 0
					detail := ""
					for _, ref := range refs {
						call, isCall := ref.ins.(*ssa.Call)
						if !isCall || call.Call.StaticCallee() != fn || xi >= len(call.Call.Args) || yi >= len(call.Call.Args) {
							all = false
							break
						}
						have := lc.minLen(call.Call.Args[xi], call.Block(), 1)
						need, okN := lc.maxLen(call.Call.Args[yi], call.Block(), 0)
						detail += fmt.Sprintf(" caller %s: len(%s) <= %d, len(%s) >= %d;", shortFn(call.Parent()), py.Name(), need, px.Name(), have)
						if !okN || have < need {
							all = false
						}
					}
					if all {
						r.check("L1", key, pos, true, "index runs over the parameter "+py.Name()+", and at every call site "+px.Name()+" is at least as long:"+detail)
						return
					}
				}
			}
		}
		switch {
		case ok && off >= 0 && off < stride && stride == 1:
			r.check("L1", key, pos, true, "index is the induction variable of a loop bounded by len() of the same slice")
		case ok && off >= 0 && off < stride:
			g := off == 0 || modGuard(x, stride, b)
			r.check("L1", key, pos, g, fmt.Sprintf("strided access i+%d with step %d needs a dominating len%%%d == 0 guard (otherwise the last group reads past the end)", off, stride, stride))
		default:
			r.check("L1", key, pos, false, "index "+idx.String()+" is neither a guarded constant nor a len-bounded induction variable")
		}
	})
	_ = ctx
	return n
}

func checkLoops(ctx *Ctx, r *Report, fn *ssa.Function) {
	n := 0
	descs := loopDescs(fn, topoAll(fn)) // natural loops (nested loops: the blocks after an inner loop are not part of it)
	for _, b := range fn.Blocks {
		isHdr := false
		for _, p := range b.Preds {
			if isBackEdge(p, b) {
				isHdr = true
			}
		}
		if !isHdr {
			continue
		}
		n++
		key := fmt.Sprintf("%s|loop#%d", shortFn(fn), n)
		ok, why := loopBounded(fn, b, descs)
		r.check("L3", key, b.Instrs[0].Pos(), ok, why)
	}
}

// loopBounded: the loop with header b has an exit test that bounds it: a counter against a loop
// invariant, a range, a shrinking window, bufio.Scanner.Scan (or a pull iterator built on it).
func loopBounded(fn *ssa.Function, b *ssa.BasicBlock, descs map[*ssa.BasicBlock]*loopDesc) (bool, string) {
	// find the exit condition: an If in the header (or in a block of the loop) with a successor outside the loop
	ok := false
	why := "no bounded exit condition found"
	for _, lb := range fn.Blocks {
		if !b.Dominates(lb) || !reachableFrom(lb)[b] {
			continue
		}
		iff, isIf := lb.Instrs[len(lb.Instrs)-1].(*ssa.If)
		if !isIf {
			continue
		}
		// the test must be able to end the loop: one side leaves it. (`for sc.Scan() ||
		// other` has the Scan test continue into a second test, which alone decides.)
		leaves := false
		for _, su := range lb.Succs {
			if ld := descs[b]; ld != nil {
				if !ld.in[su] {
					leaves = true
				}
			} else if !(b.Dominates(su) && reachableFrom(su)[b]) {
				leaves = true
			}
		}
		if !leaves {
			continue
		}
		c, _ := stripNot(iff.Cond)
		// a window that shrinks by a positive constant each turn, tested on its length
		if bo, isB := c.(*ssa.BinOp); isB {
			for _, side := range []ssa.Value{bo.X, bo.Y} {
				if arg, isLen := lenCallOf(side); isLen {
					if wp, isPhi := arg.(*ssa.Phi); isPhi && wp.Block() == b && len(wp.Edges) == 2 {
						for i, e := range wp.Edges {
							if sl, isSl := e.(*ssa.Slice); isSl && isBackEdge(b.Preds[i], b) && sl.X == ssa.Value(wp) && sl.High == nil && sl.Low != nil {
								if k, okK := constInt(sl.Low); okK && k > 0 {
									ok = true
									why = "window shrinking by a constant"
								}
							}
						}
					}
				}
			}
		}
		switch x := c.(type) {
		case *ssa.BinOp:
			if x.Op == token.LSS || x.Op == token.LEQ || x.Op == token.GTR || x.Op == token.GEQ || x.Op == token.NEQ {
				// counted loop: one side an induction phi (or phi+1), the other loop invariant
				for _, side := range []ssa.Value{x.X, x.Y} {
					v := side
					if bo, isB := v.(*ssa.BinOp); isB && bo.Op == token.ADD {
						v = bo.X
					}
					if p, isPhi := v.(*ssa.Phi); isPhi && p.Block() == b {
						ok = true
						why = "counted loop"
					}
				}
			}
		case *ssa.Call:
			if f := x.Call.StaticCallee(); f != nil && f.String() == "(*bufio.Scanner).Scan" {
				ok = true
				why = "driven by bufio.Scanner.Scan"
			}
		case *ssa.Extract:
			if _, isNext := x.Tuple.(*ssa.Next); isNext {
				ok = true
				why = "range"
			}
			// `for { v, ok := it.next(); if !ok { break } .. }`: a pull iterator whose
			// "more" result is true only after a successful Scan of a bufio.Scanner
			if call, isCall := x.Tuple.(*ssa.Call); isCall {
				if g := call.Call.StaticCallee(); g != nil && inModule(g) && scanDriven(g, x.Index) {
					ok = true
					why = "driven by " + g.Name() + ", which yields only after a successful bufio.Scanner.Scan"
				}
			}
		}
	}
	return ok, why
}

// scanDriven: every return of g whose result number k can be true lies inside the true branch of
// a bufio.Scanner.Scan test (each "more" costs at least one line of a finite input), and g's own
// loops are Scan-driven.
func scanDriven(g *ssa.Function, k int) bool {
	if len(g.Blocks) == 0 {
		return false
	}
	var scanTrue []*ssa.BasicBlock
	allInstrs(g, func(b *ssa.BasicBlock, ins ssa.Instruction) {
		iff, ok := ins.(*ssa.If)
		if !ok {
			return
		}
		c, neg := stripNot(iff.Cond)
		call, ok := c.(*ssa.Call)
		if !ok {
			return
		}
		if f := call.Call.StaticCallee(); f != nil && f.String() == "(*bufio.Scanner).Scan" {
			t := b.Succs[0]
			if neg {
				t = b.Succs[1]
			}
			if len(t.Preds) == 1 {
				scanTrue = append(scanTrue, t)
			}
		}
	})
	if len(scanTrue) == 0 {
		return false
	}
	okAll, n := true, 0
	allInstrs(g, func(b *ssa.BasicBlock, ins ssa.Instruction) {
		ret, ok := ins.(*ssa.Return)
		if !ok || k >= len(ret.Results) {
			return
		}
		n++
		if c, isC := ret.Results[k].(*ssa.Const); isC && c.Value != nil && c.Value.Kind() == constant.Bool && !constant.BoolVal(c.Value) {
			return // "no more": may be returned anywhere
		}
		inside := false
		for _, t := range scanTrue {
			if t == b || t.Dominates(b) {
				inside = true
			}
		}
		if !inside {
			okAll = false
		}
	})
	return okAll && n > 0
}

func checkNoPanic(ctx *Ctx, r *Report, fn *ssa.Function) {
	var bad []string
	allInstrs(fn, func(b *ssa.BasicBlock, ins ssa.Instruction) {
		switch x := ins.(type) {
		case *ssa.Panic:
			bad = append(bad, "panic at "+ctx.pos(x.Pos()))
		case *ssa.TypeAssert:
			if !x.CommaOk {
				bad = append(bad, "unchecked type assertion at "+ctx.pos(x.Pos()))
			}
		case *ssa.BinOp:
			if (x.Op == token.QUO || x.Op == token.REM) && isIntType(x.Type()) {
				if _, isC := x.Y.(*ssa.Const); !isC {
					bad = append(bad, "integer division by a non-constant at "+ctx.pos(x.Pos()))
				}
			}
		case ssa.CallInstruction:
			f := x.Common().StaticCallee()
			if f != nil {
				n := f.String()
				if strings.HasPrefix(n, "log.Fatal") || strings.HasPrefix(n, "log.Panic") || n == "os.Exit" || strings.HasPrefix(n, "(*log.Logger).Fatal") || strings.HasPrefix(n, "(*log.Logger).Panic") {
					bad = append(bad, n+" at "+ctx.pos(ins.Pos()))
				}
			}
			// discarded errors
			if c, ok := ins.(*ssa.Call); ok {
				sig := c.Call.Signature()
				res := sig.Results()
				if res.Len() > 0 && isErrorType(res.At(res.Len()-1).Type()) && callMethodName(&c.Call) != "Close" {
					used := false
					if res.Len() == 1 {
						for _, ref := range *c.Referrers() {
							if _, isDbg := ref.(*ssa.DebugRef); !isDbg {
								used = true
							}
						}
					} else {
						for _, ref := range *c.Referrers() {
							if ex, ok := ref.(*ssa.Extract); ok && ex.Index == res.Len()-1 {
								for _, r2 := range *ex.Referrers() {
									if _, isDbg := r2.(*ssa.DebugRef); !isDbg {
										used = true
									}
								}
							}
						}
					}
					if !used {
						bad = append(bad, "error of "+callMethodName(&c.Call)+" discarded at "+ctx.pos(c.Pos()))
					}
				}
			}
		}
	})
	r.check("L4", shortFn(fn), fn.Pos(), len(bad) == 0, strings.Join(bad, "; "))
}

// checkContentAlloc: L2.
func checkContentAlloc(ctx *Ctx, r *Report, fns []*ssa.Function, root *ssa.Function) {
	for _, fn := range fns {
		allInstrs(fn, func(b *ssa.BasicBlock, ins ssa.Instruction) {
			ms, ok := ins.(*ssa.MakeSlice)
			if !ok {
				return
			}
			if _, isC := ms.Len.(*ssa.Const); isC {
				return
			}
			if _, isLen := lenCallOf(ms.Len); isLen {
				return
			}
			// content-sized allocation: every call of fn from the scope must be guarded by the size equation
			key := shortFn(fn) + "|content-sized-make"
			guardedEverywhere := false
			detail := ""
			for _, caller := range fns {
				ev := newEval(ctx, fn.Name())
				ev.evalRoot(caller)
				for _, e := range eventsOf(ev, "."+fn.Name()) {
					if e.Cond == nil {
						continue
					}
					ok, why := sizeEquationGuard(e.Cond)
					if ok {
						guardedEverywhere = true
					} else {
						guardedEverywhere = false
						detail += fmt.Sprintf(" call in %s under %s: %s;", shortFn(caller), shortKey(e.Cond.Key(), 160), why)
					}
				}
			}
			r.check("L2", key, ms.Pos(), guardedEverywhere && detail == "", "allocation proportional to a count read from the file must be reachable only when fileSize == int64(count)*recordSize + headerSize (so the count is bounded by the file length);"+detail)
		})
	}
}

// sizeEquationGuard: cond contains cmp:==(S, a*conv:int64(count)+b) with a,b
// positive integer constants and the conversion applied directly to the count.
func sizeEquationGuard(cond *Term) (bool, string) {
	eqs := findSub(cond, func(x *Term) bool { return x.Op == "cmp" && x.S == "==" })
	for _, eq := range eqs {
		for _, side := range []int{0, 1} {
			expr := eq.Args[side]
			other := eq.Args[1-side]
			coefs, terms, c, lin := linear(expr)
			if !lin || len(coefs) != 1 || c.Sign() <= 0 || !c.IsInt() {
				continue
			}
			for k, co := range coefs {
				t := terms[k]
				if !co.IsInt() || co.Cmp(big.NewRat(1, 1)) <= 0 {
					continue
				}
				if t.Op != "conv" || t.S != "int64" {
					return false, "the record count is not converted to int64 before the multiplication (the product can wrap)"
				}
				inner := t.Args[0]
				if inner.Op != "a" && inner.Op != "call" && inner.Op != "sel" {
					// (a field, a decoded value or a table element is "the count itself"; sums and
					// products are not)
					return false, "conversion is applied to an expression, not to the count itself (the product can wrap in the narrower type)"
				}
				if !strings.Contains(other.Key(), "Size") {
					return false, "the other side is not the file size"
				}
				// the guard must hold positively: assuming it false must kill the condition
				if !assume(cond, map[string]bool{eq.Key(): false}).IsZero() {
					return false, "call is reachable when the equation does not hold"
				}
				return true, ""
			}
		}
	}
	return false, "no size equation found in the call condition"
}

var _ = constant.Int

// affineOf: v = coef·base + k for an SSA value base and integer constants (base nil for a constant).
func affineOf(v ssa.Value) (coef int64, base ssa.Value, k int64, ok bool) {
	return affineOfStop(v, nil)
}

// affineOfStop: as affineOf, but a value for which stop holds is taken as the base as it is.
func affineOfStop(v ssa.Value, stop func(ssa.Value) bool) (coef int64, base ssa.Value, k int64, ok bool) {
	if c, isC := constInt(v); isC {
		return 0, nil, c, true
	}
	if stop != nil && stop(v) {
		return 1, v, 0, true
	}
	if bo, isB := v.(*ssa.BinOp); isB {
		switch bo.Op {
		case token.ADD, token.SUB:
			c1, b1, k1, ok1 := affineOfStop(bo.X, stop)
			c2, b2, k2, ok2 := affineOfStop(bo.Y, stop)
			if !ok1 || !ok2 {
				break
			}
			if bo.Op == token.SUB {
				c2, k2 = -c2, -k2
			}
			switch {
			case b1 == nil:
				return c2, b2, k1 + k2, true
			case b2 == nil:
				return c1, b1, k1 + k2, true
			case b1 == b2:
				return c1 + c2, b1, k1 + k2, true
			}
		case token.MUL:
			c1, b1, k1, ok1 := affineOfStop(bo.X, stop)
			c2, b2, k2, ok2 := affineOfStop(bo.Y, stop)
			if !ok1 || !ok2 {
				break
			}
			switch {
			case b1 == nil:
				return k1 * c2, b2, k1 * k2, true
			case b2 == nil:
				return k2 * c1, b1, k2 * k1, true
			}
		}
	}
	return 1, v, 0, true
}
