package main

// C18 — screw threads match their designation, are right-handed and periodic, and mate.
//
//  H1  every row of the thread database agrees with its designation and the
//      standard it names: M<d>x<p> → diameter d, pitch p (ISOAdd); unc/unf
//      numbered sizes → 0.060+0.013·N inch and the TPI in the name; fractional
//      unc/unf → that fraction and the UNC/UNF series TPI; npt_* → ASME
//      B1.20.1 outside diameter and TPI (NPTAdd); no duplicate keys; hex > 0
//  H2  the Add functions store radius = diameter/2, pitch = 1/TPI (resp. the
//      pitch), the units of their family, taper = atan(1/32) for NPT
//  H3  ToMillimetre returns the receiver for "mm", otherwise a NEW record with
//      Radius, Pitch, HexFlat2Flat × 25.4, same Taper and Name, units "mm";
//      it never writes its receiver (the database rows are shared)
//  H4  the external thread of obj.Bolt is cut at Radius − Tolerance, the
//      internal thread of obj.Nut at Radius + Tolerance; both use the row's
//      Pitch and Taper and one start
//  H5  composed Screw3D ∘ Evaluate: right-handed helix for positive starts,
//      period = pitch, taper shifts the radius linearly (shared with C02)
//  H8  the bore of obj.Nut goes through: every head style is built with the
//      height the internal thread is cut over, and the parts a head is made of
//      (cylinder, knurl, hexagonal prism) are no taller than that height
//  H9  wherever obj cuts a thread, the pitch the ISO profile is built with is the
//      pitch the profile is swept with, and radius and pitch of the profile
//      come from the same (converted or unconverted) database record
//
// Not decided: profile geometry, mating in space for tapered threads.

import (
	"fmt"
	"go/token"
	"go/types"
	"golang.org/x/tools/go/ssa/ssautil"
	"math"
	"math/big"
	"regexp"
	"strconv"
	"strings"

	"golang.org/x/tools/go/ssa"
)

func init() { register("C18", checkC18) }

var uncTPI = map[string]float64{"1/4": 20, "5/16": 18, "3/8": 16, "7/16": 14, "1/2": 13, "9/16": 12, "5/8": 11, "3/4": 10, "7/8": 9, "1": 8,
	"1_1/8": 7, "1_1/4": 7, "1_3/8": 6, "1_1/2": 6, "1_3/4": 5, "2": 4.5}
var unfTPI = map[string]float64{"1/4": 28, "5/16": 24, "3/8": 24, "7/16": 20, "1/2": 20, "9/16": 18, "5/8": 18, "3/4": 16, "7/8": 14, "1": 12,
	"1_1/8": 12, "1_1/4": 12, "1_3/8": 12, "1_1/2": 12}
var nptStd = map[string][2]float64{"1/16": {0.3125, 27}, "1/8": {0.405, 27}, "1/4": {0.540, 18}, "3/8": {0.675, 18}, "1/2": {0.840, 14}, "3/4": {1.050, 14},
	"1": {1.315, 11.5}, "1_1/4": {1.660, 11.5}, "1_1/2": {1.900, 11.5}, "2": {2.375, 11.5}, "2_1/2": {2.875, 8}, "3": {3.5, 8}, "3_1/2": {4.0, 8}, "4": {4.5, 8},
	"5": {5.563, 8}, "6": {6.625, 8}}

func parseFrac(s string) (float64, bool) {
	// "1/4", "1", "1_1/4"
	whole := 0.0
	if i := strings.Index(s, "_"); i >= 0 {
		w, err := strconv.ParseFloat(s[:i], 64)
		if err != nil {
			return 0, false
		}
		whole = w
		s = s[i+1:]
	}
	if i := strings.Index(s, "/"); i >= 0 {
		a, e1 := strconv.ParseFloat(s[:i], 64)
		b, e2 := strconv.ParseFloat(s[i+1:], 64)
		if e1 != nil || e2 != nil || b == 0 {
			return 0, false
		}
		return whole + a/b, true
	}
	v, err := strconv.ParseFloat(s, 64)
	return whole + v, err == nil
}

func near(a, b float64) bool { return math.Abs(a-b) <= 1e-9*math.Max(1, math.Abs(b)) }

func checkC18(ctx *Ctx, r *Report, tier string) {
	r.Explain = "The thread database is read row by row from the source (constant-folded arguments) and every row is checked against its designation and the standard series tables held by the checker (exhaustive over the rows present); the Add helpers, the unit conversion (including that it never mutates the shared row), the tolerance signs of bolt and nut, and the composed helix formula of Screw3D are decided symbolically. Profile geometry and mating in space are not decided."
	r.Exhaust = true
	r.Trusted = []string{"go/types constant folding", "sdfxlint symbolic evaluator", "UNC/UNF series (ASME B1.1) and NPT (ASME B1.20.1) tables held in the checker", "write-effect summaries"}
	r.Assume = []string{"designations follow the naming scheme M<d>x<p>, unc_/unf_<size>[_<tpi>], npt_<size>"}
	p := ctx.Pkgs["sdf"]
	// the function that fills the database: initThreadLookup, or (under another name, or as a
	// package init) the function of the package with the most calls of the Add helpers
	tableFn := ctx.ssaFunc("sdf", "initThreadLookup")
	if tableFn == nil {
		best := 0
		for f := range ssautil.AllFunctions(ctx.Prog) {
			if !inModule(f) || f.Pkg == nil || !strings.HasSuffix(f.Pkg.Pkg.Path(), "/sdf") || len(f.Blocks) == 0 {
				continue
			}
			n := 0
			allInstrs(f, func(_ *ssa.BasicBlock, ins ssa.Instruction) {
				if c, ok := ins.(*ssa.Call); ok {
					if g := c.Call.StaticCallee(); g != nil && (g.Name() == "UTSAdd" || g.Name() == "ISOAdd" || g.Name() == "NPTAdd") {
						n++
					}
				}
			})
			if n > best || (n == best && n > 0 && tableFn != nil && f.Pos() < tableFn.Pos()) {
				best, tableFn = n, f
			}
		}
	}
	if tableFn == nil {
		r.undecided("H1", "initThreadLookup", 0, "not found")
		return
	}
	seen := map[string]bool{}
	nRows := 0
	reM := regexp.MustCompile(`^M([0-9.]+)x([0-9.]+)$`)
	reNum := regexp.MustCompile(`^un([cf])_([0-9]+)_([0-9.]+)$`)
	reFrac := regexp.MustCompile(`^un([cf])_([0-9_/]+)$`)
	reNPT := regexp.MustCompile(`^npt_([0-9_/]+)$`)
	// the rows: every call of an Add helper made while the database is built, with the values it
	// receives (read from the symbolic execution of initThreadLookup: rows written as a sequence
	// of calls or rolled into a loop over a local table are the same rows)
	type dbRow struct {
		add, name string
		v         [3]float64
		okc       bool
		pos       token.Pos
	}
	var rows []dbRow
	if ifn := tableFn; ifn != nil {
		evr := newEval(ctx, "UTSAdd", "ISOAdd", "NPTAdd")
		evr.budget = 400000
		evr.evalRoot(ifn)
		for _, e := range evr.Events {
			add := ""
			for _, a := range []string{"UTSAdd", "ISOAdd", "NPTAdd"} {
				if strings.HasSuffix(e.Callee, ")."+a) {
					add = a
				}
			}
			if add == "" || len(e.Args) != 5 {
				continue
			}
			row := dbRow{add: add, okc: true, pos: e.Pos}
			if t, ok := e.Args[1].(*Term); ok && t.Op == "a" && strings.HasPrefix(t.S, "\"") {
				row.name, _ = strconv.Unquote(t.S)
			} else {
				row.okc = false
			}
			for i := 0; i < 3; i++ {
				if t, ok := e.Args[i+2].(*Term); ok && t.IsConst() {
					row.v[i], _ = t.C.Float64()
				} else {
					row.okc = false
				}
			}
			rows = append(rows, row)
		}
		if evr.Exceeded {
			r.undecided("H1", "initThreadLookup", ifn.Pos(), "evaluation budget exceeded")
		}
	}
	_ = p
	for _, row := range rows {
		add, name, v, okc := row.add, row.name, row.v, row.okc
		nRows++
		key := "row[" + name + "]"
		if !okc {
			r.undecided("H1", fmt.Sprintf("row#%d", nRows), row.pos, "row arguments are not compile-time constants")
			continue
		}
		if seen[name] {
			r.check("H1", key+"|unique", row.pos, false, "duplicate key: the later row silently replaces the earlier")
		}
		seen[name] = true
		dia, second, ftof := v[0], v[1], v[2]
		var wantDia, wantSecond float64
		var wantAdd, what string
		switch {
		case reM.MatchString(name):
			m := reM.FindStringSubmatch(name)
			wantDia, _ = strconv.ParseFloat(m[1], 64)
			wantSecond, _ = strconv.ParseFloat(m[2], 64)
			wantAdd, what = "ISOAdd", "metric: diameter d mm, pitch p mm"
		case reNum.MatchString(name):
			m := reNum.FindStringSubmatch(name)
			n, _ := strconv.ParseFloat(m[2], 64)
			wantDia = 0.060 + 0.013*n
			wantSecond, _ = strconv.ParseFloat(m[3], 64)
			wantAdd, what = "UTSAdd", "numbered unified size: 0.060+0.013·N inch, TPI from the name"
		case reFrac.MatchString(name):
			m := reFrac.FindStringSubmatch(name)
			d, ok := parseFrac(m[2])
			tbl := uncTPI
			if m[1] == "f" {
				tbl = unfTPI
			}
			tpi, has := tbl[m[2]]
			if !ok || !has {
				r.undecided("H1", key, row.pos, "size not in the checker's UNC/UNF series table")
				continue
			}
			wantDia, wantSecond = d, tpi
			wantAdd, what = "UTSAdd", "fractional unified size and its series TPI"
		case reNPT.MatchString(name):
			m := reNPT.FindStringSubmatch(name)
			std, has := nptStd[m[1]]
			if !has {
				r.undecided("H1", key, row.pos, "size not in the checker's NPT table")
				continue
			}
			wantDia, wantSecond = std[0], std[1]
			wantAdd, what = "NPTAdd", "NPT outside diameter and TPI (ASME B1.20.1)"
		default:
			r.undecided("H1", key, row.pos, "designation does not follow a known scheme")
			continue
		}
		ok2 := near(dia, wantDia) && near(second, wantSecond) && add == wantAdd && ftof > 0
		r.check("H1", key, row.pos, ok2, fmt.Sprintf("%s: %s(%g, %g, hex %g); the designation means (%g, %g) via %s", what, add, dia, second, ftof, wantDia, wantSecond, wantAdd))
	}
	r.Counts["database_rows"] = nRows
	r.floor("H1", 82)

	// H2
	for _, a := range []struct {
		name, units string
		pitchInv    bool
		taper       bool
	}{{"(threadDatabase).UTSAdd", `"inch"`, true, false}, {"(threadDatabase).ISOAdd", `"mm"`, false, false}, {"(threadDatabase).NPTAdd", `"inch"`, true, true}} {
		fn := ctx.ssaFunc("sdf", a.name)
		if fn == nil {
			r.undecided("H2", a.name, 0, "not found")
			continue
		}
		ev := newEval(ctx, "Panicf")
		_, final := ev.evalRoot(fn)
		ok := false
		detail := "no map update"
		for _, e := range eventsOf(ev, "mapupdate") {
			if len(e.Args) != 3 {
				continue
			}
			keyOK := valKey(e.Args[1]) == paramName(fn, 1)
			var obj Val
			if pp, isP := e.Args[2].(*Ptr); isP && pp.Obj != nil {
				obj = e.State.mem[pp.Obj]
				// the row as the function leaves it (an Add helper may finish a row that
				// another one has entered)
				if fo, has := final.mem[pp.Obj]; has {
					obj = fo
				}
			}
			m := map[string]*Term{}
			leafTerms("", obj, m)
			dia, sec, ftof := A(paramName(fn, 2)), A(paramName(fn, 3)), A(paramName(fn, 4))
			wantP := sec
			if a.pitchInv {
				wantP = Div(K(1), sec)
			}
			ok = keyOK && m[".Radius"] != nil && equalRat(m[".Radius"], Mul(KR(big.NewRat(1, 2)), dia)) &&
				m[".Pitch"] != nil && equalRat(m[".Pitch"], wantP) &&
				m[".HexFlat2Flat"] != nil && m[".HexFlat2Flat"].Key() == ftof.Key() &&
				m[".Units"] != nil && m[".Units"].Key() == a.units &&
				m[".Name"] != nil && m[".Name"].Key() == paramName(fn, 1)
			if a.taper {
				t := m[".Taper"]
				okT := false
				if t != nil && t.Op == "call" && t.S == "math.Atan" && t.Args[0].IsConst() {
					f, _ := t.Args[0].C.Float64()
					okT = near(f, 1.0/32.0)
				}
				if t != nil && t.IsConst() {
					f, _ := t.C.Float64()
					okT = math.Abs(f-math.Atan(1.0/32.0)) < 1e-12
				}
				ok = ok && okT
			} else if t := m[".Taper"]; t != nil && !t.IsZero() {
				ok = false
			}
			detail = fmt.Sprintf("Radius=%s Pitch=%s Units=%s Taper=%s", tk(m[".Radius"]), tk(m[".Pitch"]), tk(m[".Units"]), tk(m[".Taper"]))
		}
		r.check("H2", a.name, fn.Pos(), ok, "stores radius = diameter/2, pitch, hex, units, name under the name; "+detail)
	}
	r.floor("H2", 3)

	// H3
	h3 := func(fn *ssa.Function, label string) {
		ev := newEval(ctx)
		ev.evalRoot(fn)
		recv := paramName(fn, 0)
		mmTest := Cmp("==", A(recv+".Units"), A(`"mm"`))
		okSame, okNew := false, false
		detail := ""
		for _, alt := range ev.RootRets {
			if s, isSym := alt.Val.(*Sym); isSym && s.Path == recv {
				// returned the receiver: only under Units == "mm"
				okSame = assume(alt.Cond, map[string]bool{mmTest.Key(): false}).IsZero()
				continue
			}
			if pp, isP := alt.Val.(*Ptr); isP && pp.Obj != nil && pp.Obj.fresh {
				m := map[string]*Term{}
				leafTerms("", alt.State.mem[pp.Obj], m)
				k := KF(25.4)
				okNew = m[".Radius"] != nil && equalRat(m[".Radius"], Mul(k, A(recv+".Radius"))) &&
					equalRat(m[".Pitch"], Mul(k, A(recv+".Pitch"))) && equalRat(m[".HexFlat2Flat"], Mul(k, A(recv+".HexFlat2Flat"))) &&
					m[".Taper"].Key() == recv+".Taper" && m[".Units"].Key() == `"mm"` && m[".Name"].Key() == recv+".Name"
				detail = fmt.Sprintf("Radius=%s Pitch=%s Hex=%s Taper=%s Units=%s", tk(m[".Radius"]), tk(m[".Pitch"]), tk(m[".HexFlat2Flat"]), tk(m[".Taper"]), tk(m[".Units"]))
				continue
			}
			detail += " unexpected return " + shortKey(valKey(alt.Val), 60)
		}
		r.check("H3", label+"|mm-rows-returned-unchanged", fn.Pos(), okSame, "the receiver itself is returned exactly when Units == \"mm\" (idempotence)")
		r.check("H3", label+"|inch-rows-converted-into-a-new-record", fn.Pos(), okNew, "lengths × 25.4, Taper and Name kept, Units \"mm\", in a fresh record; "+detail)
		e := newFxEngine(ctx)
		s := e.summarize(fn)
		wr := ""
		for _, w := range s.writes {
			if w.root.kind != "fresh" {
				wr += fmt.Sprintf(" %s [%s]", w.root, w.why)
			}
		}
		r.check("H3", label+"|does-not-write-the-shared-row", fn.Pos(), wr == "", "ThreadLookup hands out the database's own record: converting in place corrupts it for every later user;"+wr)
	}
	if fn := ctx.ssaFunc("sdf", "(*ThreadParameters).ToMillimetre"); fn != nil {
		h3(fn, "ToMillimetre")
	} else {
		r.undecided("H3", "ToMillimetre", 0, "not found")
	}
	if cf := ctx.ssaFunc("sdf", "(*ThreadParameters).verifCtlToMillimetreInPlace"); cf != nil {
		h3(cf, "verifCtlToMillimetreInPlace")
		r.expectControl("H3", "verifCtlToMillimetreInPlace|does-not-write-the-shared-row")
	} else if !r.controlSkipped() {
		r.undecided("H3", "control", 0, "positive control missing")
	}
	r.floor("H3", 3)

	// H4
	for _, o := range []struct {
		fn       string
		sign     int64
		external int64
	}{{"Bolt", -1, 1}, {"Nut", 1, 0}} {
		fn := ctx.ssaFunc("obj", o.fn)
		if fn == nil {
			r.undecided("H4", o.fn, 0, "not found")
			continue
		}
		ev := newEvalPkg(ctx, "/obj", "ISOThread", "Screw3D", "HexHead3D", "KnurledHead3D", "Cylinder3D", "Transform3D", "Union3D", "Difference3D", "ChamferedCylinder", "ThreadLookup", "HexRadius", "HexHeight", "Translate3d", "ErrMsg")
		ev.evalRoot(fn)
		k := paramName(fn, 0)
		row := "call:" + modPath + "/sdf.ThreadLookup#0(" + k + ".Thread)"
		its := eventsOf(ev, "sdf.ISOThread")
		ok := len(its) == 1
		detail := fmt.Sprintf("%d ISOThread calls", len(its))
		if ok {
			rad, _ := its[0].Args[0].(*Term)
			pit, _ := its[0].Args[1].(*Term)
			ext, _ := its[0].Args[2].(*Term)
			want := Add(A(row+".Radius"), Mul(K(o.sign), A(k+".Tolerance")))
			ok = rad != nil && equalRat(rad, want) && pit != nil && pit.Key() == row+".Pitch" && ext != nil && ext.Key() == K(o.external).Key()
			detail = fmt.Sprintf("ISOThread(%s, %s, %s)", tk(rad), tk(pit), tk(ext))
		}
		r.check("H4", "obj."+o.fn+"|tolerance-sign", fn.Pos(), ok, fmt.Sprintf("radius = Radius %+d·Tolerance, external=%v; %s", o.sign, o.external == 1, shortKey(detail, 300)))
		scs := eventsOf(ev, "sdf.Screw3D")
		ok2 := len(scs) == 1
		if ok2 {
			a := scs[0].Args
			tp, _ := a[2].(*Term)
			pt, _ := a[3].(*Term)
			st, _ := a[4].(*Term)
			ok2 = tp != nil && tp.Key() == row+".Taper" && pt != nil && pt.Key() == row+".Pitch" && st != nil && st.IsOne()
		}
		r.check("H4", "obj."+o.fn+"|screw-uses-the-row's-pitch-and-taper-single-start", fn.Pos(), ok2, "Screw3D(profile, length, row.Taper, row.Pitch, 1)")
	}
	r.floor("H4", 4)
	screwSpec(ctx, r, "H5")
	checkNutBoreThrough(ctx, r)
	checkThreadNotReflected(ctx, r)
	checkProfilePitchIsScrewPitch(ctx, r)
	checkISOMating(ctx, r)
	checkRowsReadOnly(ctx, r)
	r.floor("H5", 2)
}

func tk(t *Term) string {
	if t == nil {
		return "<nil>"
	}
	return shortKey(t.Key(), 70)
}

// ---------------------------------------------------------------- H6: the ISO profiles mate

// isoVertex: one polygon vertex of a thread profile with its fillet radius (0 = sharp).
type isoVertex struct {
	x, y, r float64
	facets  int
}

// isoProfile reads the profile polygon ISOThread builds (external or internal) from the
// events of its symbolic evaluation and evaluates the closed-form coordinates numerically for
// the given radius and pitch.
func isoProfile(ctx *Ctx, fn *ssa.Function, external bool, radius, pitch float64) ([]isoVertex, error) {
	ev := newEval(ctx, "Add", "Smooth", "Polygon2D", "Vertices")
	ext := int64(0)
	if external {
		ext = 1
	}
	ev.evalRootWith(fn, map[string]int64{paramName(fn, 2): ext})
	env := map[string]float64{paramName(fn, 0): radius, paramName(fn, 1): pitch}
	var vs []isoVertex
	for _, e := range ev.Events {
		switch {
		case strings.HasSuffix(e.Callee, "sdf.Polygon).Add") && len(e.Args) == 3:
			x, ok1 := evalFloat(e.Args[1], env)
			y, ok2 := evalFloat(e.Args[2], env)
			if !ok1 || !ok2 {
				return nil, fmt.Errorf("vertex coordinates are not closed forms of radius and pitch: %s, %s", shortKey(valKey(e.Args[1]), 60), shortKey(valKey(e.Args[2]), 60))
			}
			vs = append(vs, isoVertex{x: x, y: y})
		case strings.HasSuffix(e.Callee, "sdf.PolygonVertex).Smooth") && len(e.Args) == 3 && len(vs) > 0:
			rr, ok1 := evalFloat(e.Args[1], env)
			n, ok2 := evalFloat(e.Args[2], env)
			if !ok1 || !ok2 {
				return nil, fmt.Errorf("fillet radius is not a closed form")
			}
			vs[len(vs)-1].r, vs[len(vs)-1].facets = rr, int(n)
		}
	}
	if len(vs) < 5 {
		return nil, fmt.Errorf("%d profile vertices found", len(vs))
	}
	return vs, nil
}

// evalFloat evaluates a closed form numerically (float64), atoms from env.
func evalFloat(v Val, env map[string]float64) (float64, bool) {
	t, ok := v.(*Term)
	if !ok {
		return 0, false
	}
	switch t.Op {
	case "c":
		f, _ := t.C.Float64()
		return f, true
	case "a":
		f, ok := env[t.S]
		return f, ok
	case "+":
		s := 0.0
		for _, a := range t.Args {
			x, ok := evalFloat(a, env)
			if !ok {
				return 0, false
			}
			s += x
		}
		return s, true
	case "*":
		s := 1.0
		for _, a := range t.Args {
			x, ok := evalFloat(a, env)
			if !ok {
				return 0, false
			}
			s *= x
		}
		return s, true
	case "/":
		x, ok := evalFloat(t.Args[0], env)
		return 1 / x, ok && x != 0
	case "conv":
		return evalFloat(t.Args[0], env)
	case "ite":
		c, ok := evalFloat(t.Args[0], env)
		if !ok {
			return 0, false
		}
		if c != 0 {
			return evalFloat(t.Args[1], env)
		}
		return evalFloat(t.Args[2], env)
	case "not":
		c, ok := evalFloat(t.Args[0], env)
		if c != 0 {
			return 0, ok
		}
		return 1, ok
	case "cmp":
		x, ok1 := evalFloat(t.Args[0], env)
		y, ok2 := evalFloat(t.Args[1], env)
		if !ok1 || !ok2 {
			return 0, false
		}
		var b bool
		switch t.S {
		case "<":
			b = x < y
		case "<=":
			b = x <= y
		case ">":
			b = x > y
		case ">=":
			b = x >= y
		case "==":
			b = x == y
		case "!=":
			b = x != y
		default:
			return 0, false
		}
		if b {
			return 1, true
		}
		return 0, true
	case "call":
		if len(t.Args) == 2 {
			x, ok1 := evalFloat(t.Args[0], env)
			y, ok2 := evalFloat(t.Args[1], env)
			if !ok1 || !ok2 {
				return 0, false
			}
			switch t.S {
			case "math.Max":
				return math.Max(x, y), true
			case "math.Min":
				return math.Min(x, y), true
			case "math.Mod":
				return math.Mod(x, y), true
			case "math.Atan2":
				return math.Atan2(x, y), true
			case "math.Hypot":
				return math.Hypot(x, y), true
			case "math.Pow":
				return math.Pow(x, y), true
			case "intdiv":
				if y != 0 {
					return math.Trunc(x / y), true
				}
			}
			return 0, false
		}
		if len(t.Args) == 1 {
			x, ok := evalFloat(t.Args[0], env)
			if !ok {
				return 0, false
			}
			switch t.S {
			case "math.Tan":
				return math.Tan(x), true
			case "math.Cos":
				return math.Cos(x), true
			case "math.Sin":
				return math.Sin(x), true
			case "math.Sqrt":
				return math.Sqrt(x), true
			case "math.Abs":
				return math.Abs(x), true
			case "math.Atan":
				return math.Atan(x), true
			case "math.Floor":
				return math.Floor(x), true
			case "math.Ceil":
				return math.Ceil(x), true
			case "math.Trunc":
				return math.Trunc(x), true
			case "math.Round":
				return math.Round(x), true
			case "math.Exp":
				return math.Exp(x), true
			case "math.Log":
				return math.Log(x), true
			case "math.Acos":
				return math.Acos(x), true
			case "math.Asin":
				return math.Asin(x), true
			}
		}
	}
	return 0, false
}

// filletPolygon applies the library's vertex smoothing (closed forms decided by C17/Z6:
// tangent distance r/tan(θ/2) checked against both edges, centre distance r/sin(θ/2), facets
// equal steps of sign·(π−θ)/facets) to a closed polygon.
func filletPolygon(vs []isoVertex) [][2]float64 {
	n := len(vs)
	var out [][2]float64
	for i, v := range vs {
		if v.r == 0 || v.facets == 0 {
			out = append(out, [2]float64{v.x, v.y})
			continue
		}
		p, q := vs[(i+n-1)%n], vs[(i+1)%n]
		ax, ay := p.x-v.x, p.y-v.y
		bx, by := q.x-v.x, q.y-v.y
		la, lb := math.Hypot(ax, ay), math.Hypot(bx, by)
		ax, ay, bx, by = ax/la, ay/la, bx/lb, by/lb
		theta := math.Acos(ax*bx + ay*by)
		d1 := v.r / math.Tan(theta/2)
		if d1 > la || d1 > lb {
			out = append(out, [2]float64{v.x, v.y})
			continue
		}
		p0x, p0y := v.x+ax*d1, v.y+ay*d1
		d2 := v.r / math.Sin(theta/2)
		cx, cy := ax+bx, ay+by
		lc := math.Hypot(cx, cy)
		cx, cy = v.x+cx/lc*d2, v.y+cy/lc*d2
		sg := 1.0
		if bx*ay-by*ax < 0 { // sign(v1 × v0)
			sg = -1
		}
		dt := sg * (math.Pi - theta) / float64(v.facets)
		rx, ry := p0x-cx, p0y-cy
		for j := 0; j <= v.facets; j++ {
			out = append(out, [2]float64{cx + rx, cy + ry})
			rx, ry = rx*math.Cos(dt)-ry*math.Sin(dt), rx*math.Sin(dt)+ry*math.Cos(dt)
		}
	}
	return out
}

// insideOrNear: p lies in the closed polygon, or within tol of its boundary.
func insideOrNear(poly [][2]float64, p [2]float64, tol float64) bool {
	in := false
	n := len(poly)
	for i := 0; i < n; i++ {
		a, b := poly[i], poly[(i+1)%n]
		if (a[1] > p[1]) != (b[1] > p[1]) && p[0] < (b[0]-a[0])*(p[1]-a[1])/(b[1]-a[1])+a[0] {
			in = !in
		}
		// distance to the edge
		dx, dy := b[0]-a[0], b[1]-a[1]
		l2 := dx*dx + dy*dy
		t := 0.0
		if l2 > 0 {
			t = ((p[0]-a[0])*dx + (p[1]-a[1])*dy) / l2
		}
		t = math.Max(0, math.Min(1, t))
		if math.Hypot(p[0]-a[0]-t*dx, p[1]-a[1]-t*dy) <= tol {
			return true
		}
	}
	return in
}

// checkISOMating: at equal nominal radius and zero tolerance the external (bolt) profile must
// lie inside the internal profile (the solid a nut is cut with) over the thread period the
// screw uses, |x| <= pitch/2: otherwise bolt and nut interfere for tight fits. The profile
// polygons are read from the source (closed forms in radius and pitch), filleted with the
// library's own smoothing rule and compared numerically (tolerance 1e-7 pitch; the designed
// fit is tangent). Decided for three radius/pitch ratios (M3x0.5, M8x1.25, M64x6).
func checkISOMating(ctx *Ctx, r *Report) {
	fn := ctx.ssaFunc("sdf", "ISOThread")
	key := "ISOThread|external-profile-fits-inside-internal-profile"
	if fn == nil || len(fn.Params) != 3 {
		r.undecided("H6", key, 0, "ISOThread(radius, pitch, external) not found")
		return
	}
	ok := true
	detail := ""
	for _, c := range [][2]float64{{1.5, 0.5}, {4, 1.25}, {32, 6}} {
		radius, pitch := c[0], c[1]
		ev, err1 := isoProfile(ctx, fn, true, radius, pitch)
		iv, err2 := isoProfile(ctx, fn, false, radius, pitch)
		if err1 != nil || err2 != nil {
			r.undecided("H6", key, fn.Pos(), fmt.Sprint(err1, err2))
			return
		}
		ext, in := filletPolygon(ev), filletPolygon(iv)
		worst := 0.0
		var at [2]float64
		n := len(ext)
		for i := 0; i < n; i++ {
			a, b := ext[i], ext[(i+1)%n]
			for _, p := range [][2]float64{a, {(a[0] + b[0]) / 2, (a[1] + b[1]) / 2}} {
				if math.Abs(p[0]) > pitch/2 || p[1] <= 0 {
					continue
				}
				if !insideOrNear(in, p, 1e-7*pitch) {
					// how far outside: distance to the internal outline
					d := math.Inf(1)
					for j := range in {
						u, w := in[j], in[(j+1)%len(in)]
						dx, dy := w[0]-u[0], w[1]-u[1]
						t := math.Max(0, math.Min(1, ((p[0]-u[0])*dx+(p[1]-u[1])*dy)/(dx*dx+dy*dy)))
						d = math.Min(d, math.Hypot(p[0]-u[0]-t*dx, p[1]-u[1]-t*dy))
					}
					if d > worst {
						worst, at = d, p
					}
				}
			}
		}
		if worst > 0 {
			ok = false
			detail += fmt.Sprintf(" radius %g pitch %g: the bolt profile leaves the nut profile by %.4f pitch at (%.4f, %.4f);", radius, pitch, worst/pitch, at[0], at[1])
		}
	}
	r.check("H6", key, fn.Pos(), ok, "bolt material never overlaps nut material at zero tolerance (profiles from the source, filleted as the library does);"+detail)
	r.floor("H6", 1)
}

// checkRowsReadOnly (H7): ThreadLookup hands out the database's own records (and ToMillimetre
// returns its receiver for a row already in mm), so any field written through such a pointer
// changes what the designation means for the rest of the process. Who-may-write rule over every
// function of the module: a store into a field of a ThreadParameters record is made only through
// a record the same function has just allocated (the Add helpers' and the conversion's literals).
func checkRowsReadOnly(ctx *Ctx, r *Report) {
	n := 0
	for _, fn := range ctx.srcFuncs("sdf", "obj", "render", "render/dc") {
		if len(fn.Blocks) == 0 {
			continue
		}
		k := 0
		allInstrs(fn, func(_ *ssa.BasicBlock, ins ssa.Instruction) {
			st, ok := ins.(*ssa.Store)
			if !ok {
				return
			}
			fa, ok := st.Addr.(*ssa.FieldAddr)
			if !ok {
				return
			}
			nt, ok := derefType(fa.X.Type()).(*types.Named)
			if !ok || nt.Obj().Name() != "ThreadParameters" {
				return
			}
			_, fresh := fa.X.(*ssa.Alloc)
			// the methods of the database type itself build the rows (they run from the package
			// initialiser, before any row can have been handed out)
			if recv := fn.Signature.Recv(); recv != nil && !fresh {
				if mp, ok := recv.Type().Underlying().(*types.Map); ok {
					if el, ok := derefType(mp.Elem()).(*types.Named); ok && el.Obj().Name() == "ThreadParameters" {
						fresh = true
					}
				}
			}
			if c, ok := fa.X.(*ssa.Call); ok && !fresh {
				// a helper of the module that returns nothing but records it allocates itself
				if g := c.Call.StaticCallee(); g != nil && inModule(g) && len(g.Blocks) > 0 {
					fresh = true
					for _, b := range g.Blocks {
						if ret, ok := b.Instrs[len(b.Instrs)-1].(*ssa.Return); ok {
							for _, rv := range ret.Results {
								if _, isPtr := rv.Type().Underlying().(*types.Pointer); isPtr {
									if _, isAlloc := rv.(*ssa.Alloc); !isAlloc {
										fresh = false
									}
								}
							}
						}
					}
				}
			}
			k++
			n++
			stt := nt.Underlying().(*types.Struct)
			r.check("H7", fmt.Sprintf("%s|store#%d-%s-into-a-record-it-allocated", shortFn(fn), k, stt.Field(fa.Field).Name()), st.Pos(), fresh,
				"thread records reached through ThreadLookup / ToMillimetre are the shared database rows and must not be written")
		})
	}
	r.Counts["thread_record_stores"] = n
	r.floor("H7", 8)
}

// checkNutBoreThrough (H8): obj.Nut subtracts an internal thread of length nh from a body built
// by a head constructor. Material of the body above or below the thread is a plug across the
// bore and meets the bolt for every tolerance. Decided in two steps: (a) each head constructor
// Nut calls receives, as its height, the very term Screw3D receives as its length; (b) inside
// each head constructor the parts that are joined have a height of at most the constructor's
// height parameter (closed form of the height evaluated on a grid of radii, heights and
// pitches, the nut's own proportions among them).
func checkNutBoreThrough(ctx *Ctx, r *Report) {
	fn := ctx.ssaFunc("obj", "Nut")
	if fn == nil {
		r.undecided("H8", "obj.Nut", 0, "not found")
		return
	}
	heads := map[string]int{"HexHead3D": 1, "KnurledHead3D": 1} // index of the height parameter
	ev := newEvalPkg(ctx, "/obj", "ISOThread", "Screw3D", "HexHead3D", "KnurledHead3D", "Difference3D", "ThreadLookup", "HexRadius", "HexHeight", "ErrMsg")
	ev.evalRoot(fn)
	scs := eventsOf(ev, "sdf.Screw3D")
	if len(scs) != 1 {
		r.undecided("H8", "obj.Nut", fn.Pos(), fmt.Sprintf("%d Screw3D calls", len(scs)))
		return
	}
	length, _ := scs[0].Args[1].(*Term)
	if length == nil {
		r.undecided("H8", "obj.Nut", fn.Pos(), "thread length is not a scalar")
		return
	}
	nHeads := 0
	for name, hi := range heads {
		for _, e := range eventsOf(ev, "obj."+name) {
			nHeads++
			h, _ := e.Args[hi].(*Term)
			r.check("H8", "obj.Nut|"+name+"-is-as-high-as-the-thread-is-long", e.Pos, h != nil && h.Key() == length.Key(),
				fmt.Sprintf("height argument %s, Screw3D length %s", tk(h), tk(length)))
		}
	}
	_ = nHeads // a body chosen through a table of constructors is not followed; (b) still applies
	// (b) the parts of each head
	type part struct {
		callee string
		height func(e Event) Val
	}
	parts := []part{
		{"sdf.Cylinder3D", func(e Event) Val { return e.Args[0] }},
		{"obj.Hex3D", func(e Event) Val { return e.Args[1] }},
		{"obj.Knurl3D", func(e Event) Val {
			var k Val
			switch a := e.Args[0].(type) {
			case *Ptr:
				if a.Obj != nil {
					k = getPath(e.State.mem[a.Obj], a.Path)
				}
			case *Tuple:
				if len(a.Elems) == 2 {
					k = a.Elems[1]
				}
			}
			if k == nil {
				return nil
			}
			v, _ := fieldOf(k, "Length")
			return v
		}},
	}
	for name, hi := range heads {
		hf := ctx.ssaFunc("obj", name)
		if hf == nil {
			r.undecided("H8", "obj."+name, 0, "not found")
			continue
		}
		hev := newEvalPkg(ctx, "/obj", "Cylinder3D", "Hex3D", "Knurl3D", "Sphere3D", "Union3D", "Intersect3D", "Transform3D", "Translate3d", "ErrMsg", "DtoR")
		hev.evalRoot(hf)
		rn, hn := paramName(hf, 0), paramName(hf, hi)
		n := 0
		for _, pt := range parts {
			for _, e := range eventsOf(hev, pt.callee) {
				n++
				ht := pt.height(e)
				bad := ""
				cases := 0
				if ht == nil {
					bad = " the part's height is not a scalar;"
				}
				for _, rad := range []float64{0.5, 1, 3.7, 12} {
					for _, hr := range []float64{0.3, 0.8333333333333334, 1, 1.26, 2.5, 7.01} {
						for _, pr := range []float64{0.1, 0.25, 0.3, 1} {
							if bad != "" {
								break
							}
							env := map[string]float64{rn: rad, hn: hr * rad}
							for i := range hf.Params {
								if i != 0 && i != hi {
									env[paramName(hf, i)] = pr * rad
								}
							}
							got, ok := evalFloat(ht, env)
							if !ok {
								bad = " the part's height is not a closed form of the parameters: " + shortKey(valKey(ht), 160) + ";"
								break
							}
							cases++
							if got > hr*rad*(1+1e-12) {
								bad = fmt.Sprintf(" with radius %g, height %g, third parameter %g the part is %g high;", rad, hr*rad, pr*rad, got)
							}
						}
					}
				}
				r.check("H8", fmt.Sprintf("obj.%s|%s-no-taller-than-the-head", name, pt.callee), e.Pos, bad == "",
					fmt.Sprintf("height of the part evaluated on %d parameter sets;%s", cases, bad))
			}
		}
		if n == 0 {
			r.undecided("H8", "obj."+name, hf.Pos(), "no part with a height found")
		}
	}
	r.floor("H8", 3)
}

// checkProfilePitchIsScrewPitch (H9): a thread is an ISO profile of some pitch swept along a helix
// of some pitch; the two are one number. Where a row is converted to millimetres first, taking
// the radius from the converted record and the pitch from the original (or the profile's pitch
// from one and the helix pitch from the other) gives, for every inch designation, a profile
// 25.4 times too fine for its helix: a hair-thin slot instead of a thread, and the part no longer
// mates. Metric rows are unchanged by the conversion, so nothing in the repository shows it.
func checkProfilePitchIsScrewPitch(ctx *Ctx, r *Report) {
	reRec := regexp.MustCompile(`^(.*)\.(Radius|Pitch)$`)
	n := 0
	for fn := range ssautil.AllFunctions(ctx.Prog) {
		if !inModule(fn) || fn.Pkg == nil || !strings.HasSuffix(fn.Pkg.Pkg.Path(), "/obj") || len(fn.Blocks) == 0 || fn.Parent() != nil {
			continue
		}
		calls := false
		allInstrs(fn, func(_ *ssa.BasicBlock, ins ssa.Instruction) {
			if c, ok := ins.(*ssa.Call); ok {
				if g := c.Call.StaticCallee(); g != nil && g.Name() == "ISOThread" {
					calls = true
				}
			}
		})
		if !calls {
			continue
		}
		ev := newEvalPkg(ctx, "/obj", "ISOThread", "Screw3D", "HexHead3D", "KnurledHead3D", "Cylinder3D", "Transform3D", "Union3D", "Difference3D", "ChamferedCylinder", "ThreadLookup", "ToMillimetre", "HexRadius", "HexHeight", "Translate3d", "ErrMsg")
		ev.evalRoot(fn)
		its := eventsOf(ev, "sdf.ISOThread")
		scs := eventsOf(ev, "sdf.Screw3D")
		for k, it := range its {
			if len(it.Args) < 2 {
				continue
			}
			n++
			key := fmt.Sprintf("obj.%s|thread#%d", shortFn(fn), k+1)
			rad, _ := it.Args[0].(*Term)
			pit, _ := it.Args[1].(*Term)
			bad := ""
			if rad == nil || pit == nil {
				bad = " radius or pitch is not a scalar;"
			} else {
				recOf := func(t *Term, field string) map[string]bool {
					out := map[string]bool{}
					for _, a := range findSub(t, func(x *Term) bool { return x.Op == "a" }) {
						if m := reRec.FindStringSubmatch(a.S); m != nil && m[2] == field {
							out[m[1]] = true
						}
					}
					return out
				}
				rr, pr := recOf(rad, "Radius"), recOf(pit, "Pitch")
				if len(rr) == 1 && len(pr) == 1 {
					for a := range rr {
						if !pr[a] {
							bad += fmt.Sprintf(" the profile's radius is read from %s, its pitch from another record (%s);", shortKey(a, 80), shortKey(tk(pit), 80))
						}
					}
				}
				// the screw this profile is swept by: the Screw3D call whose pitch should match
				swept := false
				for _, sc := range scs {
					if len(sc.Args) < 5 {
						continue
					}
					sp, _ := sc.Args[3].(*Term)
					if sp == nil {
						continue
					}
					prs := recOf(sp, "Pitch")
					if len(prs) == 0 {
						continue // a screw of another kind (e.g. a knurl)
					}
					swept = true
					if sp.Key() != pit.Key() && len(its) == 1 {
						bad += fmt.Sprintf(" profile pitch %s, helix pitch %s;", shortKey(tk(pit), 80), shortKey(tk(sp), 80))
					}
				}
				_ = swept
			}
			r.check("H9", key, it.Pos, bad == "", "ISOThread(radius, pitch, ...) and Screw3D(..., pitch, starts) use one pitch, radius and pitch come from one record;"+bad)
		}
	}
	if n == 0 {
		r.undecided("H9", "obj", 0, "no thread construction found in package obj")
	}
	r.floor("H9", 1)
}

// checkThreadNotReflected (H10): a reflection reverses the hand of a helix, so a screw thread
// that has been through a mirror transform no longer mates with the unreflected thread of the
// same designation (a right-handed bolt does not enter a left-handed nut). Wherever package obj
// applies Transform3D to a solid that derives from a Screw3D call (directly, through further
// transforms, tuple extraction, interface conversion or a merge of branches), the matrix does
// not derive from one of the Mirror constructors. Turning a thread over is a rotation.
func checkThreadNotReflected(ctx *Ctx, r *Report) {
	isSdfFn := func(f *ssa.Function, names ...string) bool {
		if f == nil || f.Pkg == nil || !strings.HasSuffix(f.Pkg.Pkg.Path(), "/sdf") {
			return false
		}
		for _, n := range names {
			if f.Name() == n || (strings.HasSuffix(n, "*") && strings.HasPrefix(f.Name(), strings.TrimSuffix(n, "*"))) {
				return true
			}
		}
		return false
	}
	var fromScrew func(v ssa.Value, seen map[ssa.Value]bool) bool
	fromScrew = func(v ssa.Value, seen map[ssa.Value]bool) bool {
		if v == nil || seen[v] {
			return false
		}
		seen[v] = true
		switch x := v.(type) {
		case *ssa.Call:
			f := x.Common().StaticCallee()
			if isSdfFn(f, "Screw3D") {
				return true
			}
			if f != nil && inModule(f) {
				// a solid built from solids: the thread is still in it
				for _, a := range x.Common().Args {
					if isSDFType(a.Type()) && fromScrew(a, seen) {
						return true
					}
				}
			}
		case *ssa.Extract:
			return fromScrew(x.Tuple, seen)
		case *ssa.MakeInterface:
			return fromScrew(x.X, seen)
		case *ssa.ChangeInterface:
			return fromScrew(x.X, seen)
		case *ssa.ChangeType:
			return fromScrew(x.X, seen)
		case *ssa.Phi:
			for _, e := range x.Edges {
				if fromScrew(e, seen) {
					return true
				}
			}
		}
		return false
	}
	var fromMirror func(v ssa.Value, seen map[ssa.Value]bool) bool
	fromMirror = func(v ssa.Value, seen map[ssa.Value]bool) bool {
		if v == nil || seen[v] {
			return false
		}
		seen[v] = true
		switch x := v.(type) {
		case *ssa.Call:
			if isSdfFn(x.Common().StaticCallee(), "Mirror*") {
				return true
			}
			for _, a := range x.Common().Args { // products of matrices
				if fromMirror(a, seen) {
					return true
				}
			}
		case *ssa.Phi:
			for _, e := range x.Edges {
				if fromMirror(e, seen) {
					return true
				}
			}
		case *ssa.UnOp:
			return fromMirror(x.X, seen)
		}
		return false
	}
	n := 0
	for _, fn := range ctx.srcFuncs("obj") {
		ord := 0
		allInstrs(fn, func(_ *ssa.BasicBlock, ins ssa.Instruction) {
			c, ok := ins.(*ssa.Call)
			if !ok || !isSdfFn(c.Common().StaticCallee(), "Transform3D") || len(c.Common().Args) != 2 {
				return
			}
			if !fromScrew(c.Common().Args[0], map[ssa.Value]bool{}) {
				return
			}
			ord++
			n++
			r.check("H10", fmt.Sprintf("%s|thread-transform#%d-is-not-a-reflection", shortFn(fn), ord), c.Pos(), !fromMirror(c.Common().Args[1], map[ssa.Value]bool{}),
				"the matrix applied to a solid built by Screw3D does not come from a Mirror constructor (a reflection reverses the hand of the thread)")
		})
	}
	r.Counts["thread_transforms"] = n
	r.expectControl("H10", "verifCtlMirroredThread")
	r.floor("H10", 1)
}
