package main

import (
	"encoding/json"
	"fmt"
	"go/token"
	"os"
	"path/filepath"
	"sort"
	"strings"
	"time"
)

const (
	stOK        = "discharged"
	stRefuted   = "refuted"
	stUndecided = "undecided"
)

type Obligation struct {
	Rule      string `json:"rule"`
	Construct string `json:"construct"`
	Status    string `json:"status"`
	Pos       string `json:"pos,omitempty"`
	Detail    string `json:"detail,omitempty"`
	control   bool
}

type Report struct {
	Prop         string
	ctx          *Ctx
	Obls         []Obligation
	Counts       map[string]int // free-form measured counters for the evidence file
	Floors       map[string]int // rule -> minimum number of (non-control) instances
	Explain      string
	Assume       []string
	Trusted      []string
	Exhaust      bool
	ctlExpect    []ctlExpect
	selfProblems []string
}

type ctlExpect struct{ rule, sub string }

func newReport(prop string, ctx *Ctx) *Report {
	return &Report{Prop: prop, ctx: ctx, Counts: map[string]int{}, Floors: map[string]int{}}
}

// add records one obligation. pos decides whether it belongs to a control.
func (r *Report) add(rule, construct string, pos token.Pos, status, detail string) {
	o := Obligation{Rule: rule, Construct: construct, Status: status, Detail: detail}
	if r.ctx != nil {
		o.Pos = r.ctx.pos(pos)
		o.control = r.ctx.isControlPos(pos)
	}
	r.Obls = append(r.Obls, o)
}

func (r *Report) check(rule, construct string, pos token.Pos, ok bool, detail string) bool {
	st := stOK
	if !ok {
		st = stRefuted
	}
	r.add(rule, construct, pos, st, detail)
	return ok
}

func (r *Report) undecided(rule, construct string, pos token.Pos, detail string) {
	r.add(rule, construct, pos, stUndecided, detail)
}

// floor: the rule must have at least n non-control instances.
func (r *Report) floor(rule string, n int) { r.Floors[rule] = n }

// expectControl: some control obligation of this rule whose construct
// contains sub must be refuted on every run.
func (r *Report) expectControl(rule, sub string) {
	r.ctlExpect = append(r.ctlExpect, ctlExpect{rule, sub})
}

// ---------------------------------------------------------------- known findings

type KnownFinding struct {
	Property  string `json:"property"`
	Rule      string `json:"rule"`
	Construct string `json:"construct"`
	Status    string `json:"status"` // "known" or "fixed"
	What      string `json:"what"`
	Commit    string `json:"commit,omitempty"`
}

func loadKnown() ([]KnownFinding, error) {
	b, err := os.ReadFile(filepath.Join(verifDir(), "known_findings.json"))
	if err != nil {
		if os.IsNotExist(err) {
			return nil, nil
		}
		return nil, err
	}
	var f struct {
		Findings []KnownFinding `json:"findings"`
	}
	if err := json.Unmarshal(b, &f); err != nil {
		return nil, err
	}
	return f.Findings, nil
}

// ---------------------------------------------------------------- finish

type evidence struct {
	PropertyID  string                 `json:"property_id"`
	Tier        string                 `json:"tier"`
	Seed        int                    `json:"seed"`
	Level       string                 `json:"level"`
	Coverage    map[string]interface{} `json:"coverage"`
	Assumptions []string               `json:"assumptions"`
	WallS       float64                `json:"wall_s"`
	Violations  int                    `json:"violations"`
}

// finish evaluates the obligations, writes evidence and replay files, prints
// the verdict lines and returns the exit code.
func (r *Report) finish(tier string, seed int, start time.Time, cmdline string) int {
	vd := verifDir()
	known, kerr := loadKnown()
	var broken []string
	if kerr != nil {
		broken = append(broken, "known_findings.json unreadable: "+kerr.Error())
	}
	broken = append(broken, r.selfProblems...)
	// controls
	var real []Obligation
	ctlFired, ctlSkipped := 0, 0
	for _, e := range r.ctlExpect {
		hit := false
		for _, o := range r.Obls {
			if o.control && o.Rule == e.rule && strings.Contains(o.Construct, e.sub) && o.Status == stRefuted {
				hit = true
			}
		}
		if hit {
			ctlFired++
		} else if r.controlSkipped() {
			// the control source no longer type-checks against the tree under analysis (an internal
			// type it builds on was changed): the control is left out rather than failing the check
			ctlSkipped++
		} else {
			broken = append(broken, fmt.Sprintf("positive control did not fire: rule=%s construct~%q", e.rule, e.sub))
		}
	}
	perRule := map[string]int{}
	for _, o := range r.Obls {
		if o.control {
			continue
		}
		real = append(real, o)
		perRule[o.Rule]++
	}
	var floorRules []string
	for k := range r.Floors {
		floorRules = append(floorRules, k)
	}
	sort.Strings(floorRules)
	for _, k := range floorRules {
		if perRule[k] < r.Floors[k] {
			broken = append(broken, fmt.Sprintf("rule %s matched %d instances, fewer than the %d confirmed by hand (anchor lost?)", k, perRule[k], r.Floors[k]))
		}
	}
	nOK, nRef, nUnd, nKnown := 0, 0, 0, 0
	var viol []Obligation
	var lines []string
	for _, o := range real {
		switch o.Status {
		case stOK:
			nOK++
		case stUndecided:
			nUnd++
			lines = append(lines, fmt.Sprintf("UNDECIDED property=%s rule=%s construct=%s pos=%s reason=%s", r.Prop, o.Rule, o.Construct, o.Pos, o.Detail))
		case stRefuted:
			isKnown := false
			for _, k := range known {
				// the thorough tier repeats the rules for other build targets and tags the construct
				// "[GOARCH=.. GOOS=..] <construct>": the same finding
				construct := o.Construct
				if strings.HasPrefix(construct, "[GO") {
					if i := strings.Index(construct, "] "); i > 0 {
						construct = construct[i+2:]
					}
				}
				if k.Status == "known" && k.Property == r.Prop && k.Rule == o.Rule && k.Construct == construct {
					isKnown = true
					lines = append(lines, fmt.Sprintf("KNOWN-FINDING: property=%s rule=%s construct=%s %s", r.Prop, o.Rule, o.Construct, k.What))
				}
			}
			if isKnown {
				nKnown++
			} else {
				nRef++
				viol = append(viol, o)
			}
		}
	}
	noEv := os.Getenv("VERIF_NOEVIDENCE") != ""
	// replay files
	os.MkdirAll(filepath.Join(vd, "replay"), 0o755)
	old, _ := filepath.Glob(filepath.Join(vd, "replay", r.Prop+"-*.json"))
	for _, f := range old {
		os.Remove(f)
	}
	for i, o := range viol {
		path := filepath.Join(vd, "replay", fmt.Sprintf("%s-%03d.json", r.Prop, i+1))
		if noEv {
			path = filepath.Join(vd, "replay", fmt.Sprintf("scratch-%s-%03d.json", r.Prop, i+1))
		}
		b, _ := json.MarshalIndent(map[string]interface{}{
			"property": r.Prop, "rule": o.Rule, "construct": o.Construct, "pos": o.Pos, "detail": o.Detail,
			"repo": r.repoPath(), "how_to_replay": cmdline,
		}, "", " ")
		os.WriteFile(path, b, 0o644)
		lines = append(lines, fmt.Sprintf("VIOLATION property=%s replay=%s rule=%s construct=%s pos=%s :: %s", r.Prop, path, o.Rule, o.Construct, o.Pos, o.Detail))
	}
	// evidence
	samples := sampleObls(real, viol, 14)
	cov := map[string]interface{}{
		"explanation":  r.Explain,
		"obligations":  len(real),
		"discharged":   nOK,
		"refuted":      nRef,
		"known":        nKnown,
		"undecided":    nUnd,
		"exhaustive":   r.Exhaust,
		"checker_cmd":  cmdline,
		"trusted_base": r.Trusted,
		"samples":      samples,
		"rules":        perRule,
		"controls":     map[string]int{"expected": len(r.ctlExpect), "fired": ctlFired, "skipped": ctlSkipped},
	}
	if r.ctx != nil {
		cov["packages"] = len(r.ctx.Pkgs)
		cov["module_functions"] = r.ctx.NFuncs
		cov["repo"] = r.ctx.Repo
	}
	for k, v := range r.Counts {
		cov[k] = v
	}
	if len(broken) > 0 {
		cov["checker_problems"] = broken
	}
	ev := evidence{PropertyID: r.Prop, Tier: tier, Seed: seed, Level: "other", Coverage: cov,
		Assumptions: r.Assume, WallS: time.Since(start).Seconds(), Violations: nRef}
	if ev.Assumptions == nil {
		ev.Assumptions = []string{}
	}
	b, _ := json.MarshalIndent(ev, "", " ")
	os.MkdirAll(filepath.Join(vd, "evidence"), 0o755)
	if noEv {
		// scratch-copy runs (mutant testing) must not overwrite the evidence of /repo
	} else if err := os.WriteFile(filepath.Join(vd, "evidence", r.Prop+".json"), append(b, '\n'), 0o644); err != nil {
		broken = append(broken, "cannot write evidence: "+err.Error())
	}
	sort.Strings(lines)
	for _, l := range lines {
		fmt.Println(l)
	}
	rs := make([]string, 0, len(perRule))
	for k, v := range perRule {
		rs = append(rs, fmt.Sprintf("%s=%d", k, v))
	}
	sort.Strings(rs)
	fmt.Printf("property=%s tier=%s obligations=%d discharged=%d refuted=%d known=%d undecided=%d controls=%d/%d rules[%s] wall=%.1fs\n",
		r.Prop, tier, len(real), nOK, nRef, nKnown, nUnd, ctlFired, len(r.ctlExpect), strings.Join(rs, " "), time.Since(start).Seconds())
	for _, bmsg := range broken {
		fmt.Printf("CHECKER-PROBLEM property=%s %s\n", r.Prop, bmsg)
	}
	switch {
	case nRef > 0:
		return 1
	case len(broken) > 0 || nUnd > 0:
		return 2
	}
	return 0
}

// controlSkipped: one of this property's control files was left out of the load.
func (r *Report) controlSkipped() bool {
	if r.ctx == nil {
		return false
	}
	for _, c := range r.ctx.SkippedControls {
		if c == strings.ToLower(r.Prop) || c == "mc" || c == "ms" || c == "axis" {
			return true
		}
	}
	return false
}

func (r *Report) repoPath() string {
	if r.ctx != nil {
		return r.ctx.Repo
	}
	return ""
}

func sampleObls(all, viol []Obligation, n int) []Obligation {
	out := append([]Obligation{}, viol...)
	if len(out) > n {
		out = out[:n]
	}
	// one per rule first, then fill evenly
	seen := map[string]bool{}
	for _, o := range all {
		if len(out) >= n {
			break
		}
		if !seen[o.Rule] && o.Status != stRefuted {
			seen[o.Rule] = true
			out = append(out, o)
		}
	}
	step := len(all)/n + 1
	for i := 0; i < len(all) && len(out) < n; i += step {
		out = append(out, all[i])
	}
	return out
}
