package main

// Facts about the marching-cubes / marching-squares kernels that several
// properties need, all derived from the repository's source by the symbolic
// evaluator (E2): which comparison sets a configuration bit, in which order a
// table row's indices become the emitted vertices, how corners are numbered.

import (
	"fmt"
	"go/constant"
	"go/token"
	"go/types"
	"math/big"
	"os"
	"regexp"
	"strings"

	"golang.org/x/tools/go/ssa"
)

type kernelFacts struct {
	fn *ssa.Function
	// bit i of the configuration index is set iff value[i] is below the iso level
	bitIsInside bool
	bitCmp      string
	// emitted vertex k of primitive i is points[table[stride*i + emit[k]]]
	emit   []int
	stride int
	// interpolation call: points[e] = interp(p[pair[e][ia]], p[pair[e][ib]], v[pair[e][ia]], v[pair[e][ib]], x)
	interpA, interpB int
	pairOK           bool
	pairDetail       string
	tableName        string
	pairName         string
	maskName         string
	pos              token.Pos
}

func eventsOf(ev *Evaluator, sub string) []Event {
	var out []Event
	for _, e := range ev.Events {
		if strings.Contains(e.Callee, sub) {
			out = append(out, e)
		}
	}
	return out
}

// reFieldCol: global:table[<i>].field
var reFieldCol = regexp.MustCompile(`^(?:global:)?(\w+)\[.*\]\.(\w+)$`)

// rePrimRow: global:table[<cfg>][<j>][k] - the k-th point index of the j-th primitive of a row
var rePrimRow = regexp.MustCompile(`^((?:global:)?\w+)\[.*\]\[(\d+)\]$`)

// constOffset: t == stride*μ + k  ->  (k, true) for a single recurrence atom μ.
func strideOffset(t *Term) (stride, off int, mu string, ok bool) {
	coefs, terms, c, lin := linear(t)
	if !lin || !c.IsInt() {
		return 0, 0, "", false
	}
	if len(coefs) == 0 {
		return 0, int(c.Num().Int64()), "", true
	}
	if len(coefs) != 1 {
		return 0, 0, "", false
	}
	for k, co := range coefs {
		if !co.IsInt() || terms[k].Op != "a" {
			return 0, 0, "", false
		}
		return int(co.Num().Int64()), int(c.Num().Int64()), terms[k].S, true
	}
	return 0, 0, "", false
}

// analyseKernel evaluates mcToTriangles / msToLines.
//
//	nverts: 3 (triangles) or 2 (lines); interp: name of the interpolation
//	function; degen: name of the degenerate test.
func analyseKernel(ctx *Ctx, fn *ssa.Function, nverts int, interp string) (*kernelFacts, error) {
	mark := len(recOrder)
	ev := newEval(ctx, interp, "Degenerate")
	ev.symbolicElems = true
	// the kernel's loops are read through their recurrences (bit i ⇔ value[i] < iso, vertex k of
	// primitive i), not executed: unrolled they are 2^8 cases deep
	ev.unroll = false
	ev.evalRoot(fn)
	if ev.Exceeded {
		return nil, fmt.Errorf("evaluation budget exceeded")
	}
	kf := &kernelFacts{fn: fn, pos: fn.Pos()}
	// 1. configuration bit
	found := false
	for _, rc := range recsSince(mark) {
		st := rc.Step
		if st.Op != "ite" {
			continue
		}
		c, a, b := st.Args[0], st.Args[1], st.Args[2]
		set, keep := a, b
		neg := false
		if !(set.Op == "call" && set.S == "op|") {
			set, keep = b, a
			neg = true
		}
		if !(set.Op == "call" && set.S == "op|") || keep.Op != "a" {
			continue
		}
		if c.Op == "not" {
			c = c.Args[0]
			neg = !neg
		}
		if c.Op != "cmp" {
			continue
		}
		// operands: sel:v(i) and x
		l, rr := c.Args[0], c.Args[1]
		op := c.S
		if rr.Op == "sel" && l.Op != "sel" {
			l, rr = rr, l
			op = flipCmp(op)
		}
		if l.Op != "sel" {
			continue
		}
		if neg {
			op = negCmp(op)
		}
		found = true
		kf.bitCmp = fmt.Sprintf("%s[i] %s %s", l.S, op, rr.Key())
		switch op {
		case "<", "<=":
			kf.bitIsInside = true
		case ">", ">=":
			kf.bitIsInside = false
		default:
			return nil, fmt.Errorf("configuration bit is set under %q: not an order comparison", kf.bitCmp)
		}
	}
	if !found {
		// written out corner by corner (no loop): the index the case table is read at, evaluated
		// for every assignment of sides to the corner values, must be Σ bit(i)<<i
		if cmp, inside, ok := writtenOutIndex(ev); ok {
			found, kf.bitCmp, kf.bitIsInside = true, cmp, inside
		}
	}
	if !found {
		return nil, fmt.Errorf("cannot find the loop that builds the configuration index (ite(value<iso, index|1<<i, index))")
	}
	// 2. emitted vertex order: the Degenerate call sees the finished primitive
	dg := eventsOf(ev, ".Degenerate")
	var prim *Agg
	if len(dg) > 0 {
		if recvSnap, _ := dg[0].Args[0].(*Tuple); recvSnap != nil && len(recvSnap.Elems) == 2 {
			prim, _ = recvSnap.Elems[1].(*Agg) // pointer receiver: (pointer, pointee) snapshot
		} else {
			prim, _ = dg[0].Args[0].(*Agg) // value receiver
		}
	} else {
		// no degenerate test (T6/U4 reports that): find the local primitive at the append
		for _, e := range eventsOf(ev, "append") {
			for _, v := range e.State.mem {
				a, ok := v.(*Agg)
				if !ok || len(a.Elems) != nverts {
					continue
				}
				all := true
				for _, el := range a.Elems {
					if s, ok := el.(*Sym); !ok || s.Idx == nil || s.Idx.Op != "sel" {
						all = false
					}
				}
				if all {
					prim = a
				}
			}
		}
	}
	if prim == nil || len(prim.Elems) != nverts {
		return nil, fmt.Errorf("cannot find the emitted %d-vertex primitive", nverts)
	}
	for k, e := range prim.Elems {
		s, _ := e.(*Sym)
		if s == nil || s.Idx == nil {
			return nil, fmt.Errorf("vertex %d of the emitted primitive is not points[table[...]]: %s", k, valKey(e))
		}
		var stride, off int
		table := ""
		switch {
		case s.Idx.Op == "sel":
			// row[stride*i + k], or row[j + k] with j stepping by `stride`
			st, o, mu, ok := strideOffset(s.Idx.Args[0])
			if !ok {
				return nil, fmt.Errorf("vertex %d: table index %s is not stride*i+k", k, s.Idx.Args[0].Key())
			}
			if st == 1 && mu != "" {
				if rc, has := recs[mu]; has {
					for step := 2; step <= 4; step++ {
						// `for j := c0; j < len(row); j += step` reading row[j-c0 .. j]: the counter
						// may start at the last element of the first group
						if rc.Step.Key() == Add(K(int64(step)), A(mu)).Key() && rc.Init.Op == "c" && rc.Init.C.IsInt() && rc.Init.C.Sign() >= 0 && rc.Init.C.Num().Int64() < int64(step) {
							st = step
							o += int(rc.Init.C.Num().Int64())
						}
					}
				}
			}
			stride, off, table = st, o, s.Idx.S
			// a sliding window over the row: `for w := row; len(w) >= n; w = w[n:]` reads w[k]
			if vr, ok := valRecs[s.Idx.S]; ok && st == 0 {
				if w, isSlice := vr[1].(*SliceV); isSlice && w.Sym != nil && w.Sym.Path == s.Idx.S && w.Lo > 0 {
					if row, isSym := vr[0].(*Sym); isSym {
						stride, table = w.Lo, row.Path
					}
				}
			}
		case s.Idx.Op == "a":
			// a row of primitives, each a small array of point indices: row[j][k]
			m := rePrimRow.FindStringSubmatch(s.Idx.S)
			if m == nil {
				return nil, fmt.Errorf("vertex %d of the emitted primitive is not points[table[...]]: %s", k, valKey(e))
			}
			fmt.Sscan(m[2], &off)
			table = m[1]
			stride = nverts // one inner array per primitive; its length is checked when the table is read
		default:
			return nil, fmt.Errorf("vertex %d of the emitted primitive is not points[table[...]]: %s", k, valKey(e))
		}
		if k == 0 {
			kf.stride = stride
			kf.tableName = table
		} else if stride != kf.stride || table != kf.tableName {
			return nil, fmt.Errorf("vertices use different strides/tables")
		}
		kf.emit = append(kf.emit, off)
	}
	if kf.stride != nverts {
		return nil, fmt.Errorf("table stride %d, expected %d", kf.stride, nverts)
	}
	// 3. interpolation arguments
	ip := eventsOf(ev, "."+interp)
	if len(ip) == 0 {
		return nil, fmt.Errorf("no call to %s", interp)
	}
	a := ip[0].Args
	if len(a) < 5 {
		return nil, fmt.Errorf("%s has %d args", interp, len(a))
	}
	idxOf := func(v Val) (*Term, string) {
		switch x := v.(type) {
		case *Sym:
			return x.Idx, x.Base
		case *Term:
			if x.Op == "sel" {
				return x.Args[0], x.S
			}
		}
		return nil, ""
	}
	p1, pb1 := idxOf(a[0])
	p2, pb2 := idxOf(a[1])
	v1, vb1 := idxOf(a[2])
	v2, vb2 := idxOf(a[3])
	if p1 == nil || p2 == nil || v1 == nil || v2 == nil {
		return nil, fmt.Errorf("%s arguments are not indexed corner positions/values", interp)
	}
	kf.pairOK = p1.Key() == v1.Key() && p2.Key() == v2.Key() && p1.Key() != p2.Key() && pb1 == pb2 && vb1 == vb2
	kf.pairDetail = fmt.Sprintf("%s(%s[%s], %s[%s], %s[%s], %s[%s])", interp, pb1, shortKey(p1.Key(), 60), pb2, shortKey(p2.Key(), 60), vb1, shortKey(v1.Key(), 60), vb2, shortKey(v2.Key(), 60))
	// pair table columns: atom names end in "[0]" / "[1]"
	col := func(t *Term) int {
		k := t.Key()
		switch {
		case strings.HasSuffix(k, "[0]"):
			return 0
		case strings.HasSuffix(k, "[1]"):
			return 1
		}
		// a table of small structs: the column is the field's position
		if m := reFieldCol.FindStringSubmatch(k); m != nil {
			for _, pkg := range ctx.Pkgs {
				if pkg.Types == nil || fn.Pkg == nil || pkg.Types != fn.Pkg.Pkg {
					continue
				}
				if v, ok := pkg.Types.Scope().Lookup(m[1]).(*types.Var); ok {
					var et types.Type
					switch u := v.Type().Underlying().(type) {
					case *types.Array:
						et = u.Elem()
					case *types.Slice:
						et = u.Elem()
					}
					if et != nil {
						if st, ok := et.Underlying().(*types.Struct); ok {
							for i := 0; i < st.NumFields(); i++ {
								if st.Field(i).Name() == m[2] {
									return i
								}
							}
						}
					}
				}
			}
		}
		return -1
	}
	kf.interpA, kf.interpB = col(p1), col(p2)
	return kf, nil
}

// writtenOutIndex: the configuration index of a kernel that sets its bits one statement per
// corner. The index is the argument of a read of a package-level table; its atoms are the corner
// values v[i] and the iso value.
func writtenOutIndex(ev *Evaluator) (cmp string, inside bool, ok bool) {
	reVal := regexp.MustCompile(`^(\w+)\[(\d+)\]$`)
	var cands []*Term
	seen := map[string]bool{}
	visit := func(v Val) {
		t, isT := v.(*Term)
		if !isT {
			return
		}
		for _, x := range findSub(t, func(y *Term) bool { return y.Op == "sel" && strings.HasPrefix(y.S, "global:") && len(y.Args) == 1 }) {
			if !seen[x.Args[0].Key()] {
				seen[x.Args[0].Key()] = true
				cands = append(cands, x.Args[0])
			}
		}
	}
	for _, e := range ev.Events {
		if e.Cond != nil {
			visit(e.Cond)
		}
		for _, a := range e.Args {
			m := map[string]*Term{}
			leafTerms("", a, m)
			for _, t := range m {
				visit(t)
			}
		}
	}
	if os.Getenv("SDFXLINT_DEBUG") != "" {
		for _, e := range ev.Events {
			fmt.Fprintln(os.Stderr, "DBG event", e.Callee, shortKey(tk(e.Cond), 300))
			for _, a := range e.Args {
				fmt.Fprintln(os.Stderr, "   arg", shortKey(valKey(a), 300))
			}
		}
		for _, c := range cands {
			fmt.Fprintln(os.Stderr, "DBG cand", shortKey(c.Key(), 400))
		}
	}
	for _, idx := range cands {
		base, iso := "", ""
		n := 0
		okAtoms := true
		for _, a := range findSub(idx, func(y *Term) bool { return y.Op == "a" }) {
			if m := reVal.FindStringSubmatch(a.S); m != nil {
				if base != "" && base != m[1] {
					okAtoms = false
				}
				base = m[1]
				var k int
				fmt.Sscan(m[2], &k)
				if k+1 > n {
					n = k + 1
				}
			} else if iso == "" || iso == a.S {
				iso = a.S
			} else {
				okAtoms = false
			}
		}
		if !okAtoms || base == "" || n < 2 || n > 8 || len(findSub(idx, func(y *Term) bool { return y.Op == "cmp" })) < n {
			continue
		}
		matchLess, matchGreater := true, true
		func() {
			defer func() {
				if recover() != nil {
					matchLess, matchGreater = false, false
				}
			}()
			for m := 0; m < 1<<uint(n); m++ {
				env := map[string]*big.Rat{}
				if iso != "" {
					env[iso] = new(big.Rat)
				}
				less, greater := int64(0), int64(0)
				for k := 0; k < n; k++ {
					if m>>uint(k)&1 == 1 {
						env[fmt.Sprintf("%s[%d]", base, k)] = big.NewRat(-1, 1)
						less |= 1 << uint(k)
					} else {
						env[fmt.Sprintf("%s[%d]", base, k)] = big.NewRat(1, 1)
						greater |= 1 << uint(k)
					}
				}
				got := evalT(idx, env)
				if !got.IsInt() || got.Num().Int64() != less {
					matchLess = false
				}
				if !got.IsInt() || got.Num().Int64() != greater {
					matchGreater = false
				}
			}
		}()
		switch {
		case matchLess:
			return base + "[i] < " + iso + " (written out)", true, true
		case matchGreater:
			return base + "[i] > " + iso + " (written out)", false, true
		}
	}
	return "", false, false
}

func flipCmp(op string) string {
	switch op {
	case "<":
		return ">"
	case "<=":
		return ">="
	case ">":
		return "<"
	case ">=":
		return "<="
	}
	return op
}

func negCmp(op string) string {
	switch op {
	case "<":
		return ">="
	case "<=":
		return ">"
	case ">":
		return "<="
	case ">=":
		return "<"
	case "==":
		return "!="
	case "!=":
		return "=="
	}
	return op
}

// ---------------------------------------------------------------- corner numbering

// cornerModel: bits[k][axis] in {0,1} for the k-th corner handed to the
// kernel, and the matching value sample offsets.
type cornerModel struct {
	bits    [][]int // per corner, per axis
	valBits [][]int // per corner, per axis, derived from the value samples
	detail  string
	pos     token.Pos
}

// diffBit: t - base is 0 -> 0, non-zero -> 1 (with the difference returned).
func diffBit(t, base *Term) (int, *Term) {
	d := Sub(t, base)
	if d.IsZero() {
		return 0, d
	}
	return 1, d
}

// uniformCorners reads the corner/value literals of the uniform renderer from
// the arguments of its kernel call. dim is 3 or 2. getName is the sampling
// accessor ("Get"/"get").
func uniformCorners(ctx *Ctx, fn *ssa.Function, kernel string, dim int, getName string, opaque ...string) (*cornerModel, error) {
	ev := newEval(ctx, append([]string{kernel, getName}, opaque...)...)
	ev.evalRoot(fn)
	ks := eventsOf(ev, "."+kernel)
	if len(ks) != 1 {
		return nil, fmt.Errorf("%d calls of %s in %s, expected 1", len(ks), kernel, fn.Name())
	}
	e := ks[0]
	cm := &cornerModel{pos: e.Pos}
	corners, _ := e.Args[0].(*Agg)
	values, _ := e.Args[1].(*Agg)
	n := 1 << dim
	if corners == nil || values == nil || len(corners.Elems) != n || len(values.Elems) != n {
		return nil, fmt.Errorf("kernel arguments are not %d-element literals", n)
	}
	c0, _ := corners.Elems[0].(*Agg)
	if c0 == nil {
		if s, ok := corners.Elems[0].(*Sym); ok {
			c0, _ = materialise(s).(*Agg)
		}
	}
	if c0 == nil || len(c0.Elems) < dim {
		return nil, fmt.Errorf("corner 0 is not a vector")
	}
	incs := make([]*Term, dim)
	for k := 0; k < n; k++ {
		ck, _ := corners.Elems[k].(*Agg)
		if ck == nil {
			return nil, fmt.Errorf("corner %d is not a vector literal", k)
		}
		var bits []int
		for ax := 0; ax < dim; ax++ {
			a, ok1 := ck.Elems[ax].(*Term)
			b, ok2 := c0.Elems[ax].(*Term)
			if !ok1 || !ok2 {
				return nil, fmt.Errorf("corner %d axis %d not scalar", k, ax)
			}
			bit, d := diffBit(a, b)
			if bit == 1 {
				if incs[ax] == nil {
					incs[ax] = d
				} else if incs[ax].Key() != d.Key() {
					return nil, fmt.Errorf("corner %d axis %d uses a different increment", k, ax)
				}
			}
			bits = append(bits, bit)
		}
		cm.bits = append(cm.bits, bits)
	}
	// values: Get(l, a, y+b, z+c) / get(l, a, y+b)
	var v0 []*Term
	if t0, _ := values.Elems[0].(*Term); t0 != nil && t0.Op == "sel" {
		// the values are read straight from the two layer slices: layer field -> x offset, index
		// difference to value 0 -> (y, z) offsets, the stride being the difference that is not 0/1
		bits, err := layerValueOffsets(ctx, fn, values, dim)
		if err != nil {
			return nil, err
		}
		cm.valBits = bits
		return cm, nil
	}
	for k := 0; k < n; k++ {
		t, _ := values.Elems[k].(*Term)
		if t == nil || t.Op != "call" || !strings.HasSuffix(t.S, "."+getName) {
			return nil, fmt.Errorf("value %d is not a call of %s: %s", k, getName, valKey(values.Elems[k]))
		}
		args := t.Args[len(t.Args)-dim:]
		if k == 0 {
			v0 = args
		}
		var bits []int
		for ax := 0; ax < dim; ax++ {
			d := Sub(args[ax], v0[ax])
			if !d.IsConst() || !d.C.IsInt() {
				return nil, fmt.Errorf("value %d: sample offset on axis %d is %s", k, ax, d.Key())
			}
			bits = append(bits, int(d.C.Num().Int64()))
		}
		cm.valBits = append(cm.valBits, bits)
	}
	return cm, nil
}

// treeCorners reads corner numbering of the octree / quadtree leaf: the
// arguments of the evaluate calls feeding the kernel. side is the expected
// lattice step of a leaf (2).
func treeCorners(ctx *Ctx, fn *ssa.Function, kernel string, dim int, evalName string, opaque ...string) (*cornerModel, *Evaluator, error) {
	ev := newEval(ctx, append([]string{kernel, evalName}, opaque...)...)
	ev.evalRoot(fn)
	ks := eventsOf(ev, "."+kernel)
	if len(ks) != 1 {
		return nil, ev, fmt.Errorf("%d calls of %s in %s, expected 1", len(ks), kernel, fn.Name())
	}
	e := ks[0]
	cm := &cornerModel{pos: e.Pos}
	corners, _ := e.Args[0].(*Agg)
	values, _ := e.Args[1].(*Agg)
	n := 1 << dim
	if corners == nil || values == nil || len(corners.Elems) != n || len(values.Elems) != n {
		return nil, ev, fmt.Errorf("kernel arguments are not %d-element literals", n)
	}
	var base []*Term
	argVec := func(ct *Term) []*Term {
		if ct == nil || ct.Op != "call" || len(ct.Args) == 0 {
			return nil
		}
		last := ct.Args[len(ct.Args)-1]
		if last.Op != "agg" || len(last.Args) != dim {
			return nil
		}
		return last.Args
	}
	for k := 0; k < n; k++ {
		s, _ := corners.Elems[k].(*Sym)
		if s == nil || s.Call == nil {
			return nil, ev, fmt.Errorf("corner %d is not the result of %s", k, evalName)
		}
		v, _ := values.Elems[k].(*Term)
		if v == nil || v.Op != "call" {
			return nil, ev, fmt.Errorf("value %d is not the result of %s", k, evalName)
		}
		pa, va := argVec(s.Call), argVec(v)
		if pa == nil || va == nil {
			return nil, ev, fmt.Errorf("corner %d: cannot read the lattice index argument", k)
		}
		if k == 0 {
			base = pa
		}
		var bits, vbits []int
		for ax := 0; ax < dim; ax++ {
			d := Sub(pa[ax], base[ax])
			dv := Sub(va[ax], base[ax])
			if !d.IsConst() || !dv.IsConst() {
				return nil, ev, fmt.Errorf("corner %d axis %d: offset %s is not constant", k, ax, d.Key())
			}
			two := big.NewRat(2, 1)
			q := new(big.Rat).Quo(d.C, two)
			qv := new(big.Rat).Quo(dv.C, two)
			if !q.IsInt() || !qv.IsInt() {
				return nil, ev, fmt.Errorf("corner %d axis %d: offset %s is not a multiple of the leaf side 2", k, ax, d.Key())
			}
			bits = append(bits, int(q.Num().Int64()))
			vbits = append(vbits, int(qv.Num().Int64()))
		}
		cm.bits = append(cm.bits, bits)
		cm.valBits = append(cm.valBits, vbits)
	}
	return cm, ev, nil
}

func bitsString(b [][]int) string {
	var parts []string
	for _, r := range b {
		s := ""
		for _, x := range r {
			s += fmt.Sprint(x)
		}
		parts = append(parts, s)
	}
	return strings.Join(parts, " ")
}

func validBits(b [][]int, dim int) bool {
	seen := map[string]bool{}
	for _, r := range b {
		s := ""
		for _, x := range r {
			if x != 0 && x != 1 {
				return false
			}
			s += fmt.Sprint(x)
		}
		if seen[s] {
			return false
		}
		seen[s] = true
	}
	return len(b) == 1<<dim
}

// ---------------------------------------------------------------- shared by C05 / C08

// equalsAtZeroTolerance: the degenerate filter calls Equals(b, 0): identical vectors must compare
// equal at tolerance 0 (a strict `<` makes the filter a no-op and collapsed primitives are emitted).
// Decided on the closed form of Equals with b := a, tolerance := 0.
func equalsAtZeroTolerance(ctx *Ctx, r *Report, rule, vecPkg string) {
	fn := ctx.ssaFunc("vec/"+vecPkg, "(Vec).Equals")
	key := vecPkg + ".Vec.Equals|identical-vectors-are-equal-at-tolerance-0"
	if fn == nil {
		r.undecided(rule, key, 0, "method not found")
		return
	}
	ev := newEval(ctx)
	res, _ := ev.evalRoot(fn)
	t, _ := res.(*Term)
	if t == nil || ev.Exceeded {
		r.undecided(rule, key, fn.Pos(), "result is not a closed form")
		return
	}
	a, b, tol := paramName(fn, 0), paramName(fn, 1), paramName(fn, 2)
	env := map[string]*big.Rat{tol: new(big.Rat)}
	for i, c := range []string{"X", "Y", "Z"} {
		v := big.NewRat(int64(3*i+1), 7)
		env[a+"."+c] = v
		env[b+"."+c] = v
	}
	ok, why := false, ""
	func() {
		defer func() {
			if e := recover(); e != nil {
				why = fmt.Sprint(e)
			}
		}()
		ok = evalT(t, env).Sign() != 0
	}()
	if why != "" {
		r.undecided(rule, key, fn.Pos(), "not a comparison of the components: "+why)
		return
	}
	r.check(rule, key, fn.Pos(), ok, "Equals(a, a, 0) must hold: the degenerate-primitive filter compares with tolerance 0; closed form: "+shortKey(t.Key(), 160))
}

// freshPrimitivePerIteration: the kernel appends a pointer to the primitive it has just filled;
// the primitive must be allocated in the iteration that appends it. One variable declared before
// the loop makes every appended pointer the same object: all emitted primitives equal the last.
func freshPrimitivePerIteration(ctx *Ctx, r *Report, rule string, fn *ssa.Function, prim string) {
	loops := loopDescs(fn, topoAll(fn))
	n := 0
	allInstrs(fn, func(b *ssa.BasicBlock, ins ssa.Instruction) {
		st, ok := ins.(*ssa.Store)
		if !ok {
			return
		}
		al, ok := st.Val.(*ssa.Alloc)
		if !ok || !al.Heap || !namedTypeIs(al.Type(), "/sdf", prim) {
			return
		}
		// stored into the variadic slot of an append (or any slice/array element)
		if _, ok := st.Addr.(*ssa.IndexAddr); !ok {
			return
		}
		n++
		// innermost loop around the store
		var inner *loopDesc
		for _, ld := range loops {
			if ld.in[b] && (inner == nil || len(ld.order) < len(inner.order)) {
				inner = ld
			}
		}
		ok = inner == nil || inner.in[al.Block()]
		r.check(rule, fmt.Sprintf("%s|emitted-primitive#%d-is-allocated-in-its-iteration", fn.Name(), n), st.Pos(), ok, "the pointer appended in a loop must point to a primitive allocated in that iteration, not to one variable shared by all iterations")
	})
	if n == 0 {
		r.undecided(rule, fn.Name()+"|emitted-primitive", fn.Pos(), "no pointer to a freshly allocated *"+prim+" is emitted: idiom not recognised")
	}
}

// layerValueOffsets decodes values written as cache.layerA[i] / cache.layerB[i]: which of the two
// layer slices is the newer one (x offset 1) is read from the cache's fill method - the slice it
// (re)allocates and fills; the index differences to value 0 are 0, 1, S, S+1 for a row stride S.
func layerValueOffsets(ctx *Ctx, fn *ssa.Function, values *Agg, dim int) ([][]int, error) {
	field := func(t *Term) string {
		if i := strings.LastIndex(t.S, "."); i >= 0 {
			return t.S[i+1:]
		}
		return t.S
	}
	// the newer layer: the field a method of the same package stores a fresh slice into
	newer := ""
	fields := map[string]bool{}
	for _, e := range values.Elems {
		if t, ok := e.(*Term); ok && t.Op == "sel" {
			fields[field(t)] = true
		}
	}
	pkgSuffix := "render"
	for _, m := range ctx.srcFuncs(pkgSuffix) {
		if m.Signature.Recv() == nil {
			continue
		}
		allInstrs(m, func(b *ssa.BasicBlock, ins ssa.Instruction) {
			st, ok := ins.(*ssa.Store)
			if !ok {
				return
			}
			if _, isMS := st.Val.(*ssa.MakeSlice); !isMS {
				return
			}
			if fa, ok := st.Addr.(*ssa.FieldAddr); ok {
				if sty, ok := fa.X.Type().Underlying().(*types.Pointer).Elem().Underlying().(*types.Struct); ok {
					if nm := sty.Field(fa.Field).Name(); fields[nm] {
						newer = nm
					}
				}
			}
		})
	}
	if len(fields) != 2 || newer == "" {
		return nil, fmt.Errorf("the %d values are not read from two layer slices of which one is refilled per step", len(values.Elems))
	}
	t0 := values.Elems[0].(*Term)
	var diffs []*Term
	for _, e := range values.Elems {
		t, ok := e.(*Term)
		if !ok || t.Op != "sel" || len(t.Args) != 1 {
			return nil, fmt.Errorf("value is not an element of a layer slice: %s", valKey(e))
		}
		diffs = append(diffs, Sub(t.Args[0], t0.Args[0]))
	}
	// the stride
	var stride *Term
	for _, d := range diffs {
		if !d.IsZero() && !d.IsOne() {
			for _, d2 := range diffs {
				if equalRat(d2, Add(d, K(1))) {
					stride = d
				}
			}
		}
	}
	var out [][]int
	for k, e := range values.Elems {
		t := e.(*Term)
		x := 0
		if field(t) == newer {
			x = 1
		}
		d := diffs[k]
		var yz []int
		switch {
		case d.IsZero():
			yz = []int{0, 0}
		case d.IsOne():
			yz = []int{0, 1}
		case stride != nil && equalRat(d, stride):
			yz = []int{1, 0}
		case stride != nil && equalRat(d, Add(stride, K(1))):
			yz = []int{1, 1}
		default:
			return nil, fmt.Errorf("value %d: index offset %s is not 0, 1, stride or stride+1", k, shortKey(d.Key(), 80))
		}
		if dim == 2 {
			// one row: the only offsets are 0 and 1 (along y)
			if yz[0] != 0 {
				return nil, fmt.Errorf("value %d: unexpected row offset in a 2D cache", k)
			}
			out = append(out, []int{x, yz[1]})
		} else {
			out = append(out, append([]int{x}, yz...))
		}
	}
	return out, nil
}

// everyCellFeedsKernel: in a uniform renderer every cell of the lattice goes through the kernel
// and the kernel's output goes to the writer. The uniform renderers promise a closed surface for
// any function whose zero set is inside the box - they look at signs only - so a cell may be
// skipped only on the signs of its corner values, never on a magnitude (a magnitude test trusts
// the function to be a distance bound, which the uniform renderers do not require). Decided on
// the CFG: inside the innermost loop around the kernel call, every branch that is not dominated
// by the call (and is not the loop's own header test) must be a comparison with the constant 0
// or a boolean combination of such; and the writer call consuming the kernel's result must be in
// the same iteration on every path after the kernel call.
func everyCellFeedsKernel(ctx *Ctx, r *Report, rule string, fn *ssa.Function, kernel string) {
	var kcall *ssa.Call
	allInstrs(fn, func(_ *ssa.BasicBlock, ins ssa.Instruction) {
		if c, ok := ins.(*ssa.Call); ok {
			if g := c.Call.StaticCallee(); g != nil && g.Name() == kernel {
				kcall = c
			}
		}
	})
	who := fn.Name()
	if kcall == nil {
		r.undecided(rule, who, fn.Pos(), "no call of "+kernel)
		return
	}
	ld := innermostLoop(fn, kcall.Block())
	if ld == nil {
		r.undecided(rule, who, kcall.Pos(), "the kernel call is not inside a loop")
		return
	}
	var signOnly func(v ssa.Value, seen map[ssa.Value]bool) bool
	// parameters of a predicate helper stand for the arguments of its (single level) call
	argOf := map[ssa.Value]ssa.Value{}
	isZero := func(v ssa.Value) bool {
		if a, ok := argOf[v]; ok {
			v = a
		}
		c, ok := v.(*ssa.Const)
		if !ok || c.Value == nil {
			return false
		}
		switch c.Value.Kind() {
		case constant.Int, constant.Float:
			return constant.Sign(c.Value) == 0
		}
		return false
	}
	signOnly = func(v ssa.Value, seen map[ssa.Value]bool) bool {
		if seen[v] {
			return true
		}
		seen[v] = true
		switch x := v.(type) {
		case *ssa.Const:
			return true
		case *ssa.BinOp:
			switch x.Op {
			case token.LSS, token.LEQ, token.GTR, token.GEQ, token.EQL, token.NEQ:
				if isZero(x.X) || isZero(x.Y) {
					return true
				}
				if bt, ok := x.X.Type().Underlying().(*types.Basic); ok && bt.Info()&types.IsBoolean != 0 {
					return signOnly(x.X, seen) && signOnly(x.Y, seen)
				}
			}
			return false
		case *ssa.UnOp:
			if x.Op == token.NOT {
				return signOnly(x.X, seen)
			}
			return false
		case *ssa.Phi:
			for _, e := range x.Edges {
				if !signOnly(e, seen) {
					return false
				}
			}
			return true
		case *ssa.Call:
			// a predicate helper (`allOnOneSide(values, 0)`): its result must be a test of signs
			// with the arguments it is given; one level, no recursion
			g := x.Call.StaticCallee()
			if g == nil || !inModule(g) || len(g.Blocks) == 0 || len(argOf) != 0 || len(g.Params) != len(x.Call.Args) {
				return false
			}
			for i, p := range g.Params {
				argOf[p] = x.Call.Args[i]
			}
			defer func() {
				for k := range argOf {
					delete(argOf, k)
				}
			}()
			ok, nret := true, 0
			allInstrs(g, func(_ *ssa.BasicBlock, ins ssa.Instruction) {
				if ret, isRet := ins.(*ssa.Return); isRet {
					nret++
					if len(ret.Results) != 1 || !signOnly(ret.Results[0], seen) {
						ok = false
					}
				}
			})
			return ok && nret > 0
		}
		return false
	}
	bad := ""
	nBranches := 0
	kb := kcall.Block()
	for _, x := range ld.order {
		if x == ld.header || kb.Dominates(x) {
			continue
		}
		ifi, ok := x.Instrs[len(x.Instrs)-1].(*ssa.If)
		if !ok {
			continue
		}
		// only a branch that can get to the next cell (or out of the loop) without the kernel
		// call matters; the test of an inner loop that fills the corner arrays cannot
		if !reachesWithout(ld, x, kb) {
			continue
		}
		nBranches++
		if !signOnly(ifi.Cond, map[ssa.Value]bool{}) {
			bad += fmt.Sprintf(" the branch at %s decides whether the cell reaches %s and is not a test of signs;", ctx.pos(branchPos(x, ifi)), kernel)
		}
	}
	if !kb.Dominates(kb) { // unreachable
		bad += " unreachable kernel call;"
	}
	// the kernel result is written in the same iteration
	var wr ssa.Instruction
	for _, ref := range *kcall.Referrers() {
		if c, ok := ref.(*ssa.Call); ok && c.Call.IsInvoke() && c.Call.Method.Name() == "Write" {
			wr = c
		}
		// `lines := nil; if crossed { lines = kernel(..) }; w.Write(lines)`: through the join
		if phi, ok := ref.(*ssa.Phi); ok && phi.Referrers() != nil {
			for _, r2 := range *phi.Referrers() {
				if c, ok := r2.(*ssa.Call); ok && c.Call.IsInvoke() && c.Call.Method.Name() == "Write" && len(c.Call.Args) == 1 && c.Call.Args[0] == phi {
					wr = c
				}
			}
		}
	}
	if wr == nil {
		bad += " the kernel's result is not passed to the writer directly;"
	} else if innermostLoop(fn, wr.Block()) != ld && innermostLoop(fn, wr.Block()) == nil {
		bad += " the writer call is outside the cell loop;"
	} else {
		// no branch between the kernel call and the write that can skip the write
		if !wr.Block().Dominates(wr.Block()) || !(wr.Block() == kb || postDominatedWithin(ld, kb, wr.Block())) {
			bad += " a path from the kernel call to the next cell misses the writer;"
		}
	}
	// a skip on signs is right only if it implies that all corners lie on one side: the
	// condition under which the kernel is called is evaluated for every assignment of signs to
	// the corner values (testing the diagonals only drops the two saddle configurations)
	if bad == "" && nBranches > 0 {
		ev := newEval(ctx, kernel, "Get", "get", "newLayerYZ", "newLineCache", "Evaluate", "evaluate", "evalRoutines")
		ev.evalRoot(fn)
		ks := eventsOf(ev, "."+kernel)
		if len(ks) == 1 && len(ks[0].Args) >= 2 && ks[0].Cond != nil {
			var vals []*Term
			if ag, ok := ks[0].Args[1].(*Agg); ok {
				for _, e := range ag.Elems {
					if t, ok := e.(*Term); ok {
						vals = append(vals, t)
					}
				}
			}
			isVal := func(x *Term) bool {
				for _, v := range vals {
					if len(findSub(x, func(y *Term) bool { return y.Key() == v.Key() })) > 0 {
						return true
					}
				}
				return false
			}
			truth := map[string]bool{}
			for _, c := range findSub(ks[0].Cond, func(x *Term) bool { return x.Op == "cmp" }) {
				if !isVal(c) {
					truth[c.Key()] = true // loop tests
				}
			}
			g := assume(ks[0].Cond, truth)
			n := len(vals)
			if n > 0 && n <= 8 {
				func() {
					defer func() {
						if recover() != nil {
							bad += " the condition of the kernel call is not a function of the corner signs: " + shortKey(g.Key(), 160) + ";"
						}
					}()
					for m := 0; m < 1<<uint(n) && bad == ""; m++ {
						env := map[string]*big.Rat{}
						for k, v := range vals {
							if m>>uint(k)&1 == 1 {
								env[v.Key()] = big.NewRat(-1, 1)
							} else {
								env[v.Key()] = big.NewRat(1, 1)
							}
						}
						called := evalT(g, env).Sign() != 0
						mixed := m != 0 && m != 1<<uint(n)-1
						if mixed && !called {
							bad += fmt.Sprintf(" with inside-corner mask %0*b the cell is skipped although its corners lie on both sides;", n, m)
						}
					}
				}()
			}
		}
	}
	r.check(rule, who+"|every-cell-reaches-"+kernel+"-and-the-writer", kcall.Pos(), bad == "", fmt.Sprintf("%d branches inside the cell loop before the kernel call, all sign tests, and a skipped cell has all corners on one side;%s", nBranches, bad))
}

// branchPos: a usable position for an If (its condition's, or the first positioned instruction's).
func branchPos(b *ssa.BasicBlock, ifi *ssa.If) token.Pos {
	if p := ifi.Cond.Pos(); p.IsValid() {
		return p
	}
	for i := len(b.Instrs) - 1; i >= 0; i-- {
		if p := b.Instrs[i].Pos(); p.IsValid() {
			return p
		}
	}
	return token.NoPos
}

// postDominatedWithin: every path inside the loop from block a to a latch or exit passes through b.
func postDominatedWithin(ld *loopDesc, a, b *ssa.BasicBlock) bool {
	seen := map[*ssa.BasicBlock]bool{}
	var walk func(x *ssa.BasicBlock) bool
	walk = func(x *ssa.BasicBlock) bool {
		if x == b {
			return true
		}
		if seen[x] {
			return true
		}
		seen[x] = true
		for _, su := range x.Succs {
			if !ld.in[su] || su == ld.header {
				return false
			}
			if !walk(su) {
				return false
			}
		}
		return len(x.Succs) > 0
	}
	return walk(a)
}

// reachesWithout: from block x some path inside the loop reaches the back edge or leaves the loop
// without passing through block avoid.
func reachesWithout(ld *loopDesc, x, avoid *ssa.BasicBlock) bool {
	seen := map[*ssa.BasicBlock]bool{x: true}
	work := []*ssa.BasicBlock{x}
	for len(work) > 0 {
		b := work[0]
		work = work[1:]
		for _, su := range b.Succs {
			if su == avoid {
				continue
			}
			if su == ld.header || !ld.in[su] {
				return true
			}
			if !seen[su] {
				seen[su] = true
				work = append(work, su)
			}
		}
	}
	return false
}

// everyFlaggedEdgeInterpolated (T10/U10): the kernel computes the crossing point of every lattice
// edge its edge table flags for the configuration - edge i iff bit i, and nothing else decides.
// A loop that stops "once both points are known" is right for the configurations with one
// segment and leaves points of the saddle configurations (four flagged edges) at the zero value:
// segments to the coordinate origin, or dropped by the degenerate filter. The kernel is executed
// edge by edge; the condition of each interpolation call may test one bit of the table entry.
func everyFlaggedEdgeInterpolated(ctx *Ctx, r *Report, rule string, fn *ssa.Function, interp string, nEdges int) {
	key := fn.Name() + "|every-flagged-edge-is-interpolated"
	ev := newEval(ctx, interp, "Degenerate")
	ev.evalRoot(fn)
	if ev.Exceeded {
		r.undecided(rule, key, fn.Pos(), "evaluation budget exceeded")
		return
	}
	es := eventsOf(ev, "."+interp)
	if len(es) == 0 {
		r.undecided(rule, key, fn.Pos(), "no call of "+interp)
		return
	}
	isMask := func(x *Term) bool { return x.Op == "call" && x.S == "op&" }
	bad := ""
	masks := map[string]int{}
	for k, e := range es {
		if e.Cond == nil {
			continue // interpolated unconditionally
		}
		seen := map[string]bool{}
		for _, m := range findSub(e.Cond, isMask) {
			seen[m.Key()] = true
		}
		if len(seen) > 1 && len(bad) < 300 {
			bad += fmt.Sprintf(" interpolation #%d depends on %d bit tests (an edge is interpolated iff its own bit is set);", k+1, len(seen))
		}
		for m := range seen {
			masks[m]++
		}
	}
	for m, c := range masks {
		if c > 1 && len(bad) < 300 {
			bad += fmt.Sprintf(" %d interpolations test the same bit %s;", c, shortKey(m, 60))
		}
	}
	if len(es) != nEdges {
		bad += fmt.Sprintf(" %d interpolation calls on the unrolled loop, %d edges;", len(es), nEdges)
	}
	r.check(rule, key, fn.Pos(), bad == "", fmt.Sprintf("%d edges, each interpolated under a test of one bit of the edge table entry;%s", len(es), bad))
	r.floor(rule, 1)
}
