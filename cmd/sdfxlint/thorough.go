package main

// Thorough tier: the quick analysis, plus
//  1. the same rules on the program as built for GOARCH=386 and for
//     GOOS=windows (word size, build-constraint coverage);
//  2. a self-test of the checker: every filed mutant of this property
//     (/verif/seeded/*, the reverse of each repair in /verif/mutants/fixrevert,
//     /verif/mutants/catalogue) is applied to a scratch copy of the repository's
//     current tree (outside /repo and /verif, removed afterwards) and the check
//     must report a violation there; benign edits (/verif/mutants/benign) must
//     stay silent. A miss or a noisy benign edit is a CHECKER-PROBLEM (exit 2),
//     not a property violation.

import (
	"encoding/json"
	"fmt"
	"os"
	"os/exec"
	"path/filepath"
	"sort"
	"strings"
	"sync"
)

type selfMutant struct {
	name    string
	patch   string
	reverse bool
	expect  bool // expected to be detected by this property's check
}

func mutantsFor(prop string) []selfMutant {
	vd := verifDir()
	var out []selfMutant
	// seeded
	dirs, _ := filepath.Glob(filepath.Join(vd, "seeded", "*", "meta.json"))
	for _, mf := range dirs {
		b, err := os.ReadFile(mf)
		if err != nil {
			continue
		}
		var meta struct {
			DetectedBy map[string]interface{} `json:"detected_by"`
			Benign     bool                   `json:"benign"`
		}
		if json.Unmarshal(b, &meta) != nil {
			continue
		}
		det := false
		if e, ok := meta.DetectedBy[prop].(map[string]interface{}); ok {
			// only a reported violation counts (exit 1); "undecided on the changed tree" is not a detection
			if ex, ok := e["exit"].(float64); ok && ex == 1 {
				det = true
			}
		}
		if !det && !meta.Benign {
			continue
		}
		out = append(out, selfMutant{name: "seeded/" + filepath.Base(filepath.Dir(mf)), patch: filepath.Join(filepath.Dir(mf), "patch.diff"), expect: det && !meta.Benign})
	}
	// reverse of the repairs
	known, _ := loadKnown()
	for _, k := range known {
		if k.Status != "fixed" || k.Property != prop || k.Commit == "" {
			continue
		}
		ms, _ := filepath.Glob(filepath.Join(vd, "mutants", "fixrevert", k.Commit+"-*.diff"))
		for _, m := range ms {
			out = append(out, selfMutant{name: "fixrevert/" + filepath.Base(m), patch: m, reverse: true, expect: true})
		}
	}
	// catalogue: mutants/catalogue/<prop>-*.diff (must fire), mutants/benign/*.diff (must not)
	ms, _ := filepath.Glob(filepath.Join(vd, "mutants", "catalogue", prop+"-*.diff"))
	for _, m := range ms {
		out = append(out, selfMutant{name: "catalogue/" + filepath.Base(m), patch: m, expect: true})
	}
	bs, _ := filepath.Glob(filepath.Join(vd, "mutants", "benign", "*.diff"))
	for _, m := range bs {
		out = append(out, selfMutant{name: "benign/" + filepath.Base(m), patch: m, expect: false})
	}
	sort.Slice(out, func(i, j int) bool { return out[i].name < out[j].name })
	// dedupe by patch path
	seen := map[string]bool{}
	var ded []selfMutant
	for _, m := range out {
		if !seen[m.patch] {
			seen[m.patch] = true
			ded = append(ded, m)
		}
	}
	return ded
}

func runSelfTest(prop, repo string, r *Report) {
	muts := mutantsFor(prop)
	r.Counts["selftest_mutants"] = len(muts)
	if len(muts) == 0 {
		return
	}
	exe, err := os.Executable()
	if err != nil {
		r.undecided("SELFTEST", "executable", 0, err.Error())
		return
	}
	type res struct {
		m       selfMutant
		status  string // detected, silent, skipped, error
		detail  string
		exit    int
		applied bool
	}
	results := make([]res, len(muts))
	sem := make(chan struct{}, 10)
	var wg sync.WaitGroup
	for i, m := range muts {
		wg.Add(1)
		go func(i int, m selfMutant) {
			defer wg.Done()
			sem <- struct{}{}
			defer func() { <-sem }()
			rs := res{m: m}
			dir, err := os.MkdirTemp("", "sdfxlint-mut-")
			if err != nil {
				rs.status, rs.detail = "error", err.Error()
				results[i] = rs
				return
			}
			defer os.RemoveAll(dir)
			if out, err := exec.Command("rsync", "-a", "--exclude", ".git", repo+"/", dir+"/").CombinedOutput(); err != nil {
				rs.status, rs.detail = "error", "rsync: "+string(out)
				results[i] = rs
				return
			}
			args := []string{"apply", "--whitespace=nowarn"}
			if m.reverse {
				args = append(args, "-R")
			}
			args = append(args, m.patch)
			cmd := exec.Command("git", args...)
			cmd.Dir = dir
			if out, err := cmd.CombinedOutput(); err != nil {
				rs.status, rs.detail = "skipped", "patch does not apply to the current tree: "+strings.TrimSpace(string(out))
				results[i] = rs
				return
			}
			rs.applied = true
			c := exec.Command(exe, "check", "-p", prop, "-tier", "quick", "-repo", dir)
			c.Env = append(os.Environ(), "VERIF_NOEVIDENCE=1", "VERIF_DIR="+verifDir())
			out, _ := c.CombinedOutput()
			rs.exit = c.ProcessState.ExitCode()
			var first string
			for _, l := range strings.Split(string(out), "\n") {
				if strings.HasPrefix(l, "VIOLATION") || strings.HasPrefix(l, "UNDECIDED") {
					first = l
					break
				}
			}
			first = strings.ReplaceAll(first, dir+"/", "")
			if i := strings.Index(first, "rule="); i >= 0 {
				first = first[i:]
			}
			switch rs.exit {
			case 1:
				rs.status, rs.detail = "detected", shortKey(first, 200)
			case 0:
				rs.status = "silent"
			default:
				rs.status, rs.detail = "undecided", shortKey(first, 200)
			}
			results[i] = rs
		}(i, m)
	}
	wg.Wait()
	for _, rs := range results {
		key := "SELFTEST|" + rs.m.name
		switch {
		case rs.status == "skipped" || rs.status == "error":
			r.Counts["selftest_skipped"]++
			r.add("SELFTEST", key, 0, stOK, "skipped: "+rs.detail)
		case rs.m.expect:
			// a mutant whose tree cannot be decided (exit 2) is not silently accepted either
			ok := rs.status == "detected"
			if ok {
				r.Counts["selftest_detected"]++
				r.add("SELFTEST", key, 0, stOK, "mutant detected: "+rs.detail)
			} else {
				r.selfProblems = append(r.selfProblems, fmt.Sprintf("mutant %s not detected (status %s %s)", rs.m.name, rs.status, rs.detail))
				r.add("SELFTEST", key, 0, stOK, "NOT DETECTED (checker gap, reported as CHECKER-PROBLEM): "+rs.status+" "+rs.detail)
			}
		default:
			if rs.status == "silent" {
				r.Counts["selftest_benign_silent"]++
				r.add("SELFTEST", key, 0, stOK, "behaviour-preserving edit: check stays silent")
			} else {
				r.selfProblems = append(r.selfProblems, fmt.Sprintf("behaviour-preserving edit %s raises %s %s", rs.m.name, rs.status, rs.detail))
				r.add("SELFTEST", key, 0, stOK, "FALSE ALARM on a behaviour-preserving edit (checker defect, reported as CHECKER-PROBLEM): "+rs.detail)
			}
		}
	}
}
