package main

// E4: interprocedural write-effect summaries with a lockset refinement.
//
// For every function: which non-fresh memory may it write, classified by the
// root of the written address (parameter i, free variable j, global g,
// unknown), and was each such write performed while an exclusive mutex lock
// was held. Address roots are found by walking address/alias-forming SSA
// instructions; loads inherit the root of the memory they read (whatever is
// reachable from the receiver stays "receiver"); pointers stored into a fresh
// local object are returned by loads from it only.

import (
	"fmt"
	"go/token"
	"go/types"
	"sort"
	"strings"

	"golang.org/x/tools/go/ssa"
	"golang.org/x/tools/go/ssa/ssautil"
)

type fxRoot struct {
	kind string // "fresh","param","free","global","unknown"
	idx  int
	name string
}

func (r fxRoot) String() string {
	switch r.kind {
	case "param", "free":
		return fmt.Sprintf("%s%d", r.kind, r.idx)
	case "global":
		return "global:" + r.name
	}
	return r.kind
}

type fxRootSet map[fxRoot]bool

func (s fxRootSet) add(o fxRootSet) {
	for k := range o {
		s[k] = true
	}
}

type fxWrite struct {
	root    fxRoot
	guarded bool   // performed under an exclusive lock
	field   string // first-level field of the root object, when known
	why     string
	pos     token.Pos
	origin  ssa.Instruction // the instruction that performs the write (a store, a map update, a call of a writing builtin)
}

type fxSummary struct {
	writes []fxWrite
	rets   fxRootSet
	done   bool
}

type fxEngine struct {
	ctx       *Ctx
	sums      map[*ssa.Function]*fxSummary
	addrTaken map[*ssa.Function]bool
	sdfIfaces []*types.Interface
	allTypes  []types.Type
	implCache map[string][]*ssa.Function
	nSummar   int
	// recvIsWrite: a receive from a channel that is not local to the call counts as a write of
	// shared state (F1: results of overlapping calls cross on a reply channel kept in the shape)
	recvIsWrite bool
}

func newFxEngine(ctx *Ctx) *fxEngine {
	e := &fxEngine{ctx: ctx, sums: map[*ssa.Function]*fxSummary{}, addrTaken: map[*ssa.Function]bool{}, implCache: map[string][]*ssa.Function{}}
	for _, n := range []string{"SDF2", "SDF3"} {
		if i := lookupIface(ctx, "sdf", n); i != nil {
			e.sdfIfaces = append(e.sdfIfaces, i)
		}
	}
	for fn := range ssautil.AllFunctions(ctx.Prog) {
		for _, b := range fn.Blocks {
			for _, ins := range b.Instrs {
				if mc, ok := ins.(*ssa.MakeClosure); ok {
					if f, ok := mc.Fn.(*ssa.Function); ok {
						// a closure that is only ever invoked in place (go/defer/call) is not a first-class value
						escapes := false
						for _, ref := range *mc.Referrers() {
							if ci, isCall := ref.(ssa.CallInstruction); isCall && ci.Common().Value == ssa.Value(mc) {
								continue
							}
							if _, isDbg := ref.(*ssa.DebugRef); isDbg {
								continue
							}
							escapes = true
						}
						if escapes {
							e.addrTaken[f] = true
						}
					}
				}
				if _, isMC := ins.(*ssa.MakeClosure); isMC {
					continue
				}
				for _, op := range ins.Operands(nil) {
					if op == nil || *op == nil {
						continue
					}
					f, ok := (*op).(*ssa.Function)
					if !ok {
						continue
					}
					if c, isCall := ins.(ssa.CallInstruction); isCall && c.Common().Value == ssa.Value(f) {
						continue
					}
					e.addrTaken[f] = true
				}
			}
		}
	}
	seen := map[*types.Package]bool{}
	for _, p := range ctx.All {
		if p.Types == nil || seen[p.Types] {
			continue
		}
		seen[p.Types] = true
		sc := p.Types.Scope()
		for _, n := range sc.Names() {
			tn, ok := sc.Lookup(n).(*types.TypeName)
			if !ok || tn.IsAlias() {
				continue
			}
			if _, isI := tn.Type().Underlying().(*types.Interface); isI {
				continue
			}
			if nt, ok := tn.Type().(*types.Named); ok && nt.TypeParams().Len() > 0 {
				continue
			}
			e.allTypes = append(e.allTypes, tn.Type())
		}
	}
	return e
}

func fxIsStd(fn *ssa.Function) bool {
	p := fn.Pkg
	if p == nil && fn.Origin() != nil {
		p = fn.Origin().Pkg
	}
	if p == nil {
		if fn.Parent() != nil {
			return fxIsStd(fn.Parent())
		}
		if o := fn.Object(); o != nil && o.Pkg() != nil {
			return !strings.Contains(strings.Split(o.Pkg().Path(), "/")[0], ".")
		}
		return true
	}
	return !strings.Contains(strings.Split(p.Pkg.Path(), "/")[0], ".")
}

func pointerLike(t types.Type) bool {
	switch u := t.Underlying().(type) {
	case *types.Basic:
		return u.Kind() == types.UnsafePointer
	case *types.Tuple:
		for i := 0; i < u.Len(); i++ {
			if pointerLike(u.At(i).Type()) {
				return true
			}
		}
		return false
	case *types.Struct:
		for i := 0; i < u.NumFields(); i++ {
			if pointerLike(u.Field(i).Type()) {
				return true
			}
		}
		return false
	case *types.Array:
		return pointerLike(u.Elem())
	}
	return true
}

func fxCallArgs(c *ssa.CallCommon) []ssa.Value {
	if c.IsInvoke() {
		return append([]ssa.Value{c.Value}, c.Args...)
	}
	return c.Args
}

func (e *fxEngine) isSDFInvoke(c *ssa.CallCommon) bool {
	if !c.IsInvoke() {
		return false
	}
	t, ok := c.Value.Type().Underlying().(*types.Interface)
	if !ok {
		return false
	}
	for _, i := range e.sdfIfaces {
		if types.Identical(t, i) {
			return true
		}
	}
	return false
}

// callees resolves a call. A nil element means "unresolved".
func (e *fxEngine) callees(c *ssa.CallCommon) []*ssa.Function {
	if f := c.StaticCallee(); f != nil {
		return []*ssa.Function{f}
	}
	if _, ok := c.Value.(*ssa.Builtin); ok {
		return nil
	}
	if e.isSDFInvoke(c) {
		return nil // induction over expression trees: operands are pure by hypothesis
	}
	if c.IsInvoke() {
		it, _ := c.Value.Type().Underlying().(*types.Interface)
		key := c.Value.Type().String() + "." + c.Method.Name()
		if r, ok := e.implCache[key]; ok {
			return r
		}
		var out []*ssa.Function
		for _, T := range e.allTypes {
			for _, X := range []types.Type{T, types.NewPointer(T)} {
				if it != nil && types.Implements(X, it) {
					if sel := e.ctx.Prog.MethodSets.MethodSet(X).Lookup(c.Method.Pkg(), c.Method.Name()); sel != nil {
						if f := e.ctx.Prog.MethodValue(sel); f != nil {
							out = append(out, f)
						}
					}
					break
				}
			}
		}
		if len(out) == 0 {
			out = []*ssa.Function{nil}
		}
		e.implCache[key] = out
		return out
	}
	sig, _ := c.Value.Type().Underlying().(*types.Signature)
	if sig == nil {
		return []*ssa.Function{nil}
	}
	// a bound method value / closure made locally
	if mc, ok := c.Value.(*ssa.MakeClosure); ok {
		if f, ok := mc.Fn.(*ssa.Function); ok {
			return []*ssa.Function{f}
		}
	}
	var out []*ssa.Function
	for f := range e.addrTaken {
		if types.Identical(f.Signature.Params(), sig.Params()) && types.Identical(f.Signature.Results(), sig.Results()) {
			out = append(out, f)
		}
	}
	sort.Slice(out, func(i, j int) bool { return out[i].String() < out[j].String() })
	// no function of this signature ever has its address taken in the loaded
	// program: the value can only be nil, the call has no effect to account for
	return out
}

type fxFunc struct {
	e        *fxEngine
	fn       *ssa.Function
	roots    map[ssa.Value]fxRootSet
	contents map[ssa.Value]fxRootSet
}

func (a *fxFunc) rootsOf(v ssa.Value, depth int) fxRootSet {
	if r, ok := a.roots[v]; ok {
		return r
	}
	out := fxRootSet{}
	a.roots[v] = out
	if depth > 60 {
		out[fxRoot{kind: "unknown"}] = true
		return out
	}
	switch x := v.(type) {
	case *ssa.Alloc, *ssa.MakeSlice, *ssa.MakeMap, *ssa.MakeChan:
		out[fxRoot{kind: "fresh"}] = true
	case *ssa.Parameter:
		for i, p := range a.fn.Params {
			if p == x {
				out[fxRoot{kind: "param", idx: i}] = true
			}
		}
	case *ssa.FreeVar:
		for i, p := range a.fn.FreeVars {
			if p == x {
				out[fxRoot{kind: "free", idx: i}] = true
			}
		}
	case *ssa.Global:
		out[fxRoot{kind: "global", name: x.String()}] = true
	case *ssa.Const, *ssa.Function, *ssa.Builtin:
	case *ssa.FieldAddr:
		out.add(a.rootsOf(x.X, depth+1))
	case *ssa.IndexAddr:
		out.add(a.rootsOf(x.X, depth+1))
	case *ssa.Field:
		out.add(a.rootsOf(x.X, depth+1))
	case *ssa.Index:
		out.add(a.rootsOf(x.X, depth+1))
	case *ssa.Slice:
		out.add(a.rootsOf(x.X, depth+1))
	case *ssa.ChangeType:
		out.add(a.rootsOf(x.X, depth+1))
	case *ssa.ChangeInterface:
		out.add(a.rootsOf(x.X, depth+1))
	case *ssa.Convert:
		out.add(a.rootsOf(x.X, depth+1))
	case *ssa.MakeInterface:
		out.add(a.rootsOf(x.X, depth+1))
	case *ssa.TypeAssert:
		out.add(a.rootsOf(x.X, depth+1))
	case *ssa.SliceToArrayPointer:
		out.add(a.rootsOf(x.X, depth+1))
	case *ssa.Extract:
		out.add(a.rootsOf(x.Tuple, depth+1))
	case *ssa.Lookup:
		out.add(a.rootsOf(x.X, depth+1))
	case *ssa.Range:
		out.add(a.rootsOf(x.X, depth+1))
	case *ssa.Next:
		out.add(a.rootsOf(x.Iter, depth+1))
	case *ssa.MakeClosure:
		out[fxRoot{kind: "fresh"}] = true
		for _, b := range x.Bindings {
			out.add(a.rootsOf(b, depth+1))
		}
	case *ssa.UnOp:
		if x.Op == token.MUL {
			// a load: what the loaded pointer designates
			if !pointerLike(x.Type()) {
				break
			}
			base := fxBaseAlloc(x.X)
			if base != nil {
				// load from a fresh local object: whatever was stored into it
				if c, ok := a.contents[base]; ok {
					out.add(c)
				} else {
					out[fxRoot{kind: "fresh"}] = true
				}
				break
			}
			out.add(a.rootsOf(x.X, depth+1))
		} else if x.Op == token.ARROW {
			out[fxRoot{kind: "unknown"}] = true
			if !pointerLike(x.Type()) {
				delete(out, fxRoot{kind: "unknown"})
			} else {
				// received values: owned by the receiver from now on (channel hand-off)
				delete(out, fxRoot{kind: "unknown"})
				out[fxRoot{kind: "fresh"}] = true
			}
		}
	case *ssa.BinOp:
	case *ssa.Phi:
		for _, ed := range x.Edges {
			out.add(a.rootsOf(ed, depth+1))
		}
	case *ssa.Call:
		if !pointerLike(x.Type()) {
			break
		}
		if b, ok := x.Call.Value.(*ssa.Builtin); ok {
			if b.Name() == "append" {
				out.add(a.rootsOf(x.Call.Args[0], depth+1))
				out[fxRoot{kind: "fresh"}] = true
			}
			break
		}
		cs := a.e.callees(&x.Call)
		if cs == nil && a.e.isSDFInvoke(&x.Call) {
			out[fxRoot{kind: "fresh"}] = true
			break
		}
		for _, callee := range cs {
			if callee == nil {
				out[fxRoot{kind: "unknown"}] = true
				continue
			}
			s := a.e.summarize(callee)
			for r := range s.rets {
				switch r.kind {
				case "param":
					args := fxCallArgs(&x.Call)
					if r.idx < len(args) {
						out.add(a.rootsOf(args[r.idx], depth+1))
					}
				case "free":
					out.add(a.rootsOf(x.Call.Value, depth+1))
				default:
					out[r] = true
				}
			}
		}
	default:
		out[fxRoot{kind: "unknown"}] = true
	}
	return out
}

func fxBaseAlloc(v ssa.Value) ssa.Value {
	for {
		switch x := v.(type) {
		case *ssa.Alloc:
			return x
		case *ssa.FieldAddr:
			v = x.X
		case *ssa.IndexAddr:
			v = x.X
		default:
			return nil
		}
	}
}

// firstField: the first-level field name of the root object an address designates.
func firstField(fn *ssa.Function, v ssa.Value) string {
	name := ""
	for depth := 0; depth < 40; depth++ {
		switch x := v.(type) {
		case *ssa.FieldAddr:
			if st, ok := x.X.Type().Underlying().(*types.Pointer); ok {
				if s, ok := st.Elem().Underlying().(*types.Struct); ok {
					name = s.Field(x.Field).Name()
				}
			}
			v = x.X
		case *ssa.IndexAddr:
			v = x.X
		case *ssa.Slice:
			v = x.X
		case *ssa.UnOp:
			if x.Op != token.MUL {
				return name
			}
			v = x.X
		case *ssa.Lookup:
			v = x.X
		case *ssa.Phi:
			if len(x.Edges) == 0 {
				return name
			}
			v = x.Edges[0]
		default:
			return name
		}
	}
	return name
}

// lockStates computes, for every instruction, whether some mutex is held
// exclusively ("X"), shared ("R") or not at all ("") on every path reaching it.
func lockStates(fn *ssa.Function) map[ssa.Instruction]string {
	in := map[*ssa.BasicBlock]string{}
	out := map[*ssa.BasicBlock]string{}
	res := map[ssa.Instruction]string{}
	const top = "?"
	for _, b := range fn.Blocks {
		in[b], out[b] = top, top
	}
	if len(fn.Blocks) == 0 {
		return res
	}
	meet := func(a, b string) string {
		switch {
		case a == top:
			return b
		case b == top:
			return a
		case a == b:
			return a
		case a == "" || b == "":
			return ""
		}
		return "R" // X meet R
	}
	changed := true
	for it := 0; changed && it < 50; it++ {
		changed = false
		for _, b := range fn.Blocks {
			st := top
			if b == fn.Blocks[0] {
				st = ""
			} else {
				for _, p := range b.Preds {
					st = meet(st, out[p])
				}
			}
			if st == top {
				continue
			}
			in[b] = st
			for _, ins := range b.Instrs {
				res[ins] = st
				if _, ok := ins.(*ssa.Defer); ok {
					continue // deferred unlock runs at exit
				}
				if _, ok := isMutexCall(ins, "Lock"); ok {
					st = "X"
				} else if _, ok := isMutexCall(ins, "RLock"); ok {
					st = "R"
				} else if _, ok := isMutexCall(ins, "Unlock"); ok {
					st = ""
				} else if _, ok := isMutexCall(ins, "RUnlock"); ok {
					st = ""
				}
			}
			if out[b] != st {
				out[b] = st
				changed = true
			}
		}
	}
	return res
}

func fxSyncish(fn *ssa.Function) bool {
	r := fn.Signature.Recv().Type().String()
	// an atomic store is still a store: it publishes state that a concurrent call reads (three
	// atomics updated one by one are not one atomic update); only loads are free
	if strings.Contains(r, "sync/atomic") {
		switch fn.Name() {
		case "Store", "Add", "Swap", "CompareAndSwap", "And", "Or":
			return false
		}
	}
	for _, p := range []string{"sync.", "sync/atomic", "os.File", "log.Logger", "reflect.", "strconv.", "time.", "testing."} {
		if strings.Contains(r, p) {
			return true
		}
	}
	return false
}

func (e *fxEngine) summarize(fn *ssa.Function) *fxSummary {
	if s, ok := e.sums[fn]; ok {
		return s
	}
	s := &fxSummary{rets: fxRootSet{}}
	e.sums[fn] = s
	e.nSummar++
	if len(fn.Blocks) == 0 || fxIsStd(fn) {
		// trusted summary of the standard library
		if fn.Signature.Recv() != nil && !fxSyncish(fn) {
			if _, isPtr := fn.Signature.Recv().Type().(*types.Pointer); isPtr {
				s.writes = append(s.writes, fxWrite{root: fxRoot{kind: "param", idx: 0}, why: "standard-library pointer-receiver method " + fn.String()})
			}
		}
		for i := 0; i < fn.Signature.Results().Len(); i++ {
			if pointerLike(fn.Signature.Results().At(i).Type()) {
				s.rets[fxRoot{kind: "fresh"}] = true
				n := fn.Signature.Params().Len()
				if fn.Signature.Recv() != nil {
					n++
				}
				for j := 0; j < n; j++ {
					s.rets[fxRoot{kind: "param", idx: j}] = true
				}
			}
		}
		s.done = true
		return s
	}
	a := &fxFunc{e: e, fn: fn, roots: map[ssa.Value]fxRootSet{}, contents: map[ssa.Value]fxRootSet{}}
	for it := 0; it < 3; it++ {
		a.roots = map[ssa.Value]fxRootSet{}
		for _, b := range fn.Blocks {
			for _, ins := range b.Instrs {
				if st, ok := ins.(*ssa.Store); ok && pointerLike(st.Val.Type()) {
					if base := fxBaseAlloc(st.Addr); base != nil {
						if a.contents[base] == nil {
							a.contents[base] = fxRootSet{}
						}
						a.contents[base].add(a.rootsOf(st.Val, 0))
					}
				}
			}
		}
	}
	a.roots = map[ssa.Value]fxRootSet{}
	held := lockStates(fn)
	note := func(rs fxRootSet, ins ssa.Instruction, addr ssa.Value, why string, calleeGuarded bool) {
		for r := range rs {
			if r.kind == "fresh" {
				continue
			}
			f := ""
			if addr != nil {
				f = firstField(fn, addr)
			}
			s.writes = append(s.writes, fxWrite{root: r, guarded: calleeGuarded || held[ins] == "X", field: f, why: why, pos: ins.Pos(), origin: ins})
		}
	}
	pos := func(ins ssa.Instruction) string { return e.ctx.pos(ins.Pos()) }
	for _, b := range fn.Blocks {
		for _, ins := range b.Instrs {
			switch x := ins.(type) {
			case *ssa.Store:
				note(a.rootsOf(x.Addr, 0), ins, x.Addr, fmt.Sprintf("store at %s in %s", pos(ins), shortFn(fn)), false)
			case *ssa.MapUpdate:
				note(a.rootsOf(x.Map, 0), ins, x.Map, fmt.Sprintf("map update at %s in %s", pos(ins), shortFn(fn)), false)
			case *ssa.UnOp:
				if e.recvIsWrite && x.Op == token.ARROW {
					note(a.rootsOf(x.X, 0), ins, x.X, fmt.Sprintf("receive from a channel shared between calls at %s in %s", pos(ins), shortFn(fn)), false)
				}
			case *ssa.Return:
				for _, r := range x.Results {
					if pointerLike(r.Type()) {
						s.rets.add(a.rootsOf(r, 0))
					}
				}
			case ssa.CallInstruction:
				c := x.Common()
				if bi, ok := c.Value.(*ssa.Builtin); ok {
					switch bi.Name() {
					case "copy", "delete", "clear":
						note(a.rootsOf(c.Args[0], 0), ins, c.Args[0], fmt.Sprintf("%s at %s in %s", bi.Name(), pos(ins), shortFn(fn)), false)
					case "append":
						// append writes the spare capacity of its first argument
						note(a.rootsOf(c.Args[0], 0), ins, c.Args[0], fmt.Sprintf("append at %s in %s", pos(ins), shortFn(fn)), false)
					}
					continue
				}
				if _, isGo := ins.(*ssa.Go); isGo {
					continue
				}
				for _, callee := range e.callees(c) {
					if callee == nil {
						note(fxRootSet{fxRoot{kind: "unknown"}: true}, ins, nil, fmt.Sprintf("unresolved call at %s in %s", pos(ins), shortFn(fn)), false)
						continue
					}
					cs := e.summarize(callee)
					args := fxCallArgs(c)
					for _, w := range cs.writes {
						why := w.why + " <- call at " + pos(ins)
						if len(why) > 400 {
							why = why[:400] + "…"
						}
						switch w.root.kind {
						case "param":
							if w.root.idx < len(args) {
								rs := a.rootsOf(args[w.root.idx], 0)
								for r := range rs {
									if r.kind == "fresh" {
										continue
									}
									f := w.field
									if ff := firstField(fn, args[w.root.idx]); ff != "" {
										f = ff
									}
									s.writes = append(s.writes, fxWrite{root: r, guarded: w.guarded || held[ins] == "X", field: f, why: why, pos: ins.Pos(), origin: w.origin})
								}
							}
						case "free":
							rs := a.rootsOf(c.Value, 0)
							for r := range rs {
								if r.kind == "fresh" {
									continue
								}
								s.writes = append(s.writes, fxWrite{root: r, guarded: w.guarded || held[ins] == "X", field: w.field, why: why, pos: ins.Pos(), origin: w.origin})
							}
						default:
							s.writes = append(s.writes, fxWrite{root: w.root, guarded: w.guarded || held[ins] == "X", field: w.field, why: why, pos: ins.Pos(), origin: w.origin})
						}
					}
				}
			}
		}
	}
	// dedupe
	seen := map[string]bool{}
	var ws []fxWrite
	for _, w := range s.writes {
		k := fmt.Sprintf("%s|%v|%s", w.root, w.guarded, w.field)
		if !seen[k] {
			seen[k] = true
			ws = append(ws, w)
		}
	}
	s.writes = ws
	s.done = true
	return s
}
