package main

// Composition of a constructor with the Evaluate method of what it builds:
// the method is evaluated with its receiver bound to the abstract object the
// constructor returned (in the constructor's final state), so field loads
// resolve to the constructor's terms and function-valued fields to the
// closures it installed.

import (
	"fmt"
	"go/types"

	"golang.org/x/tools/go/ssa"
)

type ctorAlt struct {
	fn    *ssa.Function
	idx   int
	cond  *Term
	obj   Val        // the aggregate value of the built object
	ptr   Val        // the returned pointer/interface
	typ   types.Type // *T
	state State
	ev    *Evaluator
}

// ctorAlts evaluates a constructor and returns its success alternatives that
// build a fresh object of a named struct type.
func ctorAlts(ctx *Ctx, fn *ssa.Function, opaque ...string) ([]ctorAlt, *Evaluator) {
	return ctorAltsWith(ctx, fn, nil, opaque...)
}

// ctorAltsFollow is ctorAlts that follows a pure delegation. It is used where a
// closed-form specification (M-spec, L1, BB-4) names the constructor: when that
// constructor is rewritten to delegate to another one, the specification still
// applies to the composition. Other delegating helpers (Make*, obj-style wrappers)
// are not constructors in the sense of the discovery rules and are left alone.
func ctorAltsFollow(ctx *Ctx, fn *ssa.Function, opaque ...string) ([]ctorAlt, *Evaluator) {
	out, ev := ctorAltsWith(ctx, fn, nil, opaque...)
	if len(out) == 0 {
		// a constructor that only delegates (`return Transform3D(sdf, Scale3d(...))`): the
		// constructors it calls directly are part of it, not operands
		deleg := map[*ssa.Function]bool{}
		allInstrs(fn, func(b *ssa.BasicBlock, ins ssa.Instruction) {
			if c, ok := ins.(*ssa.Call); ok {
				if g := c.Call.StaticCallee(); g != nil && inModule(g) && g != fn && len(g.Blocks) > 0 {
					if res := g.Signature.Results(); res.Len() > 0 && isSDFType(res.At(0).Type()) {
						deleg[g] = true
					}
				}
			}
		})
		if len(deleg) > 0 {
			if o2, e2 := ctorAltsWith(ctx, fn, deleg, opaque...); len(o2) > 0 {
				return o2, e2
			}
		}
	}
	return out, ev
}

func ctorAltsWith(ctx *Ctx, fn *ssa.Function, alsoInline map[*ssa.Function]bool, opaque ...string) ([]ctorAlt, *Evaluator) {
	ev := newEval(ctx, opaque...)
	if alsoInline != nil {
		base := ev.inline
		ev.inline = func(g *ssa.Function) bool { return base(g) || alsoInline[g] }
	}
	ev.budget = 60000
	ev.evalRoot(fn)
	var out []ctorAlt
	for i, alt := range ev.RootRets {
		v := alt.Val
		if t, ok := v.(*Tuple); ok && len(t.Elems) > 0 {
			// (x, err): skip error alternatives
			if len(t.Elems) == 2 {
				if _, isNil := t.Elems[1].(Nil); !isNil {
					continue
				}
			}
			v = t.Elems[0]
		}
		var p *Ptr
		switch x := v.(type) {
		case *Iface:
			p, _ = x.Dyn.(*Ptr)
		case *Ptr:
			p = x
		}
		if p == nil || p.Obj == nil {
			continue
		}
		ov, ok := alt.State.mem[p.Obj]
		if !ok {
			continue
		}
		ag, _ := getPath(ov, p.Path).(*Agg)
		if ag == nil || ag.T == nil {
			continue
		}
		out = append(out, ctorAlt{fn: fn, idx: i, cond: alt.Cond, obj: ag, ptr: v, typ: types.NewPointer(ag.T), state: alt.State, ev: ev})
	}
	return out, ev
}

// composeMethod evaluates method `name` of the built object on symbolic
// arguments, in the constructor's final state.
func composeMethod(ctx *Ctx, ca ctorAlt, name string, opaque ...string) (Val, *Evaluator, error) {
	m := methodOf(ctx, ca.typ, name)
	if m == nil || len(m.Blocks) == 0 {
		return nil, nil, fmt.Errorf("method %s not found on %s", name, typeShort(ca.typ))
	}
	ev := newEval(ctx, opaque...)
	ev.budget = 60000
	ev.symObjs = ca.ev.symObjs
	ev.siteObjs = map[string]*Obj{}
	ev.nobj = ca.ev.nobj + 1000
	st := ca.state.clone()
	var recv Val = ca.ptr
	if ifc, ok := recv.(*Iface); ok {
		recv = ifc.Dyn
	}
	args := []Val{recv}
	for i, p := range m.Params[1:] {
		args = append(args, symVal(paramName(m, i+1), p.Type()))
	}
	ev.stack = nil
	r := ev.Call(m, args, nil, &st)
	return r, ev, nil
}

// composeApply runs method `name` of the built object for its effect on the object (a setter)
// and returns the constructor alternative as it is afterwards: the same object in the state
// the method left behind. Arguments are symbolic.
func composeApply(ctx *Ctx, ca ctorAlt, name string, opaque ...string) (ctorAlt, error) {
	m := methodOf(ctx, ca.typ, name)
	if m == nil || len(m.Blocks) == 0 {
		return ca, fmt.Errorf("method %s not found on %s", name, typeShort(ca.typ))
	}
	ev := newEval(ctx, opaque...)
	ev.budget = 60000
	ev.symObjs = ca.ev.symObjs
	ev.siteObjs = map[string]*Obj{}
	ev.nobj = ca.ev.nobj + 500
	st := ca.state.clone()
	var recv Val = ca.ptr
	if ifc, ok := recv.(*Iface); ok {
		recv = ifc.Dyn
	}
	args := []Val{recv}
	for i, p := range m.Params[1:] {
		args = append(args, symVal(paramName(m, i+1), p.Type()))
	}
	ev.stack = nil
	ev.Call(m, args, nil, &st)
	if ev.Exceeded {
		return ca, fmt.Errorf("evaluation budget exceeded in %s", name)
	}
	out := ca
	out.state = st
	out.ev = ev
	if p, ok := recv.(*Ptr); ok && p.Obj != nil {
		if ag, ok := getPath(st.mem[p.Obj], p.Path).(*Agg); ok {
			out.obj = ag
		}
	}
	return out, nil
}
