package main

// E6: literal tables. Package-level composite literals are read from the typed
// AST; every leaf must be a compile-time integer constant.

import (
	"fmt"
	"go/ast"
	"go/constant"
	"go/token"
	"go/types"

	"golang.org/x/tools/go/packages"
)

type litNode struct {
	leaf  bool
	flag  bool // the leaf is a boolean constant
	val   int64
	elems []*litNode
	pos   token.Pos
}

func (n *litNode) ints() ([]int, bool) {
	var out []int
	for _, e := range n.elems {
		if e == nil || !e.leaf {
			return nil, false
		}
		out = append(out, int(e.val))
	}
	return out, true
}

// pkgVarLit finds `var name = <composite literal>` at package level.
func pkgVarLit(p *packages.Package, name string, skip map[string]bool, fset *token.FileSet) (*ast.CompositeLit, token.Pos) {
	for _, f := range p.Syntax {
		if skip[fset.Position(f.Pos()).Filename] {
			continue
		}
		for _, d := range f.Decls {
			gd, ok := d.(*ast.GenDecl)
			if !ok || gd.Tok != token.VAR {
				continue
			}
			for _, s := range gd.Specs {
				vs := s.(*ast.ValueSpec)
				for i, id := range vs.Names {
					if id.Name == name && i < len(vs.Values) {
						if cl, ok := vs.Values[i].(*ast.CompositeLit); ok {
							return cl, id.Pos()
						}
					}
				}
			}
		}
	}
	return nil, token.NoPos
}

// readLit converts a composite literal of (nested) arrays/slices of integers.
// Array types are padded with zero leaves up to their declared length; keyed
// elements are honoured.
func readLit(info *types.Info, e ast.Expr) (*litNode, error) {
	if tv, ok := info.Types[e]; ok && tv.Value != nil {
		if tv.Value.Kind() == constant.Bool {
			// a flag reads as 0 / 1
			v := int64(0)
			if constant.BoolVal(tv.Value) {
				v = 1
			}
			return &litNode{leaf: true, val: v, pos: e.Pos(), flag: true}, nil
		}
		if tv.Value.Kind() != constant.Int {
			return nil, fmt.Errorf("non-integer constant")
		}
		v, ok := constant.Int64Val(tv.Value)
		if !ok {
			return nil, fmt.Errorf("constant overflows int64")
		}
		return &litNode{leaf: true, val: v, pos: e.Pos()}, nil
	}
	cl, ok := e.(*ast.CompositeLit)
	if !ok {
		return nil, fmt.Errorf("element is neither a constant nor a composite literal")
	}
	n := &litNode{pos: cl.Pos()}
	var alen int64 = -1
	var elemT types.Type
	var structT *types.Struct
	if tv, ok := info.Types[cl]; ok {
		switch u := tv.Type.Underlying().(type) {
		case *types.Array:
			alen = u.Len()
			elemT = u.Elem()
		case *types.Slice:
			elemT = u.Elem()
		case *types.Struct:
			// a small record of integers (an edge as {a, b}) reads as the tuple of its fields
			alen = int64(u.NumFields())
			structT = u
			if u.NumFields() > 0 {
				elemT = u.Field(0).Type()
			}
		default:
			return nil, fmt.Errorf("unsupported literal type %s", tv.Type)
		}
	}
	idx := 0
	put := func(i int, c *litNode) {
		for len(n.elems) <= i {
			n.elems = append(n.elems, nil)
		}
		n.elems[i] = c
	}
	for _, el := range cl.Elts {
		if kv, ok := el.(*ast.KeyValueExpr); ok {
			if id, isId := kv.Key.(*ast.Ident); isId && structT != nil {
				found := false
				for i := 0; i < structT.NumFields(); i++ {
					if structT.Field(i).Name() == id.Name {
						idx, found = i, true
					}
				}
				if !found {
					return nil, fmt.Errorf("unknown field %s", id.Name)
				}
			} else {
				tv, ok := info.Types[kv.Key]
				if !ok || tv.Value == nil {
					return nil, fmt.Errorf("non-constant key")
				}
				k, _ := constant.Int64Val(tv.Value)
				idx = int(k)
			}
			el = kv.Value
		}
		c, err := readLit(info, el)
		if err != nil {
			return nil, err
		}
		put(idx, c)
		idx++
	}
	if alen >= 0 {
		for int64(len(n.elems)) < alen {
			n.elems = append(n.elems, nil)
		}
	}
	// zero fill
	for i, c := range n.elems {
		if c == nil {
			if bt, isBasic := elemT.Underlying().(*types.Basic); isBasic {
				n.elems[i] = &litNode{leaf: true, val: 0, pos: cl.Pos(), flag: bt.Kind() == types.Bool}
			} else {
				n.elems[i] = &litNode{pos: cl.Pos()}
			}
		}
	}
	return n, nil
}

// table2 reads a package-level [][]int-like table.
func (c *Ctx) table2(pkg, name string) ([][]int, []token.Pos, token.Pos, error) {
	p := c.Pkgs[pkg]
	cl, pos := pkgVarLit(p, name, c.Controls, c.Fset)
	if cl == nil {
		return nil, nil, token.NoPos, fmt.Errorf("table %s.%s not found", pkg, name)
	}
	n, err := readLit(p.TypesInfo, cl)
	if err != nil {
		return nil, nil, pos, fmt.Errorf("table %s: %v", name, err)
	}
	var out [][]int
	var ps []token.Pos
	for _, r := range n.elems {
		row, ok := r.ints()
		if !ok {
			// a row of equal-length index tuples (one per primitive) reads as their concatenation
			row, ok = nil, true
			width := -1
			for _, e := range r.elems {
				var tuple []int
				if e != nil {
					tuple, ok = e.ints()
				}
				if e == nil || !ok || (width >= 0 && len(tuple) != width) {
					return nil, nil, pos, fmt.Errorf("table %s: not two-dimensional", name)
				}
				width = len(tuple)
				row = append(row, tuple...)
			}
		}
		out = append(out, row)
		ps = append(ps, r.pos)
	}
	return out, ps, pos, nil
}

// table1 reads a package-level []int-like table.
func (c *Ctx) table1(pkg, name string) ([]int, token.Pos, error) {
	p := c.Pkgs[pkg]
	cl, pos := pkgVarLit(p, name, c.Controls, c.Fset)
	if cl == nil {
		return nil, token.NoPos, fmt.Errorf("table %s.%s not found", pkg, name)
	}
	n, err := readLit(p.TypesInfo, cl)
	if err != nil {
		return nil, pos, fmt.Errorf("table %s: %v", name, err)
	}
	row, ok := n.ints()
	if !ok {
		// a table of flag tuples (one flag per edge) reads as the table of their bit masks, flag i
		// being bit i
		row, ok = nil, true
		for _, e := range n.elems {
			if e == nil || e.leaf {
				ok = false
				break
			}
			m := 0
			for i, f := range e.elems {
				if f == nil || !f.leaf || !(f.flag || f.val == 0) || f.val < 0 || f.val > 1 {
					ok = false
					break
				}
				m |= int(f.val) << uint(i)
			}
			row = append(row, m)
		}
		if !ok {
			return nil, pos, fmt.Errorf("table %s: not one-dimensional", name)
		}
	}
	return row, pos, nil
}

// table3 reads a package-level [][][]int-like table.
func (c *Ctx) table3(pkg, name string) ([][][]int, token.Pos, error) {
	p := c.Pkgs[pkg]
	cl, pos := pkgVarLit(p, name, c.Controls, c.Fset)
	if cl == nil {
		return nil, token.NoPos, fmt.Errorf("table %s.%s not found", pkg, name)
	}
	n, err := readLit(p.TypesInfo, cl)
	if err != nil {
		return nil, pos, fmt.Errorf("table %s: %v", name, err)
	}
	var out [][][]int
	for _, r := range n.elems {
		var rows [][]int
		for _, rr := range r.elems {
			row, ok := rr.ints()
			if !ok {
				return nil, pos, fmt.Errorf("table %s: not three-dimensional", name)
			}
			rows = append(rows, row)
		}
		out = append(out, rows)
	}
	return out, pos, nil
}
