package main

import (
	"fmt"
	"hash/fnv"
	"math/big"
	"sort"
	"strings"
)

// rebuild reconstructs t bottom-up through the normalising constructors,
// replacing every node for which f returns non-nil.
func rebuild(t *Term, f func(*Term) *Term) *Term {
	if r := f(t); r != nil {
		return r
	}
	if len(t.Args) == 0 {
		return t
	}
	args := make([]*Term, len(t.Args))
	changed := false
	for i, a := range t.Args {
		args[i] = rebuild(a, f)
		if args[i] != a {
			changed = true
		}
	}
	if !changed {
		return t
	}
	switch t.Op {
	case "+":
		return Add(args...)
	case "*":
		return Mul(args...)
	case "/":
		return Div(K(1), args[0])
	case "ite":
		return Ite(args[0], args[1], args[2])
	case "cmp":
		return Cmp(t.S, args[0], args[1])
	case "not":
		return Not(args[0])
	case "call":
		return Call(t.S, args...)
	case "conv":
		return Conv(t.S, args[0])
	case "join":
		return Join(args...)
	case "f+":
		return fAdd(args[0], args[1])
	case "f*":
		return fMul(args[0], args[1])
	case "fneg":
		return fNeg(args[0])
	}
	return &Term{Op: t.Op, S: t.S, Args: args, C: t.C}
}

// substAtoms replaces atoms by name.
func substAtoms(t *Term, m map[string]*Term) *Term {
	return rebuild(t, func(x *Term) *Term {
		if x.Op == "a" {
			if r, ok := m[x.S]; ok {
				return r
			}
		}
		return nil
	})
}

// substKeys replaces whole subterms by key.
func substKeys(t *Term, m map[string]*Term) *Term {
	return rebuild(t, func(x *Term) *Term {
		if x.Op == "c" {
			return nil
		}
		if r, ok := m[x.Key()]; ok {
			return r
		}
		return nil
	})
}

// condAtoms collects the distinct boolean leaves (cmp terms and boolean atoms
// in condition position) that gate t.
func condAtoms(t *Term) []*Term {
	seen := map[string]*Term{}
	var walkCond func(c *Term)
	var walk func(x *Term)
	walkCond = func(c *Term) {
		switch c.Op {
		case "not":
			walkCond(c.Args[0])
		case "ite":
			walkCond(c.Args[0])
			walkCond(c.Args[1])
			walkCond(c.Args[2])
		case "c":
		default:
			seen[c.Key()] = c
		}
	}
	walk = func(x *Term) {
		if x.Op == "ite" {
			walkCond(x.Args[0])
			walk(x.Args[1])
			walk(x.Args[2])
			return
		}
		for _, a := range x.Args {
			walk(a)
		}
	}
	walk(t)
	var ks []string
	for k := range seen {
		ks = append(ks, k)
	}
	sort.Strings(ks)
	var out []*Term
	for _, k := range ks {
		out = append(out, seen[k])
	}
	return out
}

// assume forces the given boolean leaves (by key) to constants.
func assume(t *Term, truth map[string]bool) *Term {
	return rebuild(t, func(x *Term) *Term {
		if x.Op == "c" {
			return nil
		}
		if v, ok := truth[x.Key()]; ok {
			if v {
				return K(1)
			}
			return K(0)
		}
		return nil
	})
}

// ---------------------------------------------------------------- rational normal form

// ratNF splits t into numerator and denominator, both free of "/" at the top
// level of sums and products (non-arithmetic subterms are treated as atoms).
func ratNF(t *Term) (num, den *Term) {
	switch t.Op {
	case "+":
		num, den = K(0), K(1)
		for _, a := range t.Args {
			n, d := ratNF(a)
			// num/den + n/d = (num*d + n*den)/(den*d)
			if d.Key() == den.Key() {
				num = Add(num, n)
			} else {
				num = Add(Mul(num, d), Mul(n, den))
				den = Mul(den, d)
			}
		}
		return
	case "*":
		num, den = K(1), K(1)
		for _, a := range t.Args {
			n, d := ratNF(a)
			num = Mul(num, n)
			den = Mul(den, d)
		}
		return
	case "/":
		n, d := ratNF(t.Args[0])
		return d, n
	}
	return t, K(1)
}

// equalRat reports whether a and b are equal as rational functions of their
// non-arithmetic leaves (atoms, selects, opaque calls, conversions ...).
// Small terms are compared by cross multiplication and polynomial normal
// form; larger ones by exact polynomial identity testing: both sides are
// evaluated in exact rational arithmetic at several pseudo-random integer
// points (Schwartz-Zippel). The test never reports "different" for equal
// functions; it reports "equal" for different ones with probability below
// degree/2^40 per round.
func equalRat(a, b *Term) bool {
	if a.Key() == b.Key() {
		return true
	}
	for round := 0; round < 4; round++ {
		env := map[string]*big.Rat{}
		va, oka := evalRat(a, env, round)
		vb, okb := evalRat(b, env, round)
		if !oka || !okb {
			continue // a pole at this point: try another
		}
		if va.Cmp(vb) != 0 {
			return false
		}
		if round >= 2 {
			return true
		}
	}
	return true
}

func pitValue(key string, round int) *big.Rat {
	h := fnv.New64a()
	h.Write([]byte(key))
	h.Write([]byte{byte(round), 0x5a})
	v := int64(h.Sum64()>>23) - (1 << 40)
	if v == 0 {
		v = 7
	}
	return big.NewRat(v, 1)
}

// evalRat evaluates the arithmetic skeleton of t exactly; every other subterm
// is an independent variable identified by its key. ok=false on division by zero.
func evalRat(t *Term, env map[string]*big.Rat, round int) (*big.Rat, bool) {
	switch t.Op {
	case "c":
		return t.C, true
	case "+":
		s := new(big.Rat)
		for _, x := range t.Args {
			v, ok := evalRat(x, env, round)
			if !ok {
				return nil, false
			}
			s.Add(s, v)
		}
		return s, true
	case "*":
		s := big.NewRat(1, 1)
		for _, x := range t.Args {
			v, ok := evalRat(x, env, round)
			if !ok {
				return nil, false
			}
			s.Mul(s, v)
		}
		return s, true
	case "/":
		v, ok := evalRat(t.Args[0], env, round)
		if !ok || v.Sign() == 0 {
			return nil, false
		}
		return new(big.Rat).Inv(v), true
	}
	k := t.Key()
	if v, ok := env[k]; ok {
		return v, true
	}
	v := pitValue(k, round)
	env[k] = v
	return v, true
}

// ---------------------------------------------------------------- linear forms

// linear decomposes t as sum of coef*atomKey + const where every non-constant
// summand is coef * (single non-arithmetic factor). ok=false if a summand is a
// product of several non-constant factors.
func linear(t *Term) (coefs map[string]*big.Rat, terms map[string]*Term, c *big.Rat, ok bool) {
	coefs = map[string]*big.Rat{}
	terms = map[string]*Term{}
	c = new(big.Rat)
	var parts []*Term
	if t.Op == "+" {
		parts = t.Args
	} else {
		parts = []*Term{t}
	}
	for _, p := range parts {
		if p.Op == "c" {
			c.Add(c, p.C)
			continue
		}
		co, rest := splitCoef(p)
		if rest.Op == "*" {
			return nil, nil, nil, false
		}
		k := rest.Key()
		if _, ok := coefs[k]; !ok {
			coefs[k] = new(big.Rat)
			terms[k] = rest
		}
		coefs[k].Add(coefs[k], co)
	}
	return coefs, terms, c, true
}

// ---------------------------------------------------------------- finite-domain evaluation

// evalT evaluates a comparison/ite/const/atom/+/* term under a rational
// assignment of its atoms (by key). It panics on anything else.
func evalT(t *Term, env map[string]*big.Rat) *big.Rat {
	switch t.Op {
	case "c":
		return t.C
	case "not":
		if evalT(t.Args[0], env).Sign() == 0 {
			return big.NewRat(1, 1)
		}
		return new(big.Rat)
	case "ite":
		if evalT(t.Args[0], env).Sign() != 0 {
			return evalT(t.Args[1], env)
		}
		return evalT(t.Args[2], env)
	case "cmp":
		r := evalT(t.Args[0], env).Cmp(evalT(t.Args[1], env))
		var v bool
		switch t.S {
		case "<":
			v = r < 0
		case "<=":
			v = r <= 0
		case ">":
			v = r > 0
		case ">=":
			v = r >= 0
		case "==":
			v = r == 0
		case "!=":
			v = r != 0
		}
		if v {
			return big.NewRat(1, 1)
		}
		return new(big.Rat)
	case "+":
		s := new(big.Rat)
		for _, a := range t.Args {
			s.Add(s, evalT(a, env))
		}
		return s
	case "*":
		s := big.NewRat(1, 1)
		for _, a := range t.Args {
			s.Mul(s, evalT(a, env))
		}
		return s
	case "/":
		d := evalT(t.Args[0], env)
		if d.Sign() == 0 {
			panic("evalT: division by zero")
		}
		return new(big.Rat).Inv(d)
	case "conv":
		return evalT(t.Args[0], env)
	case "call":
		if t.S == "math.Abs" && len(t.Args) == 1 {
			return new(big.Rat).Abs(evalT(t.Args[0], env))
		}
		if (t.S == "math.Min" || t.S == "math.Max") && len(t.Args) == 2 {
			a, b := evalT(t.Args[0], env), evalT(t.Args[1], env)
			if (a.Cmp(b) < 0) == (t.S == "math.Min") {
				return a
			}
			return b
		}
		if t.S == "intdiv" && len(t.Args) == 2 {
			a, b := evalT(t.Args[0], env), evalT(t.Args[1], env)
			if a.IsInt() && b.IsInt() && b.Sign() != 0 {
				q := new(big.Int).Quo(a.Num(), b.Num()) // Go's integer division truncates toward zero
				return new(big.Rat).SetInt(q)
			}
		}
	}
	if v, ok := env[t.Key()]; ok {
		return v
	}
	if t.Op == "call" && len(t.Args) == 2 && (t.S == "op|" || t.S == "op&" || t.S == "op^" || t.S == "op<<" || t.S == "op>>") {
		a, b := evalT(t.Args[0], env), evalT(t.Args[1], env)
		if a.IsInt() && b.IsInt() && a.Sign() >= 0 && b.Sign() >= 0 {
			r := new(big.Int)
			switch t.S {
			case "op|":
				r.Or(a.Num(), b.Num())
			case "op&":
				r.And(a.Num(), b.Num())
			case "op^":
				r.Xor(a.Num(), b.Num())
			case "op<<":
				if b.Num().Int64() > 62 {
					panic("evalT: shift too large")
				}
				r.Lsh(a.Num(), uint(b.Num().Int64()))
			case "op>>":
				if b.Num().Int64() > 62 {
					panic("evalT: shift too large")
				}
				r.Rsh(a.Num(), uint(b.Num().Int64()))
			}
			return new(big.Rat).SetInt(r)
		}
	}
	if t.Op == "call" && (t.S == "op%" || t.S == "intmod") && len(t.Args) == 2 {
		a, b := evalT(t.Args[0], env), evalT(t.Args[1], env)
		if a.IsInt() && b.IsInt() && b.Sign() != 0 {
			return new(big.Rat).SetInt(new(big.Int).Rem(a.Num(), b.Num())) // Go's % truncates toward zero
		}
	}
	if t.Op == "sel" && len(t.Args) == 1 && t.Args[0].Op != "c" {
		// an element selected by a computed index: evaluate the index, read that element
		if idx := evalT(t.Args[0], env); idx.IsInt() {
			el := &Term{Op: "sel", S: t.S, Args: []*Term{KR(idx)}}
			if v, ok := env[el.Key()]; ok {
				return v
			}
		}
	}
	panic(fmt.Sprintf("evalT: unbound %s", t.Key()))
}

// orderLeaves returns the non-arithmetic leaves of a comparison-only term, or
// ok=false if the term contains something evalT cannot handle structurally.
func orderLeaves(t *Term) (leaves []*Term, ok bool) {
	seen := map[string]*Term{}
	ok = true
	var walk func(x *Term)
	walk = func(x *Term) {
		switch x.Op {
		case "c":
		case "not", "ite", "cmp", "+", "*", "conv":
			for _, a := range x.Args {
				walk(a)
			}
		case "a", "sel":
			seen[x.Key()] = x
		default:
			ok = false
		}
	}
	walk(t)
	var ks []string
	for k := range seen {
		ks = append(ks, k)
	}
	sort.Strings(ks)
	for _, k := range ks {
		leaves = append(leaves, seen[k])
	}
	return
}

// forAllOrderings calls f with every assignment of the n leaves to values in
// {0..n-1} (which realises every weak ordering). f returns false to stop.
func forAllOrderings(keys []string, f func(env map[string]*big.Rat, vals []int) bool) int {
	n := len(keys)
	vals := make([]int, n)
	env := map[string]*big.Rat{}
	count := 0
	var rec func(k int) bool
	rec = func(k int) bool {
		if k == n {
			count++
			return f(env, vals)
		}
		for v := 0; v < n; v++ {
			vals[k] = v
			env[keys[k]] = big.NewRat(int64(v), 1)
			if !rec(k + 1) {
				return false
			}
		}
		return true
	}
	rec(0)
	return count
}

func shortKey(s string, n int) string {
	s = strings.ReplaceAll(s, modPath+"/", "")
	if len(s) > n {
		return s[:n] + "…"
	}
	return s
}

// hasAtomWithSuffix / atomsMatching: dependence queries on atom names.
func atomsMatching(t *Term, pred func(string) bool) []string {
	var out []string
	for _, a := range atomList(t) {
		if pred(a) {
			out = append(out, a)
		}
	}
	return out
}

// findSub returns all distinct subterms satisfying pred (pre-order).
func findSub(t *Term, pred func(*Term) bool) []*Term {
	seen := map[string]bool{}
	var out []*Term
	var walk func(x *Term)
	walk = func(x *Term) {
		if pred(x) && !seen[x.Key()] {
			seen[x.Key()] = true
			out = append(out, x)
		}
		for _, a := range x.Args {
			walk(a)
		}
	}
	walk(t)
	return out
}
