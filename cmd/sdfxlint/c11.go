package main

// C11 — nothing written by a renderer is lost, duplicated or reordered before the sink.
//
//  B1  Triangle3Buffer / Line2Buffer (every implementer of the writer
//      interfaces in package sdf): every channel send sends the buffer field
//      (never the caller's slice), the field is re-bound to a fresh slice (or
//      nil) right after the send, all of `in` is appended on every path, and
//      every access and send happens while the buffer's mutex is held
//  B2  Write sends only under len(buf) >= K (K a positive constant); Close
//      sends only under len(buf) != 0 (any non-empty remainder is flushed)
//  B3  every Render method of every Render2/Render3 implementer calls Close on
//      its output on every path (interprocedural must-call)
//  B4  every sink entry point: Render, then close(channel), then wg.Wait()
//  B5  every sink goroutine ranges over the whole received batch in order and
//      uses each element unconditionally (only error flags may gate it)
//
// Not decided: the sinks' libraries; interleavings beyond mutual exclusion.

import (
	"fmt"
	"go/constant"
	"go/token"
	"go/types"
	"strings"

	"golang.org/x/tools/go/ssa"
)

func init() { register("C11", checkC11) }

func checkC11(ctx *Ctx, r *Report, tier string) {
	r.Explain = "Typestate and path rules over every writer-interface implementer, every Render method, every sink entry point and every sink goroutine of the library: what is sent is the owned buffer, re-bound fresh after the send under the mutex; flush thresholds; Close reached on all paths of every renderer; Render→close→Wait ordering; consumer loops visit every element of every batch in order. These are necessary for 'exactly the sequence written is delivered'; the behaviour of the sink libraries and scheduling beyond mutual exclusion are not decided."
	r.Trusted = []string{"go/types", "go/ssa", "Go channel FIFO semantics, sync.Mutex"}
	r.Assume = []string{"third-party sinks (bufio, encoding/binary, go3mf, dxf, svgo) store what they are given"}

	// B1/B2: writer implementers
	nW := 0
	for _, in := range []string{"Triangle3Writer", "Line2Writer"} {
		iface := lookupIface(ctx, "sdf", in)
		if iface == nil {
			r.undecided("B1", in, 0, "interface not found")
			continue
		}
		for _, t := range implementersOf(ctx, iface) {
			nW++
			w := methodOf(ctx, t, "Write")
			c := methodOf(ctx, t, "Close")
			if w == nil || c == nil || len(w.Blocks) == 0 {
				r.undecided("B1", typeShort(t), 0, "methods not found")
				continue
			}
			ruleBuffer(ctx, r, typeShort(t), w, true)
			ruleBuffer(ctx, r, typeShort(t), c, false)
		}
	}
	r.Counts["writer_implementers"] = nW
	ruleBufferStartsFresh(ctx, r)
	r.floor("B1", 2*4+2*3)
	r.floor("B2", 4)
	r.expectControl("B1", "verifCtlBuffer")
	r.expectControl("B2", "verifCtlBuffer")

	// B3
	memo := mustCloseMemo{}
	nR := 0
	for _, in := range []string{"Render3", "Render2"} {
		iface := lookupIface(ctx, "render", in)
		if iface == nil {
			r.undecided("B3", in, 0, "interface not found")
			continue
		}
		for _, t := range implementersOf(ctx, iface) {
			fn := methodOf(ctx, t, "Render")
			if fn == nil || len(fn.Blocks) == 0 {
				r.undecided("B3", typeShort(t), 0, "Render not found")
				continue
			}
			nR++
			// the writer parameter
			pi := -1
			for i, p := range fn.Params {
				if _, ok := p.Type().Underlying().(*types.Interface); ok && (namedTypeIs(p.Type(), "/sdf", "Triangle3Writer") || namedTypeIs(p.Type(), "/sdf", "Line2Writer")) {
					pi = i
				}
			}
			if pi < 0 {
				r.undecided("B3", typeShort(t), fn.Pos(), "no writer parameter")
				continue
			}
			r.check("B3", typeShort(t)+".Render|closes-output-on-every-path", fn.Pos(), memo.check(ctx, fn, pi, 0), "the buffered tail (< threshold items) is delivered only by Close")
		}
	}
	r.Counts["render_implementers"] = nR
	r.floor("B3", 3)
	r.expectControl("B3", "verifCtlRendererNoClose")

	// B4
	n := 0
	for _, fn := range ctx.srcFuncs("render", "sdf", "obj", "render/dc") {
		if fn.Parent() != nil {
			continue
		}
		for _, sc := range sinkCreations(fn) {
			n++
			ruleSinkOrder(ctx, r, "B4", fn, sc)
		}
	}
	r.floor("B4", 6)
	r.expectControl("B4", "verifCtlToWaitBeforeClose")

	// B5
	ns := 0
	for _, gs := range goSites(ctx) {
		if gs.callee == nil {
			continue
		}
		loops := recvLoops(gs.callee)
		if len(loops) == 0 {
			continue
		}
		// only sinks of batches (channel of slices)
		if ch, ok := loops[0].chanVal.Type().Underlying().(*types.Chan); !ok {
			continue
		} else if _, isSlice := ch.Elem().Underlying().(*types.Slice); !isSlice {
			continue
		}
		ns++
		ruleConsumerLoop(ctx, r, gs, loops)
	}
	r.Counts["sink_goroutines"] = ns
	r.floor("B5", 4)
	r.expectControl("B5", "verifCtlSinkSkipsFirst")
	ruleSaveNeverDeclines(ctx, r)
	ruleSinkFinalises(ctx, r, "B7", nil)
	r.floor("B7", 4)
}

// ruleSaveNeverDeclines (B6): a Save function refuses only when the system does. Every call of
// a library outside the module that a successful return of the function depends on (creating
// the file, starting and ending the document, flushing) is passed on every path that takes the
// success side of every test of an error value: a return before it on any other ground - the
// drawing's extent, the number of items - drops everything the sink had accepted and leaves an
// older file in place.
func ruleSaveNeverDeclines(ctx *Ctx, r *Report) {
	n := 0
	for _, fn := range ctx.srcFuncs("render") {
		if fn.Parent() != nil || len(fn.Blocks) == 0 || !strings.HasPrefix(fn.Name(), "Save") {
			continue
		}
		res := fn.Signature.Results()
		if res.Len() != 1 || res.At(0).Type().String() != "error" {
			continue
		}
		// success returns: `return nil`, or returning the result of the last call unchanged
		var succ []*ssa.BasicBlock
		for _, b := range fn.Blocks {
			if ret, ok := b.Instrs[len(b.Instrs)-1].(*ssa.Return); ok && len(ret.Results) == 1 {
				if c, ok := ret.Results[0].(*ssa.Const); ok && c.IsNil() {
					succ = append(succ, b)
				} else if _, ok := ret.Results[0].(*ssa.Call); ok {
					succ = append(succ, b)
				}
			}
		}
		var must []*ssa.Call
		allInstrs(fn, func(b *ssa.BasicBlock, ins ssa.Instruction) {
			c, ok := ins.(*ssa.Call)
			if !ok {
				return
			}
			external := false
			if g := c.Call.StaticCallee(); g != nil {
				external = !inModule(g) && g.Pkg != nil
			} else if c.Call.IsInvoke() {
				if nt, ok := derefType(c.Call.Value.Type()).(*types.Named); ok && nt.Obj().Pkg() != nil {
					external = !strings.HasPrefix(nt.Obj().Pkg().Path(), modPath)
				}
			}
			if !external {
				return
			}
			if g := c.Call.StaticCallee(); g != nil && g.Pkg != nil {
				switch g.Pkg.Pkg.Path() {
				case "fmt", "errors", "math", "strings", "strconv":
					return // no effect on the file
				}
			}
			for _, sb := range succ {
				if b.Dominates(sb) {
					must = append(must, c)
					return
				}
			}
		})
		if len(succ) == 0 || len(must) == 0 {
			continue
		}
		bad := ""
		for _, c := range must {
			c := c
			if !goodPathsHit(fn, func(ins ssa.Instruction) bool { return ins == ssa.Instruction(c) }) {
				bad += fmt.Sprintf(" %s at %s can be skipped by a return that is not the failure side of an error test;", calleeName(&c.Call), ctx.pos(c.Pos()))
			}
		}
		n++
		r.check("B6", shortFn(fn)+"|declines-only-on-a-system-error", fn.Pos(), bad == "", fmt.Sprintf("%d external calls the success return depends on;%s", len(must), bad))
	}
	r.floor("B6", 2)
}

// goodSuccs: the successors of b a failure-free run can take (the failure side of a test of an
// error value is left out).
func goodSuccs(b *ssa.BasicBlock) []*ssa.BasicBlock {
	succs := b.Succs
	if iff, ok := b.Instrs[len(b.Instrs)-1].(*ssa.If); ok && len(succs) == 2 {
		// `if failed(err) {`: a module helper that reports and tells whether its error argument is set
		if c, isCall := iff.Cond.(*ssa.Call); isCall {
			if g := c.Call.StaticCallee(); g != nil && inModule(g) && len(g.Blocks) > 0 && len(c.Call.Args) == 1 && isErrorType(c.Call.Args[0].Type()) && errorSetPredicate(g) {
				fake := &ssa.BinOp{Op: token.NEQ, X: c.Call.Args[0], Y: ssa.NewConst(nil, c.Call.Args[0].Type())}
				if isIOError(fake) {
					return succs[1:]
				}
			}
		}
	}
	if iff, ok := b.Instrs[len(b.Instrs)-1].(*ssa.If); ok && len(succs) == 2 && isErrorCond(iff.Cond) && isIOError(iff.Cond) {
		switch iff.Cond.(*ssa.BinOp).Op {
		case token.NEQ:
			succs = succs[1:]
		case token.EQL:
			succs = succs[:1]
		}
	}
	return succs
}

// ruleSinkFinalises (B7, C15 X5): after its channel is exhausted a sink goroutine finishes the
// file (save, encode, flush, header rewrite). Whether it does may depend on earlier I/O errors
// and on nothing else: every call that some failure-free path from the end of the receive loop
// makes (outside later loops) is made by all of them. A goroutine that skips the save for an
// empty drawing leaves no file - or the previous export - where the caller expects this one.
func ruleSinkFinalises(ctx *Ctx, r *Report, rule string, only func(gs goSite) bool) {
	for _, gs := range goSites(ctx) {
		if gs.callee == nil || (only != nil && !only(gs)) {
			continue
		}
		loops := recvLoops(gs.callee)
		if len(loops) == 0 {
			continue
		}
		if ch, ok := loops[0].chanVal.Type().Underlying().(*types.Chan); !ok {
			continue
		} else if _, isSlice := ch.Elem().Underlying().(*types.Slice); !isSlice {
			continue
		}
		fn := gs.callee
		start := loops[0].done
		var calls []*ssa.Call
		seen := map[*ssa.BasicBlock]bool{start: true}
		work := []*ssa.BasicBlock{start}
		for len(work) > 0 {
			b := work[0]
			work = work[1:]
			for _, ins := range b.Instrs {
				c, ok := ins.(*ssa.Call)
				if !ok || innermostLoop(fn, b) != nil {
					continue
				}
				if _, isBuiltin := c.Call.Value.(*ssa.Builtin); isBuiltin {
					continue
				}
				if g := c.Call.StaticCallee(); g != nil && g.Pkg != nil && g.Pkg.Pkg.Path() == "fmt" {
					continue
				}
				calls = append(calls, c)
			}
			for _, su := range goodSuccs(b) {
				if !seen[su] {
					seen[su] = true
					work = append(work, su)
				}
			}
		}
		bad := ""
		for _, c := range calls {
			c := c
			vis := map[*ssa.BasicBlock]bool{}
			var walk func(b *ssa.BasicBlock) bool
			walk = func(b *ssa.BasicBlock) bool {
				if vis[b] {
					return true
				}
				vis[b] = true
				for _, ins := range b.Instrs {
					if ins == ssa.Instruction(c) {
						return true
					}
					switch ins.(type) {
					case *ssa.Return, *ssa.RunDefers:
						return false
					}
				}
				for _, su := range goodSuccs(b) {
					if !walk(su) {
						return false
					}
				}
				return true
			}
			if !walk(start) {
				name := calleeName(&c.Call)
				if name == "" && c.Call.IsInvoke() {
					name = c.Call.Method.Name()
				}
				bad += fmt.Sprintf(" %s at %s is skipped on a path that no I/O error explains;", name, ctx.pos(c.Pos()))
			}
		}
		r.check(rule, gs.key+"|finishes-the-file-unless-an-error-occurred", gs.instr.Pos(), bad == "", fmt.Sprintf("%d finishing calls after the receive loop;%s", len(calls), bad))
	}
}

func isMutexCall(ins ssa.Instruction, method string) (ssa.Value, bool) {
	var cc *ssa.CallCommon
	switch x := ins.(type) {
	case *ssa.Call:
		cc = &x.Call
	case *ssa.Defer:
		cc = &x.Call
	default:
		return nil, false
	}
	f := cc.StaticCallee()
	if f == nil || f.Name() != method || f.Signature.Recv() == nil {
		return nil, false
	}
	rt := f.Signature.Recv().Type().String()
	if rt != "*sync.Mutex" && rt != "*sync.RWMutex" {
		return nil, false
	}
	return cc.Args[0], true
}

// capturedParam: inside the function literal fn, v is a load of the captured parameter number i
// of the enclosing function (which never assigns it again).
func capturedParam(fn *ssa.Function, v ssa.Value, i int) bool {
	parent := fn.Parent()
	ld, ok := v.(*ssa.UnOp)
	if parent == nil || !ok || ld.Op != token.MUL || i >= len(parent.Params) {
		return false
	}
	fv, ok := ld.X.(*ssa.FreeVar)
	if !ok {
		return false
	}
	idx := -1
	for k, f := range fn.FreeVars {
		if f == fv {
			idx = k
		}
	}
	found := false
	allInstrs(parent, func(_ *ssa.BasicBlock, ins ssa.Instruction) {
		mc, ok := ins.(*ssa.MakeClosure)
		if !ok || mc.Fn != ssa.Value(fn) || idx < 0 || idx >= len(mc.Bindings) {
			return
		}
		cell, ok := mc.Bindings[idx].(*ssa.Alloc)
		if !ok || cell.Referrers() == nil {
			return
		}
		stores, good := 0, 0
		for _, ref := range *cell.Referrers() {
			if st, ok := ref.(*ssa.Store); ok && st.Addr == ssa.Value(cell) {
				stores++
				if st.Val == ssa.Value(parent.Params[i]) {
					good++
				}
			}
		}
		found = stores == 1 && good == 1
	})
	return found
}

// isRecvValue: v is the receiver of the method fn - or, when fn is a function literal inside a
// method, the method's receiver as the literal captured it.
func isRecvValue(fn *ssa.Function, v ssa.Value) bool {
	if fn.Signature.Recv() != nil && len(fn.Params) > 0 && v == ssa.Value(fn.Params[0]) {
		return true
	}
	parent := fn.Parent()
	ld, ok := v.(*ssa.UnOp)
	if parent == nil || !ok || ld.Op != token.MUL || parent.Signature.Recv() == nil || len(parent.Params) == 0 {
		return false
	}
	fv, ok := ld.X.(*ssa.FreeVar)
	if !ok {
		return false
	}
	idx := -1
	for i, f := range fn.FreeVars {
		if f == fv {
			idx = i
		}
	}
	found := false
	allInstrs(parent, func(_ *ssa.BasicBlock, ins ssa.Instruction) {
		mc, ok := ins.(*ssa.MakeClosure)
		if !ok || mc.Fn != ssa.Value(fn) || idx < 0 || idx >= len(mc.Bindings) {
			return
		}
		cell, ok := mc.Bindings[idx].(*ssa.Alloc)
		if !ok || cell.Referrers() == nil {
			return
		}
		stores, recvStores := 0, 0
		for _, ref := range *cell.Referrers() {
			if st, ok := ref.(*ssa.Store); ok && st.Addr == ssa.Value(cell) {
				stores++
				if st.Val == ssa.Value(parent.Params[0]) {
					recvStores++
				}
			}
		}
		found = stores == 1 && recvStores == 1
	})
	return found
}

// recvOrSpill: v is the receiver parameter of fn, or a load of the cell it was spilled to
// because a function literal captures it.
func recvOrSpill(fn *ssa.Function, v ssa.Value) bool {
	if len(fn.Params) == 0 {
		return false
	}
	if v == ssa.Value(fn.Params[0]) {
		return true
	}
	ld, ok := v.(*ssa.UnOp)
	if !ok || ld.Op != token.MUL {
		return false
	}
	cell, ok := ld.X.(*ssa.Alloc)
	if !ok || cell.Referrers() == nil {
		return false
	}
	stores, recvStores := 0, 0
	for _, ref := range *cell.Referrers() {
		if st, ok := ref.(*ssa.Store); ok && st.Addr == ssa.Value(cell) {
			stores++
			if st.Val == ssa.Value(fn.Params[0]) {
				recvStores++
			}
		}
	}
	return stores == 1 && recvStores == 1
}

// lockedRunner: g is a method that runs its function argument between Lock and Unlock of a
// mutex of its receiver and does nothing else: `func (a *T) locked(f func()) { a.mu.Lock(); f(); a.mu.Unlock() }`.
func lockedRunner(g *ssa.Function) bool {
	if g == nil || len(g.Blocks) == 0 || g.Signature.Recv() == nil || len(g.Params) != 2 {
		return false
	}
	var lock, unlock, run ssa.Instruction
	n := 0
	deferred := false
	okShape := true
	allInstrs(g, func(_ *ssa.BasicBlock, ins ssa.Instruction) {
		if m, ok := isMutexCall(ins, "Lock"); ok {
			if fa, isFA := m.(*ssa.FieldAddr); !isFA || fa.X != ssa.Value(g.Params[0]) {
				okShape = false
			}
			lock = ins
			n++
			return
		}
		if _, ok := isMutexCall(ins, "Unlock"); ok {
			if _, isD := ins.(*ssa.Defer); isD {
				deferred = true
			}
			unlock = ins
			n++
			return
		}
		switch x := ins.(type) {
		case *ssa.Call:
			if x.Call.Value == ssa.Value(g.Params[1]) && !x.Call.IsInvoke() {
				run = ins
				n++
				return
			}
			okShape = false
		case *ssa.Send, *ssa.Store, *ssa.Go, *ssa.Panic:
			okShape = false
		}
	})
	if !okShape || lock == nil || unlock == nil || run == nil || n != 3 {
		return false
	}
	if !precedes(lock, run) {
		return false
	}
	if deferred {
		return precedes(unlock, run)
	}
	return everyPathHits(run, func(x ssa.Instruction) bool { _, ok := isMutexCall(x, "Unlock"); return ok })
}

// fieldOfRecv: v is &recv.<field> for the method's receiver; returns the field name.
func fieldOfRecv(fn *ssa.Function, v ssa.Value) (string, bool) {
	fa, ok := v.(*ssa.FieldAddr)
	if !ok || !isRecvValue(fn, fa.X) {
		return "", false
	}
	st, ok := fa.X.Type().Underlying().(*types.Pointer).Elem().Underlying().(*types.Struct)
	if !ok {
		return "", false
	}
	return st.Field(fa.Field).Name(), true
}

func ruleBuffer(ctx *Ctx, r *Report, tname string, fn *ssa.Function, isWrite bool) {
	ruleBufferIn(ctx, r, tname, fn, isWrite, false)
}

// ruleBufferIn: held = the caller holds the buffer's mutex around the call of fn (fn is the
// body of the critical section, split off into a helper of the same receiver).
func ruleBufferIn(ctx *Ctx, r *Report, tname string, fn *ssa.Function, isWrite bool, held bool) {
	mname := "Close"
	if isWrite {
		mname = "Write"
	}
	key := tname + "." + mname
	if !held {
		// the critical section as a function literal handed to a lock-holding runner:
		// `a.locked(func() { ... })`
		var body *ssa.Function
		nRun, other := 0, false
		allInstrs(fn, func(_ *ssa.BasicBlock, ins ssa.Instruction) {
			switch x := ins.(type) {
			case *ssa.Call:
				g := x.Call.StaticCallee()
				if g != nil && lockedRunner(g) && len(x.Call.Args) == 2 && len(fn.Params) > 0 && recvOrSpill(fn, x.Call.Args[0]) {
					if mc, ok := x.Call.Args[1].(*ssa.MakeClosure); ok {
						if lit, ok := mc.Fn.(*ssa.Function); ok {
							body = lit
							nRun++
							return
						}
					}
				}
				if _, ok := isMutexCall(ins, "Lock"); ok {
					other = true
				}
			case *ssa.Send:
				other = true
			case *ssa.FieldAddr:
				if _, ok := fieldOfRecv(fn, x); ok {
					other = true // the method itself touches the buffer
				}
			}
		})
		if nRun == 1 && !other && body != nil {
			r.check("B1", key+"|buffer-accessed-and-sent-under-its-mutex", fn.Pos(), true, "the function literal that appends, tests, sends and re-binds runs inside the critical section of a lock-holding runner; the method touches nothing of the buffer itself")
			ruleBufferIn(ctx, r, tname, body, isWrite, true)
			return
		}
	}
	if !held {
		// the critical section's body in a helper: `a.lock.Lock(); a.add(in); a.lock.Unlock()`
		hasSend := false
		var helper *ssa.Function
		var hcall *ssa.Call
		nHelpers := 0
		allInstrs(fn, func(_ *ssa.BasicBlock, ins ssa.Instruction) {
			switch x := ins.(type) {
			case *ssa.Send:
				hasSend = true
			case *ssa.Call:
				if g := x.Call.StaticCallee(); g != nil && inModule(g) && g.Signature.Recv() != nil && len(g.Blocks) > 0 && len(x.Call.Args) > 0 && len(fn.Params) > 0 && x.Call.Args[0] == ssa.Value(fn.Params[0]) {
					sends := false
					allInstrs(g, func(_ *ssa.BasicBlock, i2 ssa.Instruction) {
						if _, ok := i2.(*ssa.Send); ok {
							sends = true
						}
					})
					if sends {
						helper, hcall = g, x
						nHelpers++
					}
				}
			}
		})
		touchesBuffer := false
		allInstrs(fn, func(_ *ssa.BasicBlock, ins ssa.Instruction) {
			if ld, ok := ins.(*ssa.UnOp); ok && ld.Op == token.MUL {
				if f, ok := fieldOfRecv(fn, ld.X); ok && f != "" {
					if _, isSl := ld.Type().Underlying().(*types.Slice); isSl {
						touchesBuffer = true
					}
				}
			}
			if st, ok := ins.(*ssa.Store); ok {
				if _, ok := fieldOfRecv(fn, st.Addr); ok {
					touchesBuffer = true
				}
			}
		})
		if !hasSend && nHelpers == 1 && !touchesBuffer {
			// lock discipline of the caller: the helper runs between Lock and Unlock, nothing of
			// the buffer is touched outside
			var locks []ssa.Instruction
			deferred := false
			touched := ""
			allInstrs(fn, func(_ *ssa.BasicBlock, ins ssa.Instruction) {
				if _, ok := isMutexCall(ins, "Lock"); ok {
					locks = append(locks, ins)
				}
				if _, ok := isMutexCall(ins, "Unlock"); ok {
					if _, isD := ins.(*ssa.Defer); isD {
						deferred = true
					}
				}
				if ld, ok := ins.(*ssa.UnOp); ok && ld.Op == token.MUL {
					if f, ok := fieldOfRecv(fn, ld.X); ok && f != "" {
						if _, isSl := ld.Type().Underlying().(*types.Slice); isSl {
							touched += " buffer read in the caller at " + ctx.pos(ld.Pos()) + ";"
						}
					}
				}
				if st, ok := ins.(*ssa.Store); ok {
					if _, ok := fieldOfRecv(fn, st.Addr); ok {
						touched += " buffer written in the caller at " + ctx.pos(st.Pos()) + ";"
					}
				}
			})
			lockOK := len(locks) == 1 && touched == "" && precedes(locks[0], hcall)
			if lockOK && !deferred {
				// no Unlock between the Lock and the helper call, and one after it on every path
				lockOK = everyPathHits(hcall, func(x ssa.Instruction) bool { _, ok := isMutexCall(x, "Unlock"); return ok })
				seenUnlock := false
				allInstrs(fn, func(_ *ssa.BasicBlock, ins ssa.Instruction) {
					if _, ok := isMutexCall(ins, "Unlock"); ok && precedes(ins, hcall) {
						seenUnlock = true
					}
				})
				lockOK = lockOK && !seenUnlock
			}
			r.check("B1", key+"|buffer-accessed-and-sent-under-its-mutex", fn.Pos(), lockOK, "the helper "+helper.Name()+" that appends, tests, sends and re-binds is called inside the critical section;"+touched)
			ruleBufferIn(ctx, r, tname, helper, isWrite, true)
			return
		}
	}
	// the buffer field: the slice field of the receiver that is sent
	var sends []*ssa.Send
	sendIn := map[*ssa.Send]*ssa.Function{}   // the function a send lies in (fn, or a helper of the receiver)
	sendAt := map[*ssa.Send]ssa.Instruction{} // the instruction of fn that performs it (the send, or the helper call)
	var accesses []ssa.Instruction            // loads/stores of slice/chan fields of the receiver
	if !held {
		// a flush helper of the same receiver holding one send and no locking of its own, called
		// from inside the critical section, counts as a send at its call site
		allInstrs(fn, func(_ *ssa.BasicBlock, ins ssa.Instruction) {
			c, ok := ins.(*ssa.Call)
			if !ok {
				return
			}
			g := c.Call.StaticCallee()
			if g == nil || !inModule(g) || g.Signature.Recv() == nil || len(g.Blocks) == 0 || len(c.Call.Args) == 0 || len(fn.Params) == 0 || c.Call.Args[0] != ssa.Value(fn.Params[0]) {
				return
			}
			var hs []*ssa.Send
			locksInside := false
			allInstrs(g, func(_ *ssa.BasicBlock, i2 ssa.Instruction) {
				if sd, ok := i2.(*ssa.Send); ok {
					hs = append(hs, sd)
				}
				if _, ok := isMutexCall(i2, "Lock"); ok {
					locksInside = true
				}
			})
			if len(hs) == 1 && !locksInside {
				sends = append(sends, hs[0])
				sendIn[hs[0]] = g
				sendAt[hs[0]] = c
				accesses = append(accesses, c)
			}
		})
	}
	var locks, unlocks []ssa.Instruction
	deferredUnlock := false
	allInstrs(fn, func(b *ssa.BasicBlock, ins ssa.Instruction) {
		switch x := ins.(type) {
		case *ssa.Send:
			sends = append(sends, x)
			sendIn[x] = fn
			sendAt[x] = x
			accesses = append(accesses, x)
		case *ssa.UnOp:
			if x.Op == token.MUL {
				if f, ok := fieldOfRecv(fn, x.X); ok && f != "" {
					if _, isSl := x.Type().Underlying().(*types.Slice); isSl {
						accesses = append(accesses, x)
					}
				}
			}
		case *ssa.Store:
			if _, ok := fieldOfRecv(fn, x.Addr); ok {
				accesses = append(accesses, x)
			}
		}
		if _, ok := isMutexCall(ins, "Lock"); ok {
			locks = append(locks, ins)
		}
		if _, ok := isMutexCall(ins, "Unlock"); ok {
			if _, isD := ins.(*ssa.Defer); isD {
				deferredUnlock = true
			} else {
				unlocks = append(unlocks, ins)
			}
		}
	})
	// B1 lock discipline
	lockOK := len(locks) >= 1 || held
	detail := ""
	for _, a := range accesses {
		if held {
			break
		}
		dom := false
		for _, l := range locks {
			if precedes(l, a) {
				dom = true
			}
		}
		if !dom {
			lockOK = false
			detail += " access at " + ctx.pos(a.Pos()) + " not dominated by Lock;"
		}
	}
	// no access reachable after an Unlock without a new Lock
	isAccess := map[ssa.Instruction]bool{}
	for _, a := range accesses {
		isAccess[a] = true
	}
	for _, u := range unlocks {
		seen := map[*ssa.BasicBlock]bool{}
		var walk func(b *ssa.BasicBlock, i int)
		walk = func(b *ssa.BasicBlock, i int) {
			for ; i < len(b.Instrs); i++ {
				if _, ok := isMutexCall(b.Instrs[i], "Lock"); ok {
					return
				}
				if isAccess[b.Instrs[i]] {
					lockOK = false
					detail += " access at " + ctx.pos(b.Instrs[i].Pos()) + " after Unlock;"
				}
			}
			for _, s := range b.Succs {
				if !seen[s] {
					seen[s] = true
					walk(s, 0)
				}
			}
		}
		walk(u.Block(), instrIndex(u)+1)
	}
	// a Lock must be released on every path
	if !deferredUnlock {
		for _, l := range locks {
			if !everyPathHits(l, func(x ssa.Instruction) bool { _, ok := isMutexCall(x, "Unlock"); return ok }) {
				lockOK = false
				detail += " Lock not released on some path;"
			}
		}
	}
	if !held {
		r.check("B1", key+"|buffer-accessed-and-sent-under-its-mutex", fn.Pos(), lockOK, "append, threshold test, send and re-bind form one critical section (several producers may share a buffer);"+detail)
	}

	// B1 what is sent, and re-binding
	if len(sends) == 0 {
		r.check("B1", key+"|sends-the-buffer", fn.Pos(), false, "no channel send found")
		return
	}
	for i, s := range sends {
		skey := fmt.Sprintf("%s|send#%d", key, i+1)
		ld, _ := s.X.(*ssa.UnOp)
		fname := ""
		okSent := false
		sfn := sendIn[s]
		if ld != nil && ld.Op == token.MUL {
			fname, okSent = fieldOfRecv(sfn, ld.X)
		}
		r.check("B1", skey+"|sends-the-owned-buffer", s.Pos(), okSent, "the value sent must be the receiver's buffer field (sending the caller's slice lets batches overtake buffered items and aliases caller memory); sent: "+s.X.String())
		if !okSent {
			continue
		}
		// re-binding: from the load of the value that is sent up to the end of the critical
		// section (Unlock, or return under a deferred Unlock) every path through the send must
		// leave a fresh slice in the field, and must not store anything derived from the old
		// buffer in between (buf[:0] aliases what the consumer now owns; an append after the
		// load would be lost).
		rebound := reboundFresh(sfn, ld, s, fname)
		r.check("B1", skey+"|buffer-rebound-to-fresh-slice-after-send", s.Pos(), rebound, "after the send the consumer owns the slice: the field must become a new make()/nil before the lock is released (buf[:0] would alias it)")
		// B2 guard
		guards := branchGuards(sendAt[s].Block())
		if sfn != fn {
			guards = append(guards, branchGuards(s.Block())...)
		}
		okG := len(guards) == 1
		gdesc := ""
		if okG {
			g := guards[0]
			bo, isB := g.cond.(*ssa.BinOp)
			okG = isB
			if isB {
				// len(load buf) OP const
				lenOf := func(v ssa.Value) bool {
					c, ok := v.(*ssa.Call)
					if !ok {
						return false
					}
					bi, ok := c.Call.Value.(*ssa.Builtin)
					if !ok || bi.Name() != "len" {
						return false
					}
					l, ok := c.Call.Args[0].(*ssa.UnOp)
					if !ok {
						return false
					}
					f, ok := fieldOfRecv(fn, l.X)
					return ok && f == fname
				}
				k, kok := constInt(bo.Y)
				op := bo.Op
				if !g.val {
					op = negTok(op)
				}
				okG = lenOf(bo.X) && kok
				gdesc = fmt.Sprintf("len(%s) %s %d", fname, op, k)
				if okG {
					if isWrite {
						okG = (op == token.GEQ && k >= 1) || (op == token.GTR && k >= 0)
					} else {
						okG = (op == token.NEQ && k == 0) || (op == token.GTR && k == 0) || (op == token.GEQ && k == 1)
					}
				}
			}
		} else {
			gdesc = fmt.Sprintf("%d conditions", len(guards))
		}
		want := "len(buf) != 0"
		if isWrite {
			want = "len(buf) >= K, K >= 1"
		}
		r.check("B2", skey+"|flush-condition", s.Pos(), okG, "send must depend on exactly "+want+"; found "+gdesc)
	}
	if isWrite {
		// all of `in` appended on every path
		isAppendIn := func(x ssa.Instruction) bool {
			c, ok := x.(*ssa.Call)
			if !ok {
				return false
			}
			bi, ok := c.Call.Value.(*ssa.Builtin)
			if !ok || bi.Name() != "append" || len(c.Call.Args) != 2 {
				return false
			}
			if fn.Parent() != nil {
				return capturedParam(fn, c.Call.Args[1], 1)
			}
			return len(fn.Params) >= 2 && c.Call.Args[1] == ssa.Value(fn.Params[1])
		}
		first := fn.Blocks[0].Instrs[0]
		okA := isAppendIn(first) || everyPathHits(first, isAppendIn)
		r.check("B1", key+"|appends-all-of-in-on-every-path", fn.Pos(), okA, "every path through Write must append the whole input batch to the buffer")
	}
}

// reboundFresh walks the CFG from the load `ld` of the buffer field (the value later sent by
// `snd`) to the end of the critical section and reports whether, on every such path that
// passes the send, the last store into the field is a fresh slice and no store derived from
// the old buffer precedes it.
func reboundFresh(fn *ssa.Function, ld *ssa.UnOp, snd *ssa.Send, fname string) bool {
	const (
		stNone  = 0
		stFresh = 1
		stBad   = 2
	)
	type key struct {
		b    *ssa.BasicBlock
		i    int
		st   int
		sent bool
	}
	seen := map[key]bool{}
	ok := true
	var walk func(b *ssa.BasicBlock, i int, st int, sent bool)
	walk = func(b *ssa.BasicBlock, i int, st int, sent bool) {
		k := key{b, i, st, sent}
		if seen[k] {
			return
		}
		seen[k] = true
		for ; i < len(b.Instrs); i++ {
			ins := b.Instrs[i]
			if ins == ssa.Instruction(snd) {
				sent = true
				continue
			}
			if stt, isSt := ins.(*ssa.Store); isSt {
				if f, isF := fieldOfRecv(fn, stt.Addr); isF && f == fname {
					switch {
					case isFreshSliceDeep(stt.Val, 3):
						st = stFresh
					case st == stFresh && derivedFromField(fn, stt.Val, fname):
						// appending to the new buffer
					default:
						st = stBad
					}
				}
				continue
			}
			end := false
			if _, isU := isMutexCall(ins, "Unlock"); isU {
				if _, isD := ins.(*ssa.Defer); !isD {
					end = true
				}
			}
			if _, isR := ins.(*ssa.Return); isR {
				end = true
			}
			if end {
				if sent && st != stFresh {
					ok = false
				}
				return
			}
		}
		for _, su := range b.Succs {
			walk(su, 0, st, sent)
		}
	}
	walk(ld.Block(), instrIndex(ld)+1, stNone, false)
	return ok
}

// derivedFromField: v is an append to / a slice of a value loaded from the receiver's field.
func derivedFromField(fn *ssa.Function, v ssa.Value, fname string) bool {
	for depth := 0; depth < 6; depth++ {
		switch x := v.(type) {
		case *ssa.UnOp:
			if x.Op == token.MUL {
				f, ok := fieldOfRecv(fn, x.X)
				return ok && f == fname
			}
			return false
		case *ssa.Slice:
			v = x.X
		case *ssa.Call:
			bi, ok := x.Call.Value.(*ssa.Builtin)
			if !ok || bi.Name() != "append" {
				return false
			}
			v = x.Call.Args[0]
		default:
			return false
		}
	}
	return false
}

// isFreshSliceDeep: a make/nil/new backing array, possibly through module helpers whose every
// return is such a value (newTriangle3Slice() { return make(...) }).
func isFreshSliceDeep(v ssa.Value, depth int) bool {
	if isFreshSlice(v) {
		return true
	}
	if depth == 0 {
		return false
	}
	c, ok := v.(*ssa.Call)
	if !ok {
		return false
	}
	callee := c.Call.StaticCallee()
	if callee == nil || len(callee.Blocks) == 0 || callee.Signature.Results().Len() != 1 {
		return false
	}
	n := 0
	for _, b := range callee.Blocks {
		for _, ins := range b.Instrs {
			if rt, ok := ins.(*ssa.Return); ok {
				n++
				if len(rt.Results) != 1 || !isFreshSliceDeep(rt.Results[0], depth-1) {
					return false
				}
			}
		}
	}
	return n > 0
}

func negTok(op token.Token) token.Token {
	switch op {
	case token.LSS:
		return token.GEQ
	case token.LEQ:
		return token.GTR
	case token.GTR:
		return token.LEQ
	case token.GEQ:
		return token.LSS
	case token.EQL:
		return token.NEQ
	case token.NEQ:
		return token.EQL
	}
	return op
}

// ruleSinkOrder is G5/B4: Render(...) -> close(ch) -> wg.Wait() on every path of the function
// that owns the sink channel. The three steps may be delegated to module helpers that receive
// the channel (closeAndWait(output, &wg), renderLines(s, r, output, &wg)): a helper call counts
// as the steps its own body performs on every path, and the helper's body is checked with the
// same rule.
func ruleSinkOrder(ctx *Ctx, r *Report, rule string, fn *ssa.Function, sc sinkCreation) {
	if sc.ch == nil {
		return
	}
	key := fmt.Sprintf("%s|%s", shortFn(fn), sinkCalleeName(sc))
	why := "the sink has consumed everything only then"
	if rule == "G5" {
		why = "the file is complete only then"
	}
	sinkOrderIn(ctx, r, rule, key, why, fn, sc.ch, sc.call, 0)
}

// sinkSteps summarises what a function does with the channel value ch on every path.
type sinkSteps struct {
	renders, closes, waits []ssa.Instruction
	helperWaits            map[ssa.Instruction]bool // helper calls that close and then wait internally
	helpers                []*ssa.Call
	helperParam            map[*ssa.Call]*ssa.Parameter
}

func collectSinkSteps(fn *ssa.Function, ch ssa.Value, depth int) sinkSteps {
	st := sinkSteps{helperWaits: map[ssa.Instruction]bool{}, helperParam: map[*ssa.Call]*ssa.Parameter{}}
	allInstrs(fn, func(b *ssa.BasicBlock, ins ssa.Instruction) {
		c, ok := ins.(*ssa.Call)
		if !ok {
			return
		}
		if c.Call.IsInvoke() && c.Call.Method.Name() == "Render" {
			st.renders = append(st.renders, c)
		}
		if bi, ok := c.Call.Value.(*ssa.Builtin); ok && bi.Name() == "close" && len(c.Call.Args) == 1 && sameChan(c.Call.Args[0], ch) {
			st.closes = append(st.closes, c)
		}
		if isWaitGroupCall(c, "Wait") {
			st.waits = append(st.waits, c)
		}
		// a module helper that receives the channel
		h := c.Call.StaticCallee()
		if h == nil || len(h.Blocks) == 0 || depth >= 3 || c.Call.IsInvoke() {
			return
		}
		takesChan := false
		for _, a := range c.Call.Args {
			if sameChan(a, ch) {
				takesChan = true
			}
		}
		if !takesChan {
			// a helper that waits for the group on every path (waitFor(&wg)) is a Wait
			isW := func(x ssa.Instruction) bool { cc, ok := x.(*ssa.Call); return ok && isWaitGroupCall(cc, "Wait") }
			entry := h.Blocks[0].Instrs[0]
			if isW(entry) || everyPathHits(entry, isW) {
				st.waits = append(st.waits, c)
			}
			return
		}
		for i, a := range c.Call.Args {
			if !sameChan(a, ch) || i >= len(h.Params) {
				continue
			}
			if _, isCh := h.Params[i].Type().Underlying().(*types.Chan); !isCh {
				continue
			}
			hs := collectSinkSteps(h, h.Params[i], depth+1)
			if len(hs.closes) == 0 && len(hs.renders) == 0 {
				continue // e.g. NewTriangle3Buffer(output): wraps the channel, does not end it
			}
			st.helpers = append(st.helpers, c)
			st.helperParam[c] = h.Params[i]
			entry := h.Blocks[0].Instrs[0]
			closesAlways := len(hs.closes) > 0 && (instrIn(hs.closes)(entry) || everyPathHits(entry, instrIn(hs.closes)))
			if closesAlways {
				st.closes = append(st.closes, c)
				waited := true
				for _, cl := range hs.closes {
					if !hs.helperWaits[cl] && !everyPathHits(cl, instrIn(hs.waits)) {
						waited = false
					}
				}
				if waited {
					st.helperWaits[c] = true
				}
			}
			if len(hs.renders) > 0 {
				st.renders = append(st.renders, c)
			}
		}
	})
	return st
}

// sameChan: v is ch, possibly through a channel-direction conversion.
func sameChan(v, ch ssa.Value) bool {
	for i := 0; i < 4; i++ {
		if v == ch {
			return true
		}
		switch x := v.(type) {
		case *ssa.ChangeType:
			v = x.X
		case *ssa.Convert:
			v = x.X
		default:
			return false
		}
	}
	return false
}

func instrIn(set []ssa.Instruction) func(ssa.Instruction) bool {
	return func(x ssa.Instruction) bool {
		for _, c := range set {
			if c == x {
				return true
			}
		}
		return false
	}
}

func sinkOrderIn(ctx *Ctx, r *Report, rule, key, why string, fn *ssa.Function, ch ssa.Value, origin ssa.Instruction, depth int) {
	st := collectSinkSteps(fn, ch, depth)
	renders := st.renders
	if len(renders) == 0 && origin != nil {
		// a producer other than a renderer (a mesh saver) still has to close and wait
		renders = []ssa.Instruction{origin}
	}
	// (a helper without a Render call only ends the stream; that it closes on every path was
	// established when its call was counted as a close)
	for i, rd := range renders {
		ok := everyPathHits(rd, instrIn(st.closes))
		if _, isHelper := st.helperParam[asCall(rd)]; isHelper && instrIn(st.closes)(rd) {
			ok = true // the helper renders and closes itself (its body is checked below)
		}
		r.check(rule, fmt.Sprintf("%s|close-after-render#%d", key, i+1), rd.Pos(), ok,
			"every path from Render to return must close the sink channel (the sink goroutine never ends otherwise)")
	}
	okW := len(st.closes) > 0
	for _, c := range st.closes {
		if st.helperWaits[c] {
			continue
		}
		if !everyPathHits(c, instrIn(st.waits)) {
			okW = false
		}
	}
	pos := fn.Pos()
	if origin != nil {
		pos = origin.Pos()
	}
	if oc, isCall := origin.(*ssa.Call); isCall && origin != nil && len(st.renders) > 0 {
		// from the moment the sink exists (creation succeeded) every way out closes it: a return
		// squeezed in between creation and Render leaves its goroutine waiting for ever
		okC := everyPathFromCreationHits(oc, instrIn(st.closes))
		r.check(rule, key+"|closed-on-every-path-once-created", pos, okC, "every path from the successful creation of the sink to return must close its channel (one goroutine is left behind per such call otherwise)")
	}
	r.check(rule, key+"|wait-after-close", pos, okW, "every path from close(output) to return must pass wg.Wait() ("+why+")")
	noEarly := true
	for _, w := range st.waits {
		for _, rd := range renders {
			if precedes(rd, w) || rd.Block() == w.Block() && instrIndex(rd) < instrIndex(w) {
				hit := false
				for _, c := range st.closes {
					if precedes(c, w) {
						hit = true
					}
				}
				if !hit {
					noEarly = false
				}
			}
		}
	}
	r.check(rule, key+"|no-wait-before-close", pos, noEarly, "wg.Wait() before close(output) waits for a goroutine that is still draining: deadlock")
	// the helpers' own bodies
	done := map[*ssa.Function]bool{}
	for _, hc := range st.helpers {
		h := hc.Call.StaticCallee()
		if done[h] {
			continue
		}
		done[h] = true
		sinkOrderIn(ctx, r, rule, key+"|via "+shortFn(h), why, h, st.helperParam[hc], nil, depth+1)
	}
}

func asCall(x ssa.Instruction) *ssa.Call {
	c, _ := x.(*ssa.Call)
	return c
}

// isErrorCond: v is a comparison of an error-typed value with nil.
// ruleBufferStartsFresh (B8): a buffering writer starts with storage of its own. Write appends
// into the buffer it holds; if the constructor hands every new writer the same package-level
// slice ("allocate the empty start buffer once"), the first fill of two writers alive at the
// same time lands in one backing array: each delivers the other's items. Every slice stored into
// a freshly allocated writer is made there (make, a literal, nil) - not loaded from a global.
func ruleBufferStartsFresh(ctx *Ctx, r *Report) {
	n := 0
	for _, in := range []string{"Triangle3Writer", "Line2Writer"} {
		iface := lookupIface(ctx, "sdf", in)
		if iface == nil {
			continue
		}
		for _, t := range implementersOf(ctx, iface) {
			elem := derefType(t)
			for _, fn := range ctx.srcFuncs("sdf") {
				if len(fn.Blocks) == 0 {
					continue
				}
				fn := fn
				allInstrs(fn, func(_ *ssa.BasicBlock, ins ssa.Instruction) {
					al, ok := ins.(*ssa.Alloc)
					if !ok || !al.Heap || !types.Identical(derefType(al.Type()), elem) || al.Referrers() == nil {
						return
					}
					for _, ref := range *al.Referrers() {
						fa, ok := ref.(*ssa.FieldAddr)
						if !ok || fa.Referrers() == nil {
							continue
						}
						if _, isSl := derefType(fa.Type()).Underlying().(*types.Slice); !isSl {
							continue
						}
						for _, r2 := range *fa.Referrers() {
							st, ok := r2.(*ssa.Store)
							if !ok || st.Addr != ssa.Value(fa) {
								continue
							}
							n++
							fresh := !sliceFromGlobal(st.Val, 0)
							r.check("B8", fmt.Sprintf("%s|%s|buffer-starts-with-storage-of-its-own", shortFn(fn), typeShort(t)), st.Pos(), fresh,
								"the slice a new writer starts with is not the value of a package-level variable; found "+st.Val.String())
						}
					}
				})
			}
		}
	}
	if n == 0 {
		r.undecided("B8", "writer constructors", 0, "no constructor storing a buffer found")
	}
	r.floor("B8", 1)
}

// sliceFromGlobal: v is (a re-slice of) the value of a package-level variable, possibly handed
// through module helpers that return it.
func sliceFromGlobal(v ssa.Value, depth int) bool {
	if depth > 4 {
		return false
	}
	switch x := v.(type) {
	case *ssa.UnOp:
		if x.Op == token.MUL {
			if _, ok := x.X.(*ssa.Global); ok {
				return true
			}
		}
	case *ssa.Slice:
		return sliceFromGlobal(x.X, depth+1)
	case *ssa.Phi:
		for _, e := range x.Edges {
			if sliceFromGlobal(e, depth+1) {
				return true
			}
		}
	case *ssa.Call:
		if g := x.Call.StaticCallee(); g != nil && inModule(g) && len(g.Blocks) > 0 {
			found := false
			allInstrs(g, func(_ *ssa.BasicBlock, ins ssa.Instruction) {
				if ret, ok := ins.(*ssa.Return); ok {
					for _, rv := range ret.Results {
						if sliceFromGlobal(rv, depth+1) {
							found = true
						}
					}
				}
			})
			return found
		}
	}
	return false
}

// errorSetPredicate: g(err error) bool returns true exactly when err != nil (it may print on the
// way): every return yields `err != nil`, or a constant that agrees with a dominating test of err.
func errorSetPredicate(g *ssa.Function) bool {
	if len(g.Params) != 1 || g.Signature.Results().Len() != 1 {
		return false
	}
	ok, n := true, 0
	allInstrs(g, func(b *ssa.BasicBlock, ins ssa.Instruction) {
		ret, isRet := ins.(*ssa.Return)
		if !isRet {
			return
		}
		n++
		switch v := ret.Results[0].(type) {
		case *ssa.BinOp:
			if !(v.Op == token.NEQ && (v.X == ssa.Value(g.Params[0]) || v.Y == ssa.Value(g.Params[0]))) {
				ok = false
			}
		case *ssa.Const:
			if v.Value == nil || v.Value.Kind() != constant.Bool {
				ok = false
				return
			}
			want := constant.BoolVal(v.Value)
			agrees := false
			for _, gd := range branchGuards(b) {
				if bo, isB := gd.cond.(*ssa.BinOp); isB && (bo.X == ssa.Value(g.Params[0]) || bo.Y == ssa.Value(g.Params[0])) {
					set := (bo.Op == token.NEQ) == gd.val
					if bo.Op == token.NEQ || bo.Op == token.EQL {
						agrees = set == want
					}
				}
			}
			if !agrees {
				ok = false
			}
		default:
			ok = false
		}
	})
	return ok && n > 0
}

// isIOError: the error tested by cond comes from input/output (or from a module function, which
// may wrap some), not from a judgement on the content: a sink that gives up because a third-party
// validator dislikes the model leaves an empty file and tells nobody. Output calls are those of
// os, io, bufio, encoding/*, archive/*, compress/*, and methods named like one (Encode, Save,
// SaveAs, Flush, Close, Write, Seek, Sync, End).
func isIOError(cond ssa.Value) bool {
	bo, ok := cond.(*ssa.BinOp)
	if !ok {
		return true
	}
	e := bo.X
	if k, isC := e.(*ssa.Const); isC && k.IsNil() {
		e = bo.Y
	}
	ioNames := map[string]bool{"Encode": true, "Save": true, "SaveAs": true, "Flush": true, "Close": true, "Write": true, "Seek": true, "Sync": true, "End": true, "WriteString": true, "WriteTo": true, "Truncate": true}
	seen := map[ssa.Value]bool{}
	var src func(v ssa.Value, depth int) bool
	src = func(v ssa.Value, depth int) bool {
		if v == nil || seen[v] || depth > 8 {
			return true
		}
		seen[v] = true
		switch x := v.(type) {
		case *ssa.Extract:
			return src(x.Tuple, depth+1)
		case *ssa.Phi:
			for _, ed := range x.Edges {
				if !src(ed, depth+1) {
					return false
				}
			}
			return true
		case *ssa.UnOp:
			if x.Op == token.MUL {
				// an error variable in a cell: every value stored into it
				if x.X != nil && x.X.Referrers() != nil {
					for _, ref := range *x.X.Referrers() {
						if st, ok := ref.(*ssa.Store); ok && st.Addr == x.X {
							if !src(st.Val, depth+1) {
								return false
							}
						}
					}
				}
			}
			return true
		case *ssa.Call:
			if x.Call.IsInvoke() {
				return ioNames[x.Call.Method.Name()] || x.Call.Method.Pkg() == nil
			}
			g := x.Call.StaticCallee()
			if g == nil || g.Pkg == nil || inModule(g) {
				return true
			}
			path := g.Pkg.Pkg.Path()
			if path == "os" || path == "io" || path == "bufio" || strings.HasPrefix(path, "encoding/") || strings.HasPrefix(path, "archive/") || strings.HasPrefix(path, "compress/") {
				return true
			}
			return ioNames[g.Name()]
		}
		return true
	}
	return src(e, 0)
}

func isErrorCond(v ssa.Value) bool {
	bo, ok := v.(*ssa.BinOp)
	if !ok || (bo.Op != token.NEQ && bo.Op != token.EQL) {
		return false
	}
	return isErrorType(bo.X.Type()) || isErrorType(bo.Y.Type())
}

// ruleConsumerLoop: B5.
func ruleConsumerLoop(ctx *Ctx, r *Report, gs goSite, loops []recvOp) {
	fn := gs.callee
	l := loops[0]
	// the received batch
	var batch ssa.Value
	for _, ref := range *l.op.Referrers() {
		if ex, ok := ref.(*ssa.Extract); ok && ex.Index == 0 {
			batch = ex
		}
	}
	if batch == nil {
		r.check("B5", gs.key+"|ranges-over-whole-batch", gs.instr.Pos(), false, "received batch is not used")
		return
	}
	consumerElementLoop(ctx, r, gs, fn, batch, &l, 0)
}

// consumerElementLoop: fn visits every element of `batch` in order and uses each one
// unconditionally. The batch may be handed whole to a module helper that does so
// (d.segments(ls)); then the helper's loop over its parameter is examined. outer is the
// receive loop of the goroutine (nil inside a helper).
func consumerElementLoop(ctx *Ctx, r *Report, gs goSite, fn *ssa.Function, batch ssa.Value, outer *recvOp, depth int) {
	// the range loop over batch: phi [-1, phi+1], cmp phi+1 < len(batch)
	var idx ssa.Value // the element index: phi+1 of a range loop, or the phi of `for i := 0; i < len(batch); i++`
	var hdr, boundBlk *ssa.BasicBlock
	for _, b := range fn.Blocks {
		for _, ins := range b.Instrs {
			phi, ok := ins.(*ssa.Phi)
			if !ok {
				break
			}
			if len(phi.Edges) != 2 {
				continue
			}
			var init, step ssa.Value
			for i, e := range phi.Edges {
				if isBackEdge(b.Preds[i], b) {
					step = e
				} else {
					init = e
				}
			}
			c, isC := init.(*ssa.Const)
			bo, isB := step.(*ssa.BinOp)
			if !isC || !isB || c.Value == nil || c.Value.Kind() != constant.Int || (c.Int64() != -1 && c.Int64() != 0) {
				continue
			}
			if one, ok := constInt(bo.Y); !ok || one != 1 || bo.Op != token.ADD || bo.X != ssa.Value(phi) {
				continue
			}
			// bound
			iff, ok := b.Instrs[len(b.Instrs)-1].(*ssa.If)
			if !ok {
				continue
			}
			if isErrorCond(iff.Cond) {
				// `for i := 0; err == nil && i < len(batch); i++`: the bound test follows the error test
				for _, su := range b.Succs {
					if i2, ok := su.Instrs[len(su.Instrs)-1].(*ssa.If); ok && len(su.Instrs) <= 3 {
						if c2, ok := i2.Cond.(*ssa.BinOp); ok && c2.Op == token.LSS {
							iff = i2
						}
					}
				}
			}
			cmp, ok := iff.Cond.(*ssa.BinOp)
			if !ok || cmp.Op != token.LSS {
				continue
			}
			var cand ssa.Value
			if c.Int64() == -1 && cmp.X == ssa.Value(bo) {
				cand = bo // range form: the index is phi+1, tested before the body
			} else if c.Int64() == 0 && cmp.X == ssa.Value(phi) {
				cand = phi // counted form: i from 0, tested before the body, incremented after it
			} else {
				continue
			}
			ln, ok := cmp.Y.(*ssa.Call)
			if !ok {
				continue
			}
			if bi, ok := ln.Call.Value.(*ssa.Builtin); !ok || bi.Name() != "len" || ln.Call.Args[0] != batch {
				continue
			}
			idx, hdr, boundBlk = cand, b, iff.Block()
		}
	}
	if idx == nil && depth < 2 {
		// delegation: the whole batch goes to a helper, unconditionally
		for _, ref := range *batch.Referrers() {
			call, ok := ref.(*ssa.Call)
			if !ok {
				continue
			}
			h := call.Call.StaticCallee()
			if h == nil || !inModule(h) || len(h.Blocks) == 0 {
				continue
			}
			uncond := true
			for _, g := range branchGuards(call.Block()) {
				if outer != nil && !outer.body.Dominates(g.at) {
					continue
				}
				if !isErrorCond(g.cond) {
					uncond = false
				}
			}
			args := call.Call.Args
			for i, a := range args {
				if a == batch && i < len(h.Params) && uncond {
					consumerElementLoop(ctx, r, gs, h, h.Params[i], nil, depth+1)
					return
				}
			}
		}
	}
	r.check("B5", gs.key+"|ranges-over-whole-batch", gs.instr.Pos(), idx != nil, "the sink must `range` over the received batch itself (index from 0 to len-1 in steps of 1, ascending), directly or in a helper it hands the batch to")
	if idx == nil {
		return
	}
	// element use
	body := hdr.Succs[0]
	inLoop := func(b *ssa.BasicBlock) bool { return body.Dominates(b) }
	var elem ssa.Value
	for _, ref := range *idx.Referrers() {
		if ia, ok := ref.(*ssa.IndexAddr); ok && ia.X == batch {
			for _, r2 := range *ia.Referrers() {
				if ld, ok := r2.(*ssa.UnOp); ok && ld.Op == token.MUL {
					elem = ld
				}
			}
		}
	}
	okUse := false
	detail := ""
	if elem == nil {
		detail = "element never loaded"
	} else {
		for _, ref := range *elem.Referrers() {
			if _, isDbg := ref.(*ssa.DebugRef); isDbg {
				continue
			}
			if !inLoop(ref.Block()) {
				continue
			}
			uncond := true
			for _, g := range branchGuards(ref.Block()) {
				if !inLoop(g.at) || g.at == boundBlk {
					continue
				}
				if !isErrorCond(g.cond) && !isConstTripTest(g.at, g.cond) {
					uncond = false
				}
			}
			if uncond {
				okUse = true
			}
		}
		if !okUse {
			detail = "every use of the element is conditional on a non-error condition"
		}
	}
	// loop exits other than exhaustion must be error-gated
	for _, b := range fn.Blocks {
		if !inLoop(b) || b == boundBlk {
			continue
		}
		for _, s := range b.Succs {
			if inLoop(s) || s == hdr {
				continue
			}
			gated := false
			if iff, ok := b.Instrs[len(b.Instrs)-1].(*ssa.If); ok && isErrorCond(iff.Cond) {
				gated = true
			}
			for _, g := range branchGuards(b) {
				if inLoop(g.at) && isErrorCond(g.cond) {
					gated = true
				}
			}
			if !gated {
				okUse = false
				detail += fmt.Sprintf("; exit from the element loop at %s not gated by an error", ctx.pos(b.Instrs[len(b.Instrs)-1].Pos()))
			}
		}
	}
	// paths through the outer loop that bypass the inner loop must be error gated
	if outer == nil {
		r.check("B5", gs.key+"|every-element-used-unconditionally", gs.instr.Pos(), okUse, "each element of each batch reaches the sink; only error flags may gate it. "+detail)
		return
	}
	l := *outer
	outerBody := l.body
	seen := map[*ssa.BasicBlock]bool{}
	var bypass func(b *ssa.BasicBlock) bool
	bypass = func(b *ssa.BasicBlock) bool {
		if b == hdr {
			return false
		}
		if b == l.block {
			return true // back at the receive without having passed the element loop
		}
		if seen[b] {
			return false
		}
		seen[b] = true
		if iff, ok := b.Instrs[len(b.Instrs)-1].(*ssa.If); ok && isErrorCond(iff.Cond) {
			return false // error-gated fork: tolerated
		}
		for _, s := range b.Succs {
			if bypass(s) {
				return true
			}
		}
		return false
	}
	if bypass(outerBody) {
		okUse = false
		detail += "; a batch can be skipped without an error condition"
	}
	r.check("B5", gs.key+"|every-element-used-unconditionally", gs.instr.Pos(), okUse, "each element of each batch reaches the sink; only error flags may gate it. "+detail)
}

// everyPathFromCreationHits: like everyPathHits from the creating call, except that the branch
// taken when the creation reported an error (the sink does not exist there) is not followed.
func everyPathFromCreationHits(creation *ssa.Call, hit func(ssa.Instruction) bool) bool {
	isCreationErr := func(v ssa.Value) bool {
		ex, ok := v.(*ssa.Extract)
		return ok && ex.Tuple == ssa.Value(creation) && ex.Index == 1
	}
	seen := map[*ssa.BasicBlock]bool{}
	var walk func(b *ssa.BasicBlock, i int) bool
	walk = func(b *ssa.BasicBlock, i int) bool {
		for ; i < len(b.Instrs); i++ {
			ins := b.Instrs[i]
			if hit(ins) {
				return true
			}
			if _, ok := ins.(*ssa.Return); ok {
				return false
			}
		}
		succs := b.Succs
		if iff, ok := b.Instrs[len(b.Instrs)-1].(*ssa.If); ok && len(succs) == 2 {
			if bo, ok := iff.Cond.(*ssa.BinOp); ok && (isCreationErr(bo.X) || isCreationErr(bo.Y)) {
				switch bo.Op {
				case token.NEQ:
					succs = succs[1:] // err != nil: the true branch is the failure
				case token.EQL:
					succs = succs[:1]
				}
			}
		}
		for _, s := range succs {
			if seen[s] {
				continue
			}
			seen[s] = true
			if !walk(s, 0) {
				return false
			}
		}
		return true
	}
	return walk(creation.Block(), instrIndex(creation)+1)
}

// isConstTripTest: cond is the header test `i < N` (N a positive constant) of a counted loop: a
// loop over the three corners of a triangle is not a condition on the triangle.
func isConstTripTest(at *ssa.BasicBlock, cond ssa.Value) bool {
	bo, ok := cond.(*ssa.BinOp)
	if !ok || bo.Op != token.LSS || at == nil {
		return false
	}
	n, isC := constInt(bo.Y)
	if !isC || n <= 0 {
		return false
	}
	for _, p := range at.Preds {
		if isBackEdge(p, at) {
			return true
		}
	}
	return false
}
