package main

import (
	"fmt"
	"go/constant"
	"go/token"
	"math/big"
	"sort"
	"strings"
)

// Term is a hash-consed-by-key symbolic scalar expression.
type Term struct {
	Op   string // "c","a","+","*","/","call","ite","cmp","join","top","conv","not"
	Args []*Term
	C    *big.Rat
	S    string
	key  string
	size int
}

// Size is the number of nodes of the term seen as a tree.
func (t *Term) Size() int {
	if t.size == 0 {
		n := 1
		for _, a := range t.Args {
			n += a.Size()
			if n > 1<<20 {
				n = 1 << 20
			}
		}
		t.size = n
	}
	return t.size
}

// termCap is the tree size above which a term collapses to top(deps).
var termCap = 6000

func (t *Term) Key() string {
	if t.key != "" {
		return t.key
	}
	var b strings.Builder
	switch t.Op {
	case "c":
		b.WriteString(t.C.RatString())
	case "a":
		b.WriteString(t.S)
	default:
		b.WriteString(t.Op)
		if t.S != "" {
			b.WriteString(":" + t.S)
		}
		b.WriteString("(")
		for i, a := range t.Args {
			if i > 0 {
				b.WriteString(",")
			}
			b.WriteString(a.Key())
		}
		b.WriteString(")")
	}
	t.key = b.String()
	return t.key
}

func (t *Term) String() string { return t.Key() }

func K(n int64) *Term         { return &Term{Op: "c", C: big.NewRat(n, 1)} }
func KR(r *big.Rat) *Term     { return &Term{Op: "c", C: new(big.Rat).Set(r)} }
func KF(f float64) *Term      { r := new(big.Rat); r.SetFloat64(f); return &Term{Op: "c", C: r} }
func A(name string) *Term     { return &Term{Op: "a", S: name} }
func (t *Term) IsConst() bool { return t.Op == "c" }
func (t *Term) IsZero() bool  { return t.Op == "c" && t.C.Sign() == 0 }
func (t *Term) IsOne() bool   { return t.Op == "c" && t.C.Cmp(big.NewRat(1, 1)) == 0 }
func sortTerms(ts []*Term)    { sort.Slice(ts, func(i, j int) bool { return ts[i].Key() < ts[j].Key() }) }
func Neg(t *Term) *Term       { return Mul(K(-1), t) }
func Sub(a, b *Term) *Term    { return Add(a, Neg(b)) }
func Call(fn string, args ...*Term) *Term {
	if fn == "math.Min" || fn == "math.Max" {
		// commutative: canonical argument order
		args = append([]*Term{}, args...)
		sortTerms(args)
		if len(args) == 2 && args[0].Key() == args[1].Key() {
			return args[0]
		}
	}
	if len(args) == 2 && strings.HasPrefix(fn, "op") {
		if tok, ok := intOpTokens[fn]; ok {
			if f, ok := foldIntOp(tok, args[0], args[1]); ok {
				return f
			}
		}
	}
	return capTerm(&Term{Op: "call", S: fn, Args: args})
}

var intOpTokens = map[string]token.Token{"op&": token.AND, "op|": token.OR, "op^": token.XOR, "op&^": token.AND_NOT, "op<<": token.SHL, "op>>": token.SHR, "op%": token.REM}

func Conv(ty string, a *Term) *Term {
	if a.Op == "c" && (ty == "float64" || ty == "int" || ty == "uint" || ty == "uint32") {
		return a
	}
	// small non-negative integer constants survive every integer conversion unchanged
	if a.Op == "c" && a.C.IsInt() && a.C.Sign() >= 0 && a.C.Cmp(big.NewRat(127, 1)) <= 0 {
		switch ty {
		case "uint8", "int8", "uint16", "int16", "int32", "int64", "uint64", "byte":
			return a
		}
	}
	return &Term{Op: "conv", S: ty, Args: []*Term{a}}
}

func Add(ts ...*Term) *Term {
	var flat []*Term
	c := new(big.Rat)
	var rec func(t *Term)
	rec = func(t *Term) {
		switch {
		case t.Op == "+":
			for _, a := range t.Args {
				rec(a)
			}
		case t.Op == "c":
			c.Add(c, t.C)
		default:
			flat = append(flat, t)
		}
	}
	for _, t := range ts {
		rec(t)
	}
	// combine like terms: coefficient * rest
	type ent struct {
		coef *big.Rat
		rest *Term
	}
	m := map[string]*ent{}
	var order []string
	for _, t := range flat {
		coef, rest := splitCoef(t)
		k := rest.Key()
		if e, ok := m[k]; ok {
			e.coef.Add(e.coef, coef)
		} else {
			m[k] = &ent{new(big.Rat).Set(coef), rest}
			order = append(order, k)
		}
	}
	var out []*Term
	for _, k := range order {
		e := m[k]
		if e.coef.Sign() == 0 {
			continue
		}
		if e.coef.Cmp(big.NewRat(1, 1)) == 0 {
			out = append(out, e.rest)
		} else {
			out = append(out, mulRaw(KR(e.coef), e.rest))
		}
	}
	if c.Sign() != 0 {
		out = append(out, KR(c))
	}
	if len(out) == 0 {
		return K(0)
	}
	if len(out) == 1 {
		return out[0]
	}
	sortTerms(out)
	return capTerm(&Term{Op: "+", Args: out})
}

func splitCoef(t *Term) (*big.Rat, *Term) {
	if t.Op == "*" && len(t.Args) > 0 && t.Args[0].Op == "c" {
		rest := t.Args[1:]
		if len(rest) == 1 {
			return t.Args[0].C, rest[0]
		}
		return t.Args[0].C, &Term{Op: "*", Args: rest}
	}
	return big.NewRat(1, 1), t
}

func mulRaw(c *Term, rest *Term) *Term {
	if rest.Op == "*" {
		return &Term{Op: "*", Args: append([]*Term{c}, rest.Args...)}
	}
	return &Term{Op: "*", Args: []*Term{c, rest}}
}

func Mul(ts ...*Term) *Term {
	var flat []*Term
	c := big.NewRat(1, 1)
	var rec func(t *Term)
	rec = func(t *Term) {
		switch {
		case t.Op == "*":
			for _, a := range t.Args {
				rec(a)
			}
		case t.Op == "c":
			c.Mul(c, t.C)
		default:
			flat = append(flat, t)
		}
	}
	for _, t := range ts {
		rec(t)
	}
	if c.Sign() == 0 {
		return K(0)
	}
	// distribute constant*sum and sum*sum lazily: only distribute when one factor is a sum (keeps polys expanded)
	for i, f := range flat {
		if f.Op == "+" {
			others := append(append([]*Term{}, flat[:i]...), flat[i+1:]...)
			var parts []*Term
			for _, a := range f.Args {
				parts = append(parts, Mul(append([]*Term{KR(c), a}, others...)...))
			}
			return Add(parts...)
		}
	}
	sortTerms(flat)
	if len(flat) == 0 {
		return KR(c)
	}
	if c.Cmp(big.NewRat(1, 1)) == 0 {
		if len(flat) == 1 {
			return flat[0]
		}
		return &Term{Op: "*", Args: flat}
	}
	return &Term{Op: "*", Args: append([]*Term{KR(c)}, flat...)}
}

func Div(a, b *Term) *Term {
	if b.Op == "c" && b.C.Sign() != 0 {
		return Mul(KR(new(big.Rat).Inv(b.C)), a)
	}
	if a.IsZero() {
		return a
	}
	return Mul(a, &Term{Op: "/", Args: []*Term{b}}) // "/"(b) == 1/b
}

func Cmp(op string, a, b *Term) *Term {
	if a.Op == "c" && b.Op == "c" {
		r := a.C.Cmp(b.C)
		var v bool
		switch op {
		case "<":
			v = r < 0
		case "<=":
			v = r <= 0
		case ">":
			v = r > 0
		case ">=":
			v = r >= 0
		case "==":
			v = r == 0
		case "!=":
			v = r != 0
		}
		if v {
			return K(1)
		}
		return K(0)
	}
	// x != y is represented as !(x == y) (exact for every Go type, NaN included), so
	// `if a == b {A} else {B}` and `if a != b {B} else {A}` produce the same conditions.
	// The ordered comparisons are not complemented: !(x < y) is not x >= y for NaN.
	if op == "!=" {
		return Not(Cmp("==", a, b))
	}
	if op == "==" && isStrictBool(a) && isStrictBool(b) {
		// equality of two truth values: a ? b : !b - so that the conditions stay inside the
		// fragment the truth-table rules enumerate
		return Ite(a, b, Not(b))
	}
	return &Term{Op: "cmp", S: op, Args: []*Term{a, b}}
}

// isStrictBool: t is a comparison, a negation, or a gated choice between such (not merely an
// atom that might be boolean).
func isStrictBool(t *Term) bool {
	switch t.Op {
	case "cmp":
		return true
	case "not":
		return isStrictBool(t.Args[0])
	case "ite":
		ok := func(x *Term) bool { return x.Op == "c" || isStrictBool(x) }
		return ok(t.Args[1]) && ok(t.Args[2])
	}
	return false
}

func Not(a *Term) *Term {
	if a.Op == "c" {
		if a.C.Sign() == 0 {
			return K(1)
		}
		return K(0)
	}
	if a.Op == "not" {
		return a.Args[0]
	}
	return &Term{Op: "not", Args: []*Term{a}}
}

func Ite(c, a, b *Term) *Term {
	if c.Op == "c" {
		if c.C.Sign() != 0 {
			return a
		}
		return b
	}
	// a is evaluated knowing c, b knowing not c
	nc := Not(c)
	if a.Op == "ite" {
		if a.Args[0].Key() == c.Key() {
			a = a.Args[1]
		} else if a.Args[0].Key() == nc.Key() {
			a = a.Args[2]
		}
	}
	if b.Op == "ite" {
		if b.Args[0].Key() == c.Key() {
			b = b.Args[2]
		} else if b.Args[0].Key() == nc.Key() {
			b = b.Args[1]
		}
	}
	if a.Key() == b.Key() {
		return a
	}
	if a.IsOne() && b.IsZero() && isBoolTerm(c) {
		return c // c ? true : false
	}
	return capTerm(&Term{Op: "ite", Args: []*Term{c, a, b}})
}

// isBoolTerm: t is 0/1 valued by construction.
func isBoolTerm(t *Term) bool {
	switch t.Op {
	case "cmp", "not":
		return true
	case "c":
		return t.IsZero() || t.IsOne()
	case "ite":
		return isBoolTerm(t.Args[1]) && isBoolTerm(t.Args[2])
	}
	return false
}

func capTerm(t *Term) *Term {
	if t.Size() > termCap {
		deps := atomList(t)
		var as []*Term
		for _, d := range deps {
			as = append(as, A(d))
		}
		return &Term{Op: "top", Args: as}
	}
	return t
}

func Join(ts ...*Term) *Term {
	m := map[string]*Term{}
	var rec func(t *Term)
	rec = func(t *Term) {
		if t == nil {
			return
		}
		if t.Op == "join" {
			for _, a := range t.Args {
				rec(a)
			}
			return
		}
		m[t.Key()] = t
	}
	for _, t := range ts {
		rec(t)
	}
	var out []*Term
	for _, t := range m {
		out = append(out, t)
	}
	if len(out) == 1 {
		return out[0]
	}
	sortTerms(out)
	return capTerm(&Term{Op: "join", Args: out})
}

// Atoms returns the set of atom names (and opaque call heads) a term depends on.
func (t *Term) Atoms(into map[string]bool) {
	if t.Op == "a" {
		if r, ok := recs[t.S]; ok {
			if !into["#"+t.S] {
				into["#"+t.S] = true
				r.Init.Atoms(into)
				r.Step.Atoms(into)
			}
			return
		}
		into[t.S] = true
	}
	if t.Op == "sel" {
		into[t.S+"[]"] = true
	}
	for _, a := range t.Args {
		a.Atoms(into)
	}
}

func atomList(t *Term) []string {
	m := map[string]bool{}
	t.Atoms(m)
	var out []string
	for k := range m {
		if len(k) > 0 && k[0] == '#' {
			continue
		}
		out = append(out, k)
	}
	sort.Strings(out)
	return out
}

// Polarity of t with respect to atom x: "+", "-", "0", "?"
func Polarity(t *Term, x string) string {
	if t.Op != "c" && t.Op != "a" && t.Key() == x {
		return "+"
	}
	switch t.Op {
	case "c":
		return "0"
	case "a":
		if t.S == x {
			return "+"
		}
		if r, ok := recs[t.S]; ok {
			if p, busy := recPol[t.S+"|"+x]; busy {
				return p
			}
			pol := "0"
			for i := 0; i < 4; i++ {
				recPol[t.S+"|"+x] = pol
				np := polJoin(polJoin(pol, Polarity(r.Init, x)), Polarity(r.Step, x))
				if np == pol {
					break
				}
				pol = np
			}
			delete(recPol, t.S+"|"+x)
			return pol
		}
		return "0"
	case "sel":
		if Polarity(t.Args[0], x) != "0" {
			return "?"
		}
		if t.S+"[]" == x || t.Key() == x {
			return "+"
		}
		return "0"
	case "+", "join":
		r := "0"
		for _, a := range t.Args {
			r = polJoin(r, Polarity(a, x))
		}
		return r
	case "*":
		// constant * single dependent factor
		sign := 1
		var dep []*Term
		for _, a := range t.Args {
			if a.Op == "c" {
				if a.C.Sign() < 0 {
					sign = -sign
				}
				continue
			}
			if Polarity(a, x) != "0" {
				dep = append(dep, a)
			} else {
				// factor independent of x but of unknown sign
				if !knownPositive(a) {
					if knownNegative(a) {
						sign = -sign
					} else {
						sign = 0
					}
				}
			}
		}
		if len(dep) == 0 {
			return "0"
		}
		if len(dep) > 1 || sign == 0 {
			return "?"
		}
		p := Polarity(dep[0], x)
		if sign < 0 {
			return polFlip(p)
		}
		return p
	case "/":
		p := Polarity(t.Args[0], x)
		if p == "0" {
			return "0"
		}
		return "?"
	case "conv":
		return Polarity(t.Args[0], x)
	case "ite":
		c := Polarity(t.Args[0], x)
		r := polJoin(Polarity(t.Args[1], x), Polarity(t.Args[2], x))
		if c != "0" {
			return "?"
		}
		return r
	case "call":
		mono, ok := monotone[t.S]
		r := "0"
		for i, a := range t.Args {
			p := Polarity(a, x)
			if p == "0" {
				continue
			}
			if !ok || i >= len(mono) {
				return "?"
			}
			switch mono[i] {
			case '+':
				r = polJoin(r, p)
			case '-':
				r = polJoin(r, polFlip(p))
			default:
				return "?"
			}
		}
		return r
	case "cmp", "not", "top":
		for _, a := range t.Args {
			if Polarity(a, x) != "0" {
				return "?"
			}
		}
		return "0"
	}
	return "?"
}

var recPol = map[string]string{}

var monotone = map[string]string{
	"math.Max": "++", "math.Min": "++", "math.Sqrt": "+", "math.Abs": "?", "math.Ceil": "+", "math.Floor": "+",
	"math.Atan": "+", "math.Exp": "+", "math.Log": "+", "math.Log2": "+", "math.Tan": "?",
	"MinFunc": "++", "MaxFunc": "++",
}

func knownPositive(t *Term) bool { return t.Op == "call" && (t.S == "math.Sqrt" || t.S == "math.Exp") }
func knownNegative(t *Term) bool { return false }

func polJoin(a, b string) string {
	if a == "0" {
		return b
	}
	if b == "0" {
		return a
	}
	if a == b {
		return a
	}
	return "?"
}
func polFlip(a string) string {
	switch a {
	case "+":
		return "-"
	case "-":
		return "+"
	}
	return a
}

var _ = fmt.Sprintf

func constantToRat(v constant.Value) (*big.Rat, bool) {
	switch v.Kind() {
	case constant.Int:
		if i, ok := constant.Int64Val(v); ok {
			return big.NewRat(i, 1), true
		}
		r, ok := new(big.Rat).SetString(v.ExactString())
		return r, ok
	case constant.Float:
		r, ok := new(big.Rat).SetString(v.ExactString())
		if ok {
			return r, true
		}
		f, _ := constant.Float64Val(v)
		return new(big.Rat).SetFloat64(f), true
	}
	return nil, false
}

// ---------------------------------------------------------------- float-faithful terms

// faithfulOp builds the node of one floating-point operation without algebraic normalisation.
func faithfulOp(op token.Token, a, b *Term) (*Term, bool) {
	switch op {
	case token.ADD:
		return fAdd(a, b), true
	case token.SUB:
		return fAdd(a, fNeg(b)), true // exact: x − y and x + (−y) round identically
	case token.MUL:
		if a.Key() > b.Key() {
			a, b = b, a
		}
		return &Term{Op: "f*", Args: []*Term{a, b}}, true // (constants are folded by the caller, not here)
	case token.QUO:
		return &Term{Op: "f/", Args: []*Term{a, b}}, true
	}
	return nil, false
}

func fAdd(a, b *Term) *Term {
	if a.IsZero() {
		return b // x + 0 = x exactly (the sign of zero is immaterial here)
	}
	if b.IsZero() {
		return a
	}
	if a.Key() > b.Key() {
		a, b = b, a
	}
	return &Term{Op: "f+", Args: []*Term{a, b}}
}

// fMul: the node of one floating-point multiplication; x*1 = x and (for finite x) x*0 = 0 are exact.
func fMul(a, b *Term) *Term {
	switch {
	case a.IsOne():
		return b
	case b.IsOne():
		return a
	case a.IsZero() || b.IsZero():
		return K(0)
	}
	if a.Key() > b.Key() {
		a, b = b, a
	}
	return &Term{Op: "f*", Args: []*Term{a, b}}
}

func fNeg(a *Term) *Term {
	if a.Op == "fneg" {
		return a.Args[0]
	}
	if a.Op == "c" {
		return KR(new(big.Rat).Neg(a.C))
	}
	return &Term{Op: "fneg", Args: []*Term{a}}
}
