package main

// C01 — bounding boxes enclose the solid they describe.
//
// Every constructor of package sdf that builds an SDF object is discovered
// and composed with the BoundingBox and Evaluate methods of what it builds.
//
//  BB-1  the box is set on every success alternative (not the zero box);
//        the only documented exception is the gyroid
//  BB-2  two-sided dependence: if the box uses an operand box's Max on an axis
//        it also uses its Min on that axis and vice versa (fix Max, move Min
//        to −∞: the material follows, a one-sided box cannot)
//  BB-3  support completeness: the box depends on a set of operands that
//        covers the solid (every operand of a min-like node, either operand of
//        a max-like node, the operand of |·|−c, not a negated operand; loops
//        through their recurrences)
//  BB-3b parameter completeness: every scalar constructor parameter the
//        composed Evaluate depends on also reaches the box (frozen exceptions)
//  BB-4  exact extents for the constructors whose extent is a closed form of
//        the operand box and the parameters (interval hull of the affine image,
//        ±offset, ±round, hull of lattice copies, radius of the twisted
//        profile ...): every required candidate occurs in the box's max/min
//  BB-5  BoundingBox() returns the stored box (or delegates to the operand)
//  BB-6  partial revolutions, per quadrant of θ: the box (evaluated numerically from
//        its closed form with θ fixed inside the quadrant) contains the extreme points
//        the profile sweeps through in that quadrant
//  BB-7  rotate-union: with num fixed the box loop is unrolled; each bound is the
//        extremum over the operand box's vertices and their images under step
//  BB-8  the unbounded shape (placeholder point box) is bounded by
//        Intersect3D(volume, shape): that box must come from the first operand alone
//
// Not decided: Cone, cams, spirals, gears, text, meshes, voxels beyond
// BB-1/2/3b; rotate-copy/rotate-union radii; every obj part.

import (
	"fmt"
	"go/types"
	"math"
	"math/big"
	"sort"
	"strings"

	"golang.org/x/tools/go/ssa"
)

func init() { register("C01", checkC01) }

type bbCtor struct {
	fn    *ssa.Function
	alt   ctorAlt
	box   map[string]*Term // "Min.X" ...
	dim   int
	evalT *Term
	key   string
}

func bbAtom(op, side, ax string) *Term {
	return A("call:" + op + ".BoundingBox()." + side + "." + ax)
}

// exemptions, each confirmed by reading the code
// bb4Ctors names the constructors BB-4 has a closed-form box for (kept in step with
// the specs table: ruleBB4 reports a checker problem for a spec that is not listed).
var bb4Ctors = map[string]bool{"NewFlange1": true, "Box3D": true, "Box2D": true, "Sphere3D": true, "Circle2D": true, "Cylinder3D": true, "Line2D": true,
	"Offset3D": true, "Offset2D": true, "Shell3D": true, "Elongate3D": true, "Elongate2D": true, "Extrude3D": true, "ExtrudeRounded3D": true,
	"Loft3D": true, "ScaleExtrude3D": true, "TwistExtrude3D": true, "Transform3D": true, "Transform2D": true, "ScaleUniform3D": true,
	"ScaleUniform2D": true, "Array3D": true, "Array2D": true, "Difference3D": true, "Difference2D": true, "Cut3D": true, "Cut2D": true}

var bb1Exempt = map[string]string{"Gyroid3D": "documented as unbounded: reports a point box and must be intersected"}
var bb2Exempt = map[string]string{"Screw3D": "the thread profile's Y is a radius (>= 0 by construction of every profile) and X is folded by the pitch sawtooth: only Max.Y matters"}
var bb3bExempt = map[string]map[string]string{
	"TwistExtrude3D":      {"twist": "rotation about the axis keeps the radial bound", "height": "enters the twist rate only; z extent is checked by BB-4"},
	"ScaleTwistExtrude3D": {"twist": "rotation about the axis keeps the radial bound"},
	"RotateCopy2D":        {"n": "rotation about the origin keeps the radial bound"},
	"RotateCopy3D":        {"num": "rotation about the axis keeps the radial bound"},
	"Cut2D":               {"a.X": "cut only removes material", "a.Y": "cut only removes material", "v.X": "cut only removes material", "v.Y": "cut only removes material"},
	"Cut3D":               {"a.X": "cut only removes", "a.Y": "cut only removes", "a.Z": "cut only removes", "n.X": "cut only removes", "n.Y": "cut only removes", "n.Z": "cut only removes"},
	"Screw3D":             {"pitch": "axial fold", "starts": "axial fold"},
	"Box2D":               {"round": "inset by round then offset by round: nominal size kept (BB-4)"},
	"Box3D":               {"round": "inset by round then offset by round: nominal size kept (BB-4)"},
	"Cylinder3D":          {"round": "inset by round then offset by round: nominal size kept (BB-4)"},
	"ExtrudeRounded3D":    {},
	"NewVoxelSDF3":        {"meshCells": "sampling density only"},
	"ArcSpiral2D":         {},
	"RevolveTheta3D":      {"theta": "selects the quadrant directions of the box (BB-6) through control flow"},
	"Gyroid3D":            {"scale.X": "unbounded shape (BB-1 exemption)", "scale.Y": "unbounded shape", "scale.Z": "unbounded shape"},
}

func checkC01(ctx *Ctx, r *Report, tier string) {
	r.Explain = "Every SDF constructor of package sdf is discovered, evaluated symbolically and composed with the BoundingBox and Evaluate methods of the object it builds. Decided per constructor: the box is set; it depends two-sidedly on every operand box it uses; it depends on a set of operands that covers the solid and on every extent-relevant parameter of the composed Evaluate; for the closed-form constructors every candidate of the exact extent (interval hull of the affine image, ±offset/round/half-thickness, lattice copies, twisted-profile radius, half heights ...) occurs in the box; the partial-revolution quadrant table is consistent. The spiral's box is evaluated against the outermost of its two ends. Containment for the numerically defined shapes (cone, cams, gears, text, meshes, voxel) and for obj parts is not decided beyond dependence. The unbounded gyroid is covered through Intersect3D's first-operand box; ScaleTwistExtrude3D's box is evaluated against the twisted-then-scaled extent; the loft's mix factor is clamped."
	r.Trusted = []string{"go/types", "go/ssa", "sdfxlint compositional symbolic evaluator", "exact polynomial identity testing", "operand boxes enclose their operands (induction over expression trees)", "blend functions never add material outside the union of the operands' offsets"}
	r.Assume = []string{"parameters are valid (constructors' own checks)", "operand boxes are ordered"}
	var ctors []bbCtor
	names := map[string]bool{}
	for _, fn := range ctx.srcFuncs("sdf") {
		if fn.Parent() != nil || fn.Signature.Recv() != nil {
			continue
		}
		res := fn.Signature.Results()
		if res.Len() == 0 || !isSDFType(res.At(0).Type()) {
			continue
		}
		alts, _ := ctorAlts(ctx, fn, "SawTooth", "Clamp")
		if len(alts) == 0 && bb4Ctors[fn.Name()] {
			// a closed-form constructor rewritten as a delegation is still that constructor
			alts, _ = ctorAltsFollow(ctx, fn, "SawTooth", "Clamp")
		}
		for _, ca := range alts {
			bm := methodOf(ctx, ca.typ, "BoundingBox")
			if bm == nil {
				continue
			}
			bres, _, err := composeMethod(ctx, ca, "BoundingBox")
			if err != nil {
				continue
			}
			m := map[string]*Term{}
			leafTerms("", bres, m)
			c := bbCtor{fn: fn, alt: ca, box: map[string]*Term{}, key: fn.Name()}
			if names[c.key] {
				c.key = fmt.Sprintf("%s#alt%d", fn.Name(), ca.idx)
			}
			names[c.key] = true
			for k, v := range m {
				c.box[strings.TrimPrefix(k, ".")] = v
			}
			c.dim = len(c.box) / 2
			if eres, _, err := composeMethod(ctx, ca, "Evaluate", "SawTooth", "Clamp"); err == nil {
				c.evalT, _ = eres.(*Term)
			}
			ctors = append(ctors, c)
		}
	}
	sort.Slice(ctors, func(i, j int) bool { return ctors[i].key < ctors[j].key })
	r.Counts["constructors"] = len(ctors)
	for i := range ctors {
		c := &ctors[i]
		ruleBB1(r, c)
		ruleBB2(r, c)
		ruleBB3(r, c)
		ruleBB3b(r, c)
	}
	r.floor("BB-1", 35)
	r.floor("BB-2", 35)
	r.floor("BB-3", 20)
	r.floor("BB-3b", 30)
	r.expectControl("BB-1", "verifCtlNoBox3D")
	r.expectControl("BB-2", "verifCtlOneSided3D")
	r.expectControl("BB-3", "verifCtlLoftOneOperand3D")
	r.expectControl("BB-3b", "verifCtlTransformNoMatrix3D")
	ruleBB4(ctx, r, ctors)
	ruleBB5(ctx, r)
	ruleBB6(ctx, r)
	ruleBB7(ctx, r)
	ruleBB8(r, ctors)
	ruleBB9(r, ctors)
	ruleBB11(r, ctors)
	ruleBB12(ctx, r)
	ruleBB13(ctx, r)
	ruleBB14(ctx, r)
	// BB-10: the loft's box (hull of both profile boxes) holds only if the profiles are mixed
	// with a factor in [0, 1] everywhere (rule shared with C02 M10)
	checkLoftMix(ctx, r, "BB-10")
}

// ruleBB9: ScaleTwistExtrude3D scales in the fixed frame what the twist has turned: at height z
// the section is the profile rotated by the twist angle and then stretched by up to scale.X
// along x and scale.Y along y (1 at the bottom, scale at the top). A profile point at radius R
// can therefore reach R·max(1, scale.X) in x and R·max(1, scale.Y) in y, whatever direction it
// started in. (The radius of the hull of the box and its scaled image - the formula this rule
// replaced in BB-4 - treats the scale as applied in the untwisted frame and is too small for
// anisotropic scales.) Decided by evaluating the closed form of the box at sample parameters:
// a refutation is a parameter set for which a box-shaped profile has material outside the box.
func ruleBB9(r *Report, ctors []bbCtor) {
	for i := range ctors {
		c := &ctors[i]
		if c.fn.Name() != "ScaleTwistExtrude3D" {
			continue
		}
		op := paramName(c.fn, 0)
		hN, sN := paramName(c.fn, 1), paramName(c.fn, 3)
		bad, tried := "", 0
		boxes := [][4]float64{{-1, -10, 1, 10}, {-10, -1, 10, 1}, {2, 3, 5, 4}, {-6, -2, -5, 7}, {-1, -1, 1, 1}, {0, 0, 3, 0.5}}
		scales := [][2]float64{{3, 1}, {1, 3}, {0.5, 2}, {2, 2}, {0.5, 0.5}, {1, 1}, {4, 0.25}}
		for _, b := range boxes {
			for _, sc := range scales {
				env := map[string]float64{
					bbAtom(op, "Min", "X").S: b[0], bbAtom(op, "Min", "Y").S: b[1], bbAtom(op, "Max", "X").S: b[2], bbAtom(op, "Max", "Y").S: b[3],
					hN: 10, paramName(c.fn, 2): 3.141592653589793, sN + ".X": sc[0], sN + ".Y": sc[1],
				}
				R := 0.0
				for _, x := range []float64{b[0], b[2]} {
					for _, y := range []float64{b[1], b[3]} {
						R = math.Max(R, math.Hypot(x, y))
					}
				}
				want := map[string]float64{
					"Max.X": R * math.Max(1, sc[0]), "Min.X": -R * math.Max(1, sc[0]),
					"Max.Y": R * math.Max(1, sc[1]), "Min.Y": -R * math.Max(1, sc[1]),
					"Max.Z": 5, "Min.Z": -5,
				}
				okAll := true
				for comp, w := range want {
					t := c.box[comp]
					if t == nil {
						okAll = false
						continue
					}
					g, ok := evalFloat(stripConv(t), env)
					if !ok {
						okAll = false
						continue
					}
					short := (strings.HasPrefix(comp, "Max.") && g < w-1e-9*math.Abs(w)) || (strings.HasPrefix(comp, "Min.") && g > w+1e-9*math.Abs(w))
					if short && len(bad) < 300 {
						bad += fmt.Sprintf(" profile box [%g,%g]x[%g,%g], scale (%g,%g): %s = %.4g, the twisted and scaled profile reaches %.4g;", b[0], b[2], b[1], b[3], sc[0], sc[1], comp, g, w)
					}
				}
				if okAll {
					tried++
				}
			}
		}
		if tried == 0 {
			r.undecided("BB-9", c.key, c.fn.Pos(), "the box is not a closed form that can be evaluated")
			continue
		}
		r.check("BB-9", c.key+"|box-covers-the-twisted-then-scaled-profile", c.fn.Pos(), bad == "", fmt.Sprintf("%d parameter sets: |x| <= R·max(1,scale.X), |y| <= R·max(1,scale.Y), |z| <= height/2 must be inside the box;%s", tried, bad))
	}
	r.floor("BB-9", 1)
}

// ruleBB11: the Archimedean spiral r = a·θ + k, θ between start and end (given in either order),
// thickened by d. |r| is linear in θ between the ends, so the outermost point of the curve is at
// one of the two ends - which one depends on the signs of a, k and the angles (an inward spiral
// has it at the start) - and the solid reaches max(|r(start)|, |r(end)|) + d from the origin in
// every direction. Decided by evaluating the closed form of the box at parameter sets for outward,
// inward, negative-angle, reversed and through-the-origin spirals.
func ruleBB11(r *Report, ctors []bbCtor) {
	for i := range ctors {
		c := &ctors[i]
		if c.fn.Name() != "ArcSpiral2D" {
			continue
		}
		names := make([]string, 5)
		for j := range names {
			names[j] = paramName(c.fn, j)
		}
		sets := [][5]float64{{1, 20, 0.7853981633974483, 50.26548245743669, 1}, {-1, 60, 0, 50, 1}, {1, 5, -30, 2, 0.5},
			{1, 20, 50.26548245743669, 0.7853981633974483, 1}, {-1, 60, 50, 0, 2}, {2, -10, 0, 20, 1}, {2, -30, 0, 20, 1}, {-0.5, 2, -3, 40, 0.25}}
		bad, tried := "", 0
		for _, ps := range sets {
			env := map[string]float64{}
			for j, n := range names {
				env[n] = ps[j]
			}
			R := math.Max(math.Abs(ps[0]*ps[2]+ps[1]), math.Abs(ps[0]*ps[3]+ps[1])) + ps[4]
			okAll := true
			for _, comp := range []string{"Max.X", "Max.Y", "Min.X", "Min.Y"} {
				t := c.box[comp]
				if t == nil {
					okAll = false
					continue
				}
				g, ok := evalFloat(stripConv(t), env)
				if !ok {
					okAll = false
					continue
				}
				w := R
				if strings.HasPrefix(comp, "Min.") {
					w = -R
				}
				short := (w > 0 && g < w-1e-9*R) || (w < 0 && g > w+1e-9*R)
				if short && len(bad) < 300 {
					bad += fmt.Sprintf(" a=%g k=%g start=%g end=%g d=%g: %s = %.4g, the spiral reaches %.4g;", ps[0], ps[1], ps[2], ps[3], ps[4], comp, g, w)
				}
			}
			if okAll {
				tried++
			}
		}
		if tried == 0 {
			r.undecided("BB-11", c.key, c.fn.Pos(), "the box is not a closed form that can be evaluated: "+shortKey(c.box["Max.X"].Key(), 200))
			continue
		}
		r.check("BB-11", c.key+"|box-covers-the-outermost-end", c.fn.Pos(), bad == "" && tried == len(sets), fmt.Sprintf("%d of %d parameter sets evaluated: max(|a·start+k|, |a·end+k|) + d must be inside the box on every axis;%s", tried, len(sets), bad))
	}
	r.floor("BB-11", 1)
}

// ruleBB13: a blend function installed after construction. The box of the min-like combinators
// (unions, arrays, rotate-copies) is the hull of the operand boxes, right for the plain minimum.
// The library's own blend functions go below the minimum - poly(a, a, k) = a − k/4 - so a
// blended combinator has material up to the blend's reach outside the boxes of its operands
// (between two boxes side by side: above and below their junction, outside the hull). SetMin
// therefore has to widen the stored box, or BoundingBox has to account for the function; a
// SetMin that only stores the function leaves the box too small. (SetMax on intersections and
// differences removes material; those boxes stay valid.)
func ruleBB13(ctx *Ctx, r *Report) {
	n := 0
	type setter struct {
		im   sdfImpl
		name string
	}
	var setters []setter
	for _, im := range sdfImplementers(ctx) {
		// SetMin installs a blend; SetExtrude installs another mapping of the profile (a twist
		// turns it, a scale stretches it) under a box computed for the plain extrusion
		for _, nm := range []string{"SetMin", "SetExtrude"} {
			setters = append(setters, setter{im, nm})
		}
	}
	for _, sp := range setters {
		im := sp.im
		set := methodOf(ctx, im.t, sp.name)
		bbm := methodOf(ctx, im.t, "BoundingBox")
		if set == nil || len(set.Blocks) == 0 || bbm == nil {
			continue
		}
		n++
		isBox := func(t types.Type) bool {
			ts := t.String()
			return strings.HasSuffix(ts, "sdf.Box2") || strings.HasSuffix(ts, "sdf.Box3")
		}
		isMinFn := func(t types.Type) bool {
			return strings.HasSuffix(t.String(), "sdf.MinFunc") || strings.HasSuffix(t.String(), "sdf.ExtrudeFunc")
		}
		// (a) SetMin, or a module function it calls, writes a box-typed field (or part of one)
		writesBox := false
		seen := map[*ssa.Function]bool{}
		var scan func(f *ssa.Function, depth int)
		scan = func(f *ssa.Function, depth int) {
			if f == nil || seen[f] || depth > 4 || len(f.Blocks) == 0 || !inModule(f) {
				return
			}
			seen[f] = true
			allInstrs(f, func(_ *ssa.BasicBlock, ins ssa.Instruction) {
				switch x := ins.(type) {
				case *ssa.Store:
					for a := x.Addr; a != nil; {
						fa, ok := a.(*ssa.FieldAddr)
						if !ok {
							break
						}
						if pt, ok := fa.Type().Underlying().(*types.Pointer); ok && isBox(pt.Elem()) {
							writesBox = true
						}
						a = fa.X
					}
				case *ssa.Call:
					scan(x.Call.StaticCallee(), depth+1)
				}
			})
		}
		scan(set, 0)
		// (b) BoundingBox consults the blend function (or a flag SetMin sets)
		setFields := map[int]bool{}
		allInstrs(set, func(_ *ssa.BasicBlock, ins ssa.Instruction) {
			if st, ok := ins.(*ssa.Store); ok {
				if fa, ok := st.Addr.(*ssa.FieldAddr); ok && len(set.Params) > 0 && fa.X == ssa.Value(set.Params[0]) {
					setFields[fa.Field] = true
				}
			}
		})
		readsBlend := false
		if len(bbm.Blocks) > 0 {
			allInstrs(bbm, func(_ *ssa.BasicBlock, ins ssa.Instruction) {
				if fa, ok := ins.(*ssa.FieldAddr); ok && len(bbm.Params) > 0 && fa.X == ssa.Value(bbm.Params[0]) {
					if pt, ok := fa.Type().Underlying().(*types.Pointer); ok && (isMinFn(pt.Elem()) || (setFields[fa.Field] && !isBox(pt.Elem()))) {
						readsBlend = true
					}
				}
			})
		}
		why := "a blend function goes below the minimum (poly(a, a, k) = a − k/4), so installing one adds material outside the hull of the operand boxes: SetMin must widen the stored box or BoundingBox must account for the function; here SetMin only stores it"
		if sp.name == "SetExtrude" {
			why = "an extrusion function maps the query point before the profile is evaluated (TwistExtrude turns it, ScaleExtrude stretches it), so installing one moves material outside the box of the plain extrusion: SetExtrude must recompute the stored box or BoundingBox must account for the function; here SetExtrude only stores it"
		}
		r.check("BB-13", "("+typeShort(im.t)+")."+sp.name, set.Pos(), writesBox || readsBlend, why)
	}
	r.floor("BB-13", 4)
}

// ruleBB12: the voxel cache interpolates samples taken inside its box and reports that box. For
// a point outside the box there is nothing to interpolate: an index computed from the raw point
// reads corners that were never stored (the map yields 0) and the interpolation weights leave
// [0, 1], so whole regions beyond the faces come out negative - material outside the box.
// Decided on the closed form of VoxelSDF3.Evaluate: the keys of every lookup in the sample map
// depend on the query point only through a clamp to the box (Clamp, or min/max with its bounds).
func ruleBB12(ctx *Ctx, r *Report) {
	fn := ctx.ssaFunc("sdf", "(*VoxelSDF3).Evaluate")
	if fn == nil {
		r.undecided("BB-12", "VoxelSDF3.Evaluate", 0, "not found")
		return
	}
	ev := newEval(ctx, "Clamp")
	ev.evalRoot(fn)
	pn := paramName(fn, 1)
	n, bad := 0, ""
	for _, e := range ev.Events {
		if e.Callee != "maplookup" || len(e.Args) < 2 {
			continue
		}
		n++
		m := map[string]*Term{}
		leafTerms("", e.Args[1], m)
		for k, t := range m {
			raw := findSub(t, func(x *Term) bool { return x.Op == "a" && strings.HasPrefix(x.S, pn+".") })
			// occurrences under a clamp are fine: remove them and look again
			stripped := rebuild(t, func(x *Term) *Term {
				if x.Op == "call" && (strings.HasSuffix(x.S, ".Clamp") || x.S == "Clamp" || x.S == "math.Max" || x.S == "math.Min") {
					return K(0)
				}
				if x.Op == "a" && strings.Contains(x.S, "Clamp(") {
					return K(0)
				}
				return nil
			})
			left := findSub(stripped, func(x *Term) bool { return x.Op == "a" && strings.HasPrefix(x.S, pn+".") })
			if len(raw) > 0 && len(left) > 0 && !strings.Contains(bad, "index"+k) {
				bad += fmt.Sprintf(" index%s of a sample lookup is computed from the unclamped query point: %s;", k, shortKey(t.Key(), 120))
			}
		}
	}
	if n == 0 {
		r.undecided("BB-12", "VoxelSDF3.Evaluate", fn.Pos(), "no lookup in the sample map found")
		return
	}
	r.check("BB-12", "VoxelSDF3.Evaluate|samples-are-read-for-a-point-of-the-box", fn.Pos(), bad == "", fmt.Sprintf("%d lookups;%s", n, bad))
	r.floor("BB-12", 1)
}

// ruleBB8: the one shape documented as unbounded (its box is a placeholder point, its material is
// everywhere) is used by intersecting it with a bounding volume: Intersect3D(volume, unbounded).
// That use encloses its solid only if the intersection's box does not shrink with the second
// operand's box - the placeholder and the intersection are two sites that each look fine alone.
func ruleBB8(r *Report, ctors []bbCtor) {
	var unbounded []string
	for i := range ctors {
		c := &ctors[i]
		if _, ex := bb1Exempt[c.fn.Name()]; !ex || c.dim != 3 {
			continue
		}
		allZero := true
		for _, t := range c.box {
			allZero = allZero && t.IsZero()
		}
		if allZero && c.evalT != nil && len(atomList(c.evalT)) > 0 {
			unbounded = append(unbounded, c.fn.Name())
		}
	}
	for i := range ctors {
		c := &ctors[i]
		if c.fn.Name() != "Intersect3D" {
			continue
		}
		key := c.key + "|box-valid-with-an-unbounded-second-operand"
		if len(unbounded) == 0 {
			r.check("BB-8", key, c.fn.Pos(), true, "no shape reports a placeholder box: nothing relies on the intersection ignoring its second operand's box")
			continue
		}
		first := paramName(c.fn, 0)
		var others []string
		for op := range operandBoxUse(c.boxAtoms()) {
			if op != first {
				others = append(others, op)
			}
		}
		sort.Strings(others)
		r.check("BB-8", key, c.fn.Pos(), len(others) == 0, fmt.Sprintf("%v report a placeholder point box and are bounded by Intersect3D(volume, shape): the intersection's box must come from the first operand alone, it also follows the box of %v", unbounded, others))
	}
	r.floor("BB-8", 1)
}

func (c *bbCtor) boxAtoms() map[string]bool {
	m := map[string]bool{}
	for _, t := range c.box {
		t.Atoms(m)
	}
	return m
}

func ruleBB1(r *Report, c *bbCtor) {
	allZero := true
	for _, t := range c.box {
		if !t.IsZero() {
			allZero = false
		}
	}
	ok := len(c.box) >= 4 && !allZero
	if why, ex := bb1Exempt[c.fn.Name()]; ex {
		r.check("BB-1", c.key, c.fn.Pos(), true, "exempt: "+why)
		return
	}
	r.check("BB-1", c.key, c.fn.Pos(), ok, fmt.Sprintf("%d box components; a zero box makes renderers sample nothing", len(c.box)))
}

var axes3 = []string{"X", "Y", "Z"}

// operandBoxUse: for every operand path o (the text before .BoundingBox()),
// which (side, axis) pairs occur among the atoms.
func operandBoxUse(atoms map[string]bool) map[string]map[string]bool {
	out := map[string]map[string]bool{}
	for a := range atoms {
		i := strings.Index(a, ".BoundingBox().")
		if i < 0 || !strings.HasPrefix(a, "call:") {
			continue
		}
		op := a[len("call:"):i]
		rest := a[i+len(".BoundingBox()."):]
		if out[op] == nil {
			out[op] = map[string]bool{}
		}
		out[op][rest] = true
	}
	return out
}

func ruleBB2(r *Report, c *bbCtor) {
	use := operandBoxUse(c.boxAtoms())
	bad := ""
	for op, u := range use {
		for _, ax := range axes3 {
			if u["Max."+ax] != u["Min."+ax] {
				bad += fmt.Sprintf(" operand %s axis %s: only %s is used;", shortKey(op, 40), ax, map[bool]string{true: "Max", false: "Min"}[u["Max."+ax]])
			}
		}
	}
	if why, ex := bb2Exempt[c.fn.Name()]; ex {
		r.check("BB-2", c.key, c.fn.Pos(), true, "exempt: "+why)
		return
	}
	r.check("BB-2", c.key, c.fn.Pos(), bad == "", "a box that follows only one corner of an operand box loses material when the other corner moves:"+bad)
}

// normOp strips loop indices from an operand path: "x[+(1,μ3)]" -> "x[]".
func normOp(op string) string {
	var b strings.Builder
	depth := 0
	for _, ch := range op {
		switch ch {
		case '[':
			if depth == 0 {
				b.WriteString("[]")
			}
			depth++
		case ']':
			depth--
		default:
			if depth == 0 {
				b.WriteRune(ch)
			}
		}
	}
	return b.String()
}

// supportOK evaluates the requirement formula of BB-3 on term t.
func supportOK(t *Term, dep func(op string) bool, seen map[string]bool, missing *[]string) bool {
	switch t.Op {
	case "c":
		return true
	case "a":
		if rc, ok := recs[t.S]; ok {
			if seen[t.S] {
				return true
			}
			seen[t.S] = true
			a := supportOK(rc.Init, dep, seen, missing)
			b := supportOK(rc.Step, dep, seen, missing)
			return a && b
		}
		return true
	case "call":
		if strings.HasSuffix(t.S, ".Evaluate") {
			op := strings.TrimSuffix(t.S, ".Evaluate")
			if dep(op) {
				return true
			}
			*missing = append(*missing, op)
			return false
		}
		switch t.S {
		case "math.Max", "MaxFunc":
			var m2 []string
			for _, a := range t.Args {
				var mm []string
				if hasOperand(a) && supportOK(a, dep, seen, &mm) {
					return true
				}
				m2 = append(m2, mm...)
			}
			// no operand at all below a max: a primitive clip
			any := false
			for _, a := range t.Args {
				if hasOperand(a) {
					any = true
				}
			}
			if !any {
				return true
			}
			*missing = append(*missing, m2...)
			return false
		default:
			ok := true
			for _, a := range t.Args {
				if !supportOK(a, dep, seen, missing) {
					ok = false
				}
			}
			return ok
		}
	case "+", "*":
		// an operand that enters only negatively contributes its complement: unbounded
		ok := true
		for _, oc := range findSub(t, func(x *Term) bool { return x.Op == "call" && strings.HasSuffix(x.S, ".Evaluate") }) {
			if Polarity(t, oc.Key()) == "-" {
				*missing = append(*missing, "(negated "+strings.TrimSuffix(oc.S, ".Evaluate")+")")
				ok = false
			}
		}
		if !ok {
			return false
		}
	}
	ok := true
	for i, a := range t.Args {
		if t.Op == "ite" && i == 0 {
			continue
		}
		if !supportOK(a, dep, seen, missing) {
			ok = false
		}
	}
	return ok
}

func hasOperand(t *Term) bool {
	return len(findSub(t, func(x *Term) bool {
		if x.Op == "call" && strings.HasSuffix(x.S, ".Evaluate") {
			return true
		}
		if x.Op == "a" {
			if rc, ok := recs[x.S]; ok {
				return len(findSub(rc.Step, func(y *Term) bool { return y.Op == "call" && strings.HasSuffix(y.S, ".Evaluate") })) > 0
			}
		}
		return false
	})) > 0
}

func ruleBB3(r *Report, c *bbCtor) {
	if c.evalT == nil || !hasOperand(c.evalT) {
		return
	}
	use := operandBoxUse(c.boxAtoms())
	deps := map[string]bool{}
	for op := range use {
		deps[normOp(op)] = true
	}
	var missing []string
	params := map[string]bool{}
	for _, p := range c.fn.Params {
		params[p.Name()] = true
	}
	ok := supportOK(c.evalT, func(op string) bool {
		if deps[normOp(op)] {
			return true
		}
		// an operand the constructor builds itself from its parameters (a tooth, a
		// profile polygon) has no box the result could depend on by name
		base := op
		if i := strings.IndexAny(op, ".[("); i >= 0 {
			base = op[:i]
		}
		return !params[base] && !strings.HasPrefix(op, "μ")
	}, map[string]bool{}, &missing)
	var ds []string
	for d := range deps {
		ds = append(ds, shortKey(d, 40))
	}
	sort.Strings(ds)
	r.check("BB-3", c.key, c.fn.Pos(), ok, fmt.Sprintf("box depends on operands %v; operands whose material the solid can contain but the box ignores: %v", ds, missing))
}

func ruleBB3b(r *Report, c *bbCtor) {
	if c.evalT == nil {
		return
	}
	params := map[string]bool{}
	for _, p := range c.fn.Params {
		params[p.Name()] = true
	}
	isParamAtom := func(a string) (string, bool) {
		base := a
		if i := strings.IndexAny(a, ".["); i >= 0 {
			base = a[:i]
		}
		if strings.HasPrefix(a, "call:") || strings.HasPrefix(a, "len(") {
			return "", false
		}
		return base, params[base]
	}
	em := map[string]bool{}
	c.evalT.Atoms(em)
	bm := c.boxAtoms()
	// a parameter reaches the box if any of its components does
	reach := map[string]bool{}
	for a := range bm {
		if b, ok := isParamAtom(a); ok {
			reach[b] = true
			reach[a] = true
		}
	}
	ex := bb3bExempt[c.fn.Name()]
	var bad, exempted []string
	seenP := map[string]bool{}
	for a := range em {
		b, ok := isParamAtom(a)
		if !ok || seenP[a] {
			continue
		}
		seenP[a] = true
		if reach[a] || reach[b] {
			continue
		}
		if why, isEx := ex[a]; isEx {
			exempted = append(exempted, a+" ("+why+")")
			continue
		}
		if why, isEx := ex[b]; isEx {
			exempted = append(exempted, a+" ("+why+")")
			continue
		}
		bad = append(bad, a)
	}
	sort.Strings(bad)
	sort.Strings(exempted)
	r.check("BB-3b", c.key, c.fn.Pos(), len(bad) == 0, fmt.Sprintf("parameters the composed Evaluate depends on but the box does not: %v; frozen exceptions applied: %v", bad, exempted))
}

// ---------------------------------------------------------------- BB-4 exact extents

type bb4spec struct {
	ctor string
	// per box component, the candidates that must occur among the leaves of
	// the component's math.Max (for Max.*) / math.Min (for Min.*) nest
	want func() map[string][]*Term
	note string
}

// leavesOf flattens nested fn (math.Max / math.Min) calls; a sum with exactly
// one such call distributes: max(a,b)+c = max(a+c, b+c).
func leavesOf(t *Term, fn string) []*Term {
	var out []*Term
	var walk func(x *Term, add *Term)
	walk = func(x *Term, add *Term) {
		if x.Op == "call" && x.S == fn {
			for _, a := range x.Args {
				walk(a, add)
			}
			return
		}
		// a negative multiple of the dual nest: −max(a, b) = min(−a, −b)
		if x.Op == "*" && len(x.Args) == 2 && add.IsZero() {
			dual := "math.Min"
			if fn == "math.Min" {
				dual = "math.Max"
			}
			k, c := x.Args[0], x.Args[1]
			if c.Op == "c" {
				k, c = c, k
			}
			if k.Op == "c" && k.C.Sign() < 0 && c.Op == "call" && c.S == dual {
				for _, l := range leavesOf(c, dual) {
					out = append(out, Mul(k, l))
				}
				return
			}
		}
		if x.Op == "+" {
			var calls, rest []*Term
			for _, a := range x.Args {
				if a.Op == "call" && a.S == fn {
					calls = append(calls, a)
				} else {
					rest = append(rest, a)
				}
			}
			if len(calls) == 1 {
				walk(calls[0], Add(append([]*Term{add}, rest...)...))
				return
			}
		}
		out = append(out, Add(x, add))
	}
	walk(t, K(0))
	return out
}

func ruleBB4(ctx *Ctx, r *Report, ctors []bbCtor) {
	hf := func(t *Term) *Term { return Mul(KR(big.NewRat(1, 2)), t) }
	bb := func(op string) func(side, ax string) *Term {
		return func(side, ax string) *Term { return bbAtom(op, side, ax) }
	}
	// symmetric about zero: Max = v, Min = -v
	sym := func(m map[string][]*Term, ax string, v *Term) {
		m["Max."+ax] = []*Term{v}
		m["Min."+ax] = []*Term{Neg(v)}
	}
	passXY := func(m map[string][]*Term, op string, add *Term) {
		for _, ax := range []string{"X", "Y"} {
			m["Max."+ax] = []*Term{Add(bbAtom(op, "Max", ax), add)}
			m["Min."+ax] = []*Term{Sub(bbAtom(op, "Min", ax), add)}
		}
	}
	enlarge := func(op string, dim int, d *Term) map[string][]*Term {
		m := map[string][]*Term{}
		for _, ax := range axes3[:dim] {
			m["Max."+ax] = []*Term{Add(bbAtom(op, "Max", ax), d)}
			m["Min."+ax] = []*Term{Sub(bbAtom(op, "Min", ax), d)}
		}
		return m
	}
	maxRadius := func(mx func(ax string) *Term, mn func(ax string) *Term) *Term {
		x := Call("math.Max", Call("math.Abs", mn("X")), Call("math.Abs", mx("X")))
		y := Call("math.Max", Call("math.Abs", mn("Y")), Call("math.Abs", mx("Y")))
		return Call("math.Sqrt", Add(Mul(x, x), Mul(y, y)))
	}
	affineHull := func(op, mat string, dim int) map[string][]*Term {
		n := dim + 1
		m := map[string][]*Term{}
		for i, ax := range axes3[:dim] {
			mx := A(fmt.Sprintf("%s[%d]", mat, i*n+dim))
			mn := A(fmt.Sprintf("%s[%d]", mat, i*n+dim))
			var tmx, tmn *Term = mx, mn
			for j, aj := range axes3[:dim] {
				e := A(fmt.Sprintf("%s[%d]", mat, i*n+j))
				a, b := Mul(e, bbAtom(op, "Min", aj)), Mul(e, bbAtom(op, "Max", aj))
				tmx = Add(tmx, Call("math.Max", a, b))
				tmn = Add(tmn, Call("math.Min", a, b))
			}
			m["Max."+ax] = []*Term{tmx}
			m["Min."+ax] = []*Term{tmn}
		}
		return m
	}
	specs := []bb4spec{
		{"NewFlange1", func() map[string][]*Term {
			// three circles: (0,0) radius centerRadius, (±distance,0) radius sideRadius, and their hull
			m := map[string][]*Term{}
			sym(m, "X", Add(A("distance"), A("sideRadius")))
			m["Max.Y"] = []*Term{A("centerRadius"), A("sideRadius")}
			m["Min.Y"] = []*Term{Neg(A("centerRadius")), Neg(A("sideRadius"))}
			return m
		}, "hull of the centre circle and the two side circles (either may be the larger)"},
		{"Box3D", func() map[string][]*Term {
			m := map[string][]*Term{}
			for _, ax := range axes3 {
				sym(m, ax, hf(A("size."+ax)))
			}
			return m
		}, "±size/2 (rounding is an inset followed by an offset)"},
		{"Box2D", func() map[string][]*Term {
			m := map[string][]*Term{}
			for _, ax := range axes3[:2] {
				sym(m, ax, hf(A("size."+ax)))
			}
			return m
		}, "±size/2"},
		{"Sphere3D", func() map[string][]*Term {
			m := map[string][]*Term{}
			for _, ax := range axes3 {
				sym(m, ax, A("radius"))
			}
			return m
		}, "±radius"},
		{"Circle2D", func() map[string][]*Term {
			m := map[string][]*Term{}
			for _, ax := range axes3[:2] {
				sym(m, ax, A("radius"))
			}
			return m
		}, "±radius"},
		{"Cylinder3D", func() map[string][]*Term {
			m := map[string][]*Term{}
			sym(m, "X", A("radius"))
			sym(m, "Y", A("radius"))
			sym(m, "Z", hf(A("height")))
			return m
		}, "(±radius, ±radius, ±height/2)"},
		{"Line2D", func() map[string][]*Term {
			m := map[string][]*Term{}
			sym(m, "X", Add(hf(A("l")), A("round")))
			sym(m, "Y", A("round"))
			return m
		}, "(±(l/2+round), ±round)"},
		{"Offset3D", func() map[string][]*Term { return enlarge("sdf", 3, A("offset")) }, "operand box ± offset"},
		{"Offset2D", func() map[string][]*Term { return enlarge("sdf", 2, A("offset")) }, "operand box ± offset"},
		{"Shell3D", func() map[string][]*Term { return enlarge("sdf", 3, hf(A("thickness"))) }, "operand box ± thickness/2"},
		{"Elongate3D", func() map[string][]*Term {
			m := map[string][]*Term{}
			for _, ax := range axes3 {
				d := hf(Call("math.Abs", A("h."+ax)))
				m["Max."+ax] = []*Term{Add(bbAtom("sdf", "Max", ax), d)}
				m["Min."+ax] = []*Term{Sub(bbAtom("sdf", "Min", ax), d)}
			}
			return m
		}, "operand box ± |h|/2"},
		{"Elongate2D", func() map[string][]*Term {
			m := map[string][]*Term{}
			for _, ax := range axes3[:2] {
				d := hf(Call("math.Abs", A("h."+ax)))
				m["Max."+ax] = []*Term{Add(bbAtom("sdf", "Max", ax), d)}
				m["Min."+ax] = []*Term{Sub(bbAtom("sdf", "Min", ax), d)}
			}
			return m
		}, "operand box ± |h|/2"},
		{"Extrude3D", func() map[string][]*Term {
			m := map[string][]*Term{}
			passXY(m, "sdf", K(0))
			sym(m, "Z", hf(A("height")))
			return m
		}, "profile box × ±height/2"},
		{"ExtrudeRounded3D", func() map[string][]*Term {
			m := map[string][]*Term{}
			passXY(m, "sdf", A("round"))
			sym(m, "Z", hf(A("height")))
			return m
		}, "(profile box ± round) × ±height/2"},
		{"Loft3D", func() map[string][]*Term {
			m := map[string][]*Term{}
			for _, ax := range []string{"X", "Y"} {
				m["Max."+ax] = []*Term{Add(bbAtom("sdf0", "Max", ax), A("round")), Add(bbAtom("sdf1", "Max", ax), A("round"))}
				m["Min."+ax] = []*Term{Sub(bbAtom("sdf0", "Min", ax), A("round")), Sub(bbAtom("sdf1", "Min", ax), A("round"))}
			}
			sym(m, "Z", hf(A("height")))
			return m
		}, "hull of both profile boxes ± round, ±height/2"},
		{"ScaleExtrude3D", func() map[string][]*Term {
			m := map[string][]*Term{}
			for _, ax := range []string{"X", "Y"} {
				m["Max."+ax] = []*Term{bbAtom("sdf", "Max", ax), Mul(bbAtom("sdf", "Max", ax), A("scale."+ax))}
				m["Min."+ax] = []*Term{bbAtom("sdf", "Min", ax), Mul(bbAtom("sdf", "Min", ax), A("scale."+ax))}
			}
			sym(m, "Z", hf(A("height")))
			return m
		}, "hull of the profile box and its scaled image"},
		{"TwistExtrude3D", func() map[string][]*Term {
			m := map[string][]*Term{}
			b := bb("sdf")
			R := maxRadius(func(ax string) *Term { return b("Max", ax) }, func(ax string) *Term { return b("Min", ax) })
			sym(m, "X", R)
			sym(m, "Y", R)
			sym(m, "Z", hf(A("height")))
			return m
		}, "±(distance of the farthest profile-box corner from the axis)"},
		{"Transform3D", func() map[string][]*Term { return affineHull("sdf", "matrix", 3) }, "interval hull of the affine image of the operand box"},
		{"Transform2D", func() map[string][]*Term { return affineHull("sdf", "m", 2) }, "interval hull of the affine image of the operand box"},
		{"ScaleUniform3D", func() map[string][]*Term {
			m := map[string][]*Term{}
			for _, ax := range axes3 {
				m["Max."+ax] = []*Term{Mul(A("k"), bbAtom("sdf", "Max", ax)), Mul(A("k"), bbAtom("sdf", "Min", ax))}
				m["Min."+ax] = []*Term{Mul(A("k"), bbAtom("sdf", "Max", ax)), Mul(A("k"), bbAtom("sdf", "Min", ax))}
			}
			return m
		}, "k · operand box (hull, either sign of k)"},
		{"ScaleUniform2D", func() map[string][]*Term {
			m := map[string][]*Term{}
			for _, ax := range axes3[:2] {
				m["Max."+ax] = []*Term{Mul(A("k"), bbAtom("sdf", "Max", ax)), Mul(A("k"), bbAtom("sdf", "Min", ax))}
				m["Min."+ax] = []*Term{Mul(A("k"), bbAtom("sdf", "Max", ax)), Mul(A("k"), bbAtom("sdf", "Min", ax))}
			}
			return m
		}, "k · operand box"},
		{"Array3D", func() map[string][]*Term {
			m := map[string][]*Term{}
			for _, ax := range axes3 {
				sh := Mul(Conv("float64", Sub(A("num."+ax), K(1))), A("step."+ax))
				m["Max."+ax] = []*Term{bbAtom("sdf", "Max", ax), Add(bbAtom("sdf", "Max", ax), sh)}
				m["Min."+ax] = []*Term{bbAtom("sdf", "Min", ax), Add(bbAtom("sdf", "Min", ax), sh)}
			}
			return m
		}, "hull of the operand box and its copy shifted by (num−1)·step"},
		{"Array2D", func() map[string][]*Term {
			m := map[string][]*Term{}
			for _, ax := range axes3[:2] {
				sh := Mul(Conv("float64", Sub(A("num."+ax), K(1))), A("step."+ax))
				m["Max."+ax] = []*Term{bbAtom("sdf", "Max", ax), Add(bbAtom("sdf", "Max", ax), sh)}
				m["Min."+ax] = []*Term{bbAtom("sdf", "Min", ax), Add(bbAtom("sdf", "Min", ax), sh)}
			}
			return m
		}, "hull of the operand box and its copy shifted by (num−1)·step"},
		{"Difference3D", func() map[string][]*Term { return enlarge("s0", 3, K(0)) }, "box of the operand material is removed from"},
		{"Difference2D", func() map[string][]*Term { return enlarge("s0", 2, K(0)) }, "box of the operand material is removed from"},
		{"Cut3D", func() map[string][]*Term { return enlarge("sdf", 3, K(0)) }, "operand box (cut only removes)"},
		{"Cut2D", func() map[string][]*Term { return enlarge("sdf", 2, K(0)) }, "operand box (cut only removes)"},
	}
	byName := map[string][]*bbCtor{}
	for i := range ctors {
		byName[ctors[i].fn.Name()] = append(byName[ctors[i].fn.Name()], &ctors[i])
	}
	for _, sp := range specs {
		cs := byName[sp.ctor]
		if !bb4Ctors[sp.ctor] {
			r.undecided("BB-4", sp.ctor, 0, "checker table bb4Ctors does not list this specification")
		}
		if len(cs) == 0 {
			r.undecided("BB-4", sp.ctor, 0, "constructor not found or builds nothing")
			continue
		}
		for _, c := range cs {
			want := sp.want()
			bad := ""
			if len(want) != len(c.box) {
				bad += fmt.Sprintf(" box has %d components, spec %d;", len(c.box), len(want))
			}
			for comp, cands := range want {
				got := c.box[comp]
				if got == nil {
					bad += " " + comp + " missing;"
					continue
				}
				fn := "math.Max"
				if strings.HasPrefix(comp, "Min.") {
					fn = "math.Min"
				}
				ls := leavesOf(got, fn)
				for _, w := range cands {
					found := false
					for _, l := range ls {
						if equalRat(l, w) {
							found = true
						}
					}
					// a candidate that is itself a max/min of leaves all present is fine too
					if !found {
						sub := leavesOf(w, fn)
						if len(sub) > 1 {
							found = true
							for _, s := range sub {
								ok := false
								for _, l := range ls {
									if equalRat(l, s) {
										ok = true
									}
								}
								if !ok {
									found = false
								}
							}
						}
					}
					if !found {
						bad += fmt.Sprintf(" %s lacks candidate %s (is %s);", comp, shortKey(w.Key(), 110), shortKey(got.Key(), 110))
					}
				}
			}
			r.check("BB-4", c.key, c.fn.Pos(), bad == "", sp.note+":"+bad)
		}
	}
	r.floor("BB-4", len(specs))
	r.expectControl("BB-4", "verifCtlOffsetHalf3D")
	// control
	for i := range ctors {
		c := &ctors[i]
		if c.fn.Name() == "verifCtlOffsetHalf3D" {
			want := enlarge("sdf", 3, A("offset"))
			bad := ""
			for comp, cands := range want {
				fn := "math.Max"
				if strings.HasPrefix(comp, "Min.") {
					fn = "math.Min"
				}
				found := false
				for _, l := range leavesOf(c.box[comp], fn) {
					if equalRat(l, cands[0]) {
						found = true
					}
				}
				if !found {
					bad += " " + comp
				}
			}
			r.check("BB-4", c.key, c.fn.Pos(), bad == "", "control: offset box enlarged by offset/2 only;"+bad)
		}
	}
}

// ruleBB5: BoundingBox() of every implementer returns a stored field or delegates.
func ruleBB5(ctx *Ctx, r *Report) {
	n := 0
	for _, im := range sdfImplementers(ctx) {
		fn := methodOf(ctx, im.t, "BoundingBox")
		if fn == nil || len(fn.Blocks) == 0 {
			continue
		}
		n++
		ev := newEval(ctx)
		res, _ := ev.evalRoot(fn)
		m := map[string]*Term{}
		leafTerms("", res, m)
		recv := paramName(fn, 0)
		kinds := map[string]bool{}
		for _, t := range m {
			k := "computed"
			switch {
			case t.Op == "a" && strings.HasPrefix(t.S, recv+".") && !strings.Contains(t.S, "("):
				k = "field"
			case t.Op == "a" && strings.HasPrefix(t.S, "call:"+recv+".") && strings.Contains(t.S, ".BoundingBox()."):
				k = "delegate"
			}
			kinds[k] = true
		}
		ok := len(m) >= 4 && len(kinds) == 1 && !kinds["computed"]
		if strings.HasSuffix(typeShort(im.t), "dcSdf") || strings.HasSuffix(typeShort(im.t), "GyroidSDF3") {
			ok = len(m) >= 4 // the dual contouring wrapper enlarges its delegate; the gyroid reports a documented point box
		}
		r.check("BB-5", "("+typeShort(im.t)+").BoundingBox", fn.Pos(), ok, fmt.Sprintf("returns %v", sortedKeys(kinds)))
	}
	r.floor("BB-5", 35)
}

// ruleBB6: quadrant table of RevolveTheta3D.
func ruleBB6(ctx *Ctx, r *Report) {
	// The box of a partial revolution must contain, besides the origin, the start direction
	// (1,0) and the end direction (cos θ, sin θ), every axis direction the sweep passes:
	// (0,1) beyond π/2, (−1,0) beyond π, (0,−1) beyond 3π/2. Decided per quadrant: the
	// constructor is evaluated with its tests on θ fixed to the quadrant's answers (whatever
	// form the tests take: an if chain, a loop over a threshold table), and the closed form of
	// the box is compared numerically, at three angles of the quadrant and for a unit operand,
	// with the hull of those points.
	fn := ctx.ssaFunc("sdf", "RevolveTheta3D")
	if fn == nil {
		r.undecided("BB-6", "RevolveTheta3D", 0, "not found")
		return
	}
	ev0 := newEval(ctx)
	ev0.evalRoot(fn)
	thetaN := paramName(fn, 1)
	opN := paramName(fn, 0)
	env := func(theta float64) map[string]float64 {
		bb := "call:" + opN + ".BoundingBox()"
		return map[string]float64{thetaN: theta, bb + ".Min.X": -1, bb + ".Max.X": 1, bb + ".Min.Y": -1, bb + ".Max.Y": 1}
	}
	for q := 0; q < 4; q++ {
		okQ := true
		detail := ""
		for _, f := range []float64{0.25, 0.5, 0.75} {
			theta := (float64(q) + f) * math.Pi / 2
			// decide every comparison the constructor makes at this angle
			assume := map[string]bool{}
			for _, c := range ev0.BranchConds {
				l, ok1 := evalFloat(c.Args[0], env(theta))
				rr, ok2 := evalFloat(c.Args[1], env(theta))
				if !ok1 || !ok2 {
					assume[c.Key()] = false // tests on nil operands and the like: the success path
					continue
				}
				switch c.S {
				case "<":
					assume[c.Key()] = l < rr
				case "<=":
					assume[c.Key()] = l <= rr
				case ">":
					assume[c.Key()] = l > rr
				case ">=":
					assume[c.Key()] = l >= rr
				case "==":
					assume[c.Key()] = l == rr
				}
			}
			ev := newEval(ctx)
			ev.assume = assume
			res, st := ev.evalRoot(fn)
			obj, ok := resultObject(res, st)
			if !ok {
				okQ = false
				detail += " constructor result is not an object in closed form;"
				break
			}
			m := map[string]*Term{}
			leafTerms("", obj, m)
			pts := [][2]float64{{0, 0}, {1, 0}, {math.Cos(theta), math.Sin(theta)}}
			if q >= 1 {
				pts = append(pts, [2]float64{0, 1})
			}
			if q >= 2 {
				pts = append(pts, [2]float64{-1, 0})
			}
			if q >= 3 {
				pts = append(pts, [2]float64{0, -1})
			}
			want := map[string]float64{".bb.Min.X": 0, ".bb.Min.Y": 0, ".bb.Max.X": 0, ".bb.Max.Y": 0}
			for _, p := range pts {
				want[".bb.Min.X"] = math.Min(want[".bb.Min.X"], p[0])
				want[".bb.Max.X"] = math.Max(want[".bb.Max.X"], p[0])
				want[".bb.Min.Y"] = math.Min(want[".bb.Min.Y"], p[1])
				want[".bb.Max.Y"] = math.Max(want[".bb.Max.Y"], p[1])
			}
			for k, w := range want {
				t := m[k]
				if t == nil {
					okQ = false
					detail += " " + k + " not set;"
					continue
				}
				g, okE := evalFloat(t, env(theta))
				if !okE {
					okQ = false
					detail += fmt.Sprintf(" %s is not a closed form in θ: %s;", k, shortKey(t.Key(), 100))
					continue
				}
				if g > w+1e-12 && strings.Contains(k, "Min") || g < w-1e-12 && strings.Contains(k, "Max") {
					okQ = false
					detail += fmt.Sprintf(" θ=%.3f: %s = %.4f, the solid reaches %.4f;", theta, k[4:], g, w)
				}
			}
		}
		r.check("BB-6", fmt.Sprintf("RevolveTheta3D|quadrant-%d", q+1), fn.Pos(), okQ,
			fmt.Sprintf("sweep ending in quadrant %d: the box contains origin, start and end direction and every axis direction passed;%s", q+1, detail))
	}
	r.floor("BB-6", 4)
}

// ruleBB7: the rotate-union constructors fold the operand box under step^0 .. step^(num-1):
// the same transforms Evaluate applies. With num fixed to 2 (the box loop is then executed
// iteration by iteration) every bound of the result must be the extremum over exactly the
// operand box's own vertices (the copy under the identity) and their images under step.
// A loop that multiplies before it folds covers step^1 .. step^num instead and loses the
// original copy whenever num steps are not a full turn.
func ruleBB7(ctx *Ctx, r *Report) {
	for _, c := range []struct {
		ctor string
		dim  int
	}{{"RotateUnion2D", 2}, {"RotateUnion3D", 3}} {
		fn := ctx.ssaFunc("sdf", c.ctor)
		key := c.ctor + "|box-is-the-hull-of-the-copies-0..num-1"
		if fn == nil {
			r.undecided("BB-7", key, 0, "not found")
			continue
		}
		ev := newEval(ctx, "Inverse")
		res, st := ev.evalRootWith(fn, map[string]int64{"num": 2})
		obj, ok := resultObject(res, st)
		if !ok || ev.Exceeded {
			r.undecided("BB-7", key, fn.Pos(), "constructor result is not a closed form with num = 2")
			continue
		}
		m := map[string]*Term{}
		leafTerms("", obj, m)
		axes := []string{"X", "Y", "Z"}[:c.dim]
		bb := "call:" + paramName(fn, 0) + ".BoundingBox()"
		step := paramName(fn, 2)
		// vertices of the operand box
		var verts [][]*Term
		for mask := 0; mask < 1<<uint(c.dim); mask++ {
			var v []*Term
			for a, ax := range axes {
				if mask>>uint(a)&1 == 1 {
					v = append(v, A(bb+".Max."+ax))
				} else {
					v = append(v, A(bb+".Min."+ax))
				}
			}
			verts = append(verts, v)
		}
		n := c.dim + 1 // matrix row length
		image := func(v []*Term, row int) *Term {
			t := A(fmt.Sprintf("%s[%d]", step, row*n+c.dim))
			for k := 0; k < c.dim; k++ {
				t = Add(t, Mul(A(fmt.Sprintf("%s[%d]", step, row*n+k)), v[k]))
			}
			return t
		}
		okAll := true
		detail := ""
		for a, ax := range axes {
			for _, side := range []struct{ field, f string }{{".bb.Min." + ax, "math.Min"}, {".bb.Max." + ax, "math.Max"}} {
				t := m[side.field]
				if t == nil {
					okAll = false
					detail += " " + side.field + " not set;"
					continue
				}
				var want []*Term
				for _, v := range verts {
					want = append(want, v[a], image(v, a))
				}
				got := leavesOf(t, side.f)
				// set equality up to rational identity
				for _, w := range want {
					hit := false
					for _, g := range got {
						if equalRat(g, w) {
							hit = true
						}
					}
					if !hit {
						okAll = false
						detail += fmt.Sprintf(" %s misses %s;", side.field, shortKey(w.Key(), 70))
					}
				}
				for _, g := range got {
					hit := false
					for _, w := range want {
						if equalRat(g, w) {
							hit = true
						}
					}
					if !hit {
						okAll = false
						detail += fmt.Sprintf(" %s also folds %s;", side.field, shortKey(g.Key(), 70))
					}
				}
			}
		}
		if len(detail) > 600 {
			detail = detail[:600] + "…"
		}
		r.check("BB-7", key, fn.Pos(), okAll, "with num = 2: each bound is the extremum over the operand box's vertices and their images under step;"+detail)
	}
	r.floor("BB-7", 2)
}

// ---------------------------------------------------------------- BB-14: rotate-copy boxes

// ruleBB14: RotateCopy2D/3D evaluate the child at a point rotated about the axis into the first
// sector; for one copy the sector is the whole plane and the map is the identity, so the box
// has to reach the farthest corner of the child's box on every side of the axis. Decided on
// the constructor's closed form, evaluated in float64 on child boxes in all quadrants: each
// of ±X, ±Y of the result is at least the distance of the farthest corner from the axis, and
// (3D) Z is the child's.
func ruleBB14(ctx *Ctx, r *Report) {
	for _, name := range []string{"RotateCopy3D", "RotateCopy2D"} {
		fn := ctx.ssaFunc("sdf", name)
		if fn == nil {
			r.undecided("BB-14", name, 0, "not found")
			continue
		}
		savedCap := termCap
		termCap = 400000 // the fold over the box corners is a deep nest of choices
		ev := newEval(ctx)
		res, st := ev.evalRoot(fn)
		termCap = savedCap
		obj, ok := resultObject(res, st)
		leaves := map[string]*Term{}
		if ok {
			leafTerms("", obj, leaves)
		}
		box := map[string]*Term{}
		for k, t := range leaves {
			for _, sfx := range []string{"Max.X", "Max.Y", "Max.Z", "Min.X", "Min.Y", "Min.Z"} {
				if strings.HasSuffix(k, "."+sfx) && t != nil {
					box[sfx] = t
				}
			}
		}
		if len(box) < 4 {
			r.undecided("BB-14", name, fn.Pos(), "box not in closed form")
			continue
		}
		atoms := map[string]bool{}
		for _, t := range box {
			t.Atoms(atoms)
		}
		bad := ""
		n := 0
		vals := []float64{-7, -2.5, -1, 0, 0.5, 3, 11}
		for _, x0 := range vals {
			for _, x1 := range vals {
				for _, y0 := range vals {
					for _, y1 := range vals {
						if x1 < x0 || y1 < y0 {
							continue
						}
						env := map[string]float64{}
						for a := range atoms {
							switch {
							case strings.HasSuffix(a, "BoundingBox().Min.X"):
								env[a] = x0
							case strings.HasSuffix(a, "BoundingBox().Max.X"):
								env[a] = x1
							case strings.HasSuffix(a, "BoundingBox().Min.Y"):
								env[a] = y0
							case strings.HasSuffix(a, "BoundingBox().Max.Y"):
								env[a] = y1
							case strings.HasSuffix(a, "BoundingBox().Min.Z"):
								env[a] = -4
							case strings.HasSuffix(a, "BoundingBox().Max.Z"):
								env[a] = 9
							default:
								env[a] = 1 // the number of copies
							}
						}
						R := math.Hypot(math.Max(math.Abs(x0), math.Abs(x1)), math.Max(math.Abs(y0), math.Abs(y1)))
						n++
						for sfx, t := range box {
							v, ok := evalFloat(t, env)
							if !ok {
								if bad == "" {
									bad = " " + sfx + " cannot be evaluated"
								}
								continue
							}
							var want float64
							okv := true
							switch sfx {
							case "Max.X", "Max.Y":
								want = R
								okv = v >= R*(1-1e-12)
							case "Min.X", "Min.Y":
								want = -R
								okv = v <= -R*(1-1e-12)
							case "Max.Z":
								want = 9
								okv = v >= 9
							case "Min.Z":
								want = -4
								okv = v <= -4
							}
							if !okv && bad == "" {
								bad = fmt.Sprintf(" child box [%g,%g]×[%g,%g]: %s is %g, the farthest corner needs %g", x0, x1, y0, y1, sfx, v, want)
							}
						}
					}
				}
			}
		}
		r.Counts["rotatecopy_boxes"] += n
		if strings.Contains(bad, "cannot be evaluated") {
			r.undecided("BB-14", name, fn.Pos(), "closed form of the box outside the evaluated fragment:"+bad)
			continue
		}
		r.check("BB-14", name+"|box-reaches-the-farthest-corner-on-every-side", fn.Pos(), bad == "", "±X, ±Y of the box ≥ distance of the farthest child-box corner from the axis (float64 evaluation of the closed form on child boxes in all quadrants);"+bad)
	}
	r.floor("BB-14", 2)
}
