package main

// C10 — shapes may be evaluated concurrently.
//
//  F1  for every Evaluate and BoundingBox of every SDF2/SDF3 implementer in
//      the module: the interprocedural write-effect summary contains no write
//      to receiver-, free-variable-, global- or unknown-rooted memory, except
//      writes performed while an exclusive mutex lock is held
//  F1-lockset  every read of a receiver field that has such a guarded write
//      happens under the lock too (shared or exclusive), in every method of
//      the type
//  F2  (informational) fields read by Evaluate are written only by
//      constructors and Set* methods
//
// Purity also gives "results equal those of sequential evaluation". Operand
// shapes are pure by induction over the expression tree; user callbacks and
// the standard library summaries are trusted.

import (
	"fmt"
	"go/token"
	"go/types"
	"sort"
	"strings"

	"golang.org/x/tools/go/ssa"
)

func init() { register("C10", checkC10) }

type sdfImpl struct {
	t   types.Type
	dim int
}

func sdfImplementers(ctx *Ctx) []sdfImpl {
	var out []sdfImpl
	for i, n := range []string{"SDF2", "SDF3"} {
		iface := lookupIface(ctx, "sdf", n)
		if iface == nil {
			continue
		}
		for _, t := range implementersOf(ctx, iface) {
			out = append(out, sdfImpl{t, i + 2})
		}
	}
	sort.Slice(out, func(i, j int) bool { return out[i].t.String() < out[j].t.String() })
	return out
}

func checkC10(ctx *Ctx, r *Report, tier string) {
	r.Explain = "Interprocedural write-effect summaries (address-root abstraction: fresh / parameter / free variable / global / unknown) for Evaluate and BoundingBox of every SDF2/SDF3 implementer discovered in the module, with a lockset refinement: a write to shared memory is accepted only under an exclusive mutex lock, and then every read of the same field must hold the lock as well. Race freedom of Evaluate implies values equal to sequential evaluation. Operand shapes are assumed pure (induction over expression trees); standard-library summaries and user callbacks are trusted."
	r.Trusted = []string{"go/types", "go/ssa", "standard-library effect summary: writes only through pointer-like arguments; pointer-receiver methods write their receiver unless the type is synchronised (sync, atomic, os.File, log.Logger)", "SDF operands are pure (induction hypothesis)"}
	r.Assume = []string{"user-supplied callbacks (ExtrudeFunc, MinFunc, MaxFunc) and user SDF implementations are pure", "Set* methods are not called concurrently with Evaluate (documented usage)"}
	e := newFxEngine(ctx)
	e.recvIsWrite = true
	impls := sdfImplementers(ctx)
	r.Counts["sdf_implementers"] = len(impls)
	nRoots := 0
	for _, im := range impls {
		for _, mn := range []string{"Evaluate", "BoundingBox"} {
			fn := methodOf(ctx, im.t, mn)
			if fn == nil || len(fn.Blocks) == 0 {
				r.undecided("F1", typeShort(im.t)+"."+mn, 0, "method body not found")
				continue
			}
			nRoots++
			s := e.summarize(fn)
			var bad []string
			guardedFields := map[string]bool{}
			for _, w := range s.writes {
				if w.guarded {
					if w.root.kind == "param" && w.root.idx == 0 && w.field != "" {
						guardedFields[w.field] = true
					}
					continue
				}
				bad = append(bad, fmt.Sprintf("%s [%s]", w.root, w.why))
			}
			sort.Strings(bad)
			key := "(" + typeShort(im.t) + ")." + mn
			r.check("F1", key, fn.Pos(), len(bad) == 0, "writes to shared memory outside an exclusive lock: "+strings.Join(bad, "; "))
			if len(guardedFields) > 0 {
				locksetReads(ctx, r, im.t, guardedFields)
			}
		}
	}
	r.Counts["roots"] = nRoots
	r.Counts["summaries"] = e.nSummar
	r.floor("F1", 60)
	r.expectControl("F1", "verifCtlImpure")
	r.expectControl("F1", "verifCtlRLockWriter")
	r.expectControl("F1-lockset", "verifCtlUnlockedReader")
}

// locksetReads: every load of a guarded field of T's receiver, in any method
// of T, happens while the lock is held.
func locksetReads(ctx *Ctx, r *Report, t types.Type, fields map[string]bool) {
	ms := ctx.Prog.MethodSets.MethodSet(t)
	var fs []string
	for f := range fields {
		fs = append(fs, f)
	}
	sort.Strings(fs)
	for i := 0; i < ms.Len(); i++ {
		fn := ctx.Prog.MethodValue(ms.At(i))
		if fn == nil || len(fn.Blocks) == 0 || fn.Synthetic != "" {
			continue
		}
		held := lockStates(fn)
		bad := ""
		allInstrs(fn, func(b *ssa.BasicBlock, ins ssa.Instruction) {
			ld, ok := ins.(*ssa.UnOp)
			if !ok || ld.Op != token.MUL {
				return
			}
			f, ok := fieldOfRecv(fn, ld.X)
			if !ok || !fields[f] {
				return
			}
			if held[ins] == "" {
				bad += fmt.Sprintf(" %s read at %s;", f, ctx.pos(ins.Pos()))
			}
		})
		r.check("F1-lockset", "("+typeShort(t)+")."+fn.Name(), fn.Pos(), bad == "", "fields "+strings.Join(fs, ",")+" are written under a lock by Evaluate; unlocked reads:"+bad)
	}
}
