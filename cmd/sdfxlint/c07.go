package main

// C07 — hierarchical (octree / quadtree) rendering loses nothing.
//
//  Q1  the recursive calls split a cube into exactly the 2^d children
//      c.v + σ·s, σ ∈ {0,1}^d, s = 1 << (c.n-1), level c.n-1, and happen only
//      when the cube is not empty
//  Q2  the leaf (c.n == 1) reads its corners at c.v + {0,2}^d in the kernel's
//      corner order (shared with C05 T7 / C08 U7) and only when not empty
//  Q3  emptiness: |d(centre)| >= hdiag[c.n] (or >), centre = c.v + (1<<(c.n-1))
//      on every axis, hdiag[i] >= half the diagonal of a cube of side
//      (1<<i)·resolution in d dimensions (so skipping is conservative)
//  Q4  the root cube starts at the (enlarged) box's Min corner, has level
//      levels-1 with levels = ceil(log2(L/res))+1 where L is no shorter than
//      the enlarged box's extent on every axis (the root covers the box), and
//      the table of half diagonals has `levels` entries
//
// Not decided: that pruning is sound for the given shape (needs the
// 1-Lipschitz premise, C03) and the claimed equality of outputs.

import (
	"fmt"
	"go/types"
	"golang.org/x/tools/go/ssa/ssautil"
	"math/big"
	"strings"

	"golang.org/x/tools/go/ssa"
)

func init() { register("C07", checkC07) }

type treeSpec struct {
	dim      int
	process  string // method doing the recursion
	isEmpty  string
	newCache string
	top      string // function creating the root
	kernel   string
	label    string
}

func checkC07(ctx *Ctx, r *Report, tier string) {
	r.Explain = "Octree/quadtree subdivision decided from the symbolic evaluation of the recursion: children are exactly the 2^d half-size sub-cubes at level-1, leaves sample the kernel's corner order, the emptiness threshold is at least the half diagonal of that level's cube and is compared against |d| at the cube centre, the root cube covers the enlarged bounding box. Not decided: soundness of pruning for a concrete shape (needs the 1-Lipschitz premise) and equality of the emitted sets."
	r.Trusted = []string{"go/types", "go/ssa", "sdfxlint symbolic evaluator and term normaliser", "math.Ceil(x) >= x, math.Log2 monotone, 2^ceil(log2 y) >= y"}
	r.Assume = []string{"the shape's distance function never overestimates (premise of the property)", "bounding boxes are ordered (Min <= Max)"}
	for _, ts := range []treeSpec{
		{3, "(*dcache3).processCube", "(*dcache3).isEmpty", "newDcache3", "marchingCubesOctree", "mcToTriangles", "octree"},
		{2, "(*dcache2).processSquare", "(*dcache2).isEmpty", "newDcache2", "marchingSquaresQuadtree", "msToLines", "quadtree"},
	} {
		checkTree(ctx, r, ts)
	}
	// positive control: an isEmpty that compares against the wrong level
	if cf := ctx.ssaFunc("render", "(*dcache3).verifCtlIsEmptyWrongLevel"); cf != nil {
		checkIsEmpty(ctx, r, cf, 3, "verifCtl-octree")
		r.expectControl("Q3", "verifCtl-octree|threshold-index")
	} else if !r.controlSkipped() {
		r.undecided("Q3", "control", 0, "positive control missing")
	}
	// Q5: the distance cache is keyed by the lattice point itself. A derived key (a packed word,
	// a hash) that is not injective over every lattice the renderer can build makes one point
	// read the distance cached for another: leaves are pruned or kept on the wrong evidence.
	for _, c := range []struct {
		recv string
		dim  int
	}{{"dcache3", 3}, {"dcache2", 2}} {
		fn := ctx.ssaFunc("render", "(*"+c.recv+").evaluate")
		key := c.recv + "|cache-keyed-by-the-lattice-point"
		if fn == nil {
			r.undecided("Q5", key, 0, "evaluate method not found")
			continue
		}
		ev := newEval(ctx)
		ev.evalRoot(fn)
		vi := paramName(fn, 1)
		want := "{"
		for i, ax := range []string{"X", "Y", "Z"}[:c.dim] {
			if i > 0 {
				want += " "
			}
			want += vi + "." + ax
		}
		want += "}"
		nl, nu := 0, 0
		ok := true
		detail := ""
		for _, e := range ev.Events {
			if e.Callee != "maplookup" && e.Callee != "mapupdate" {
				continue
			}
			if e.Callee == "maplookup" {
				nl++
			} else {
				nu++
			}
			kv := e.Args[1]
			if sy, isSym := kv.(*Sym); isSym {
				kv = materialise(sy)
			}
			if k := valKey(kv); k != want {
				ok = false
				detail += fmt.Sprintf(" %s with key %s;", e.Callee, shortKey(k, 120))
			}
		}
		if nl == 0 || nu == 0 {
			ok = false
			detail += fmt.Sprintf(" %d lookups, %d updates found;", nl, nu)
		}
		r.check("Q5", key, fn.Pos(), ok, "every cache lookup and update uses the lattice vector "+want+" itself as the key;"+detail)
	}
	r.floor("Q5", 2)
	r.floor("Q1", 2*3)
	r.floor("Q2", 2)
	r.floor("Q3", 2*4)
	r.floor("Q4", 2*3)
}

func shlTerm(n *Term) *Term { return Call("op<<", K(1), n) }

// stripConv removes conversions.
func stripConv(t *Term) *Term {
	return rebuild(t, func(x *Term) *Term {
		if x.Op == "conv" {
			return stripConv(x.Args[0])
		}
		return nil
	})
}

func checkTree(ctx *Ctx, r *Report, ts treeSpec) {
	pfn := ctx.ssaFunc("render", ts.process)
	if pfn == nil {
		r.undecided("Q1", ts.label, 0, ts.process+" not found")
		return
	}
	// ---- Q1 / Q2 from the recursion
	cm, ev, err := treeCorners(ctx, pfn, ts.kernel, ts.dim, "evaluate", "isEmpty")
	if err != nil {
		r.undecided("Q2", ts.label, pfn.Pos(), err.Error())
	}
	emptyKey := ""
	// The tree walk is either recursive (the cube is the parameter c) or driven by an explicit
	// worklist (the cube is the element popped from a stack, the children are pushed). The
	// second form is read as the first: atoms of the popped cube are renamed to c.*, the
	// loop's own "worklist not empty" test is dropped from the conditions, and every pushed cube
	// counts as one recursive call under the condition of its push.
	cur := "c"
	for _, e := range eventsOf(ev, ".isEmpty") {
		for _, a := range e.Args {
			if sy, ok := a.(*Sym); ok && sy.Path != "dc" && !strings.HasPrefix(sy.Path, "dc.") {
				cur = sy.Path
			}
			if tp, ok := a.(*Tuple); ok && len(tp.Elems) == 2 {
				if sy, ok := tp.Elems[0].(*Sym); ok && sy.Path != "dc" {
					cur = sy.Path
				}
				// a copy of the popped cube in a local variable: named after what was copied
				pv := tp.Elems[1]
				if sy, ok := pv.(*Sym); ok && sy.Path != "dc" && !strings.HasPrefix(sy.Path, "dc.") {
					if _, isPtr := tp.Elems[0].(*Ptr); isPtr {
						cur = sy.Path
					}
				}
				if nv, ok := fieldOf(pv, "n"); ok {
					if nt, ok := nv.(*Term); ok && nt.Op == "a" && strings.HasSuffix(nt.S, ".n") {
						cur = strings.TrimSuffix(nt.S, ".n")
					}
				}
			}
		}
	}
	worklist := cur != "c"
	rename := func(t *Term) *Term {
		if !worklist || t == nil {
			return t
		}
		return rebuild(t, func(x *Term) *Term {
			if x.Op == "a" && strings.HasPrefix(x.S, cur+".") {
				return A("c." + strings.TrimPrefix(x.S, cur+"."))
			}
			if x.Op == "call" && strings.HasSuffix(x.S, ".isEmpty") {
				return Call(x.S, A("dc"), A("c")) // one emptiness test per cube, whatever the cube is called
			}
			return nil
		})
	}
	var renameVal func(v Val) Val
	renameVal = func(v Val) Val {
		switch x := v.(type) {
		case *Term:
			return rename(x)
		case *Agg:
			out := &Agg{T: x.T}
			for _, e := range x.Elems {
				out.Elems = append(out.Elems, renameVal(e))
			}
			return out
		}
		return v
	}
	loopFree := func(c *Term) *Term {
		if !worklist || c == nil {
			return c
		}
		var keep *Term
		cs := conjuncts(c)
		for i := len(cs) - 1; i >= 0; i-- {
			if strings.Contains(cs[i].Key(), "len(") {
				continue // the worklist's own emptiness test
			}
			if keep == nil {
				keep = cs[i]
			} else {
				keep = Ite(cs[i], keep, K(0))
			}
		}
		if keep == nil {
			return K(1)
		}
		return keep
	}
	isEmptyCall := func(c *Term) *Term {
		subs := findSub(c, func(x *Term) bool { return x.Op == "call" && strings.HasSuffix(x.S, ".isEmpty") })
		if len(subs) == 1 {
			return subs[0]
		}
		return nil
	}
	notWhenEmpty := func(c *Term) bool {
		if c == nil {
			return false
		}
		ie := isEmptyCall(c)
		if ie == nil {
			return false
		}
		emptyKey = ie.Key()
		return assume(c, map[string]bool{ie.Key(): true}).IsZero()
	}
	if cm != nil {
		ks := eventsOf(ev, "."+ts.kernel)
		leafCond := loopFree(rename(ks[0].Cond))
		okLeaf := notWhenEmpty(leafCond)
		// under not-empty the leaf condition must be c.n == 1
		lvl := ""
		if okLeaf {
			rest := stripConv(assume(leafCond, map[string]bool{emptyKey: false}))
			lvl = rest.Key()
			okLeaf = rest.Key() == Cmp("==", A("c.n"), K(1)).Key() || rest.Key() == Cmp("==", K(1), A("c.n")).Key()
		}
		r.check("Q2", ts.label+"|leaf-at-level-1-when-not-empty", ks[0].Pos, okLeaf, "kernel call condition: "+shortKey(condStr(leafCond), 200)+" -> "+lvl)
		r.check("Q2", ts.label+"|leaf-corners-span-side-2", cm.pos, validBits(cm.bits, ts.dim), "leaf corner offsets/2 = "+bitsString(cm.bits))
	}
	var recs []Event
	for _, e := range ev.Events {
		if strings.HasPrefix(e.Callee, "rec:") {
			recs = append(recs, e)
		}
	}
	if worklist {
		for _, e := range eventsOf(ev, "append") {
			for _, v := range appendedVals(e) {
				cv := cubeArg(e, v)
				if cv == nil {
					continue
				}
				if _, ok := fieldOf(cv, "n"); !ok {
					continue
				}
				recs = append(recs, Event{Callee: "rec:worklist-push", Args: []Val{nil, renameVal(cv)}, Cond: loopFree(rename(e.Cond)), State: e.State, Pos: e.Pos})
			}
		}
	}
	want := 1 << ts.dim
	r.check("Q1", ts.label+"|child-count", pfn.Pos(), len(recs) == want, fmt.Sprintf("%d recursive calls, expected %d", len(recs), want))
	half := shlTerm(Add(K(-1), A("c.n")))
	seen := map[string]bool{}
	allOK := len(recs) == want
	detail := ""
	condOK := true
	for i, e := range recs {
		if len(e.Args) < 2 {
			allOK = false
			continue
		}
		cv := cubeArg(e, e.Args[1])
		if cv == nil {
			allOK = false
			detail += fmt.Sprintf(" child %d: argument is not a fresh cube literal;", i)
			continue
		}
		v, ok1 := fieldOf(cv, "v")
		n, ok2 := fieldOf(cv, "n")
		nt, _ := n.(*Term)
		va, _ := v.(*Agg)
		if !ok1 || !ok2 || nt == nil || va == nil || len(va.Elems) != ts.dim {
			allOK = false
			detail += fmt.Sprintf(" child %d: unexpected cube value %s;", i, valKey(cv))
			continue
		}
		if stripConv(nt).Key() != Add(K(-1), A("c.n")).Key() {
			allOK = false
			detail += fmt.Sprintf(" child %d: level %s, expected c.n-1;", i, nt.Key())
		}
		sig := ""
		for ax, comp := range []string{"X", "Y", "Z"}[:ts.dim] {
			ct, _ := va.Elems[ax].(*Term)
			if ct == nil {
				allOK = false
				continue
			}
			d := stripConv(Sub(ct, A("c.v."+comp)))
			switch {
			case d.IsZero():
				sig += "0"
			case d.Key() == half.Key():
				sig += "1"
			default:
				allOK = false
				detail += fmt.Sprintf(" child %d axis %s: offset %s is neither 0 nor 1<<(c.n-1);", i, comp, d.Key())
				sig += "?"
			}
		}
		if seen[sig] {
			allOK = false
			detail += " duplicate child " + sig + ";"
		}
		seen[sig] = true
		if !notWhenEmpty(e.Cond) {
			condOK = false
		} else {
			rest := stripConv(assume(e.Cond, map[string]bool{emptyKey: false}))
			if rest.Key() != Not(Cmp("==", A("c.n"), K(1))).Key() && rest.Key() != Cmp("!=", A("c.n"), K(1)).Key() && rest.Key() != Cmp(">", A("c.n"), K(1)).Key() {
				condOK = false
				detail += " recursion condition " + rest.Key() + ";"
			}
		}
	}
	var sigs []string
	for s := range seen {
		sigs = append(sigs, s)
	}
	r.check("Q1", ts.label+"|children-are-the-2^d-half-cubes", pfn.Pos(), allOK, fmt.Sprintf("child offsets in units of 1<<(c.n-1): %v;%s", sigs, detail))
	r.check("Q1", ts.label+"|recursion-only-when-not-empty-and-above-leaf", pfn.Pos(), condOK && len(recs) > 0, "every recursive call is guarded by !isEmpty(c) && c.n != 1;"+detail)

	// ---- Q3 emptiness test
	efn := ctx.ssaFunc("render", ts.isEmpty)
	if efn == nil {
		// the same test as a method of the cell type taking the cache (receiver and parameter swapped)
		cache := fmt.Sprintf("dcache%d", ts.dim)
		for f := range ssautil.AllFunctions(ctx.Prog) {
			if !inModule(f) || f.Pkg == nil || !strings.HasSuffix(f.Pkg.Pkg.Path(), "/render") || f.Name() != "isEmpty" || len(f.Blocks) == 0 {
				continue
			}
			for _, p := range f.Params {
				if strings.HasSuffix(p.Type().String(), "render."+cache) {
					efn = f
				}
			}
		}
	}
	if efn == nil {
		r.undecided("Q3", ts.label, 0, ts.isEmpty+" not found")
	} else {
		checkIsEmpty(ctx, r, efn, ts.dim, ts.label)
	}
	nfn := ctx.ssaFunc("render", ts.newCache)
	if nfn == nil {
		r.undecided("Q3", ts.label+"|hdiag", 0, ts.newCache+" not found")
	} else {
		checkHdiag(ctx, r, nfn, ts)
	}
	// ---- Q4 root
	tfn := ctx.ssaFunc("render", ts.top)
	if tfn == nil {
		r.undecided("Q4", ts.label, 0, ts.top+" not found")
		return
	}
	checkRoot(ctx, r, tfn, ts)
}

func condStr(c *Term) string {
	if c == nil {
		return "<nil>"
	}
	return c.Key()
}

func checkIsEmpty(ctx *Ctx, r *Report, efn *ssa.Function, dim int, label string) {
	// the distance comes from an accessor of the cache (evaluate, or a helper it was split
	// into): methods of the same receiver called here are kept opaque, the lattice point is
	// their argument (that the accessor returns the shape's distance there is V3 of C06)
	opaque := []string{"evaluate"}
	allInstrs(efn, func(b *ssa.BasicBlock, ins ssa.Instruction) {
		if c, ok := ins.(*ssa.Call); ok {
			if f := c.Call.StaticCallee(); f != nil && inModule(f) && f.Signature.Recv() != nil && efn.Signature.Recv() != nil &&
				types.Identical(f.Signature.Recv().Type(), efn.Signature.Recv().Type()) {
				opaque = append(opaque, f.Name())
			}
		}
	})
	ev := newEval(ctx, opaque...)
	res, _ := ev.evalRoot(efn)
	t, _ := res.(*Term)
	if t == nil || t.Op != "cmp" {
		r.check("Q3", label+"|isEmpty-shape", efn.Pos(), false, "isEmpty is not a single comparison: "+valKey(res))
		return
	}
	l, rr, op := t.Args[0], t.Args[1], t.S
	if rr.Op == "call" && rr.S == "math.Abs" {
		l, rr, op = rr, l, flipCmp(op)
	}
	okShape := l.Op == "call" && l.S == "math.Abs" && (op == ">=" || op == ">")
	r.check("Q3", label+"|isEmpty-shape", efn.Pos(), okShape, "isEmpty ≡ |d| "+op+" threshold; term: "+shortKey(t.Key(), 200))
	if !okShape {
		return
	}
	// threshold = sel hdiag at index c.n
	thr := stripConv(rr)
	okIdx := thr.Op == "sel" && strings.HasSuffix(thr.S, ".hdiag") && stripConv(thr.Args[0]).Key() == "c.n"
	r.check("Q3", label+"|threshold-index", efn.Pos(), okIdx, "threshold must be hdiag[c.n] (the half diagonal of this cube's own level); found "+shortKey(thr.Key(), 120))
	// centre
	d := l.Args[0]
	okC := d.Op == "call" && len(d.Args) > 0 && func() bool {
		for _, o := range opaque {
			if strings.HasSuffix(d.S, "."+o+"#1") || strings.HasSuffix(d.S, "."+o) {
				return true
			}
		}
		return false
	}()
	if okC {
		a := d.Args[len(d.Args)-1]
		okC = a.Op == "agg" && len(a.Args) == dim
		half := shlTerm(Add(K(-1), A("c.n")))
		for ax, comp := range []string{"X", "Y", "Z"}[:dim] {
			if !okC {
				break
			}
			off := stripConv(Sub(a.Args[ax], A("c.v."+comp)))
			if off.Key() != half.Key() {
				okC = false
			}
		}
	}
	r.check("Q3", label+"|sampled-at-cube-centre", efn.Pos(), okC, "distance sampled at c.v + (1<<(c.n-1)) on every axis; term: "+shortKey(d.Key(), 200))
}

// cubeArg: the cube handed to a recursive call, whether passed by pointer or by value.
func cubeArg(e Event, a Val) Val {
	switch x := a.(type) {
	case *Ptr:
		if x.Obj == nil {
			return nil
		}
		return getPath(e.State.mem[x.Obj], x.Path)
	case *Agg:
		return x
	case *Sym:
		return materialise(x)
	case *Tuple:
		// (pointer, pointee) snapshot
		if len(x.Elems) == 2 {
			return x.Elems[1]
		}
	}
	return nil
}

// squareTerm returns t*t with math.Sqrt factors squared away.
func squareTerm(t *Term) *Term {
	co, rest := splitCoef(t)
	var fs []*Term
	if rest.Op == "*" {
		fs = rest.Args
	} else {
		fs = []*Term{rest}
	}
	out := []*Term{KR(new(big.Rat).Mul(co, co))}
	for _, f := range fs {
		if f.Op == "call" && f.S == "math.Sqrt" && len(f.Args) == 1 {
			out = append(out, f.Args[0])
		} else {
			out = append(out, f, f)
		}
	}
	return Mul(out...)
}

func checkHdiag(ctx *Ctx, r *Report, nfn *ssa.Function, ts treeSpec) {
	ev := newEval(ctx)
	res0, st := ev.evalRoot(nfn)
	// the cell size the cache works with is what it stores in its resolution field (the
	// constructor may derive it from its parameter)
	var fieldRes *Term
	if obj, ok := resultObject(res0, st); ok {
		if fr, ok := fieldOf(obj, "resolution"); ok {
			fieldRes, _ = fr.(*Term)
		}
	}
	var val *Term
	var idx *Term
	n := 0
	for o, v := range st.mem {
		if !strings.HasPrefix(o.name, "make#") || !strings.Contains(o.name, "[") {
			continue
		}
		if t, ok := v.(*Term); ok && t.Op != "sel" {
			val = t
			n++
			it := o.name[strings.Index(o.name, "[")+1 : len(o.name)-1]
			_ = it
		}
	}
	if n != 1 || val == nil {
		r.undecided("Q3", ts.label+"|hdiag", nfn.Pos(), fmt.Sprintf("cannot find the single store that fills the half-diagonal table (%d candidates)", n))
		return
	}
	_ = idx
	// a side length carried through the loop by doubling is 1<<i
	val = solveGeometric(val)
	// val^2 must be c * S^2 with S = conv(1<<i)*resolution and c >= d/4
	sq := stripConv(squareTerm(val))
	co, rest := splitCoef(sq)
	// rest must be (1<<i)^2 * resolution^2
	shl := findSub(rest, func(x *Term) bool { return x.Op == "call" && x.S == "op<<" })
	res := findSub(rest, func(x *Term) bool { return x.Op == "a" && strings.HasSuffix(x.S, "resolution") })
	ok := len(shl) == 1 && len(res) == 1
	if ok {
		S := Mul(shl[0], res[0])
		ok = equalRat(rest, Mul(S, S)) && shl[0].Args[0].IsOne()
		if ok && fieldRes != nil {
			// measured in cells of the stored resolution
			coR, restR := splitCoef(stripConv(fieldRes))
			if restR.Key() == res[0].Key() && coR.Sign() != 0 {
				co = new(big.Rat).Quo(co, new(big.Rat).Mul(coR, coR))
			}
		}
	}
	need := big.NewRat(int64(ts.dim), 4)
	r.check("Q3", ts.label+"|hdiag-is-half-diagonal", nfn.Pos(), ok && co.Cmp(need) >= 0,
		fmt.Sprintf("hdiag[i]² = %s · ((1<<i)·resolution)² required with coefficient >= %s (d=%d); stored term: %s", co.RatString(), need.RatString(), ts.dim, shortKey(val.Key(), 200)))
	// index of the store is the loop variable that also feeds 1<<i
	if ok {
		sh := stripConv(shl[0].Args[1])
		found := false
		for o := range st.mem {
			if strings.HasPrefix(o.name, "make#") && strings.HasSuffix(o.name, "["+sh.Key()+"]") {
				found = true
			}
		}
		r.check("Q3", ts.label+"|hdiag-index-matches-level", nfn.Pos(), found, "hdiag[i] is computed from side (1<<i)·resolution with the same i; shift operand "+sh.Key())
	}
}

// nonNegGivenOrderedBox decides t >= 0 for every box with Min <= Max: t must
// be a sum of c_k·(B.Max.k − B.Min.k) with c_k >= 0 (B any box-valued path).
func nonNegGivenOrderedBox(t *Term) (bool, string) {
	coefs, terms, c, ok := linear(t)
	if !ok {
		return false, "not linear: " + shortKey(t.Key(), 160)
	}
	if c.Sign() < 0 {
		return false, "negative constant"
	}
	used := map[string]bool{}
	for k, co := range coefs {
		if used[k] || co.Sign() == 0 {
			continue
		}
		nm := terms[k].Key()
		if !strings.Contains(nm, ".Max.") && !strings.Contains(nm, ".Min.") {
			return false, "depends on " + nm
		}
		var other string
		if strings.Contains(nm, ".Max.") {
			other = strings.Replace(nm, ".Max.", ".Min.", 1)
		} else {
			other = strings.Replace(nm, ".Min.", ".Max.", 1)
		}
		oc, has := coefs[other]
		if !has {
			return false, "unpaired " + nm
		}
		sum := new(big.Rat).Add(co, oc)
		if sum.Sign() != 0 {
			return false, fmt.Sprintf("coefficients of %s and %s do not cancel", nm, other)
		}
		maxCo := co
		if strings.Contains(nm, ".Min.") {
			maxCo = oc
		}
		if maxCo.Sign() < 0 {
			return false, fmt.Sprintf("negative multiple of (Max−Min) on %s", nm)
		}
		used[k], used[other] = true, true
	}
	return true, ""
}

func checkRoot(ctx *Ctx, r *Report, tfn *ssa.Function, ts treeSpec) {
	pname := ts.process[strings.Index(ts.process, ").")+2:]
	// the constructor is executed: what counts is the cache object the root call is made on
	// (origin and resolution fields) and the root cube it is given, wherever they are computed
	ev := newEval(ctx, pname)
	ev.evalRoot(tfn)
	pcs := eventsOf(ev, "."+pname)
	if len(pcs) != 1 || len(pcs[0].Args) < 2 {
		r.undecided("Q4", ts.label, tfn.Pos(), fmt.Sprintf("%d root calls", len(pcs)))
		return
	}
	nc := pcs[0]
	var cacheObj Val
	switch rv := pcs[0].Args[0].(type) {
	case *Ptr:
		if rv.Obj != nil {
			cacheObj = getPath(pcs[0].State.mem[rv.Obj], rv.Path)
		}
	case *Tuple: // pointer receiver: (pointer, pointee) snapshot
		if len(rv.Elems) == 2 {
			cacheObj = rv.Elems[1]
		}
	}
	origin := map[string]*Term{}
	if ov, ok := fieldOf(cacheObj, "origin"); ok {
		leafTerms("", ov, origin)
	}
	var res *Term
	if rv, ok := fieldOf(cacheObj, "resolution"); ok {
		res, _ = rv.(*Term)
	}
	// root cube
	rootV := cubeArg(pcs[0], pcs[0].Args[1])
	v, _ := fieldOf(rootV, "v")
	n, _ := fieldOf(rootV, "n")
	var levels *Term
	if nt0, ok := n.(*Term); ok {
		levels = Add(stripConv(nt0), K(1))
	}
	if res == nil || levels == nil || len(origin) != ts.dim {
		r.undecided("Q4", ts.label, nc.Pos, fmt.Sprintf("the cache object's origin/resolution or the root cube's level are not in closed form: obj=%s recv=%s n=%s", shortKey(valKey(cacheObj), 200), shortKey(valKey(pcs[0].Args[0]), 80), shortKey(valKey(n), 80)))
		return
	}
	okRoot := false
	if va, ok := v.(*Agg); ok {
		okRoot = true
		for _, e := range va.Elems {
			if t, ok := e.(*Term); !ok || !t.IsZero() {
				okRoot = false
			}
		}
	}
	nt, _ := n.(*Term)
	okLvl := nt != nil && stripConv(Sub(nt, levels)).Key() == K(-1).Key()
	r.check("Q4", ts.label+"|root-at-lattice-origin-level-levels-1", pcs[0].Pos, okRoot && okLvl, fmt.Sprintf("root cube = %s; levels = %s", valKey(rootV), shortKey(levels.Key(), 120)))
	// levels = conv(ceil(log2(L/res))) + 1
	lv := stripConv(levels)
	inner := Sub(lv, K(1))
	okForm := inner.Op == "call" && inner.S == "math.Ceil" && inner.Args[0].Op == "call" && inner.Args[0].S == "math.Log2"
	var L *Term
	if okForm {
		q := inner.Args[0].Args[0]
		L = Mul(q, res) // (L/res)*res
		// cancel: q must be L' * /(res)
		co, rest := splitCoef(q)
		var fs []*Term
		if rest.Op == "*" {
			fs = rest.Args
		} else {
			fs = []*Term{rest}
		}
		var keep []*Term
		cancelled := false
		for _, f := range fs {
			if f.Op == "/" && f.Args[0].Key() == res.Key() && !cancelled {
				cancelled = true
				continue
			}
			keep = append(keep, f)
		}
		if cancelled {
			L = Mul(append([]*Term{KR(co)}, keep...)...)
		} else {
			okForm = false
		}
	}
	r.check("Q4", ts.label+"|levels-formula", nc.Pos, okForm, "levels ≡ ceil(log2(L/resolution)) + 1 with the resolution handed to the cache; levels = "+shortKey(lv.Key(), 200))
	if !okForm {
		return
	}
	// L = max over axes of extents; each axis: origin.k + L_k >= box.Max.k and origin.k <= box.Min.k
	var parts []*Term
	var flat func(t *Term)
	flat = func(t *Term) {
		if t.Op == "call" && t.S == "math.Max" {
			for _, a := range t.Args {
				flat(a)
			}
			return
		}
		parts = append(parts, t)
	}
	flat(L)
	if len(parts) != ts.dim {
		r.check("Q4", ts.label+"|root-covers-box", nc.Pos, false, fmt.Sprintf("L is not the maximum of %d axis extents: %s", ts.dim, shortKey(L.Key(), 200)))
		return
	}
	covers := true
	detail := ""
	for _, comp := range []string{"X", "Y", "Z"}[:ts.dim] {
		o := origin["."+comp]
		if o == nil {
			covers = false
			continue
		}
		// which box does the origin talk about
		var boxPath string
		for _, a := range atomList(o) {
			if i := strings.Index(a, ".Min."); i >= 0 {
				boxPath = a[:i]
			}
		}
		if boxPath == "" {
			covers = false
			detail += " origin." + comp + " does not derive from a box Min;"
			continue
		}
		// find the part of L that talks about this axis
		var ext *Term
		for _, p := range parts {
			for _, a := range atomList(p) {
				if strings.HasSuffix(a, ".Max."+comp) || strings.HasSuffix(a, ".Min."+comp) {
					ext = p
				}
			}
		}
		if ext == nil {
			covers = false
			detail += " no extent term for axis " + comp + ";"
			continue
		}
		hi := Sub(Add(o, ext), A(boxPath+".Max."+comp))
		lo := Sub(A(boxPath+".Min."+comp), o)
		if ok, why := nonNegGivenOrderedBox(hi); !ok {
			covers = false
			detail += fmt.Sprintf(" axis %s: origin+L−box.Max = %s (%s);", comp, shortKey(hi.Key(), 120), why)
		}
		if ok, why := nonNegGivenOrderedBox(lo); !ok {
			covers = false
			detail += fmt.Sprintf(" axis %s: box.Min−origin = %s (%s);", comp, shortKey(lo.Key(), 120), why)
		}
	}
	r.check("Q4", ts.label+"|root-covers-box", nc.Pos, covers, "for every axis: origin <= box.Min and origin + L >= box.Max, with L the long axis used for the level count (2^ceil(log2(L/res))·res >= L);"+detail)
}
